(* A family of candidate terms (cubes or exclusive cubes) inside a 0-1 programme of Model/Mip.v, generically:
   usage variables [vu i], per-function usage variables [vuf i j], cover constraints, decoding, gate sums.
   Used for the SOPES programme, which has two such families (Proofs/MipSopes.v). *)
From Coq Require Import List NArith ZArith QArith Arith Bool Lia Lqa Permutation.
From V Require Import Base.Res Model.Kernels Model.TwoLevel Model.Api Model.Mip Spec.Bfun Spec.TwoLevelCost Proofs.MipBase.
Import ListNotations.
Open Scope nat_scope.

Lemma bin_evalG x nb cs k : (forall v, v < nb -> (x v == 0 \/ x v == 1)%Q) ->
  (forall cv, In cv cs -> snd cv < nb) ->
  (eval2 x (mkLin cs k) == inject_Z (evalZ (fun v => b2z (used x v)) (mkLin cs k)))%Q.
Proof. intros Hbin H. apply eval2_int. intros cv Hcv. apply used_binary. apply Hbin. apply H. exact Hcv. Qed.

Section Fam.
  Variable A : Type.
  Variable eqb : A -> A -> bool.
  Hypothesis eqb_iff : forall a b, eqb a b = true <-> a = b.
  Variable g : A -> Z.
  Hypothesis g_nonneg : forall a, (0 <= g a)%Z.
  Variable d : A.

  Lemma memG c L : existsb (eqb c) L = true <-> In c L.
  Proof.
    rewrite existsb_exists. split.
    - intros [y [Hy E]]. apply eqb_iff in E. subst. exact Hy.
    - intros H. exists c. split; [exact H|apply eqb_iff; reflexivity].
  Qed.

  Lemma In_dedupbG L c : In c (dedupb eqb L) <-> In c L.
  Proof.
    induction L as [|x r IH]; cbn [dedupb]; [reflexivity|].
    destruct (existsb (eqb x) r) eqn:E.
    - rewrite IH. cbn [In]. split; [auto|]. intros [<-|H]; [apply memG; exact E|exact H].
    - cbn [In]. rewrite IH. reflexivity.
  Qed.

  Lemma NoDup_dedupbG L : NoDup (dedupb eqb L).
  Proof.
    induction L as [|x r IH]; cbn [dedupb]; [constructor|].
    destruct (existsb (eqb x) r) eqn:E; [exact IH|].
    constructor; [|exact IH]. rewrite In_dedupbG. intros H. apply memG in H. congruence.
  Qed.

  Lemma dedupb_lengthG L : length (dedupb eqb L) <= length L.
  Proof.
    induction L as [|x r IH]; cbn [dedupb length]; [lia|].
    destruct (existsb (eqb x) r); cbn [length]; lia.
  Qed.

  Lemma nodupb_iffG L : nodupb eqb L = true <-> NoDup L.
  Proof.
    unfold nodupb. rewrite Nat.eqb_eq. induction L as [|x r IH]; cbn [dedupb length].
    - split; [constructor|reflexivity].
    - pose proof (dedupb_lengthG r) as Hl. destruct (existsb (eqb x) r) eqn:E.
      + split; [lia|]. intros H. inversion H; subst. apply memG in E. contradiction.
      + cbn [length]. split.
        * intros H. constructor; [|apply IH; lia]. intros Hin. apply memG in Hin. congruence.
        * intros H. inversion H; subst. f_equal. apply IH. assumption.
  Qed.

  Lemma dedupb_idG L : NoDup L -> dedupb eqb L = L.
  Proof.
    induction 1 as [|x r Hx _ IH]; cbn [dedupb]; [reflexivity|].
    destruct (existsb (eqb x) r) eqn:E; [apply memG in E; contradiction|]. rewrite IH. reflexivity.
  Qed.

  Lemma gsum_perm a b : Permutation a b -> zsum (map g a) = zsum (map g b).
  Proof. induction 1; cbn [map zsum] in *; lia. Qed.

  Lemma gsum_filter (P : A -> bool) l : zsum (map g (filter P l)) = zsum (map (fun c => (g c * b2z (P c))%Z) l).
  Proof.
    induction l as [|c l IH]; cbn [filter map zsum]; [reflexivity|].
    rewrite <- IH. destruct (P c); cbn [b2z map zsum]; lia.
  Qed.

  Lemma filter_mem_permG items L : NoDup items -> NoDup L -> incl L items ->
    Permutation (filter (fun c => existsb (eqb c) L) items) L.
  Proof.
    intros Hc HL Hi. apply NoDup_Permutation; [apply NoDup_filter; exact Hc|exact HL|].
    intros c. rewrite filter_In, memG. split; [intros [_ H]; exact H|]. intros H. split; [apply Hi; exact H|exact H].
  Qed.

  Lemma mem_dedupbG c L : existsb (eqb c) (dedupb eqb L) = existsb (eqb c) L.
  Proof.
    destruct (existsb (eqb c) L) eqn:E.
    - apply memG. apply In_dedupbG. apply memG. exact E.
    - destruct (existsb (eqb c) (dedupb eqb L)) eqn:E'; [|reflexivity].
      apply (proj1 (memG _ _)) in E'. apply (proj1 (In_dedupbG _ _)) in E'. apply (proj2 (memG _ _)) in E'. congruence.
  Qed.

  Lemma gsum_dedupb items L : NoDup items -> incl L items ->
    zsum (map g (dedupb eqb L)) = zsum (map (fun c => (g c * b2z (existsb (eqb c) L))%Z) items).
  Proof.
    intros Hc Hi. rewrite <- gsum_filter.
    rewrite <- (gsum_perm _ _ (filter_mem_permG items (dedupb eqb L) Hc (NoDup_dedupbG L)
                                 (fun c H => Hi c (proj1 (In_dedupbG L c) H)))).
    f_equal. f_equal. apply filter_ext. intros c. apply mem_dedupbG.
  Qed.

  Lemma gsum_nonneg l : (0 <= zsum (map g l))%Z.
  Proof. induction l as [|a l IH]; cbn [map zsum]; [lia|]. pose proof (g_nonneg a). lia. Qed.

  (* a duplicate-free list included in another list weighs at most as much *)
  Lemma gsum_incl_le L : NoDup L -> forall S, incl L S -> (zsum (map g L) <= zsum (map g S))%Z.
  Proof.
    induction 1 as [|a L Ha _ IH]; intros S Hi; cbn [map zsum]; [apply gsum_nonneg|].
    assert (Hin : In a S) by (apply Hi; left; reflexivity).
    apply in_split in Hin. destruct Hin as [S1 [S2 ->]].
    assert (Hi' : incl L (S1 ++ S2)).
    { intros c Hc. assert (Hc' : In c (S1 ++ a :: S2)) by (apply Hi; right; exact Hc).
      apply in_app_or in Hc'. apply in_or_app. destruct Hc' as [H1|[H2|H3]]; [left; exact H1| |right; exact H3].
      subst c. contradiction. }
    specialize (IH _ Hi'). rewrite map_app, zsum_app in *. cbn [map zsum]. lia.
  Qed.

  (* ---------------------------------------------------------------- the family inside a programme *)
  Variable items : list A.
  Variable nf : nat.
  Variable vu : nat -> nat.
  Variable vuf : nat -> nat -> nat.
  Variable nb : nat.
  Let ni := length items.
  Hypothesis vu_lt : forall i, i < ni -> vu i < nb.
  Hypothesis vuf_lt : forall i j, i < ni -> j < nf -> vuf i j < nb.
  Hypothesis Hnd : NoDup items.

  Definition it (i : nat) : A := nth i items d.
  Definition fcover (j : nat) : list constr :=
    map (fun i => mkConstr (mkLin [(Z2 1, vuf i j); (Z2 (-1), vu i)] 0) RLe) (seq 0 ni).
  Definition fdec (x : nat -> Q) (j : nat) : list A := map it (filter (fun i => used x (vuf i j)) (seq 0 ni)).

  Lemma it_In i : i < ni -> In (it i) items.
  Proof. intros H. apply nth_In. exact H. Qed.
  Lemma In_it c : In c items -> exists i, i < ni /\ it i = c.
  Proof. intros H. destruct (In_nth items c d H) as [i [Hi E]]. exists i. auto. Qed.
  Lemma it_inj i i' : i < ni -> i' < ni -> it i = it i' -> i = i'.
  Proof. intros Hi Hi' E. exact (proj1 (NoDup_nth items d) Hnd i i' Hi Hi' E). Qed.
  Lemma dec_filter_it (P : A -> bool) : map it (filter (fun i => P (it i)) (seq 0 ni)) = filter P items.
  Proof. exact (decode_filter items d P). Qed.

  Section Sound.
    Variable x : nat -> Q.
    Hypothesis Hbin : forall v, v < nb -> (x v == 0 \/ x v == 1)%Q.
    Let z (v : nat) : Z := b2z (used x v).

    Lemma fcover_sound j : j < nf -> Forall (constr_ok x) (fcover j) ->
      forall i, i < ni -> used x (vuf i j) = true -> used x (vu i) = true.
    Proof.
      intros Hj H i Hi U. unfold fcover in H. rewrite Forall_map, Forall_forall in H.
      specialize (H i (proj2 (in_seq ni 0 i) ltac:(lia))).
      unfold constr_ok in H. cbn [crel cexpr] in H. rewrite (bin_evalG x nb _ _ Hbin) in H.
      2:{ intros cv [<-|[<-|[]]]; cbn [snd]; [apply vuf_lt; assumption|apply vu_lt; assumption]. }
      change 0%Q with (inject_Z 0) in H. rewrite <- Zle_Qle in H.
      unfold evalZ in H. cbn [lcoef lconst fold_right fst snd] in H. rewrite U in H.
      destruct (used x (vu i)); [reflexivity|]. exfalso. revert H. unfold Z2. cbn [b2z]. lia.
    Qed.

    Lemma fdec_incl j : incl (fdec x j) items.
    Proof.
      intros c Hc. unfold fdec in Hc. apply in_map_iff in Hc. destruct Hc as [i [<- Hi]].
      apply filter_In in Hi. destruct Hi as [Hi _]. apply in_seq in Hi. apply it_In. lia.
    Qed.

    Lemma fdec_NoDup j : NoDup (fdec x j).
    Proof.
      unfold fdec.
      assert (G : forall l, NoDup l -> (forall i, In i l -> i < ni) -> NoDup (map it l)).
      { induction l as [|a l IH]; intros Hl Hb; cbn [map]; [constructor|].
        inversion Hl; subst. constructor.
        - intros Hin. apply in_map_iff in Hin. destruct Hin as [i [E Hi]].
          assert (i = a) by (apply it_inj; auto; apply Hb; [right|left]; auto). subst. contradiction.
        - apply IH; [assumption|]. intros i Hi. apply Hb. right. exact Hi. }
      apply G.
      - apply NoDup_filter. apply seq_NoDup.
      - intros i Hi. apply filter_In in Hi. destruct Hi as [Hi _]. apply in_seq in Hi. lia.
    Qed.

    Lemma In_fdec j c : In c (fdec x j) <-> exists i, i < ni /\ it i = c /\ used x (vuf i j) = true.
    Proof.
      unfold fdec. rewrite in_map_iff. split.
      - intros [i [E Hi]]. apply filter_In in Hi. destruct Hi as [Hi U]. apply in_seq in Hi.
        exists i. split; [lia|auto].
      - intros [i [Hi [E U]]]. exists i. split; [exact E|]. apply filter_In. split; [apply in_seq; lia|exact U].
    Qed.

    Lemma fcount_sound j (c : Z) :
      zsum (map (fun i => (c * z (vuf i j))%Z) (seq 0 ni)) = (c * Z.of_nat (length (fdec x j)))%Z.
    Proof. unfold z, fdec. rewrite (zsum_count (fun i => used x (vuf i j))), map_length. reflexivity. Qed.

    Hypothesis Hcov : forall j, j < nf -> Forall (constr_ok x) (fcover j).

    Lemma fgates_le :
      (zsum (map g (dedupb eqb (concat (map (fdec x) (seq 0 nf))))) <=
       zsum (map (fun i => g (it i) * z (vu i)) (seq 0 ni)))%Z.
    Proof.
      set (L := concat (map (fdec x) (seq 0 nf))).
      assert (HL : incl L items).
      { intros c Hc. unfold L in Hc. apply in_concat in Hc. destruct Hc as [l [Hl Hc]].
        apply in_map_iff in Hl. destruct Hl as [j [<- _]]. exact (fdec_incl j c Hc). }
      rewrite (gsum_dedupb items L Hnd HL).
      rewrite <- (zsum_index items d (fun c => (g c * b2z (existsb (eqb c) L))%Z)).
      apply zsum_le. intros i Hi. apply in_seq in Hi. fold (it i).
      apply Z.mul_le_mono_nonneg_l; [apply g_nonneg|].
      destruct (existsb (eqb (it i)) L) eqn:E; [|unfold z; destruct (used x (vu i)); cbn [b2z]; lia].
      apply memG in E. unfold L in E. apply in_concat in E. destruct E as [l [Hl Hc]].
      apply in_map_iff in Hl. destruct Hl as [j [<- Hj]]. apply in_seq in Hj.
      apply In_fdec in Hc. destruct Hc as [i' [Hi' [E U]]].
      assert (i' = i) by (apply it_inj; auto; lia). subst i'.
      unfold z. rewrite (fcover_sound j ltac:(lia) (Hcov j ltac:(lia)) i ltac:(lia) U). cbn [b2z]. lia.
    Qed.
  End Sound.

  Section Encode.
    Variable sol : list (list A).
    Variable z : nat -> Z.
    Hypothesis Hlen : length sol = nf.
    Hypothesis Hsol : forall j, j < nf -> NoDup (nth j sol []) /\ incl (nth j sol []) items.
    Hypothesis Hz_u : forall i, i < ni -> z (vu i) = b2z (existsb (eqb (it i)) (concat sol)).
    Hypothesis Hz_uf : forall i j, i < ni -> j < nf -> z (vuf i j) = b2z (existsb (eqb (it i)) (nth j sol [])).
    Let xq (v : nat) : Q := inject_Z (z v).

    Lemma fused_enc i j : i < ni -> j < nf -> used xq (vuf i j) = existsb (eqb (it i)) (nth j sol []).
    Proof. intros Hi Hj. apply used_b2z. apply Hz_uf; assumption. Qed.

    Lemma fdec_enc j : j < nf -> fdec xq j = filter (fun c => existsb (eqb c) (nth j sol [])) items.
    Proof.
      intros Hj. unfold fdec.
      rewrite (filter_ext_in (fun i => used xq (vuf i j)) (fun i => existsb (eqb (it i)) (nth j sol []))).
      - apply (dec_filter_it (fun c => existsb (eqb c) (nth j sol []))).
      - intros i Hi. apply in_seq in Hi. apply fused_enc; [lia|exact Hj].
    Qed.

    Lemma fdec_enc_perm j : j < nf -> Permutation (fdec xq j) (nth j sol []).
    Proof.
      intros Hj. rewrite fdec_enc by exact Hj. destruct (Hsol j Hj) as [H1 H2]. apply filter_mem_permG; assumption.
    Qed.

    Lemma fcount_enc j (c : Z) : j < nf ->
      zsum (map (fun i => (c * z (vuf i j))%Z) (seq 0 ni)) = (c * Z.of_nat (length (nth j sol [])))%Z.
    Proof.
      intros Hj.
      rewrite (zsum_ext _ (fun i => (c * b2z (existsb (eqb (it i)) (nth j sol [])))%Z)).
      2:{ intros i Hi. apply in_seq in Hi. rewrite Hz_uf by (lia || assumption). reflexivity. }
      rewrite (zsum_count (fun i => existsb (eqb (it i)) (nth j sol []))).
      f_equal. f_equal. rewrite <- (map_length it).
      rewrite (dec_filter_it (fun c => existsb (eqb c) (nth j sol []))).
      apply Permutation_length. destruct (Hsol j Hj) as [H1 H2]. apply filter_mem_permG; assumption.
    Qed.

    Lemma fcover_enc j : j < nf -> Forall (constr_ok xq) (fcover j).
    Proof.
      intros Hj. unfold fcover. rewrite Forall_map, Forall_forall. intros i Hi. apply in_seq in Hi.
      unfold constr_ok. cbn [crel cexpr]. rewrite (eval2_int xq z) by (intros cv _; reflexivity).
      change 0%Q with (inject_Z 0). rewrite <- Zle_Qle.
      unfold evalZ. cbn [lcoef lconst fold_right fst snd].
      rewrite Hz_uf, Hz_u by (lia || assumption).
      destruct (existsb (eqb (it i)) (nth j sol [])) eqn:E.
      - apply memG in E.
        assert (E' : existsb (eqb (it i)) (concat sol) = true).
        { apply memG. apply in_concat. exists (nth j sol []). split; [|exact E]. apply nth_In. lia. }
        rewrite E'. unfold Z2. cbn [b2z]. lia.
      - destruct (existsb (eqb (it i)) (concat sol)); unfold Z2; cbn [b2z]; lia.
    Qed.

    Lemma fobj_enc (c : Z) :
      zsum (map (fun i => (Z2 (g (it i) * c) * z (vu i))%Z) (seq 0 ni)) =
      (2 * c * zsum (map g (dedupb eqb (concat sol))))%Z.
    Proof.
      assert (HL : incl (concat sol) items).
      { intros a Ha. apply in_concat in Ha. destruct Ha as [l [Hl Ha]].
        destruct (In_nth sol l [] Hl) as [j [Hj E]]. subst l. apply (proj2 (Hsol j ltac:(lia))). exact Ha. }
      rewrite (gsum_dedupb items (concat sol) Hnd HL).
      rewrite <- (zsum_index items d (fun a => (g a * b2z (existsb (eqb a) (concat sol)))%Z)).
      rewrite <- zsum_scale. apply zsum_ext. intros i Hi. apply in_seq in Hi.
      rewrite Hz_u by lia. fold (it i). unfold Z2. ring.
    Qed.
  End Encode.
End Fam.
