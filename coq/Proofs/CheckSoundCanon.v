(* Soundness of the executable specification-level checkers of Checkers/Check.v, part 2 (C04 / C05):
   cert_okb / chk_cert decide cert_ok, chk_minimal decides "no element of the group gives a smaller table". *)
From Coq Require Import List NArith ZArith Arith Bool Lia Permutation.
From V Require Import Base.Res Gen.Tables Model.Kernels Model.TwoLevel Model.Canon Base.Bits Spec.Bfun Spec.Transform
  Spec.TwoLevelCost Proofs.Wf Proofs.Order Proofs.Tabulate Proofs.Coverage Proofs.ActGroup Proofs.CanonWalk
  Checkers.Check Proofs.CheckSound.
Import ListNotations.
Open Scope N_scope.

(* ------------------------------------------------------------------ is_permb *)
Lemma below_in_iff k m : In m (map N.of_nat (seq 0 k)) <-> m < N.of_nat k.
Proof.
  split; [|apply cov_below_in]. intros H. apply in_map_iff in H. destruct H as [i [<- Hi]]. apply in_seq in Hi. lia.
Qed.

Theorem is_permb_iff n p : is_permb n p = true <-> is_perm n p.
Proof.
  unfold is_permb. rewrite andb_true_iff, Nat.eqb_eq, forallb_forall. split.
  - intros [Hl Hall].
    assert (Hincl : incl (identity n) p).
    { intros x Hx. unfold identity in Hx. apply in_map_iff in Hx. destruct Hx as [i [<- Hi]].
      specialize (Hall i Hi). apply existsb_exists in Hall. destruct Hall as [q [Hq E]].
      apply N.eqb_eq in E. subst q. exact Hq. }
    assert (Hlen : (length p <= length (identity n))%nat) by (rewrite cov_identity_length, Hl; apply le_n).
    apply is_perm_intro.
    + exact (NoDup_incl_NoDup (identity_NoDup n) Hlen Hincl).
    + exact Hl.
    + intros x Hx. apply below_in_iff. exact (NoDup_length_incl (identity_NoDup n) Hlen Hincl x Hx).
  - intros Hp. split; [apply (cov_is_perm_length n p Hp)|]. intros i Hi. apply in_seq in Hi.
    apply existsb_exists. exists (N.of_nat i). split; [|apply N.eqb_refl].
    apply (perm_In n p _ Hp). lia.
Qed.

(* ------------------------------------------------------------------ cert_okb, chk_cert (C05) *)
Theorem cert_okb_iff n f c perm mask : cert_okb n f c perm mask = true <-> cert_ok n f c perm mask.
Proof.
  unfold cert_okb, cert_ok. rewrite !andb_true_iff, is_permb_iff, N.ltb_lt.
  change (map N.of_nat (seq 0 (Nat.pow 2 n))) with (dom n). rewrite forallb_dom_eqb. tauto.
Qed.

Theorem chk_cert_iff n f c perm mask :
  chk_cert n f c perm mask = true <-> wf n c /\ cert_ok n (val f) (val c) perm mask.
Proof. unfold chk_cert. rewrite andb_true_iff, wfb_wf, cert_okb_iff. reflexivity. Qed.

(* the model's certificates pass (statements of C05) *)
Theorem chk_cert_npn_model n t c perm mask : (n <= 8)%nat -> wf n t ->
  npn_canonization n t = Ok (c, perm, mask) -> chk_cert n t c perm mask = true.
Proof.
  intros Hn Ht E. destruct (npn_cert n t Hn Ht) as [c' [p' [m' [E' [Hw Hc]]]]].
  rewrite E in E'. injection E' as <- <- <-. apply chk_cert_iff. split; assumption.
Qed.

Theorem chk_cert_p_model n t c perm : (n <= 8)%nat -> wf n t ->
  p_canonization n t = Ok (c, perm) -> chk_cert n t c perm 0 = true.
Proof.
  intros Hn Ht E. destruct (p_cert n t Hn Ht) as [c' [p' [E' [Hw Hc]]]].
  rewrite E in E'. injection E' as <- <-. apply chk_cert_iff. split; assumption.
Qed.

Theorem chk_cert_n_model n t c mask : (n <= 8)%nat -> wf n t ->
  n_canonization n t = Ok (c, mask) -> chk_cert n t c (identity n) mask = true.
Proof.
  intros Hn Ht E. destruct (n_cert n t Hn Ht) as [c' [m' [E' [Hw Hc]]]].
  rewrite E in E'. injection E' as <- <-. apply chk_cert_iff. split; assumption.
Qed.

(* a certificate determines the table: two tables passing with the same certificate are equal *)
Theorem chk_cert_unique n f c1 c2 perm mask :
  chk_cert n f c1 perm mask = true -> chk_cert n f c2 perm mask = true -> c1 = c2.
Proof.
  rewrite !chk_cert_iff. intros [H1 [_ [_ V1]]] [H2 [_ [_ V2]]]. apply (wf_ext n); try assumption.
  intros m Hm. rewrite V1, V2 by exact Hm. reflexivity.
Qed.

(* ------------------------------------------------------------------ the enumeration of all permutations *)
Lemma insert_all_inserts {A} (x : A) l : insert_all x l = inserts x l.
Proof. induction l as [|y r IH]; cbn [insert_all inserts]; [reflexivity|]. rewrite IH. reflexivity. Qed.

Lemma check_perms_eq {A} (l : list A) : Check.perms l = Coverage.perms l.
Proof.
  induction l as [|x r IH]; cbn [Check.perms Coverage.perms]; [reflexivity|]. rewrite IH.
  apply flat_map_ext. intro a. apply insert_all_inserts.
Qed.

Lemma insert_all_sound {A} (x : A) l l' : In l' (insert_all x l) -> Permutation (x :: l) l'.
Proof.
  revert l'. induction l as [|y r IH]; intros l' H; cbn [insert_all] in H.
  - destruct H as [<-|[]]. apply Permutation_refl.
  - destruct H as [<-|H]; [apply Permutation_refl|].
    apply in_map_iff in H. destruct H as [z [<- Hz]].
    eapply perm_trans; [apply Permutation.perm_swap|]. apply perm_skip. apply IH. exact Hz.
Qed.

Lemma check_perms_sound {A} (l l' : list A) : In l' (Check.perms l) -> Permutation l l'.
Proof.
  revert l'. induction l as [|x r IH]; intros l' H; cbn [Check.perms] in H.
  - destruct H as [<-|[]]. apply perm_nil.
  - apply in_flat_map in H. destruct H as [z [Hz H]].
    eapply perm_trans; [apply perm_skip; apply IH; exact Hz|]. apply insert_all_sound. exact H.
Qed.

Theorem check_perms_iff {A} (l l' : list A) : In l' (Check.perms l) <-> Permutation l l'.
Proof. split; [apply check_perms_sound|]. rewrite check_perms_eq. apply perms_complete. Qed.

(* perms (identity n) enumerates exactly the permutations of 0..n-1 *)
Theorem in_perms_identity n p : In p (Check.perms (identity n)) <-> is_perm n p.
Proof.
  rewrite check_perms_iff. unfold is_perm. split; apply Permutation_sym.
Qed.

Lemma in_masks n m : In m (map N.of_nat (seq 0 (Nat.pow 2 (n + 1)))) <-> m < 2 ^ (N.of_nat n + 1).
Proof. rewrite below_in_iff, cov_pow2_nat. reflexivity. Qed.

(* ------------------------------------------------------------------ act_num is the number of the transformed function *)
Lemma act_num_fold (p : N -> bool) l : forall acc q,
  N.testbit (fold_left (fun acc y => if p y then N.lor acc (2 ^ y) else acc) l acc) q =
  N.testbit acc q || existsb (fun y => p y && (y =? q)) l.
Proof.
  induction l as [|y l IH]; intros acc q; cbn [fold_left existsb].
  - rewrite orb_false_r. reflexivity.
  - rewrite IH. destruct (p y); cbn [andb orb]; [|reflexivity].
    rewrite N.lor_spec, N.pow2_bits_eqb, orb_assoc. reflexivity.
Qed.

Lemma act_num_testbit n perm mask f q :
  N.testbit (act_num n perm mask f) q = (q <? 2 ^ N.of_nat n) && act n perm mask (val f) q.
Proof.
  unfold act_num. rewrite act_num_fold, N.bits_0. cbn [orb]. apply eq_true_iff_eq.
  rewrite existsb_exists, andb_true_iff, N.ltb_lt. split.
  - intros [y [Hy H]]. apply andb_true_iff in H. destruct H as [H E]. apply N.eqb_eq in E. subst y.
    split; [apply dom_In; exact Hy|exact H].
  - intros [Hq H]. exists q. split; [apply dom_In; exact Hq|]. rewrite H, N.eqb_refl. reflexivity.
Qed.

Lemma act_num_lt n perm mask f : act_num n perm mask f < 2 ^ (2 ^ N.of_nat n).
Proof.
  apply lt_pow2_of_bits. intros q Hq. rewrite act_num_testbit.
  destruct (N.ltb_spec q (2 ^ N.of_nat n)); [lia|reflexivity].
Qed.

(* for any well-formed table c' denoting the transformed function, act_num is its number *)
Theorem act_num_big n perm mask f c' : wf n c' ->
  (forall y, y < 2 ^ N.of_nat n -> val c' y = act n perm mask (val f) y) -> act_num n perm mask f = big c'.
Proof.
  intros Hw Hv. apply N.bits_inj. intro q. rewrite act_num_testbit, (big_val n c' Hw).
  destruct (N.ltb_spec q (2 ^ N.of_nat n)) as [L|L]; cbn [andb].
  - symmetry. apply Hv. exact L.
  - symmetry. apply (val_out_of_range n); assumption.
Qed.

(* ... and such a table exists *)
Lemma act_num_tabulate n perm mask f : act_num n perm mask f = big (tabulate n (act n perm mask (val f))).
Proof. destruct (tabulate_sem n (act n perm mask (val f))) as [Hw Hv]. apply act_num_big; assumption. Qed.

(* ------------------------------------------------------------------ chk_minimal (C04) *)
(* the elements of the three groups: 0 = P, 1 = N, otherwise NPN *)
Definition in_group (g n : nat) (perm : list N) (mask : N) : Prop :=
  match g with
  | 0%nat => is_perm n perm /\ mask = 0
  | 1%nat => perm = identity n /\ mask < 2 ^ (N.of_nat n + 1)
  | _ => is_perm n perm /\ mask < 2 ^ (N.of_nat n + 1)
  end.

Lemma in_group_npn g n perm mask : in_group g n perm mask -> is_perm n perm /\ mask < 2 ^ (N.of_nat n + 1).
Proof.
  destruct g as [|[|g]]; cbn [in_group].
  - intros [Hp ->]. split; [exact Hp|apply pow2_succ_pos].
  - intros [-> Hm]. split; [apply cov_is_perm_identity|exact Hm].
  - auto.
Qed.

Theorem chk_minimal_iff g n f c :
  chk_minimal g n f c = true <->
  forall perm' mask', in_group g n perm' mask' -> bigN c <= act_num n perm' mask' f.
Proof.
  unfold chk_minimal. cbv zeta. rewrite forallb_forall.
  destruct g as [|[|g]]; cbn [in_group]; split.
  - intros H p m [Hp ->]. apply in_perms_identity in Hp. specialize (H p Hp). cbn [forallb] in H.
    rewrite andb_true_r in H. apply N.leb_le. exact H.
  - intros H p Hp. cbn [forallb]. rewrite andb_true_r. apply N.leb_le. apply H.
    split; [apply in_perms_identity; exact Hp|reflexivity].
  - intros H p m [-> Hm]. specialize (H (identity n) (or_introl eq_refl)). rewrite forallb_forall in H.
    apply N.leb_le. apply H. apply in_masks. exact Hm.
  - intros H p [<-|[]]. apply forallb_forall. intros m Hm. apply N.leb_le. apply H.
    split; [reflexivity|apply in_masks; exact Hm].
  - intros H p m [Hp Hm]. apply in_perms_identity in Hp. specialize (H p Hp). rewrite forallb_forall in H.
    apply N.leb_le. apply H. apply in_masks. exact Hm.
  - intros H p Hp. apply forallb_forall. intros m Hm. apply N.leb_le. apply H.
    split; [apply in_perms_identity; exact Hp|apply in_masks; exact Hm].
Qed.

(* in the vocabulary of the C04 theorems: c is below every well-formed table of the orbit *)
Theorem chk_minimal_spec g n f c :
  chk_minimal g n f c = true <->
  forall perm' mask' c', in_group g n perm' mask' -> wf n c' ->
    (forall y, y < 2 ^ N.of_nat n -> val c' y = act n perm' mask' (val f) y) -> big c <= big c'.
Proof.
  rewrite chk_minimal_iff, bigN_big. split.
  - intros H p m c' Hg Hw Hv. rewrite <- (act_num_big n p m f c' Hw Hv). apply H. exact Hg.
  - intros H p m Hg. rewrite act_num_tabulate. destruct (tabulate_sem n (act n p m (val f))) as [Hw Hv].
    apply (H p m); assumption.
Qed.

(* the model's representatives pass (statements of C04_p_min, C04_n_min, C04_npn_min) *)
Theorem chk_minimal_npn_model n t c perm mask : (n <= 8)%nat -> wf n t ->
  npn_canonization n t = Ok (c, perm, mask) -> chk_minimal 2 n t c = true.
Proof.
  intros Hn Ht E. destruct (npn_min n t Hn Ht) as [c' [p' [m' [E' Hmin]]]].
  rewrite E in E'. injection E' as <- <- <-. apply chk_minimal_spec.
  intros p m c' [Hp Hm] Hw Hv. apply (Hmin p m c'); assumption.
Qed.

Theorem chk_minimal_p_model n t c perm : (n <= 8)%nat -> wf n t ->
  p_canonization n t = Ok (c, perm) -> chk_minimal 0 n t c = true.
Proof.
  intros Hn Ht E. destruct (p_min n t Hn Ht) as [c' [p' [E' Hmin]]].
  rewrite E in E'. injection E' as <- <-. apply chk_minimal_spec.
  intros p m c' [Hp ->] Hw Hv. apply (Hmin p c'); assumption.
Qed.

Theorem chk_minimal_n_model n t c mask : (n <= 8)%nat -> wf n t ->
  n_canonization n t = Ok (c, mask) -> chk_minimal 1 n t c = true.
Proof.
  intros Hn Ht E. destruct (n_min n t Hn Ht) as [c' [m' [E' Hmin]]].
  rewrite E in E'. injection E' as <- <-. apply chk_minimal_spec.
  intros p m c' [-> Hm] Hw Hv. apply (Hmin m c'); assumption.
Qed.

(* uniqueness: a table that passes the certificate check (with a certificate of the group) and the minimality check
   is the representative - so an implementation result that passes both equals the model's result *)
Theorem chk_canon_unique g n f c1 p1 m1 c2 p2 m2 :
  in_group g n p1 m1 -> chk_cert n f c1 p1 m1 = true -> chk_minimal g n f c1 = true ->
  in_group g n p2 m2 -> chk_cert n f c2 p2 m2 = true -> chk_minimal g n f c2 = true ->
  c1 = c2.
Proof.
  rewrite !chk_cert_iff, !chk_minimal_spec. intros G1 [W1 [_ [_ V1]]] M1 G2 [W2 [_ [_ V2]]] M2.
  apply (wf_big_inj n); try assumption. apply N.le_antisymm.
  - apply (M1 p2 m2 c2); assumption.
  - apply (M2 p1 m1 c1); assumption.
Qed.

Corollary chk_canon_npn_is_model n t c perm mask c' perm' mask' : (n <= 8)%nat -> wf n t ->
  npn_canonization n t = Ok (c, perm, mask) ->
  is_perm n perm' -> mask' < 2 ^ (N.of_nat n + 1) ->
  chk_cert n t c' perm' mask' = true -> chk_minimal 2 n t c' = true -> c' = c.
Proof.
  intros Hn Ht E Hp Hm Hc Hmin.
  pose proof (chk_cert_npn_model n t c perm mask Hn Ht E) as Hc0.
  pose proof (chk_minimal_npn_model n t c perm mask Hn Ht E) as Hm0.
  assert (G0 : in_group 2 n perm mask).
  { apply chk_cert_iff in Hc0. destruct Hc0 as [_ [Hp0 [Hk0 _]]]. split; assumption. }
  apply (chk_canon_unique 2 n t c' perm' mask' c perm mask); try assumption. split; assumption.
Qed.


(* the checkers discriminate (instances of C04_nonvacuous / C05_nonvacuous and wrong variants of them) *)
Example chk_canon_examples :
  chk_cert 3 [0xd4] [23] [1; 0; 2] 10 = true /\ chk_cert 3 [0xd4] [23] [1; 0; 2] 11 = false /\
  chk_cert 3 [0xd4] [23] [1; 1; 2] 10 = false /\
  chk_minimal 2 3 [0xd4] [0x17] = true /\ chk_minimal 2 3 [0xd4] [0xe8] = false /\
  chk_minimal 0 3 [0xd4] [0x8e] = true /\ chk_minimal 0 3 [0xd4] [0xd4] = false /\
  chk_minimal 1 3 [0xd4] [0x17] = true.
Proof. repeat split; vm_compute; reflexivity. Qed.
