(* C09: text forms (hexadecimal, binary, Display) are exact and fixed-width; parsing accepts exactly the
   well-formed strings and is the inverse of printing. Strings are byte lists. *)
From Coq Require Import List NArith Arith Bool Lia ZifyBool.
From V Require Import Base.Res Gen.Tables Model.Kernels Model.Api Base.Bits Spec.Bfun Proofs.Wf.
Import ListNotations.
Open Scope N_scope.

(* ------------------------------------------------------------------ spec vocabulary *)
Definition hex_width (n : nat) : nat := hex_str_size n.
Definition total_hex_width (n : nat) : nat := (hex_str_size n * table_size n)%nat.

(* the table as one number, word 0 least significant *)
Definition big (t : list N) : N := fold_right (fun w acc => w + 2 ^ 64 * acc) 0 t.

(* value of a digit string read in the given base, most significant digit first *)
Definition dval (base : N) (ds : list N) : N := fold_left (fun acc d => acc * base + d) ds 0.

(* the L low-order digits of x in the given base, most significant first *)
Fixpoint digs (base x : N) (L : nat) : list N :=
  match L with
  | O => []
  | S L' => (x / base ^ N.of_nat L' mod base) :: digs base x L'
  end.

(* ------------------------------------------------------------------ digs *)
Lemma digs_length base x L : length (digs base x L) = L.
Proof. induction L as [|L IH]; cbn [digs length]; congruence. Qed.

Lemma digs_snoc base x L : base <> 0 -> digs base x (S L) = digs base (x / base) L ++ [x mod base].
Proof.
  intros Hb. induction L as [|L IH].
  - cbn [digs app N.of_nat]. rewrite N.pow_0_r, N.div_1_r. reflexivity.
  - change (digs base x (S (S L))) with ((x / base ^ N.of_nat (S L) mod base) :: digs base x (S L)).
    rewrite IH. cbn [digs app]. f_equal.
    rewrite Nat2N.inj_succ, N.pow_succ_r', N.div_div by (try apply N.pow_nonzero; assumption).
    reflexivity.
Qed.

Lemma digs_lt base x L : base <> 0 -> Forall (fun d => d < base) (digs base x L).
Proof.
  intros Hb. induction L as [|L IH]; cbn [digs]; constructor; [apply N.mod_lt; exact Hb|exact IH].
Qed.

Lemma digs_nth base x L k :
  (k < L)%nat -> nth k (digs base x L) 0 = x / base ^ N.of_nat (L - 1 - k) mod base.
Proof.
  revert k. induction L as [|L IH]; intros k Hk; [lia|].
  destruct k as [|k]; cbn [digs nth].
  - replace (S L - 1 - 0)%nat with L by lia. reflexivity.
  - rewrite IH by lia. replace (S L - 1 - S k)%nat with (L - 1 - k)%nat by lia. reflexivity.
Qed.

Lemma digs_small base x L : base <> 0 -> x < base ^ N.of_nat L -> digs base x (S L) = 0 :: digs base x L.
Proof.
  intros Hb Hx. cbn [digs]. rewrite N.div_small by exact Hx. rewrite N.mod_0_l by exact Hb. reflexivity.
Qed.

Lemma digs_pad base x L d :
  2 <= base -> x < base ^ N.of_nat L -> repeat 0 d ++ digs base x L = digs base x (d + L).
Proof.
  intros Hb Hx. induction d as [|d IH]; [reflexivity|].
  change (S d + L)%nat with (S (d + L)). rewrite digs_small; [|lia|].
  - cbn [repeat app]. rewrite IH. reflexivity.
  - eapply N.lt_le_trans; [exact Hx|]. apply N.pow_le_mono_r; lia.
Qed.

Lemma mod_pow_succ base x L :
  base <> 0 -> x mod base ^ N.of_nat (S L) = (x / base ^ N.of_nat L mod base) * base ^ N.of_nat L + x mod base ^ N.of_nat L.
Proof.
  intros Hb. rewrite Nat2N.inj_succ, N.pow_succ_r', (N.mul_comm base).
  rewrite N.mod_mul_r by (try apply N.pow_nonzero; assumption). lia.
Qed.

Lemma fold_digs base x L a :
  base <> 0 ->
  fold_left (fun acc d => acc * base + d) (digs base x L) a = a * base ^ N.of_nat L + x mod base ^ N.of_nat L.
Proof.
  intros Hb. revert a. induction L as [|L IH]; intro a.
  - cbn [digs fold_left N.of_nat]. rewrite N.pow_0_r, N.mod_1_r. lia.
  - cbn [digs fold_left]. rewrite IH. rewrite (mod_pow_succ base x L Hb).
    rewrite Nat2N.inj_succ, N.pow_succ_r'. lia.
Qed.

Lemma dval_digs base x L : base <> 0 -> x < base ^ N.of_nat L -> dval base (digs base x L) = x.
Proof.
  intros Hb Hx. unfold dval. rewrite fold_digs by exact Hb. rewrite N.mod_small by exact Hx. lia.
Qed.

(* ------------------------------------------------------------------ digits *)
Lemma digits_fuel_digs base :
  2 <= base -> forall fuel x acc, (1 <= fuel)%nat -> x < base ^ N.of_nat fuel ->
  exists L, (1 <= L <= fuel)%nat /\ digits_fuel fuel base x acc = digs base x L ++ acc /\
            x < base ^ N.of_nat L /\ (x <> 0 -> base ^ N.of_nat (L - 1) <= x) /\ (x = 0 -> L = 1%nat).
Proof.
  intros Hb. induction fuel as [|f IH]; intros x acc Hf Hx; [lia|].
  cbn [digits_fuel]. destruct (N.eqb_spec (x / base) 0) as [E|E].
  - exists 1%nat. assert (Hxb : x < base).
    { destruct (N.lt_ge_cases x base) as [L|L]; [exact L|].
      assert (1 <= x / base) by (apply N.div_le_lower_bound; lia). lia. }
    split; [lia|]. split; [|split; [|split]].
    + cbn [digs app N.of_nat]. rewrite N.pow_0_r, N.div_1_r. reflexivity.
    + change (N.of_nat 1) with 1. rewrite N.pow_1_r. exact Hxb.
    + intros Hx0. cbn [Nat.sub N.of_nat]. rewrite N.pow_0_r. lia.
    + reflexivity.
  - assert (Hq : x / base < base ^ N.of_nat f).
    { apply N.div_lt_upper_bound; [lia|]. rewrite <- N.pow_succ_r', <- Nat2N.inj_succ. exact Hx. }
    assert (Hf1 : (1 <= f)%nat).
    { destruct f as [|f']; [|lia]. cbn [N.of_nat] in Hq. rewrite N.pow_0_r in Hq.
      revert E Hq. generalize (x / base). intros q E Hq. lia. }
    destruct (IH (x / base) ((x mod base) :: acc) Hf1 Hq) as (L & HL & Heq & Hlt & Hge & _).
    exists (S L). split; [lia|]. split; [|split; [|split]].
    + rewrite Heq. rewrite digs_snoc by lia. rewrite <- app_assoc. reflexivity.
    + rewrite Nat2N.inj_succ, N.pow_succ_r'.
      pose proof (N.div_mod' x base) as Hdm. pose proof (N.mod_lt x base ltac:(lia)) as Hm.
      revert Hlt Hdm Hm. generalize (x / base) (x mod base) (base ^ N.of_nat L). intros q r P Hlt Hdm Hm.
      subst x. apply N.lt_le_trans with (base * (q + 1)); [lia|]. apply N.mul_le_mono_l. lia.
    + intros _. replace (S L - 1)%nat with (S (L - 1)) by lia.
      rewrite Nat2N.inj_succ, N.pow_succ_r'. specialize (Hge E).
      pose proof (N.div_mod' x base) as Hdm.
      revert Hge Hdm. generalize (x / base) (x mod base) (base ^ N.of_nat (L - 1)). intros q r P Hge Hdm.
      subst x. apply N.le_trans with (base * q); [apply N.mul_le_mono_l; exact Hge|lia].
    + intros Hx0. subst x. rewrite N.div_0_l in E by lia. congruence.
Qed.

Lemma pow64_le base : 2 <= base -> 2 ^ 64 <= base ^ 64.
Proof. intros Hb. apply N.pow_le_mono_l. exact Hb. Qed.

Lemma digits_digs base x :
  2 <= base -> x < 2 ^ 64 ->
  exists L, (1 <= L <= 64)%nat /\ digits base x = digs base x L /\
            x < base ^ N.of_nat L /\ (x <> 0 -> base ^ N.of_nat (L - 1) <= x) /\ (x = 0 -> L = 1%nat).
Proof.
  intros Hb Hx. unfold digits.
  destruct (digits_fuel_digs base Hb 64 x [] ltac:(lia)) as (L & HL & Heq & H).
  - change (N.of_nat 64) with 64. eapply N.lt_le_trans; [exact Hx|apply pow64_le; exact Hb].
  - exists L. rewrite app_nil_r in Heq. auto.
Qed.

(* more fuel changes nothing: the 64 rounds are never exhausted *)
Lemma digits_fuel_enough base :
  2 <= base -> forall f e x acc, (1 <= f)%nat -> x < base ^ N.of_nat f ->
  digits_fuel (f + e) base x acc = digits_fuel f base x acc.
Proof.
  intros Hb. induction f as [|f IH]; intros e x acc Hf Hx; [lia|].
  cbn [digits_fuel Nat.add]. destruct (N.eqb_spec (x / base) 0) as [E|E]; [reflexivity|].
  assert (Hq : x / base < base ^ N.of_nat f).
  { apply N.div_lt_upper_bound; [lia|]. rewrite <- N.pow_succ_r', <- Nat2N.inj_succ. exact Hx. }
  assert (Hf1 : (1 <= f)%nat).
  { destruct f as [|f']; [|lia]. cbn [N.of_nat] in Hq. rewrite N.pow_0_r in Hq.
      revert E Hq. generalize (x / base). intros q E Hq. lia. }
  apply IH; assumption.
Qed.

Lemma digits_fuel_irrelevant base x e :
  2 <= base -> x < 2 ^ 64 -> digits_fuel (64 + e) base x [] = digits base x.
Proof.
  intros Hb Hx. unfold digits. apply digits_fuel_enough; [exact Hb|lia|].
  change (N.of_nat 64) with 64. eapply N.lt_le_trans; [exact Hx|apply pow64_le; exact Hb].
Qed.

Lemma digits_spec base x :
  2 <= base -> x < 2 ^ 64 ->
  digits base x <> [] /\
  Forall (fun d => d < base) (digits base x) /\
  (x = 0 -> digits base x = [0]) /\
  (x <> 0 -> hd 0 (digits base x) <> 0) /\
  fold_left (fun acc d => acc * base + d) (digits base x) 0 = x /\
  (length (digits base x) <= 64)%nat /\
  (forall e, digits_fuel (64 + e) base x [] = digits base x).
Proof.
  intros Hb Hx. destruct (digits_digs base x Hb Hx) as (L & HL & Heq & Hlt & Hge & H0).
  rewrite Heq. split; [|split; [|split; [|split; [|split; [|split]]]]].
  - destruct L as [|L]; [lia|]. cbn [digs]. discriminate.
  - apply digs_lt. lia.
  - intros E. rewrite (H0 E). subst x. cbn [digs N.of_nat]. rewrite N.pow_0_r, N.div_1_r, N.mod_0_l by lia.
    reflexivity.
  - intros E. specialize (Hge E). destruct L as [|L]; [lia|]. cbn [digs hd].
    replace (S L - 1)%nat with L in Hge by lia.
    rewrite Nat2N.inj_succ, N.pow_succ_r' in Hlt.
    assert (Hp : base ^ N.of_nat L <> 0) by (apply N.pow_nonzero; lia).
    assert (H1 : 1 <= x / base ^ N.of_nat L) by (apply N.div_le_lower_bound; lia).
    assert (H2 : x / base ^ N.of_nat L < base) by (apply N.div_lt_upper_bound; lia).
    rewrite N.mod_small by exact H2. lia.
  - apply (dval_digs base x L); [lia|exact Hlt].
  - rewrite digs_length. lia.
  - intro e. rewrite <- Heq. apply digits_fuel_irrelevant; assumption.
Qed.

(* ------------------------------------------------------------------ digit characters *)
Definition is_lower_hex_char (c : N) : Prop := 48 <= c <= 57 \/ 97 <= c <= 102.
Definition is_bin_char (c : N) : Prop := c = 48 \/ c = 49.

Lemma digit_char_0 : digit_char 0 = 48.
Proof. reflexivity. Qed.

Lemma digit_char_small d : d < 10 -> digit_char d = 48 + d.
Proof. intros H. unfold digit_char. destruct (N.ltb_spec d 10); [reflexivity|lia]. Qed.

Lemma digit_char_lower d : d < 16 -> is_lower_hex_char (digit_char d).
Proof. intros H. unfold digit_char, is_lower_hex_char. destruct (N.ltb_spec d 10); lia. Qed.

Lemma digit_char_bin d : d < 2 -> is_bin_char (digit_char d).
Proof. intros H. rewrite digit_char_small by lia. unfold is_bin_char. lia. Qed.

Lemma hexval_digit_char d : d < 16 -> hexval (digit_char d) = Some d.
Proof.
  intros H. unfold digit_char, hexval. destruct (N.ltb_spec d 10) as [L|L].
  - assert (E : (48 <=? 48 + d) && (48 + d <=? 57) = true) by lia. rewrite E. f_equal. lia.
  - assert (E1 : (48 <=? 87 + d) && (87 + d <=? 57) = false) by lia.
    assert (E2 : (97 <=? 87 + d) && (87 + d <=? 102) = true) by lia.
    rewrite E1, E2. f_equal. lia.
Qed.

Lemma hexval_lt b d : hexval b = Some d -> d < 16.
Proof.
  unfold hexval.
  destruct ((48 <=? b) && (b <=? 57)) eqn:E1; [intros [= <-]; lia|].
  destruct ((97 <=? b) && (b <=? 102)) eqn:E2; [intros [= <-]; lia|].
  destruct ((65 <=? b) && (b <=? 70)) eqn:E3; [intros [= <-]; lia|discriminate].
Qed.

(* upper-case and lower-case digits have the same value *)
Lemma hexval_upper b : 65 <= b <= 70 -> hexval b = hexval (b + 32) /\ hexval b = Some (b - 55).
Proof.
  intros H. unfold hexval.
  assert (E1 : (48 <=? b) && (b <=? 57) = false) by lia.
  assert (E2 : (97 <=? b) && (b <=? 102) = false) by lia.
  assert (E3 : (65 <=? b) && (b <=? 70) = true) by lia.
  assert (E4 : (48 <=? b + 32) && (b + 32 <=? 57) = false) by lia.
  assert (E5 : (97 <=? b + 32) && (b + 32 <=? 102) = true) by lia.
  rewrite E1, E2, E3, E4, E5. split; [f_equal; lia|reflexivity].
Qed.

Lemma is_hex_digit_iff b :
  is_hex_digit b = true <-> (48 <= b <= 57 \/ 97 <= b <= 102 \/ 65 <= b <= 70).
Proof.
  unfold is_hex_digit, hexval.
  destruct ((48 <=? b) && (b <=? 57)) eqn:E1; [split; [lia|reflexivity]|].
  destruct ((97 <=? b) && (b <=? 102)) eqn:E2; [split; [lia|reflexivity]|].
  destruct ((65 <=? b) && (b <=? 70)) eqn:E3; [split; [lia|reflexivity]|].
  split; [discriminate|lia].
Qed.

Lemma lower_hex_is_hex_digit c : is_lower_hex_char c -> is_hex_digit c = true.
Proof. intros H. apply is_hex_digit_iff. unfold is_lower_hex_char in H. lia. Qed.

(* ------------------------------------------------------------------ parse_hex *)
Lemma parse_hex_zeros k s : parse_hex (repeat 48 k ++ s) 0 = parse_hex s 0.
Proof. induction k as [|k IH]; [reflexivity|]. cbn [repeat app parse_hex]. exact IH. Qed.

Lemma parse_hex_digit_chars ds acc :
  Forall (fun d => d < 16) ds ->
  parse_hex (map digit_char ds) acc = Some (fold_left (fun a d => a * 16 + d) ds acc).
Proof.
  intros H. revert acc. induction H as [|d ds Hd _ IH]; intro acc; [reflexivity|].
  cbn [map parse_hex fold_left]. rewrite hexval_digit_char by exact Hd. apply IH.
Qed.

Lemma parse_hex_digs x L acc :
  parse_hex (map digit_char (digs 16 x L)) acc = Some (acc * 16 ^ N.of_nat L + x mod 16 ^ N.of_nat L).
Proof.
  rewrite parse_hex_digit_chars by (apply digs_lt; lia). rewrite fold_digs by lia. reflexivity.
Qed.

Lemma parse_hex_total s acc : forallb is_hex_digit s = true -> exists v, parse_hex s acc = Some v.
Proof.
  revert acc. induction s as [|b s IH]; intros acc H; [eexists; reflexivity|].
  cbn [forallb] in H. apply andb_true_iff in H. destruct H as [Hb Hs].
  cbn [parse_hex]. unfold is_hex_digit in Hb. destruct (hexval b) as [d|]; [|discriminate].
  apply IH. exact Hs.
Qed.

Lemma parse_hex_lt s acc v : parse_hex s acc = Some v -> v < (acc + 1) * 16 ^ N.of_nat (length s).
Proof.
  revert acc. induction s as [|b s IH]; intros acc H.
  - cbn [parse_hex] in H. injection H as <-. cbn [length N.of_nat]. rewrite N.pow_0_r. lia.
  - cbn [parse_hex] in H. destruct (hexval b) as [d|] eqn:E; [|discriminate].
    apply hexval_lt in E. apply IH in H. cbn [length]. rewrite Nat2N.inj_succ, N.pow_succ_r'.
    eapply N.lt_le_trans; [exact H|]. rewrite N.mul_assoc. apply N.mul_le_mono_r. lia.
Qed.

(* ------------------------------------------------------------------ pad_radix *)
Lemma map_repeat {A B} (f : A -> B) x k : map f (repeat x k) = repeat (f x) k.
Proof. induction k as [|k IH]; cbn [repeat map]; congruence. Qed.

Lemma pad_radix_length_ge base width x : (width <= length (pad_radix base width x))%nat.
Proof. unfold pad_radix. rewrite app_length, repeat_length. lia. Qed.

(* a word that fits is printed on exactly [width] characters: the [width] low-order digits, leading zeros included *)
Lemma pad_radix_digs base width x :
  2 <= base -> x < 2 ^ 64 -> x < base ^ N.of_nat width -> (1 <= width)%nat ->
  pad_radix base width x = map digit_char (digs base x width).
Proof.
  intros Hb Hx Hw Hw1. destruct (digits_digs base x Hb Hx) as (L & HL & Heq & Hlt & Hge & H0).
  assert (HLw : (L <= width)%nat).
  { destruct (N.eq_dec x 0) as [E|E]; [rewrite (H0 E); exact Hw1|].
    specialize (Hge E). assert (Hp : base ^ N.of_nat (L - 1) < base ^ N.of_nat width) by lia.
    apply N.pow_lt_mono_r_iff in Hp; lia. }
  unfold pad_radix. rewrite Heq, map_length, digs_length.
  change 48 with (digit_char 0). rewrite <- map_repeat, <- map_app.
  rewrite digs_pad by assumption. replace (width - L + L)%nat with width by lia. reflexivity.
Qed.

Lemma pad_radix_width base width x :
  2 <= base -> x < 2 ^ 64 -> x < base ^ N.of_nat width -> (1 <= width)%nat ->
  length (pad_radix base width x) = width.
Proof. intros. rewrite pad_radix_digs by assumption. rewrite map_length. apply digs_length. Qed.

Lemma pad_radix_nth base width x k :
  2 <= base -> x < 2 ^ 64 -> x < base ^ N.of_nat width -> (k < width)%nat ->
  nth k (pad_radix base width x) 0 = digit_char (x / base ^ N.of_nat (width - 1 - k) mod base).
Proof.
  intros Hb Hx Hw Hk. rewrite pad_radix_digs by (assumption || lia).
  rewrite <- digs_nth by exact Hk.
  rewrite (nth_indep _ 0 (digit_char 0)) by (rewrite map_length, digs_length; exact Hk).
  apply map_nth.
Qed.

Lemma pad_radix_chars base width x :
  2 <= base -> x < 2 ^ 64 ->
  Forall (fun c => exists d, d < base /\ c = digit_char d) (pad_radix base width x).
Proof.
  intros Hb Hx. unfold pad_radix. apply Forall_app. split.
  - apply Forall_forall. intros c Hc. apply repeat_spec in Hc. subst c. exists 0. split; [lia|reflexivity].
  - destruct (digits_spec base x Hb Hx) as (_ & Hd & _). apply Forall_forall. intros c Hc.
    apply in_map_iff in Hc. destruct Hc as (d & <- & Hin). rewrite Forall_forall in Hd.
    exists d. split; [apply Hd; exact Hin|reflexivity].
Qed.

(* whatever the width, the hexadecimal form of a word parses back to the word *)
Lemma pad_radix_value width x : x < 2 ^ 64 -> parse_hex (pad_radix 16 width x) 0 = Some x.
Proof.
  intros Hx. destruct (digits_digs 16 x ltac:(lia) Hx) as (L & HL & Heq & Hlt & _).
  unfold pad_radix. rewrite parse_hex_zeros, Heq, parse_hex_digs.
  rewrite N.mod_small by exact Hlt. f_equal.
Qed.

(* ------------------------------------------------------------------ widths *)
Lemma hex_str_size_big n : (6 <= n)%nat -> hex_str_size n = 16%nat.
Proof. intros H. unfold hex_str_size. apply Nat.leb_le in H. rewrite H. reflexivity. Qed.

Lemma bin_width_big n : (6 <= n)%nat -> bin_width n = 64%nat.
Proof. intros H. unfold bin_width. apply Nat.leb_le in H. rewrite H. reflexivity. Qed.

Lemma table_size_small n : (n <= 6)%nat -> table_size n = 1%nat.
Proof. intros H. unfold table_size. rewrite Nat.max_r by exact H. reflexivity. Qed.

Lemma hex_str_size_spec n :
  (hex_str_size n = 1 /\ n <= 2 \/ hex_str_size n = 2 ^ (n - 2) /\ 3 <= n <= 5 \/ hex_str_size n = 16 /\ 6 <= n)%nat.
Proof.
  destruct (Nat.le_gt_cases 6 n) as [L|L]; [right; right; split; [apply hex_str_size_big|]; exact L|].
  do 6 (destruct n as [|n]; [cbv; lia|]). lia.
Qed.

(* one word is printed on word_bits/4 hexadecimal digits (one digit when there are fewer than 4 bits) *)
Lemma hex_width_bits n : (2 <= n)%nat -> 4 * N.of_nat (hex_str_size n) = word_bits n.
Proof.
  intros H. unfold word_bits.
  min6 n; subst; try lia; try reflexivity.
  rewrite hex_str_size_big by assumption.
  match goal with E : Nat.min n 6 = _ |- _ => rewrite E end. reflexivity.
Qed.

Lemma hex_width_bits_small n : (n < 2)%nat -> hex_str_size n = 1%nat /\ word_bits n = 2 ^ N.of_nat n /\ word_bits n <= 2.
Proof.
  intros H. destruct n as [|[|n]]; [| |lia]; repeat split; vm_compute; discriminate.
Qed.

Lemma pow16 k : 16 ^ k = 2 ^ (4 * k).
Proof. change 16 with (2 ^ 4). rewrite <- N.pow_mul_r. reflexivity. Qed.

Lemma hex_width_bound n : 2 ^ word_bits n <= 16 ^ N.of_nat (hex_str_size n).
Proof.
  rewrite pow16. apply N.pow_le_mono_r; [lia|].
  destruct (Nat.lt_ge_cases n 2) as [L|L].
  - destruct (hex_width_bits_small n L) as (E & _ & Hle). rewrite E. lia.
  - rewrite hex_width_bits by exact L. lia.
Qed.

Lemma hex_width_exact n : (2 <= n)%nat -> 16 ^ N.of_nat (hex_str_size n) = 2 ^ word_bits n.
Proof. intros H. rewrite pow16, hex_width_bits by exact H. reflexivity. Qed.

Lemma bin_width_bits n : N.of_nat (bin_width n) = word_bits n.
Proof.
  unfold word_bits.
  min6 n; subst; try reflexivity.
  rewrite bin_width_big by assumption.
  match goal with E : Nat.min n 6 = _ |- _ => rewrite E end. reflexivity.
Qed.

Lemma hex_str_size_range n : (1 <= hex_str_size n <= 16)%nat.
Proof.
  destruct (hex_str_size_spec n) as [[E H]|[[E H]|[E H]]]; rewrite E; try lia.
  assert (Hn : n = 3%nat \/ n = 4%nat \/ n = 5%nat) by lia.
  destruct Hn as [->|[->| ->]]; cbv; lia.
Qed.

Lemma bin_width_range n : (1 <= bin_width n <= 64)%nat.
Proof.
  destruct (Nat.le_gt_cases 6 n) as [L|L]; [rewrite bin_width_big by exact L; lia|].
  do 6 (destruct n as [|n]; [cbv; lia|]). lia.
Qed.

(* max(1, 2^n / 4) hexadecimal digits in all *)
Lemma total_hex_width_eq n : total_hex_width n = Nat.max 1 (2 ^ n / 4).
Proof.
  unfold total_hex_width. destruct (Nat.le_gt_cases 6 n) as [L|L].
  - rewrite hex_str_size_big by exact L. unfold table_size. rewrite Nat.max_l by exact L.
    replace n with (4 + (n - 6) + 2)%nat at 2 by lia.
    rewrite Nat.pow_add_r. change (2 ^ 2)%nat with 4%nat. rewrite Nat.div_mul by lia.
    rewrite Nat.pow_add_r. change (2 ^ 4)%nat with 16%nat.
    assert (0 < 2 ^ (n - 6))%nat by (apply Nat.neq_0_lt_0, Nat.pow_nonzero; lia). lia.
  - do 6 (destruct n as [|n]; [reflexivity|]). lia.
Qed.

Lemma total_bin_width_eq n : (bin_width n * table_size n = 2 ^ n)%nat.
Proof.
  destruct (Nat.le_gt_cases 6 n) as [L|L].
  - rewrite bin_width_big by exact L. unfold table_size. rewrite Nat.max_l by exact L.
    replace n with (6 + (n - 6))%nat at 2 by lia. rewrite Nat.pow_add_r. reflexivity.
  - do 6 (destruct n as [|n]; [reflexivity|]). lia.
Qed.

Lemma wf_word_bounds n t w :
  wf n t -> In w t -> w < 2 ^ 64 /\ w < 16 ^ N.of_nat (hex_str_size n) /\ w < 2 ^ N.of_nat (bin_width n).
Proof.
  intros [_ H] Hin. rewrite Forall_forall in H. specialize (H w Hin). split; [|split].
  - eapply N.lt_le_trans; [exact H|apply pow2_word_bits_le].
  - eapply N.lt_le_trans; [exact H|apply hex_width_bound].
  - rewrite bin_width_bits. exact H.
Qed.

Lemma concat_map_length {A B} (f : A -> list B) l w :
  (forall x, In x l -> length (f x) = w) -> length (concat (map f l)) = (w * length l)%nat.
Proof.
  induction l as [|x l IH]; intros H; cbn [map concat length]; [lia|].
  rewrite app_length, H by (left; reflexivity). rewrite IH by (intros; apply H; right; assumption). lia.
Qed.

Lemma to_hex_words n t :
  wf n t -> forall w, In w (rev t) ->
  pad_radix 16 (hex_str_size n) w = map digit_char (digs 16 w (hex_str_size n)).
Proof.
  intros Hwf w Hin. apply in_rev in Hin. destruct (wf_word_bounds n t w Hwf Hin) as (H1 & H2 & _).
  apply pad_radix_digs; [lia|exact H1|exact H2|apply hex_str_size_range].
Qed.

Lemma to_bin_words n t :
  wf n t -> forall w, In w (rev t) ->
  pad_radix 2 (bin_width n) w = map digit_char (digs 2 w (bin_width n)).
Proof.
  intros Hwf w Hin. apply in_rev in Hin. destruct (wf_word_bounds n t w Hwf Hin) as (H1 & _ & H3).
  apply pad_radix_digs; [lia|exact H1|exact H3|apply bin_width_range].
Qed.

Lemma to_hex_width n t : wf n t -> length (to_hex n t) = total_hex_width n.
Proof.
  intros Hwf. unfold to_hex, total_hex_width.
  rewrite (concat_map_length _ _ (hex_str_size n)).
  - rewrite rev_length, (wf_length n t Hwf). reflexivity.
  - intros w Hin. rewrite (to_hex_words n t Hwf w Hin), map_length. apply digs_length.
Qed.

Lemma to_bin_width n t : wf n t -> length (to_bin n t) = (2 ^ n)%nat.
Proof.
  intros Hwf. unfold to_bin. rewrite <- total_bin_width_eq.
  rewrite (concat_map_length _ _ (bin_width n)).
  - rewrite rev_length, (wf_length n t Hwf). reflexivity.
  - intros w Hin. rewrite (to_bin_words n t Hwf w Hin), map_length. apply digs_length.
Qed.

(* ------------------------------------------------------------------ characters *)
Lemma to_hex_chars n t : wf n t -> Forall is_lower_hex_char (to_hex n t).
Proof.
  intros Hwf. unfold to_hex. apply Forall_concat. apply Forall_forall. intros cs Hcs.
  apply in_map_iff in Hcs. destruct Hcs as (w & <- & Hin). apply in_rev in Hin.
  destruct (wf_word_bounds n t w Hwf Hin) as (H1 & _).
  eapply Forall_impl; [|apply (pad_radix_chars 16 (hex_str_size n) w ltac:(lia) H1)].
  cbv beta. intros c (d & Hd & ->). apply digit_char_lower. exact Hd.
Qed.

Lemma to_bin_chars n t : wf n t -> Forall is_bin_char (to_bin n t).
Proof.
  intros Hwf. unfold to_bin. apply Forall_concat. apply Forall_forall. intros cs Hcs.
  apply in_map_iff in Hcs. destruct Hcs as (w & <- & Hin). apply in_rev in Hin.
  destruct (wf_word_bounds n t w Hwf Hin) as (H1 & _).
  eapply Forall_impl; [|apply (pad_radix_chars 2 (bin_width n) w ltac:(lia) H1)].
  cbv beta. intros c (d & Hd & ->). apply digit_char_bin. exact Hd.
Qed.

(* ------------------------------------------------------------------ chunks *)
Lemma firstn_app_exact {A} (c r : list A) w : length c = w -> firstn w (c ++ r) = c.
Proof.
  intros <-. rewrite firstn_app, Nat.sub_diag, firstn_all. cbn [firstn]. apply app_nil_r.
Qed.

Lemma skipn_app_exact {A} (c r : list A) w : length c = w -> skipn w (c ++ r) = r.
Proof. intros <-. rewrite skipn_app, Nat.sub_diag, skipn_all. reflexivity. Qed.

Lemma skipn_skipn {A} a b (s : list A) : skipn a (skipn b s) = skipn (b + a) s.
Proof.
  revert s. induction b as [|b IH]; intro s; [reflexivity|].
  destruct s as [|x s]; [rewrite !skipn_nil; reflexivity|]. cbn [skipn Nat.add]. apply IH.
Qed.

Lemma chunks_length w k s : length (chunks w k s) = k.
Proof. revert s. induction k as [|k IH]; intro s; cbn [chunks length]; [reflexivity|]. rewrite IH. reflexivity. Qed.

Lemma chunks_concat w (l : list (list N)) :
  Forall (fun c => length c = w) l -> chunks w (length l) (concat l) = l.
Proof.
  induction 1 as [|c l Hc _ IH]; [reflexivity|].
  cbn [length chunks concat]. rewrite firstn_app_exact, skipn_app_exact by exact Hc. rewrite IH. reflexivity.
Qed.

Lemma concat_chunks w k s : length s = (w * k)%nat -> concat (chunks w k s) = s.
Proof.
  revert s. induction k as [|k IH]; intros s H.
  - cbn [chunks concat]. destruct s; [reflexivity|]. cbn [length] in H. lia.
  - cbn [chunks concat]. rewrite IH; [apply firstn_skipn|]. rewrite skipn_length. lia.
Qed.

Lemma chunks_widths w k s : length s = (w * k)%nat -> Forall (fun c => length c = w) (chunks w k s).
Proof.
  revert s. induction k as [|k IH]; intros s H; cbn [chunks]; constructor.
  - rewrite firstn_length. lia.
  - apply IH. rewrite skipn_length. lia.
Qed.

Lemma chunks_widths_le w k s : Forall (fun c => (length c <= w)%nat) (chunks w k s).
Proof.
  revert s. induction k as [|k IH]; intros s; cbn [chunks]; constructor; [apply firstn_le_length|apply IH].
Qed.

(* chunk i is the slice s[i*w .. (i+1)*w] *)
Lemma nth_chunks w k s i : (i < k)%nat -> nth i (chunks w k s) [] = firstn w (skipn (i * w) s).
Proof.
  revert s i. induction k as [|k IH]; intros s i Hi; [lia|].
  destruct i as [|i]; cbn [chunks nth]; [reflexivity|].
  rewrite IH by lia. rewrite skipn_skipn. reflexivity.
Qed.

Lemma forallb_firstn {A} (p : A -> bool) k s : forallb p s = true -> forallb p (firstn k s) = true.
Proof.
  intros H. rewrite <- (firstn_skipn k s), forallb_app in H. apply andb_true_iff in H. apply H.
Qed.

Lemma forallb_skipn {A} (p : A -> bool) k s : forallb p s = true -> forallb p (skipn k s) = true.
Proof.
  intros H. rewrite <- (firstn_skipn k s), forallb_app in H. apply andb_true_iff in H. apply H.
Qed.

Lemma chunks_forallb (p : N -> bool) w k s :
  forallb p s = true -> Forall (fun c => forallb p c = true) (chunks w k s).
Proof.
  revert s. induction k as [|k IH]; intros s H; cbn [chunks]; constructor.
  - apply forallb_firstn. exact H.
  - apply IH. apply forallb_skipn. exact H.
Qed.

Lemma all_some_map {A B} (f : A -> option B) (d : B) l :
  Forall (fun x => f x <> None) l ->
  all_some (map f l) = Some (map (fun x => match f x with Some v => v | None => d end) l).
Proof.
  induction 1 as [|x l Hx _ IH]; [reflexivity|].
  cbn [map all_some]. destruct (f x) as [v|]; [|congruence]. rewrite IH. reflexivity.
Qed.

Lemma forallb_ext_in {A} (p q : A -> bool) l : (forall x, In x l -> p x = q x) -> forallb p l = forallb q l.
Proof.
  induction l as [|x l IH]; intros H; [reflexivity|]. cbn [forallb].
  rewrite H by (left; reflexivity). rewrite IH by (intros; apply H; right; assumption). reflexivity.
Qed.

(* ------------------------------------------------------------------ fill_hex / from_hex_string *)
Definition hexnum (s : list N) : option N := parse_hex s 0.
Definition hexnum0 (s : list N) : N := match parse_hex s 0 with Some v => v | None => 0 end.

(* chunk i from the left (i = 0 is the most significant word) and the values of the chunks *)
Definition hex_chunks (n : nat) (s : list N) : list (list N) := chunks (hex_str_size n) (table_size n) s.
Definition hex_chunk (n : nat) (s : list N) (i : nat) : list N := nth i (hex_chunks n s) [].
Definition chunk_values (n : nat) (s : list N) : list N := map hexnum0 (hex_chunks n s).

(* the well-formed input strings of from_hex_string *)
Definition hex_wellformed (n : nat) (s : list N) : Prop :=
  length s = total_hex_width n /\
  Forall (fun b => is_hex_digit b = true) s /\
  Forall (fun v => v < 2 ^ word_bits n) (chunk_values n s).

Definition hex_ok (n : nat) (s : list N) : bool :=
  forallb is_hex_digit s && Nat.eqb (length s) (total_hex_width n) &&
  forallb (fun v => v <? 2 ^ word_bits n) (chunk_values n s).

Lemma hex_ok_wellformed n s : hex_ok n s = true <-> hex_wellformed n s.
Proof.
  unfold hex_ok, hex_wellformed. rewrite !andb_true_iff, Nat.eqb_eq, !forallb_forall, !Forall_forall.
  split.
  - intros [[H1 H2] H3]. repeat split; auto. intros v Hv. apply N.ltb_lt. auto.
  - intros (H1 & H2 & H3). repeat split; auto. intros v Hv. apply N.ltb_lt. auto.
Qed.

(* the mask test of fill_hex on a 64-bit value *)
Lemma mask_check n v : v < 2 ^ 64 -> (N.land v (not64 (num_vars_mask n)) =? 0) = (v <? 2 ^ word_bits n).
Proof.
  intros Hv. pose proof (word_bits_le n) as Hwb.
  destruct (N.ltb_spec v (2 ^ word_bits n)) as [L|L].
  - apply N.eqb_eq. apply N.bits_inj_0. intro p. rewrite N.land_spec, not64_spec, nvmask_testbit.
    destruct (N.ltb_spec p (word_bits n)) as [Hp|Hp].
    + destruct (N.ltb_spec p 64); [|lia]. apply andb_false_r.
    + rewrite (testbit_lt_pow2 v (word_bits n) p L Hp). reflexivity.
  - apply N.eqb_neq. intros E. apply N.le_ngt in L. apply L. apply lt_pow2_of_bits. intros p Hp.
    assert (Hb : N.testbit (N.land v (not64 (num_vars_mask n))) p = false) by (rewrite E; apply N.bits_0).
    rewrite N.land_spec, not64_spec, nvmask_testbit in Hb.
    destruct (N.ltb_spec p (word_bits n)); [lia|].
    destruct (N.ltb_spec p 64) as [H64|H64].
    + cbn [xorb] in Hb. rewrite andb_true_r in Hb. exact Hb.
    + apply (testbit_lt_pow2 v 64 p Hv H64).
Qed.

Lemma D_zero_eq n : D_zero n = Ok (mkLut n (repeat 0 (table_size n))).
Proof.
  unfold D_zero, with_tbl, fill_zero, chk_len, lut_new. cbn [tbl nv].
  rewrite repeat_length, Nat.eqb_refl. cbn [dbg bind]. rewrite map_repeat. reflexivity.
Qed.

Lemma chunk_value_lt64 n s v : In v (chunk_values n s) -> v < 2 ^ 64.
Proof.
  unfold chunk_values. intros Hin. apply in_map_iff in Hin. destruct Hin as (c & <- & Hc).
  pose proof (chunks_widths_le (hex_str_size n) (table_size n) s) as Hw. rewrite Forall_forall in Hw.
  specialize (Hw c Hc). cbv beta in Hw. unfold hexnum0. destruct (parse_hex c 0) as [v|] eqn:E.
  - apply parse_hex_lt in E. rewrite N.add_0_l, N.mul_1_l in E.
    eapply N.lt_le_trans; [exact E|]. change (2 ^ 64) with (16 ^ 16).
    apply N.pow_le_mono_r; [lia|]. pose proof (hex_str_size_range n). lia.
  - reflexivity.
Qed.

(* closed form of the parser *)
Lemma from_hex_eq n s :
  D_from_hex_string n s =
  if hex_ok n s then Ok (Some (mkLut n (rev (chunk_values n s)))) else Ok None.
Proof.
  unfold D_from_hex_string. rewrite D_zero_eq. cbn [bind tbl]. unfold fill_hex, chk_len.
  rewrite repeat_length, Nat.eqb_refl. cbn [dbg bind]. unfold hex_ok.
  destruct (forallb is_hex_digit s) eqn:Hd; cbn [negb andb]; [|reflexivity].
  change (hex_str_size n * table_size n)%nat with (total_hex_width n).
  destruct (Nat.eqb (length s) (total_hex_width n)) eqn:Hl; cbn [negb andb]; [|reflexivity].
  rewrite (all_some_map _ 0).
  - change (map _ (chunks (hex_str_size n) (table_size n) s)) with (chunk_values n s).
    rewrite (forallb_ext_in _ (fun v => v <? 2 ^ word_bits n)).
    + destruct (forallb _ (chunk_values n s)); reflexivity.
    + intros v Hv. apply mask_check. apply (chunk_value_lt64 n s v Hv).
  - eapply Forall_impl; [|apply (chunks_forallb is_hex_digit _ _ _ Hd)].
    cbv beta. intros c Hc. destruct (parse_hex_total c 0 Hc) as [v E]. rewrite E. discriminate.
Qed.

(* 8: never a panic *)
Lemma from_hex_total n s : exists r, D_from_hex_string n s = Ok r.
Proof. rewrite from_hex_eq. destruct (hex_ok n s); eexists; reflexivity. Qed.

(* 9: accepted exactly on well-formed input *)
Lemma from_hex_accepts n s : (exists l, D_from_hex_string n s = Ok (Some l)) <-> hex_wellformed n s.
Proof.
  rewrite from_hex_eq, <- hex_ok_wellformed. destruct (hex_ok n s); split.
  - reflexivity.
  - intros _. eexists; reflexivity.
  - intros [l H]. discriminate.
  - discriminate.
Qed.

Lemma from_hex_rejects n s : D_from_hex_string n s = Ok None <-> ~ hex_wellformed n s.
Proof.
  rewrite from_hex_eq, <- hex_ok_wellformed. destruct (hex_ok n s); split; try discriminate; try reflexivity.
  intros H. exfalso. apply H. reflexivity.
Qed.

Lemma chunk_values_length n s : length (chunk_values n s) = table_size n.
Proof. unfold chunk_values, hex_chunks. rewrite map_length. apply chunks_length. Qed.

Lemma from_hex_accepted n s l :
  D_from_hex_string n s = Ok (Some l) ->
  hex_wellformed n s /\ nv l = n /\ wf n (tbl l) /\ tbl l = rev (chunk_values n s).
Proof.
  intros H. assert (Hw : hex_wellformed n s) by (apply from_hex_accepts; eexists; exact H).
  split; [exact Hw|]. rewrite from_hex_eq in H. apply hex_ok_wellformed in Hw. rewrite Hw in H.
  injection H as <-. cbn [nv tbl]. split; [reflexivity|]. split; [|reflexivity].
  apply hex_ok_wellformed in Hw. destruct Hw as (_ & _ & H3). split.
  - rewrite rev_length. apply chunk_values_length.
  - apply Forall_rev. exact H3.
Qed.

(* the third condition only matters below 2 variables *)
Lemma chunk_values_fit n s :
  (2 <= n)%nat -> length s = total_hex_width n -> Forall (fun v => v < 2 ^ word_bits n) (chunk_values n s).
Proof.
  intros Hn Hl. apply Forall_forall. intros v Hin. unfold chunk_values in Hin.
  apply in_map_iff in Hin. destruct Hin as (c & <- & Hc).
  pose proof (chunks_widths (hex_str_size n) (table_size n) s Hl) as Hw. rewrite Forall_forall in Hw.
  specialize (Hw c Hc). cbv beta in Hw. unfold hexnum0. destruct (parse_hex c 0) as [v|] eqn:E.
  - apply parse_hex_lt in E. rewrite N.add_0_l, N.mul_1_l, Hw in E. rewrite <- hex_width_exact by exact Hn. exact E.
  - apply N.neq_0_lt_0, N.pow_nonzero. lia.
Qed.

Lemma from_hex_accepts_large n s :
  (2 <= n)%nat ->
  ((exists l, D_from_hex_string n s = Ok (Some l)) <->
   length s = total_hex_width n /\ Forall (fun b => is_hex_digit b = true) s).
Proof.
  intros Hn. rewrite from_hex_accepts. unfold hex_wellformed. split.
  - intros (H1 & H2 & _). auto.
  - intros (H1 & H2). repeat split; auto. apply chunk_values_fit; assumption.
Qed.

Lemma from_hex_accepts_small n s :
  (n < 2)%nat ->
  ((exists l, D_from_hex_string n s = Ok (Some l)) <->
   exists b d, s = [b] /\ hexval b = Some d /\ d < 2 ^ 2 ^ N.of_nat n).
Proof.
  intros Hn. rewrite from_hex_accepts. unfold hex_wellformed.
  destruct (hex_width_bits_small n Hn) as (Ew & Eb & _).
  assert (Et : table_size n = 1%nat) by (apply table_size_small; lia).
  unfold total_hex_width, chunk_values, hex_chunks. rewrite Ew, Et, Eb. cbn [Nat.mul Nat.add chunks map].
  split.
  - intros (H1 & H2 & H3). destruct s as [|b [|b' s]]; cbn [length] in H1; try lia.
    apply Forall_inv in H2. apply Forall_inv in H3. cbn [firstn] in H3. unfold hexnum0 in H3.
    cbn [parse_hex] in H3. unfold is_hex_digit in H2. destruct (hexval b) as [d|] eqn:E; [|discriminate].
    exists b, d. split; [reflexivity|]. split; [exact E|]. rewrite N.mul_0_l, N.add_0_l in H3. exact H3.
  - intros (b & d & -> & Hb & Hd). repeat split.
    + constructor; [|constructor]. unfold is_hex_digit. rewrite Hb. reflexivity.
    + constructor; [|constructor]. cbn [firstn]. unfold hexnum0. cbn [parse_hex]. rewrite Hb.
      rewrite N.mul_0_l, N.add_0_l. exact Hd.
Qed.

(* 10: the accepted table denotes the string, chunk i from the left is word table_size-1-i *)
Lemma hex_chunk_slice n s i :
  (i < table_size n)%nat -> hex_chunk n s i = firstn (hex_str_size n) (skipn (i * hex_str_size n) s).
Proof. intros Hi. unfold hex_chunk, hex_chunks. apply nth_chunks. exact Hi. Qed.

Lemma from_hex_value n s l i :
  D_from_hex_string n s = Ok (Some l) -> (i < table_size n)%nat ->
  hexnum (hex_chunk n s i) = Some (nthN (tbl l) (table_size n - 1 - i)).
Proof.
  intros H Hi. destruct (from_hex_accepted n s l H) as ((_ & Hd & _) & _ & _ & Et).
  rewrite Et. unfold nthN. rewrite rev_nth by (rewrite chunk_values_length; lia).
  rewrite chunk_values_length. replace (table_size n - S (table_size n - 1 - i))%nat with i by lia.
  unfold chunk_values. change 0 with (hexnum0 []). rewrite map_nth. fold (hex_chunk n s i).
  assert (Hc : forallb is_hex_digit (hex_chunk n s i) = true).
  { assert (Hs : forallb is_hex_digit s = true) by (apply forallb_forall; rewrite Forall_forall in Hd; exact Hd).
    pose proof (chunks_forallb is_hex_digit (hex_str_size n) (table_size n) s Hs) as Hall.
    rewrite Forall_forall in Hall. apply Hall. unfold hex_chunk, hex_chunks. apply nth_In.
    rewrite chunks_length. exact Hi. }
  unfold hexnum, hexnum0. destruct (parse_hex_total _ 0 Hc) as [v E]. rewrite E. reflexivity.
Qed.

(* 12: rejections *)
Lemma from_hex_rejects_char n s b : In b s -> is_hex_digit b = false -> D_from_hex_string n s = Ok None.
Proof.
  intros Hin Hb. apply from_hex_rejects. intros (_ & H & _). rewrite Forall_forall in H.
  rewrite (H b Hin) in Hb. discriminate.
Qed.

Lemma from_hex_rejects_length n s : length s <> total_hex_width n -> D_from_hex_string n s = Ok None.
Proof. intros Hl. apply from_hex_rejects. intros (H & _). contradiction. Qed.

Lemma not_hex_digit_examples :
  is_hex_digit 43 = false /\ is_hex_digit 45 = false /\ is_hex_digit 32 = false /\
  is_hex_digit 103 = false /\ is_hex_digit 120 = false /\ is_hex_digit 71 = false /\
  is_hex_digit 47 = false /\ is_hex_digit 58 = false /\ is_hex_digit 64 = false /\ is_hex_digit 96 = false /\
  forall b, 128 <= b -> is_hex_digit b = false.
Proof.
  repeat (split; [reflexivity|]). intros b Hb. destruct (is_hex_digit b) eqn:E; [|reflexivity].
  apply is_hex_digit_iff in E. lia.
Qed.

(* 11: printing then parsing is the identity *)
Lemma from_hex_to_hex n t : wf n t -> D_from_hex_string n (to_hex n t) = Ok (Some (mkLut n t)).
Proof.
  intros Hwf. rewrite from_hex_eq.
  assert (Hcv : chunk_values n (to_hex n t) = rev t).
  { unfold chunk_values, hex_chunks, to_hex.
    replace (table_size n) with (length (map (pad_radix 16 (hex_str_size n)) (rev t)))
      by (rewrite map_length, rev_length; apply (wf_length n t Hwf)).
    rewrite chunks_concat.
    - rewrite map_map. rewrite <- (map_id (rev t)) at 2. apply map_ext_in. intros w Hin.
      apply in_rev in Hin. destruct (wf_word_bounds n t w Hwf Hin) as (H1 & _).
      unfold hexnum0. rewrite pad_radix_value by exact H1. reflexivity.
    - apply Forall_forall. intros c Hc. apply in_map_iff in Hc. destruct Hc as (w & <- & Hin).
      rewrite (to_hex_words n t Hwf w Hin), map_length. apply digs_length. }
  assert (Hok : hex_ok n (to_hex n t) = true).
  { apply hex_ok_wellformed. split; [|split].
    - apply to_hex_width. exact Hwf.
    - eapply Forall_impl; [|apply (to_hex_chars n t Hwf)]. apply lower_hex_is_hex_digit.
    - rewrite Hcv. apply Forall_rev. apply Hwf. }
  rewrite Hok, Hcv, rev_involutive. reflexivity.
Qed.

(* ------------------------------------------------------------------ Display / LowerHex / Binary *)
Lemma display_eq l :
  D_display l =
  [76; 117; 116] ++ map digit_char (digits 10 (N.of_nat (nv l))) ++ [40] ++ D_to_hex_string l ++ [41].
Proof. reflexivity. Qed.

Lemma lowerhex_eq l : D_lowerhex l = D_display l.
Proof. reflexivity. Qed.

Lemma binary_eq l :
  D_binary l =
  [76; 117; 116] ++ map digit_char (digits 10 (N.of_nat (nv l))) ++ [40] ++ D_to_bin_string l ++ [41].
Proof. reflexivity. Qed.

Lemma fold_decimal_chars ds a :
  Forall (fun d => d < 10) ds ->
  fold_left (fun acc c => acc * 10 + (c - 48)) (map digit_char ds) a = fold_left (fun acc d => acc * 10 + d) ds a.
Proof.
  intros H. revert a. induction H as [|d ds Hd _ IH]; intro a; [reflexivity|].
  cbn [map fold_left]. rewrite IH. rewrite digit_char_small by exact Hd. f_equal. lia.
Qed.

(* the decimal part: canonical decimal digits of the number of variables *)
Lemma decimal_spec x :
  x < 2 ^ 64 ->
  Forall (fun c => 48 <= c <= 57) (map digit_char (digits 10 x)) /\
  fold_left (fun acc c => acc * 10 + (c - 48)) (map digit_char (digits 10 x)) 0 = x /\
  (x <> 0 -> hd 0 (map digit_char (digits 10 x)) <> 48) /\
  (x = 0 -> map digit_char (digits 10 x) = [48]).
Proof.
  intros Hx. destruct (digits_spec 10 x ltac:(lia) Hx) as (Hne & Hlt & H0 & Hhd & Hval & _).
  split; [|split; [|split]].
  - apply Forall_forall. intros c Hc. apply in_map_iff in Hc. destruct Hc as (d & <- & Hd).
    rewrite Forall_forall in Hlt. specialize (Hlt d Hd). cbv beta in Hlt. rewrite digit_char_small by exact Hlt. lia.
  - rewrite fold_decimal_chars by exact Hlt. exact Hval.
  - intros E. specialize (Hhd E). destruct (digits 10 x) as [|d ds]; [congruence|]. cbn [map hd] in *.
    apply Forall_inv in Hlt. rewrite digit_char_small by exact Hlt. lia.
  - intros E. rewrite (H0 E). reflexivity.
Qed.

(* ------------------------------------------------------------------ exactness of the binary form *)
Lemma nth_concat_uniform {A} (l : list (list A)) w d i j :
  Forall (fun c => length c = w) l -> (i < length l)%nat -> (j < w)%nat ->
  nth (i * w + j) (concat l) d = nth j (nth i l []) d.
Proof.
  intros H. revert i. induction H as [|c l Hc _ IH]; intros i Hi Hj; cbn [length] in Hi; [lia|].
  cbn [concat]. destruct i as [|i]; cbn [nth].
  - apply app_nth1. lia.
  - rewrite app_nth2 by lia. replace (S i * w + j - length c)%nat with (i * w + j)%nat by lia.
    apply IH; lia.
Qed.

Lemma nth_map_rev (f : N -> list N) (t : list N) i :
  (i < length t)%nat -> nth i (map f (rev t)) [] = f (nthN t (length t - 1 - i)).
Proof.
  intros Hi. rewrite (nth_indep _ [] (f 0)) by (rewrite map_length, rev_length; exact Hi).
  rewrite map_nth. unfold nthN. rewrite rev_nth by exact Hi. f_equal. f_equal. lia.
Qed.

Lemma val_split t q r : r < 64 -> val t (64 * N.of_nat q + r) = N.testbit (nthN t q) r.
Proof.
  intros Hr. unfold val.
  rewrite <- (N.div_unique (64 * N.of_nat q + r) 64 (N.of_nat q) r Hr eq_refl).
  rewrite <- (N.mod_unique (64 * N.of_nat q + r) 64 (N.of_nat q) r Hr eq_refl).
  rewrite Nat2N.id. reflexivity.
Qed.

(* position i*bw + j of the binary form is bit bw-1-j of word T-1-i *)
Lemma to_bin_bits_ij n t i j :
  wf n t -> (i < table_size n)%nat -> (j < bin_width n)%nat ->
  nth (i * bin_width n + j) (to_bin n t) 0 =
  48 + N.b2n (N.testbit (nthN t (table_size n - 1 - i)) (N.of_nat (bin_width n - 1 - j))).
Proof.
  intros Hwf Hi Hj. unfold to_bin. pose proof (wf_length n t Hwf) as Hlen.
  rewrite nth_concat_uniform.
  - rewrite nth_map_rev by lia. rewrite Hlen.
    destruct (wf_word_bounds n t (nthN t (table_size n - 1 - i)) Hwf) as (H1 & _ & H3).
    { apply nthN_In. lia. }
    rewrite pad_radix_nth by (assumption || lia).
    rewrite N.testbit_spec'. apply digit_char_small.
    eapply N.lt_trans; [apply N.mod_lt; lia|lia].
  - apply Forall_forall. intros c Hc. apply in_map_iff in Hc. destruct Hc as (w & <- & Hin).
    rewrite (to_bin_words n t Hwf w Hin), map_length. apply digs_length.
  - rewrite map_length, rev_length. lia.
  - exact Hj.
Qed.

(* 5: character k from the left is the value of the function on assignment 2^n - 1 - k *)
Lemma to_bin_bits n t k :
  wf n t -> (k < 2 ^ n)%nat ->
  nth k (to_bin n t) 0 = 48 + (if val t (N.of_nat (2 ^ n - 1 - k)) then 1 else 0).
Proof.
  intros Hwf Hk. pose proof (bin_width_range n) as Hbw. pose proof (total_bin_width_eq n) as Htot.
  set (bw := bin_width n) in *. set (T := table_size n) in *.
  pose proof (Nat.div_mod k bw ltac:(lia)) as Hdm.
  pose proof (Nat.mod_upper_bound k bw ltac:(lia)) as Hj.
  assert (Hi : (k / bw < T)%nat) by (apply Nat.div_lt_upper_bound; lia).
  revert Hdm Hj Hi. generalize (k / bw)%nat (k mod bw)%nat. intros i j Hdm Hj Hi.
  assert (Hv : val t (N.of_nat (2 ^ n - 1 - k)) = N.testbit (nthN t (T - 1 - i)) (N.of_nat (bw - 1 - j))).
  { replace (N.of_nat (2 ^ n - 1 - k)) with (64 * N.of_nat (T - 1 - i) + N.of_nat (bw - 1 - j)).
    - apply val_split. lia.
    - rewrite <- Htot. destruct (Nat.le_gt_cases 6 n) as [L|L].
      + assert (E : bw = 64%nat) by (apply bin_width_big; exact L). rewrite E in *. nia.
      + assert (E : T = 1%nat) by (apply table_size_small; lia). rewrite E in *.
        assert (i = 0)%nat by lia. subst i. lia. }
  rewrite Hv. rewrite Hdm at 1. rewrite (Nat.mul_comm bw i). unfold bw, T.
  rewrite to_bin_bits_ij by assumption. reflexivity.
Qed.

(* ------------------------------------------------------------------ exactness of the hexadecimal form *)
(* the four table bits 4p .. 4p+3 as a number *)
Definition nibble (t : list N) (p : N) : N :=
  N.b2n (val t (4 * p)) + 2 * N.b2n (val t (4 * p + 1)) +
  4 * N.b2n (val t (4 * p + 2)) + 8 * N.b2n (val t (4 * p + 3)).

Lemma mod16_bits y :
  y mod 16 = N.b2n (N.testbit y 0) + 2 * N.b2n (N.testbit y 1) +
             4 * N.b2n (N.testbit y 2) + 8 * N.b2n (N.testbit y 3).
Proof.
  rewrite !N.testbit_spec'. change (2 ^ 0) with 1. change (2 ^ 1) with 2. change (2 ^ 2) with 4.
  change (2 ^ 3) with 8. rewrite N.div_1_r.
  replace (y / 4) with (y / 2 / 2) by (rewrite N.div_div by lia; reflexivity).
  replace (y / 8) with (y / 2 / 2 / 2) by (rewrite !N.div_div by lia; reflexivity).
  pose proof (N.div_mod' y 2) as E0. pose proof (N.mod_lt y 2 ltac:(lia)) as L0.
  pose proof (N.div_mod' (y / 2) 2) as E1. pose proof (N.mod_lt (y / 2) 2 ltac:(lia)) as L1.
  pose proof (N.div_mod' (y / 2 / 2) 2) as E2. pose proof (N.mod_lt (y / 2 / 2) 2 ltac:(lia)) as L2.
  pose proof (N.div_mod' (y / 2 / 2 / 2) 2) as E3. pose proof (N.mod_lt (y / 2 / 2 / 2) 2 ltac:(lia)) as L3.
  symmetry. apply (N.mod_unique y 16 (y / 2 / 2 / 2 / 2)).
  - revert L0 L1 L2 L3. generalize (y mod 2) (y / 2 mod 2) (y / 2 / 2 mod 2) (y / 2 / 2 / 2 mod 2). intros. lia.
  - revert E0 E1 E2 E3 L0 L1 L2 L3.
    generalize (y mod 2) (y / 2 mod 2) (y / 2 / 2 mod 2) (y / 2 / 2 / 2 mod 2) (y / 2 / 2 / 2 / 2).
    intros a0 a1 a2 a3 q. generalize (y / 2 / 2 / 2). intros y3. generalize (y / 2 / 2). intros y2.
    generalize (y / 2). intros y1 E0 E1 E2 E3 L0 L1 L2 L3. lia.
Qed.

Lemma hex_digit_bits w e :
  w / 16 ^ e mod 16 =
  N.b2n (N.testbit w (4 * e)) + 2 * N.b2n (N.testbit w (4 * e + 1)) +
  4 * N.b2n (N.testbit w (4 * e + 2)) + 8 * N.b2n (N.testbit w (4 * e + 3)).
Proof.
  rewrite pow16, mod16_bits, !N.div_pow2_bits. rewrite N.add_0_l, !(N.add_comm _ (4 * e)). reflexivity.
Qed.

(* position i*hw + j of the hexadecimal form is digit hw-1-j of word T-1-i *)
Lemma to_hex_digits_ij n t i j :
  wf n t -> (i < table_size n)%nat -> (j < hex_str_size n)%nat ->
  nth (i * hex_str_size n + j) (to_hex n t) 0 =
  digit_char (nthN t (table_size n - 1 - i) / 16 ^ N.of_nat (hex_str_size n - 1 - j) mod 16).
Proof.
  intros Hwf Hi Hj. unfold to_hex. pose proof (wf_length n t Hwf) as Hlen.
  rewrite nth_concat_uniform.
  - rewrite nth_map_rev by lia. rewrite Hlen.
    destruct (wf_word_bounds n t (nthN t (table_size n - 1 - i)) Hwf) as (H1 & H2 & _).
    { apply nthN_In. lia. }
    apply pad_radix_nth; assumption || lia.
  - apply Forall_forall. intros c Hc. apply in_map_iff in Hc. destruct Hc as (w & <- & Hin).
    rewrite (to_hex_words n t Hwf w Hin), map_length. apply digs_length.
  - rewrite map_length, rev_length. lia.
  - exact Hj.
Qed.

(* 6: digit k from the left is the nibble of table bits 4(W-1-k) .. 4(W-1-k)+3 *)
Lemma to_hex_digits n t k :
  wf n t -> (k < total_hex_width n)%nat ->
  nth k (to_hex n t) 0 = digit_char (nibble t (N.of_nat (total_hex_width n - 1 - k))).
Proof.
  intros Hwf Hk. pose proof (hex_str_size_range n) as Hhw. unfold total_hex_width in *.
  set (hw := hex_str_size n) in *. set (T := table_size n) in *.
  pose proof (Nat.div_mod k hw ltac:(lia)) as Hdm.
  pose proof (Nat.mod_upper_bound k hw ltac:(lia)) as Hj.
  assert (Hi : (k / hw < T)%nat) by (apply Nat.div_lt_upper_bound; lia).
  revert Hdm Hj Hi. generalize (k / hw)%nat (k mod hw)%nat. intros i j Hdm Hj Hi.
  assert (Hv : forall b, b < 4 ->
            val t (4 * N.of_nat (hw * T - 1 - k) + b) =
            N.testbit (nthN t (T - 1 - i)) (4 * N.of_nat (hw - 1 - j) + b)).
  { intros b Hb.
    replace (4 * N.of_nat (hw * T - 1 - k) + b)
      with (64 * N.of_nat (T - 1 - i) + (4 * N.of_nat (hw - 1 - j) + b)).
    - apply val_split. lia.
    - destruct (Nat.le_gt_cases 6 n) as [L|L].
      + assert (E : hw = 16%nat) by (apply hex_str_size_big; exact L). rewrite E in *. nia.
      + assert (E : T = 1%nat) by (apply table_size_small; lia). rewrite E in *.
        assert (i = 0)%nat by lia. subst i. lia. }
  unfold nibble. rewrite <- (N.add_0_r (4 * N.of_nat (hw * T - 1 - k))) at 1.
  rewrite !Hv by lia. rewrite N.add_0_r. rewrite <- hex_digit_bits.
  rewrite Hdm at 1. rewrite (Nat.mul_comm hw i). unfold hw, T.
  apply to_hex_digits_ij; assumption.
Qed.

(* ------------------------------------------------------------------ the table as one number *)
Lemma big_cons w t : big (w :: t) = w + 2 ^ 64 * big t.
Proof. reflexivity. Qed.

Lemma big_testbit t m : Forall (fun w => w < 2 ^ 64) t -> N.testbit (big t) m = val t m.
Proof.
  intros H. revert m. induction H as [|w t Hw _ IH]; intro m.
  - unfold val, nthN. cbn [big fold_right]. rewrite N.bits_0. destruct (N.to_nat (m / 64)); symmetry; apply N.bits_0.
  - rewrite big_cons. rewrite (N.mul_comm (2 ^ 64)), <- N.shiftl_mul_pow2.
    rewrite add_disjoint.
    + rewrite N.lor_spec. destruct (N.lt_ge_cases m 64) as [L|L].
      * rewrite N.shiftl_spec_low by exact L. rewrite orb_false_r.
        unfold val. rewrite N.div_small, N.mod_small by exact L. reflexivity.
      * rewrite (testbit_lt_pow2 w 64 m Hw L). rewrite N.shiftl_spec_high' by exact L. cbn [orb].
        rewrite IH. unfold val, nthN.
        replace m with ((m - 64) + 1 * 64) at 3 4 by lia.
        rewrite N.div_add, N.mod_add by lia.
        replace (N.to_nat ((m - 64) / 64 + 1)) with (S (N.to_nat ((m - 64) / 64))) by lia. reflexivity.
    + apply N.bits_inj_0. intro p. rewrite N.land_spec. destruct (N.lt_ge_cases p 64) as [L|L].
      * rewrite N.shiftl_spec_low by exact L. apply andb_false_r.
      * rewrite (testbit_lt_pow2 w 64 p Hw L). reflexivity.
Qed.

Lemma nibble_big t p : Forall (fun w => w < 2 ^ 64) t -> nibble t p = big t / 16 ^ p mod 16.
Proof. intros H. rewrite hex_digit_bits, !(big_testbit t _ H). reflexivity. Qed.

(* both text forms are the positional notation of [big t] *)
Lemma to_hex_digits_big n t k :
  wf n t -> (k < total_hex_width n)%nat ->
  nth k (to_hex n t) 0 = digit_char (big t / 16 ^ N.of_nat (total_hex_width n - 1 - k) mod 16).
Proof.
  intros Hwf Hk. rewrite to_hex_digits by assumption. rewrite nibble_big; [reflexivity|].
  apply (wf_Forall64 n t Hwf).
Qed.

Lemma to_bin_bits_big n t k :
  wf n t -> (k < 2 ^ n)%nat ->
  nth k (to_bin n t) 0 = digit_char (big t / 2 ^ N.of_nat (2 ^ n - 1 - k) mod 2).
Proof.
  intros Hwf Hk. rewrite to_bin_bits by assumption. rewrite <- N.testbit_spec'.
  rewrite (big_testbit t _ (wf_Forall64 n t Hwf)).
  destruct (val t (N.of_nat (2 ^ n - 1 - k))); reflexivity.
Qed.

(* ------------------------------------------------------------------ the whole string as one number *)
Lemma parse_hex_acc s acc :
  parse_hex s acc =
  match parse_hex s 0 with Some v => Some (acc * 16 ^ N.of_nat (length s) + v) | None => None end.
Proof.
  revert acc. induction s as [|b s IH]; intro acc.
  - cbn [parse_hex length N.of_nat]. rewrite N.pow_0_r. f_equal. lia.
  - cbn [parse_hex length]. destruct (hexval b) as [d|]; [|reflexivity].
    rewrite (IH (acc * 16 + d)), (IH (0 * 16 + d)). destruct (parse_hex s 0) as [v|]; [|reflexivity].
    f_equal. rewrite Nat2N.inj_succ, N.pow_succ_r'. lia.
Qed.

Lemma parse_hex_app s1 s2 acc :
  parse_hex (s1 ++ s2) acc = match parse_hex s1 acc with Some v => parse_hex s2 v | None => None end.
Proof.
  revert acc. induction s1 as [|b s1 IH]; intro acc; [reflexivity|].
  cbn [app parse_hex]. destruct (hexval b); [apply IH|reflexivity].
Qed.

Lemma parse_hex_concat cs hw acc :
  Forall (fun c => length c = hw /\ parse_hex c 0 <> None) cs ->
  parse_hex (concat cs) acc = Some (fold_left (fun a v => a * 16 ^ N.of_nat hw + v) (map hexnum0 cs) acc).
Proof.
  intros H. revert acc. induction H as [|c cs [Hl Hc] _ IH]; intro acc; [reflexivity|].
  cbn [concat map fold_left]. rewrite parse_hex_app, parse_hex_acc. unfold hexnum0 at 2.
  destruct (parse_hex c 0) as [v|]; [|congruence]. rewrite Hl. apply IH.
Qed.

Lemma big_radix n t :
  length t = table_size n -> fold_left (fun a v => a * 16 ^ N.of_nat (hex_str_size n) + v) (rev t) 0 = big t.
Proof.
  intros Hl. rewrite <- fold_left_rev_right, rev_involutive. unfold big.
  destruct (Nat.le_gt_cases 6 n) as [L|L].
  - rewrite hex_str_size_big by exact L. change (16 ^ N.of_nat 16) with (2 ^ 64).
    clear Hl. induction t as [|w t IH]; [reflexivity|]. cbn [fold_right]. rewrite IH. lia.
  - rewrite table_size_small in Hl by lia. destruct t as [|w [|w' t]]; cbn [length] in Hl; try lia.
    cbn [fold_right]. lia.
Qed.

(* the hexadecimal form, read as one hexadecimal number, is the table read as one number *)
Lemma to_hex_value n t : wf n t -> hexnum (to_hex n t) = Some (big t).
Proof.
  intros Hwf. unfold hexnum, to_hex. rewrite (parse_hex_concat _ (hex_str_size n)).
  - rewrite map_map. rewrite (map_ext_in _ (fun w => w)).
    + rewrite map_id. rewrite (big_radix n t (wf_length n t Hwf)). reflexivity.
    + intros w Hin. apply in_rev in Hin. destruct (wf_word_bounds n t w Hwf Hin) as (H1 & _).
      unfold hexnum0. rewrite pad_radix_value by exact H1. reflexivity.
  - apply Forall_forall. intros c Hc. apply in_map_iff in Hc. destruct Hc as (w & <- & Hin). split.
    + rewrite (to_hex_words n t Hwf w Hin), map_length. apply digs_length.
    + apply in_rev in Hin. destruct (wf_word_bounds n t w Hwf Hin) as (H1 & _).
      rewrite pad_radix_value by exact H1. discriminate.
Qed.

(* an accepted string, read as one hexadecimal number, is the resulting table read as one number *)
Lemma from_hex_big n s l : D_from_hex_string n s = Ok (Some l) -> hexnum s = Some (big (tbl l)).
Proof.
  intros H. destruct (from_hex_accepted n s l H) as ((Hlen & Hd & _) & _ & Hwf & Et).
  unfold hexnum. rewrite <- (concat_chunks (hex_str_size n) (table_size n) s Hlen) at 1.
  rewrite (parse_hex_concat _ (hex_str_size n)).
  - fold (hex_chunks n s). fold (chunk_values n s).
    rewrite <- (rev_involutive (chunk_values n s)), <- Et.
    rewrite (big_radix n (tbl l) (wf_length n _ Hwf)). reflexivity.
  - assert (Hs : forallb is_hex_digit s = true) by (apply forallb_forall; rewrite Forall_forall in Hd; exact Hd).
    pose proof (chunks_forallb is_hex_digit (hex_str_size n) (table_size n) s Hs) as H1.
    pose proof (chunks_widths (hex_str_size n) (table_size n) s Hlen) as H2.
    rewrite Forall_forall in *. intros c Hc. split; [apply H2; exact Hc|].
    destruct (parse_hex_total c 0 (H1 c Hc)) as [v E]. rewrite E. discriminate.
Qed.

(* ------------------------------------------------------------------ complements *)
(* a word that does not fit is printed wider than [width] *)
Lemma pad_radix_wider base width x :
  2 <= base -> x < 2 ^ 64 -> base ^ N.of_nat width <= x -> (width < length (pad_radix base width x))%nat.
Proof.
  intros Hb Hx Hw. destruct (digits_digs base x Hb Hx) as (L & HL & Heq & Hlt & _).
  assert (Hp : base ^ N.of_nat width < base ^ N.of_nat L) by lia.
  apply N.pow_lt_mono_r_iff in Hp; [|lia].
  unfold pad_radix. rewrite app_length, repeat_length, Heq, map_length, digs_length. lia.
Qed.

Lemma api_roundtrip l : wf (nv l) (tbl l) -> D_from_hex_string (nv l) (D_to_hex_string l) = Ok (Some l).
Proof. destruct l as [n t]. cbn [nv tbl]. unfold D_to_hex_string. cbn [nv tbl]. apply from_hex_to_hex. Qed.
