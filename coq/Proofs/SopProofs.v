(* C14 - Sop operations preserve meaning and return containment-irredundant covers.
   Section 1 ("cube facts") is self-contained so that it can be merged with the C12 cube lemmas later. *)
From Coq Require Import List NArith Arith Bool Lia Sorted.
From V Require Import Base.Res Gen.Tables Model.Kernels Model.TwoLevel Base.Bits Spec.Bfun Proofs.Wf Proofs.Tabulate.
Import ListNotations.
Open Scope N_scope.

(* ================================================================== vocabulary *)
Definition c32 (c : cube) : Prop := cpos c < 2 ^ 32 /\ cneg c < 2 ^ 32.
Definition canon (c : cube) : Prop := N.land (cpos c) (cneg c) = 0 \/ c = cube_zero.
(* a non-contradictory cube on 32 variables *)
Definition good (c : cube) : Prop := c32 c /\ N.land (cpos c) (cneg c) = 0.

Definition sem (cs : list cube) (m : N) : bool := existsb (fun c => cube_value c m) cs.

Definition irredundant (cs : list cube) : Prop :=
  Forall (fun c => cube_is_zero c = false) cs /\
  NoDup cs /\
  StronglySorted (fun a b => cube_cmp a b = Lt) cs /\
  forall c o, In c cs -> In o cs -> c <> o -> cube_implies c o = false.

(* ================================================================== 1. cube facts *)
Section CubeFacts.

Lemma ones32_ones : ones32 = N.ones 32.
Proof. reflexivity. Qed.

Lemma ones32_spec p : N.testbit ones32 p = (p <? 32).
Proof.
  rewrite ones32_ones. destruct (N.ltb_spec p 32).
  - apply N.ones_spec_low; assumption.
  - apply N.ones_spec_high; assumption.
Qed.

Lemma wrap32_spec x p : N.testbit (wrap32 x) p = N.testbit x p && (p <? 32).
Proof. unfold wrap32. rewrite N.land_spec, ones32_spec. reflexivity. Qed.

Lemma not32_spec x p : N.testbit (not32 x) p = xorb (N.testbit x p) (p <? 32).
Proof. unfold not32. rewrite N.lxor_spec, ones32_spec. reflexivity. Qed.

Lemma bit_true_lt32 x p : x < 2 ^ 32 -> N.testbit x p = true -> p < 32.
Proof.
  intros Hx Hp. destruct (N.lt_ge_cases p 32) as [L|L]; [exact L|].
  rewrite (testbit_lt_pow2 x 32 p Hx L) in Hp. discriminate.
Qed.

Lemma good_c32 c : good c -> c32 c.
Proof. intros [H _]; exact H. Qed.

Lemma Forall_good_c32 cs : Forall good cs -> Forall c32 cs.
Proof. apply Forall_impl. exact good_c32. Qed.

Lemma cube_zero_c32 : c32 cube_zero.
Proof. split; vm_compute; reflexivity. Qed.

Lemma cube_one_c32 : c32 cube_one.
Proof. split; vm_compute; reflexivity. Qed.

(* one half of cube_value *)
Lemma lit_half x y : x < 2 ^ 32 ->
  (N.lor (N.land x y) (not32 x) = ones32 <-> forall p, N.testbit x p = true -> N.testbit y p = true).
Proof.
  intros Hx. split.
  - intros H p Hp. pose proof (bit_true_lt32 x p Hx Hp) as L.
    apply (f_equal (fun z => N.testbit z p)) in H. cbv beta in H.
    rewrite N.lor_spec, N.land_spec, not32_spec, ones32_spec, Hp in H.
    apply N.ltb_lt in L. rewrite L in H. cbn [andb xorb orb] in H.
    rewrite orb_false_r in H. exact H.
  - intros H. apply N.bits_inj. intro p.
    rewrite N.lor_spec, N.land_spec, not32_spec, ones32_spec.
    destruct (N.testbit x p) eqn:Ex.
    + rewrite (H p Ex).
      pose proof (bit_true_lt32 x p Hx Ex) as L. apply N.ltb_lt in L. rewrite L. reflexivity.
    + destruct (p <? 32); reflexivity.
Qed.

(* the meaning of a cube, bit by bit *)
Lemma cube_value_spec c m : c32 c ->
  (cube_value c m = true <->
   forall p, (N.testbit (cpos c) p = true -> N.testbit m p = true) /\
             (N.testbit (cneg c) p = true -> N.testbit m p = false)).
Proof.
  intros [Hp Hn]. unfold cube_value. cbv zeta.
  rewrite andb_true_iff, !N.eqb_eq, (lit_half _ _ Hp), (lit_half _ _ Hn). split.
  - intros [H1 H2] p. split; intros E.
    + specialize (H1 p E). rewrite wrap32_spec in H1. apply andb_true_iff in H1. tauto.
    + specialize (H2 p E). pose proof (bit_true_lt32 _ p Hn E) as L. apply N.ltb_lt in L.
      rewrite not32_spec, wrap32_spec, L, andb_true_r in H2.
      destruct (N.testbit m p); [discriminate|reflexivity].
  - intros H. split; intros p E.
    + pose proof (bit_true_lt32 _ p Hp E) as L. apply N.ltb_lt in L.
      rewrite wrap32_spec, L, andb_true_r. apply (H p). exact E.
    + pose proof (bit_true_lt32 _ p Hn E) as L. apply N.ltb_lt in L.
      rewrite not32_spec, wrap32_spec, L, andb_true_r. destruct (H p) as [_ H2]. rewrite (H2 E). reflexivity.
Qed.

Lemma lor_absorb_spec a b : N.lor a b = a <-> forall p, N.testbit b p = true -> N.testbit a p = true.
Proof.
  split.
  - intros H p Hb. apply (f_equal (fun z => N.testbit z p)) in H. cbv beta in H.
    rewrite N.lor_spec, Hb, orb_true_r in H. symmetry. exact H.
  - intros H. apply N.bits_inj. intro p. rewrite N.lor_spec.
    destruct (N.testbit b p) eqn:Eb; [rewrite (H p Eb); reflexivity|apply orb_false_r].
Qed.

Lemma cube_implies_spec a b :
  cube_implies a b = true <->
  (forall p, N.testbit (cpos b) p = true -> N.testbit (cpos a) p = true) /\
  (forall p, N.testbit (cneg b) p = true -> N.testbit (cneg a) p = true).
Proof.
  unfold cube_implies. rewrite andb_true_iff, !N.eqb_eq, !lor_absorb_spec. reflexivity.
Qed.

Lemma cube_implies_refl a : cube_implies a a = true.
Proof. apply cube_implies_spec. auto. Qed.

Lemma cube_implies_trans a b c : cube_implies a b = true -> cube_implies b c = true -> cube_implies a c = true.
Proof. rewrite !cube_implies_spec. intros [H1 H2] [H3 H4]. split; auto. Qed.

(* implication of cubes is implication of their meanings *)
Lemma cube_implies_value a b m : c32 a -> c32 b ->
  cube_implies a b = true -> cube_value a m = true -> cube_value b m = true.
Proof.
  intros Ha Hb Hi. rewrite (cube_value_spec a m Ha), (cube_value_spec b m Hb).
  apply cube_implies_spec in Hi. destruct Hi as [H1 H2].
  intros H p. destruct (H p) as [H3 H4]. split; auto.
Qed.

Lemma subset_le a b : (forall p, N.testbit b p = true -> N.testbit a p = true) -> b <= a.
Proof.
  intros H. apply N.ldiff_le. apply N.bits_inj_0. intro p. rewrite N.ldiff_spec.
  destruct (N.testbit b p) eqn:Eb; [rewrite (H p Eb)|]; reflexivity.
Qed.

Lemma cube_implies_le a b : cube_implies a b = true -> cpos b <= cpos a /\ cneg b <= cneg a.
Proof. rewrite cube_implies_spec. intros [H1 H2]. split; apply subset_le; assumption. Qed.

Lemma cube_eqb_eq a b : cube_eqb a b = true <-> a = b.
Proof.
  unfold cube_eqb. rewrite andb_true_iff, !N.eqb_eq. destruct a as [pa na], b as [pb nb]; cbn [cpos cneg].
  split; [intros [-> ->]; reflexivity|intros H; injection H; auto].
Qed.

Lemma cube_eqb_neq a b : cube_eqb a b = false <-> a <> b.
Proof.
  split.
  - intros H E. apply cube_eqb_eq in E. congruence.
  - intros H. destruct (cube_eqb a b) eqn:E; [apply cube_eqb_eq in E; contradiction|reflexivity].
Qed.

(* antisymmetry, with the strict decrease of the measure cpos + cneg *)
Lemma cube_implies_strict a b : cube_implies a b = true -> a <> b -> cpos b + cneg b < cpos a + cneg a.
Proof.
  intros Hi Hne. destruct (cube_implies_le a b Hi) as [H1 H2].
  destruct (N.eq_dec (cpos b) (cpos a)) as [E1|E1]; [|lia].
  destruct (N.eq_dec (cneg b) (cneg a)) as [E2|E2]; [|lia].
  exfalso. apply Hne. destruct a as [pa na], b as [pb nb]; cbn [cpos cneg] in *. congruence.
Qed.

Lemma cube_implies_antisym a b : cube_implies a b = true -> cube_implies b a = true -> a = b.
Proof.
  intros H1 H2. destruct (cube_implies_le a b H1), (cube_implies_le b a H2).
  destruct a as [pa na], b as [pb nb]; cbn [cpos cneg] in *. f_equal; lia.
Qed.

(* a contradictory cube is false everywhere *)
Lemma cube_is_zero_value c m : c32 c -> cube_is_zero c = true -> cube_value c m = false.
Proof.
  intros Hc Hz. unfold cube_is_zero in Hz. apply negb_true_iff, N.eqb_neq in Hz.
  pose proof (N.bit_log2 _ Hz) as Hb. rewrite N.land_spec in Hb. apply andb_true_iff in Hb.
  destruct Hb as [B1 B2].
  destruct (cube_value c m) eqn:E; [|reflexivity].
  pose proof (proj1 (cube_value_spec c m Hc) E) as E'.
  destruct (E' (N.log2 (N.land (cpos c) (cneg c)))) as [E1 E2].
  rewrite (E1 B1) in E2. specialize (E2 B2). discriminate.
Qed.

Lemma cube_is_zero_false c : cube_is_zero c = false <-> N.land (cpos c) (cneg c) = 0.
Proof. unfold cube_is_zero. rewrite negb_false_iff, N.eqb_eq. reflexivity. Qed.

(* a non-contradictory cube is satisfied by its own positive mask *)
Lemma cube_nonzero_sat c : c32 c -> cube_is_zero c = false -> cube_value c (cpos c) = true.
Proof.
  intros Hc Hz. apply cube_is_zero_false in Hz. apply (cube_value_spec c _ Hc). intro p. split; [auto|].
  intros Hn. apply (f_equal (fun z => N.testbit z p)) in Hz. cbv beta in Hz.
  rewrite N.land_spec, N.bits_0, Hn, andb_true_r in Hz. exact Hz.
Qed.

Lemma cube_zero_value m : cube_value cube_zero m = false.
Proof. apply cube_is_zero_value; [apply cube_zero_c32|vm_compute; reflexivity]. Qed.

Lemma cube_one_value m : cube_value cube_one m = true.
Proof.
  apply (cube_value_spec _ _ cube_one_c32). intro p. cbn [cube_one cpos cneg]. rewrite N.bits_0.
  split; discriminate.
Qed.

Lemma cube_is_one_eq c : cube_is_one c = true -> c = cube_one.
Proof.
  unfold cube_is_one. rewrite andb_true_iff, !N.eqb_eq. destruct c as [pc nc]; cbn [cpos cneg]. intros [-> ->]. reflexivity.
Qed.

Lemma cube_normalize_c32 c : c32 c -> c32 (cube_normalize c).
Proof. intros H. unfold cube_normalize. destruct (cube_is_zero c); [apply cube_zero_c32|exact H]. Qed.

Lemma cube_normalize_value c m : c32 c -> cube_value (cube_normalize c) m = cube_value c m.
Proof.
  intros H. unfold cube_normalize. destruct (cube_is_zero c) eqn:E; [|reflexivity].
  rewrite cube_zero_value, (cube_is_zero_value c m H E). reflexivity.
Qed.

Lemma cube_and_c32 a b : c32 a -> c32 b -> c32 (cube_and a b).
Proof.
  intros [A1 A2] [B1 B2]. unfold cube_and. apply cube_normalize_c32. split; cbn [cpos cneg]; apply lor_lt; assumption.
Qed.

(* cube_and is conjunction *)
Lemma cube_and_value a b m : c32 a -> c32 b ->
  cube_value (cube_and a b) m = cube_value a m && cube_value b m.
Proof.
  intros Ha Hb. unfold cube_and.
  assert (Hc : c32 (mkCube (N.lor (cpos a) (cpos b)) (N.lor (cneg a) (cneg b)))).
  { destruct Ha, Hb. split; cbn [cpos cneg]; apply lor_lt; assumption. }
  rewrite (cube_normalize_value _ m Hc). apply eq_iff_eq_true.
  rewrite andb_true_iff, (cube_value_spec _ m Hc), (cube_value_spec a m Ha), (cube_value_spec b m Hb).
  cbn [cpos cneg]. split.
  - intros H. split; intro p; destruct (H p) as [H1 H2]; rewrite !N.lor_spec in *;
      split; intros E; (apply H1 || apply H2); rewrite E; auto using orb_true_r.
  - intros [H1 H2] p. destruct (H1 p) as [H3 H4]. destruct (H2 p) as [H5 H6]. rewrite !N.lor_spec.
    split; intros E; apply orb_true_iff in E; destruct E; auto.
Qed.

Lemma cube_and_normal a b : cube_eqb (cube_and a b) cube_zero = false -> cube_is_zero (cube_and a b) = false.
Proof.
  unfold cube_and, cube_normalize.
  destruct (cube_is_zero (mkCube (N.lor (cpos a) (cpos b)) (N.lor (cneg a) (cneg b)))) eqn:E.
  - intros H. vm_compute in H. discriminate.
  - intros _. exact E.
Qed.

(* single literals *)
Lemma shiftl1_bit l p : N.testbit (N.shiftl 1 l) p = (l =? p).
Proof. rewrite N.shiftl_1_l. apply N.pow2_bits_eqb. Qed.

Lemma shiftl1_lt32 l : l < 32 -> N.shiftl 1 l < 2 ^ 32.
Proof. intros H. rewrite N.shiftl_1_l. apply N.pow_lt_mono_r; lia. Qed.

Lemma lit_neg_c32 l : l < 32 -> c32 (mkCube 0 (N.shiftl 1 l)).
Proof. intros H. split; cbn [cpos cneg]; [lia|apply shiftl1_lt32; exact H]. Qed.

Lemma lit_pos_c32 l : l < 32 -> c32 (mkCube (N.shiftl 1 l) 0).
Proof. intros H. split; cbn [cpos cneg]; [apply shiftl1_lt32; exact H|lia]. Qed.

Lemma lit_neg_value l m : l < 32 -> cube_value (mkCube 0 (N.shiftl 1 l)) m = negb (N.testbit m l).
Proof.
  intros H. apply eq_iff_eq_true. rewrite (cube_value_spec _ m (lit_neg_c32 l H)). cbn [cpos cneg].
  rewrite negb_true_iff. split.
  - intros E. apply (E l). rewrite shiftl1_bit. apply N.eqb_refl.
  - intros E p. rewrite N.bits_0, shiftl1_bit. split; [discriminate|].
    intros Ep. apply N.eqb_eq in Ep. subst p. exact E.
Qed.

Lemma lit_pos_value l m : l < 32 -> cube_value (mkCube (N.shiftl 1 l) 0) m = N.testbit m l.
Proof.
  intros H. apply eq_iff_eq_true. rewrite (cube_value_spec _ m (lit_pos_c32 l H)). cbn [cpos cneg]. split.
  - intros E. apply (E l). rewrite shiftl1_bit. apply N.eqb_refl.
  - intros E p. rewrite N.bits_0, shiftl1_bit. split; [|discriminate].
    intros Ep. apply N.eqb_eq in Ep. subst p. exact E.
Qed.

Lemma in_bits_of x l : In l (bits_of x) <-> l < 32 /\ N.testbit x l = true.
Proof.
  unfold bits_of. rewrite filter_In, in_map_iff. split.
  - intros [[k [Hk Hin]] Hb]. apply in_seq in Hin. split; [lia|exact Hb].
  - intros [Hl Hb]. split; [|exact Hb]. exists (N.to_nat l). split; [lia|]. apply in_seq. lia.
Qed.

(* order *)
Lemma cube_cmp_lt a b :
  cube_cmp a b = Lt <-> cpos a < cpos b \/ (cpos a = cpos b /\ cneg a < cneg b).
Proof.
  unfold cube_cmp. destruct (N.compare_spec (cpos a) (cpos b)) as [E|L|G].
  - rewrite N.compare_lt_iff. lia.
  - split; [auto|reflexivity].
  - split; [discriminate|lia].
Qed.

Lemma cube_leb_le a b :
  cube_leb a b = true <-> cpos a < cpos b \/ (cpos a = cpos b /\ cneg a <= cneg b).
Proof.
  unfold cube_leb, cube_cmp. destruct (N.compare_spec (cpos a) (cpos b)) as [E|L|G].
  - destruct (N.compare_spec (cneg a) (cneg b)); split; try discriminate; try reflexivity; lia.
  - split; [auto|reflexivity].
  - split; [discriminate|lia].
Qed.

Lemma cube_leb_false a b : cube_leb a b = false -> cube_leb b a = true.
Proof.
  intros H. apply cube_leb_le. destruct (cube_leb a b) eqn:E; [discriminate|].
  assert (N : ~ (cpos a < cpos b \/ (cpos a = cpos b /\ cneg a <= cneg b))).
  { intro K. apply cube_leb_le in K. congruence. }
  lia.
Qed.

Lemma cube_leb_trans a b c : cube_leb a b = true -> cube_leb b c = true -> cube_leb a c = true.
Proof. rewrite !cube_leb_le. lia. Qed.

Lemma cube_leb_neq_lt a b : cube_leb a b = true -> a <> b -> cube_cmp a b = Lt.
Proof.
  rewrite cube_leb_le, cube_cmp_lt. intros H Hne.
  destruct (N.eq_dec (cneg a) (cneg b)) as [E|E]; [|lia].
  destruct H as [H|[H1 H2]]; [auto|]. exfalso. apply Hne. destruct a as [pa na], b as [pb nb]; cbn [cpos cneg] in *. congruence.
Qed.

Lemma cube_lt_leb_trans a b c : cube_cmp a b = Lt -> cube_leb b c = true -> cube_cmp a c = Lt.
Proof. rewrite !cube_cmp_lt, cube_leb_le. lia. Qed.

Lemma cube_cmp_lt_irrefl a : cube_cmp a a <> Lt.
Proof. rewrite cube_cmp_lt. lia. Qed.

End CubeFacts.

(* ================================================================== 2. sort, dedup, simplify *)
Section Simplify.

Lemma sem_true cs m : sem cs m = true <-> exists c, In c cs /\ cube_value c m = true.
Proof. unfold sem. apply existsb_exists. Qed.

Lemma sem_app a b m : sem (a ++ b) m = sem a m || sem b m.
Proof. unfold sem. apply existsb_app. Qed.

(* two covers with the same true cubes have the same meaning *)
Lemma sem_ext a b m :
  (forall c, cube_value c m = true -> (In c a <-> In c b)) -> sem a m = sem b m.
Proof.
  intros H. apply eq_iff_eq_true. rewrite !sem_true.
  split; intros [c [Hin Hv]]; exists c; (split; [apply (H c Hv); exact Hin|exact Hv]).
Qed.

Lemma forallb_false_exists {A} (f : A -> bool) l : forallb f l = false -> exists x, In x l /\ f x = false.
Proof.
  induction l as [|x l IH]; cbn [forallb]; [discriminate|].
  intros H. apply andb_false_iff in H. destruct H as [H|H].
  - exists x. split; [left; reflexivity|exact H].
  - destruct (IH H) as [y [Hy Hf]]. exists y. split; [right; exact Hy|exact Hf].
Qed.

(* ---- insertion sort *)
Lemma In_cube_insert c l x : In x (cube_insert c l) <-> x = c \/ In x l.
Proof.
  induction l as [|y r IH]; cbn [cube_insert].
  - cbn [In]. intuition.
  - destruct (cube_leb c y); cbn [In]; [intuition|]. rewrite IH. intuition.
Qed.

Lemma In_cube_sort l x : In x (cube_sort l) <-> In x l.
Proof.
  unfold cube_sort. induction l as [|y r IH]; cbn [fold_right]; [reflexivity|].
  rewrite In_cube_insert, IH. cbn [In]. intuition.
Qed.

Definition leR (a b : cube) : Prop := cube_leb a b = true.
Definition ltR (a b : cube) : Prop := cube_cmp a b = Lt.

Lemma cube_insert_sorted c l : StronglySorted leR l -> StronglySorted leR (cube_insert c l).
Proof.
  induction l as [|y r IH]; intros Hs; cbn [cube_insert].
  - constructor; constructor.
  - apply StronglySorted_inv in Hs. destruct Hs as [Hr Hy].
    destruct (cube_leb c y) eqn:E.
    + constructor; [constructor; assumption|]. constructor; [exact E|].
      eapply Forall_impl; [|exact Hy]. intros z Hz. unfold leR in *. eapply cube_leb_trans; eassumption.
    + constructor; [apply IH; exact Hr|]. apply Forall_forall. intros z Hz.
      apply In_cube_insert in Hz. destruct Hz as [->|Hz].
      * apply cube_leb_false. exact E.
      * rewrite Forall_forall in Hy. apply Hy. exact Hz.
Qed.

Lemma cube_sort_sorted l : StronglySorted leR (cube_sort l).
Proof.
  unfold cube_sort. induction l as [|y r IH]; cbn [fold_right]; [constructor|].
  apply cube_insert_sorted. exact IH.
Qed.

(* ---- dedup *)
Lemma cube_dedup_cons2 x y r :
  cube_dedup (x :: y :: r) = if cube_eqb x y then cube_dedup (y :: r) else x :: cube_dedup (y :: r).
Proof. reflexivity. Qed.

Lemma In_cube_dedup l x : In x (cube_dedup l) <-> In x l.
Proof.
  induction l as [|a r IH]; [reflexivity|].
  destruct r as [|b r']; [reflexivity|].
  rewrite cube_dedup_cons2. destruct (cube_eqb a b) eqn:E.
  - apply cube_eqb_eq in E. subst b. rewrite IH. cbn [In]. intuition.
  - change (In x (a :: cube_dedup (b :: r'))) with (a = x \/ In x (cube_dedup (b :: r'))).
    rewrite IH. cbn [In]. intuition.
Qed.

Lemma cube_dedup_sorted l : StronglySorted leR l -> StronglySorted ltR (cube_dedup l).
Proof.
  induction l as [|a r IH]; intros Hs; [constructor|].
  destruct r as [|b r']; [constructor; constructor|].
  apply StronglySorted_inv in Hs. destruct Hs as [Hr Ha].
  rewrite cube_dedup_cons2. destruct (cube_eqb a b) eqn:E; [apply IH; exact Hr|].
  constructor; [apply IH; exact Hr|].
  apply Forall_forall. intros z Hz. apply (proj1 (In_cube_dedup _ _)) in Hz. cbn [In] in Hz.
  apply cube_eqb_neq in E.
  assert (Hab : ltR a b).
  { apply cube_leb_neq_lt; [|exact E]. rewrite Forall_forall in Ha. apply Ha. left. reflexivity. }
  destruct Hz as [<-|Hz]; [exact Hab|].
  apply StronglySorted_inv in Hr. destruct Hr as [_ Hb]. rewrite Forall_forall in Hb.
  unfold ltR. eapply cube_lt_leb_trans; [exact Hab|]. apply Hb. exact Hz.
Qed.

(* ---- generic list facts *)
Lemma Forall_filter {A} (P : A -> Prop) f l : Forall P l -> Forall P (filter f l).
Proof.
  rewrite !Forall_forall. intros H x Hx. apply filter_In in Hx. apply H. tauto.
Qed.

Lemma filter_StronglySorted {A} (R : A -> A -> Prop) f l : StronglySorted R l -> StronglySorted R (filter f l).
Proof.
  induction l as [|a r IH]; intros Hs; cbn [filter]; [constructor|].
  apply StronglySorted_inv in Hs. destruct Hs as [Hr Ha].
  destruct (f a); [|apply IH; exact Hr].
  constructor; [apply IH; exact Hr|apply Forall_filter; exact Ha].
Qed.

Lemma ltR_sorted_NoDup l : StronglySorted ltR l -> NoDup l.
Proof.
  induction l as [|a r IH]; intros Hs; [constructor|].
  apply StronglySorted_inv in Hs. destruct Hs as [Hr Ha]. constructor; [|apply IH; exact Hr].
  intros Hin. rewrite Forall_forall in Ha. apply (cube_cmp_lt_irrefl a). apply Ha. exact Hin.
Qed.

(* ---- simplify *)
Definition nzs (cs : list cube) : list cube := filter (fun c => negb (cube_is_zero c)) cs.
Definition dds (cs : list cube) : list cube := cube_dedup (cube_sort (nzs cs)).
Definition keep (l : list cube) (c : cube) : bool :=
  forallb (fun o => cube_eqb c o || negb (cube_implies c o)) l.

Lemma sop_simplify_eq cs : sop_simplify cs = filter (keep (dds cs)) (dds cs).
Proof. reflexivity. Qed.

Lemma In_dds cs c : In c (dds cs) <-> In c cs /\ cube_is_zero c = false.
Proof.
  unfold dds, nzs. rewrite In_cube_dedup, In_cube_sort, filter_In, negb_true_iff. reflexivity.
Qed.

Lemma In_simplify cs c : In c (sop_simplify cs) -> In c cs /\ cube_is_zero c = false.
Proof. rewrite sop_simplify_eq, filter_In, In_dds. tauto. Qed.

Lemma dds_sem cs m : Forall c32 cs -> sem (dds cs) m = sem cs m.
Proof.
  intros Hc. apply sem_ext. intros c Hv. rewrite In_dds. split; [tauto|].
  intros Hin. split; [exact Hin|].
  destruct (cube_is_zero c) eqn:E; [|reflexivity].
  rewrite Forall_forall in Hc. rewrite (cube_is_zero_value c m (Hc c Hin) E) in Hv. discriminate.
Qed.

(* every true cube of l is below a true kept cube: follow the implications, the measure cpos+cneg decreases *)
Lemma keep_chain l m : Forall c32 l ->
  forall (k : nat) c, (N.to_nat (cpos c + cneg c) < k)%nat -> In c l -> cube_value c m = true ->
  exists c', In c' (filter (keep l) l) /\ cube_value c' m = true.
Proof.
  intros Hl. induction k as [|k IH]; intros c Hk Hin Hv; [lia|].
  destruct (keep l c) eqn:Ek.
  - exists c. split; [apply filter_In; split; assumption|exact Hv].
  - unfold keep in Ek. apply forallb_false_exists in Ek. destruct Ek as [o [Ho Hf]].
    apply orb_false_iff in Hf. destruct Hf as [Hne Hi].
    apply cube_eqb_neq in Hne. apply negb_false_iff in Hi.
    rewrite Forall_forall in Hl.
    apply (IH o).
    + pose proof (cube_implies_strict c o Hi Hne). lia.
    + exact Ho.
    + apply (cube_implies_value c o m); auto.
Qed.

Lemma keep_sem l m : Forall c32 l -> sem (filter (keep l) l) m = sem l m.
Proof.
  intros Hl. apply eq_iff_eq_true. rewrite !sem_true. split.
  - intros [c [Hin Hv]]. exists c. apply filter_In in Hin. tauto.
  - intros [c [Hin Hv]]. apply (keep_chain l m Hl (S (N.to_nat (cpos c + cneg c))) c); auto.
Qed.

Lemma dds_c32 cs : Forall c32 cs -> Forall c32 (dds cs).
Proof. rewrite !Forall_forall. intros H c Hc. apply In_dds in Hc. apply H. tauto. Qed.

Lemma simplify_sem cs : Forall c32 cs -> forall m, sem (sop_simplify cs) m = sem cs m.
Proof.
  intros Hc m. rewrite sop_simplify_eq, (keep_sem _ m (dds_c32 cs Hc)). apply dds_sem. exact Hc.
Qed.

(* no hypothesis is needed for irredundancy *)
Lemma simplify_irredundant_gen cs : irredundant (sop_simplify cs).
Proof.
  assert (Hs : StronglySorted ltR (sop_simplify cs)).
  { rewrite sop_simplify_eq. apply filter_StronglySorted. unfold dds. apply cube_dedup_sorted, cube_sort_sorted. }
  split; [|split; [|split]].
  - apply Forall_forall. intros c Hc. apply In_simplify in Hc. tauto.
  - apply ltR_sorted_NoDup. exact Hs.
  - exact Hs.
  - intros c o Hc Ho Hne. rewrite sop_simplify_eq in Hc, Ho. apply filter_In in Hc, Ho.
    destruct Hc as [_ Hk]. destruct Ho as [Ho _]. unfold keep in Hk. rewrite forallb_forall in Hk.
    specialize (Hk o Ho). apply cube_eqb_neq in Hne. rewrite Hne in Hk. cbn [orb] in Hk.
    apply negb_true_iff in Hk. exact Hk.
Qed.

Lemma simplify_irredundant cs : Forall c32 cs -> irredundant (sop_simplify cs).
Proof. intros _. apply simplify_irredundant_gen. Qed.

Lemma simplify_c32 cs : Forall c32 cs -> Forall c32 (sop_simplify cs).
Proof. rewrite !Forall_forall. intros H c Hc. apply In_simplify in Hc. apply H. tauto. Qed.

Lemma simplify_good cs : Forall c32 cs -> Forall good (sop_simplify cs).
Proof.
  rewrite !Forall_forall. intros H c Hc. apply In_simplify in Hc. destruct Hc as [Hin Hz].
  split; [apply H; exact Hin|apply cube_is_zero_false; exact Hz].
Qed.

End Simplify.

(* ================================================================== 3. Sop operations *)
Section SopOps.

Lemma fold_or_existsb {A} (f : A -> bool) l acc :
  fold_left (fun r c => r || f c) l acc = acc || existsb f l.
Proof.
  revert acc. induction l as [|x l IH]; intros acc; cbn [fold_left existsb].
  - symmetry. apply orb_false_r.
  - rewrite IH. symmetry. apply orb_assoc.
Qed.

Lemma value_sem s m : sop_value s m = sem (scubes s) m.
Proof. unfold sop_value, sem. rewrite fold_or_existsb. reflexivity. Qed.

Lemma irredundant_nil : irredundant [].
Proof.
  split; [constructor|split; [constructor|split; [constructor|]]]. intros c o H. destruct H.
Qed.

Lemma irredundant_one : irredundant [cube_one].
Proof.
  split; [|split; [|split]].
  - constructor; [reflexivity|constructor].
  - constructor; [intros H; destruct H|constructor].
  - constructor; constructor.
  - intros c o [<-|[]] [<-|[]] H. congruence.
Qed.

(* ---- or *)
Lemma or_full a b : snv a = snv b -> Forall c32 (scubes a) -> Forall c32 (scubes b) ->
  exists r, sop_or a b = Ok r /\ snv r = snv a /\ irredundant (scubes r) /\ Forall good (scubes r) /\
            forall m, sop_value r m = sop_value a m || sop_value b m.
Proof.
  intros Hn Ha Hb. unfold sop_or. rewrite Hn, Nat.eqb_refl. cbn [always bind].
  assert (Hab : Forall c32 (scubes a ++ scubes b)) by (apply Forall_app; split; assumption).
  eexists. split; [reflexivity|]. cbn [snv scubes]. split; [reflexivity|].
  split; [apply simplify_irredundant_gen|]. split; [apply simplify_good; exact Hab|].
  intro m. rewrite !value_sem. cbn [scubes]. rewrite (simplify_sem _ Hab), sem_app. reflexivity.
Qed.

Lemma or_mismatch a b : snv a <> snv b -> sop_or a b = PanicAlways.
Proof. intros H. unfold sop_or. apply Nat.eqb_neq in H. rewrite H. reflexivity. Qed.

(* ---- and *)
Definition prods (A B : list cube) : list cube :=
  flat_map (fun c1 => flat_map (fun c2 => let c := cube_and c1 c2 in
                                            if cube_eqb c cube_zero then [] else [c]) B) A.

Lemma sop_and_eq a b :
  sop_and a b = bind (always (Nat.eqb (snv a) (snv b)))
                     (fun _ => Ok (mkSop (snv a) (sop_simplify (prods (scubes a) (scubes b))))).
Proof. reflexivity. Qed.

Lemma In_prods A B c :
  In c (prods A B) <->
  exists c1 c2, In c1 A /\ In c2 B /\ c = cube_and c1 c2 /\ cube_eqb c cube_zero = false.
Proof.
  unfold prods. rewrite in_flat_map. split.
  - intros [c1 [H1 H]]. apply in_flat_map in H. destruct H as [c2 [H2 H]]. cbv zeta in H.
    destruct (cube_eqb (cube_and c1 c2) cube_zero) eqn:E; [destruct H|].
    destruct H as [<-|[]]. exists c1, c2. auto.
  - intros [c1 [c2 [H1 [H2 [-> E]]]]]. exists c1. split; [exact H1|].
    apply in_flat_map. exists c2. split; [exact H2|]. cbv zeta. rewrite E. left. reflexivity.
Qed.

Lemma prods_c32 A B : Forall c32 A -> Forall c32 B -> Forall c32 (prods A B).
Proof.
  rewrite !Forall_forall. intros HA HB c Hc. apply In_prods in Hc.
  destruct Hc as [c1 [c2 [H1 [H2 [-> _]]]]]. apply cube_and_c32; auto.
Qed.

Lemma prods_sem A B m : Forall c32 A -> Forall c32 B -> sem (prods A B) m = sem A m && sem B m.
Proof.
  rewrite !Forall_forall. intros HA HB. apply eq_iff_eq_true. rewrite andb_true_iff, !sem_true. split.
  - intros [c [Hc Hv]]. apply In_prods in Hc. destruct Hc as [c1 [c2 [H1 [H2 [-> _]]]]].
    rewrite (cube_and_value c1 c2 m (HA _ H1) (HB _ H2)) in Hv. apply andb_true_iff in Hv.
    destruct Hv as [V1 V2]. split; [exists c1|exists c2]; auto.
  - intros [[c1 [H1 V1]] [c2 [H2 V2]]].
    assert (Hv : cube_value (cube_and c1 c2) m = true).
    { rewrite (cube_and_value c1 c2 m (HA _ H1) (HB _ H2)), V1, V2. reflexivity. }
    exists (cube_and c1 c2). split; [|exact Hv]. apply In_prods. exists c1, c2.
    split; [exact H1|]. split; [exact H2|]. split; [reflexivity|].
    destruct (cube_eqb (cube_and c1 c2) cube_zero) eqn:E; [|reflexivity].
    apply cube_eqb_eq in E. rewrite E, cube_zero_value in Hv. discriminate.
Qed.

Lemma and_full a b : snv a = snv b -> Forall c32 (scubes a) -> Forall c32 (scubes b) ->
  exists r, sop_and a b = Ok r /\ snv r = snv a /\ irredundant (scubes r) /\ Forall good (scubes r) /\
            forall m, sop_value r m = sop_value a m && sop_value b m.
Proof.
  intros Hn Ha Hb. rewrite sop_and_eq, Hn, Nat.eqb_refl. cbn [always bind].
  pose proof (prods_c32 _ _ Ha Hb) as Hp.
  eexists. split; [reflexivity|]. cbn [snv scubes]. split; [reflexivity|].
  split; [apply simplify_irredundant_gen|]. split; [apply simplify_good; exact Hp|].
  intro m. rewrite !value_sem. cbn [scubes]. rewrite (simplify_sem _ Hp). apply prods_sem; assumption.
Qed.

Lemma and_mismatch a b : snv a <> snv b -> sop_and a b = PanicAlways.
Proof. intros H. rewrite sop_and_eq. apply Nat.eqb_neq in H. rewrite H. reflexivity. Qed.

(* ---- not *)
Lemma In_complement_sum c x :
  In x (cube_complement_sum c) <->
  (exists l, l < 32 /\ N.testbit (cpos c) l = true /\ x = mkCube 0 (N.shiftl 1 l)) \/
  (exists l, l < 32 /\ N.testbit (cneg c) l = true /\ x = mkCube (N.shiftl 1 l) 0).
Proof.
  unfold cube_complement_sum, cube_pos_vars, cube_neg_vars. rewrite in_app_iff, !in_map_iff.
  split; (intros [[l H]|[l H]]; [left|right]; exists l).
  - destruct H as [<- H]. apply in_bits_of in H. tauto.
  - destruct H as [<- H]. apply in_bits_of in H. tauto.
  - destruct H as [H1 [H2 ->]]. split; [reflexivity|]. apply in_bits_of. tauto.
  - destruct H as [H1 [H2 ->]]. split; [reflexivity|]. apply in_bits_of. tauto.
Qed.

Lemma complement_sum_c32 c : Forall c32 (cube_complement_sum c).
Proof.
  apply Forall_forall. intros x Hx. apply In_complement_sum in Hx.
  destruct Hx as [[l [Hl [_ ->]]]|[l [Hl [_ ->]]]]; [apply lit_neg_c32|apply lit_pos_c32]; exact Hl.
Qed.

(* the sum of the complemented literals of c is the complement of c *)
Lemma complement_sum_sem c m : c32 c -> sem (cube_complement_sum c) m = negb (cube_value c m).
Proof.
  intros Hc. destruct (sem (cube_complement_sum c) m) eqn:Es.
  - apply sem_true in Es. destruct Es as [x [Hx Hv]]. apply In_complement_sum in Hx.
    symmetry. apply negb_true_iff. destruct (cube_value c m) eqn:Ev; [|reflexivity].
    pose proof (proj1 (cube_value_spec c m Hc) Ev) as Hall.
    destruct Hx as [[l [Hl [Hb ->]]]|[l [Hl [Hb ->]]]]; destruct (Hall l) as [H1 H2].
    + rewrite (lit_neg_value l m Hl), (H1 Hb) in Hv. discriminate.
    + rewrite (lit_pos_value l m Hl), (H2 Hb) in Hv. discriminate.
  - symmetry. apply negb_false_iff. apply (cube_value_spec c m Hc). intro p.
    destruct Hc as [Hp Hn]. split; intros Hb.
    + destruct (N.testbit m p) eqn:Em; [reflexivity|]. exfalso.
      pose proof (bit_true_lt32 _ p Hp Hb) as L.
      assert (K : sem (cube_complement_sum c) m = true).
      { apply sem_true. exists (mkCube 0 (N.shiftl 1 p)). split.
        - apply In_complement_sum. left. exists p. auto.
        - rewrite (lit_neg_value p m L), Em. reflexivity. }
      congruence.
    + destruct (N.testbit m p) eqn:Em; [|reflexivity]. exfalso.
      pose proof (bit_true_lt32 _ p Hn Hb) as L.
      assert (K : sem (cube_complement_sum c) m = true).
      { apply sem_true. exists (mkCube (N.shiftl 1 p) 0). split.
        - apply In_complement_sum. right. exists p. auto.
        - rewrite (lit_pos_value p m L), Em. reflexivity. }
      congruence.
Qed.

Definition not_step (n : nat) (acc : res sop) (c : cube) : res sop :=
  bind acc (fun ret => sop_and ret (mkSop n (cube_complement_sum c))).

Lemma sop_not_eq s : sop_not s = fold_left (not_step (snv s)) (scubes s) (Ok (sop_one (snv s))).
Proof. reflexivity. Qed.

Lemma not_fold n cs : Forall c32 cs ->
  forall r0, snv r0 = n -> irredundant (scubes r0) -> Forall good (scubes r0) ->
  exists r, fold_left (not_step n) cs (Ok r0) = Ok r /\ snv r = n /\ irredundant (scubes r) /\
            Forall good (scubes r) /\
            forall m, sop_value r m = sop_value r0 m && negb (sem cs m).
Proof.
  induction cs as [|c cs IH]; intros Hcs r0 Hn Hirr Hg.
  - exists r0. cbn [fold_left]. split; [reflexivity|]. split; [exact Hn|]. split; [exact Hirr|].
    split; [exact Hg|]. intro m. cbn [sem existsb negb]. symmetry. apply andb_true_r.
  - apply Forall_cons_iff in Hcs. destruct Hcs as [Hc Hcs].
    cbn [fold_left]. unfold not_step at 2. cbn [bind].
    destruct (and_full r0 (mkSop n (cube_complement_sum c))) as [r1 [E1 [N1 [I1 [G1 V1]]]]].
    + cbn [snv]. exact Hn.
    + apply Forall_good_c32. exact Hg.
    + cbn [scubes]. apply complement_sum_c32.
    + rewrite E1. destruct (IH Hcs r1) as [r [E [N2 [I2 [G2 V2]]]]].
      * congruence.
      * exact I1.
      * exact G1.
      * exists r. split; [exact E|]. split; [exact N2|]. split; [exact I2|]. split; [exact G2|].
        intro m. rewrite V2, V1. rewrite (value_sem (mkSop n (cube_complement_sum c))). cbn [scubes].
        rewrite (complement_sum_sem c m Hc). unfold sem at 2. cbn [existsb]. fold (sem cs m).
        rewrite negb_orb. symmetry. apply andb_assoc.
Qed.

Lemma not_full s : Forall c32 (scubes s) ->
  exists r, sop_not s = Ok r /\ snv r = snv s /\ irredundant (scubes r) /\ Forall good (scubes r) /\
            forall m, sop_value r m = negb (sop_value s m).
Proof.
  intros Hs. rewrite sop_not_eq.
  destruct (not_fold (snv s) (scubes s) Hs (sop_one (snv s))) as [r [E [N1 [I1 [G1 V1]]]]].
  - reflexivity.
  - apply irredundant_one.
  - cbn [sop_one scubes]. constructor; [|constructor]. split; [apply cube_one_c32|reflexivity].
  - exists r. split; [exact E|]. split; [exact N1|]. split; [exact I1|]. split; [exact G1|].
    intro m. rewrite V1, (value_sem (sop_one _)), (value_sem s). cbn [sop_one scubes sem existsb].
    rewrite cube_one_value. reflexivity.
Qed.

End SopOps.

(* ================================================================== 4. constants, conversion from and to tables *)
Section SopLut.

Lemma is_zero_exact n cs : irredundant cs -> Forall c32 cs ->
  (sop_is_zero (mkSop n cs) = true <-> forall m, m < 2 ^ 32 -> sem cs m = false).
Proof.
  intros [Hnz _] Hc. unfold sop_is_zero. cbn [scubes]. destruct cs as [|c cs].
  - split; [intros _ m _; reflexivity|reflexivity].
  - split; [discriminate|]. intros H. exfalso.
    apply Forall_cons_iff in Hnz. destruct Hnz as [Hz _].
    apply Forall_cons_iff in Hc. destruct Hc as [Hc _].
    specialize (H (cpos c) (proj1 Hc)). unfold sem in H. cbn [existsb] in H.
    rewrite (cube_nonzero_sat c Hc Hz) in H. discriminate.
Qed.

Lemma is_one_sound s : sop_is_one s = true -> forall m, sop_value s m = true.
Proof.
  unfold sop_is_one. intros H m. rewrite value_sem. destruct (scubes s) as [|c cs]; [discriminate|].
  apply cube_is_one_eq in H. subst c. unfold sem. cbn [existsb]. rewrite cube_one_value. reflexivity.
Qed.

(* ---- minterms *)
Definition mtot (nn : N) : N := if 32 <=? nn then ones32 else N.shiftl 1 nn - 1.

Lemma mtot_spec nn p : nn <= 32 -> N.testbit (mtot nn) p = (p <? nn).
Proof.
  intros Hn. unfold mtot. destruct (N.leb_spec 32 nn) as [L|L].
  - assert (nn = 32) by lia. subst nn. apply ones32_spec.
  - rewrite N.sub_1_r. change (N.pred (N.shiftl 1 nn)) with (N.ones nn).
    destruct (N.ltb_spec p nn); [apply N.ones_spec_low|apply N.ones_spec_high]; assumption.
Qed.

Lemma mtot_lt nn : nn <= 32 -> mtot nn < 2 ^ 32.
Proof.
  intros Hn. apply lt_pow2_of_bits. intros p Hp. rewrite (mtot_spec nn p Hn). apply N.ltb_ge. lia.
Qed.

Lemma cube_minterm_eq nn k :
  cube_minterm nn k = mkCube (N.land (wrap32 k) (mtot nn)) (N.land (not32 (wrap32 k)) (mtot nn)).
Proof. reflexivity. Qed.

Lemma cube_minterm_c32 nn k : nn <= 32 -> c32 (cube_minterm nn k).
Proof.
  intros Hn. rewrite cube_minterm_eq. split; cbn [cpos cneg]; apply land_lt_r, mtot_lt; exact Hn.
Qed.

Lemma cube_minterm_value nn k m : nn <= 32 -> k < 2 ^ nn -> m < 2 ^ nn ->
  cube_value (cube_minterm nn k) m = (m =? k).
Proof.
  intros Hn Hk Hm. apply eq_iff_eq_true. rewrite (cube_value_spec _ m (cube_minterm_c32 nn k Hn)), N.eqb_eq.
  rewrite cube_minterm_eq. cbn [cpos cneg]. split.
  - intros H. apply N.bits_inj. intro p. destruct (N.lt_ge_cases p nn) as [L|L].
    + destruct (H p) as [H1 H2].
      rewrite N.land_spec, wrap32_spec, (mtot_spec nn p Hn) in H1.
      rewrite N.land_spec, not32_spec, wrap32_spec, (mtot_spec nn p Hn) in H2.
      assert (L32 : (p <? 32) = true) by (apply N.ltb_lt; lia).
      apply N.ltb_lt in L. rewrite L, L32, !andb_true_r in *.
      destruct (N.testbit k p); [apply H1; reflexivity|apply H2; reflexivity].
    + rewrite (testbit_lt_pow2 m nn p Hm L), (testbit_lt_pow2 k nn p Hk L). reflexivity.
  - intros -> p. rewrite !N.land_spec, not32_spec, wrap32_spec. split; intros E.
    + apply andb_true_iff in E. destruct E as [E _]. apply andb_true_iff in E. tauto.
    + apply andb_true_iff in E. destruct E as [E _].
      destruct (N.testbit k p); [|reflexivity]. destruct (p <? 32); discriminate.
Qed.

(* ---- from_lut *)
Lemma from_lut_cubes n t :
  scubes (sop_from_lut n t) = map (cube_minterm (N.of_nat n)) (filter (fun m => val t m) (assignments n)).
Proof.
  unfold sop_from_lut. cbn [scubes]. f_equal. apply filter_ext. intro m. apply tget_val.
Qed.

Lemma from_lut_snv n t : snv (sop_from_lut n t) = n.
Proof. reflexivity. Qed.

Lemma from_lut_value n t m : (n <= 32)%nat -> m < 2 ^ N.of_nat n -> sop_value (sop_from_lut n t) m = val t m.
Proof.
  intros Hn Hm. assert (Hn' : N.of_nat n <= 32) by lia.
  rewrite value_sem, from_lut_cubes. apply eq_iff_eq_true. rewrite sem_true. split.
  - intros [c [Hc Hv]]. apply in_map_iff in Hc. destruct Hc as [k [<- Hk]].
    apply filter_In in Hk. destruct Hk as [Hk Hvk]. apply In_assignments in Hk.
    rewrite (cube_minterm_value _ k m Hn' Hk Hm) in Hv. apply N.eqb_eq in Hv. subst k. exact Hvk.
  - intros Hv. exists (cube_minterm (N.of_nat n) m). split.
    + apply in_map. apply filter_In. split; [apply In_assignments; exact Hm|exact Hv].
    + rewrite (cube_minterm_value _ m m Hn' Hm Hm). apply N.eqb_refl.
Qed.

Lemma from_lut_c32 n t : (n <= 32)%nat -> Forall c32 (scubes (sop_from_lut n t)).
Proof.
  intros Hn. rewrite from_lut_cubes. apply Forall_forall. intros c Hc. apply in_map_iff in Hc.
  destruct Hc as [k [<- _]]. apply cube_minterm_c32. lia.
Qed.

(* ---- to_lut *)
Lemma to_lut_sem s :
  wf (snv s) (sop_to_lut s) /\ forall m, m < 2 ^ N.of_nat (snv s) -> val (sop_to_lut s) m = sop_value s m.
Proof. unfold sop_to_lut. apply tabulate_sem. Qed.

Section Roundtrip.
(* extensionality of well-formed tables, proved elsewhere *)
Hypothesis wf_ext : forall n a b, wf n a -> wf n b -> (forall m, m < 2 ^ N.of_nat n -> val a m = val b m) -> a = b.

Lemma roundtrip n t : (n <= 32)%nat -> wf n t -> sop_to_lut (sop_from_lut n t) = t.
Proof.
  intros Hn Hwf. destruct (to_lut_sem (sop_from_lut n t)) as [W V]. rewrite from_lut_snv in W, V.
  apply (wf_ext n); [exact W|exact Hwf|]. intros m Hm. rewrite (V m Hm). apply from_lut_value; assumption.
Qed.
End Roundtrip.

End SopLut.

(* ================================================================== 5. the statements of C14 *)
Section C14Statements.

Lemma or_sem a b : snv a = snv b -> Forall c32 (scubes a) -> Forall c32 (scubes b) ->
  exists r, sop_or a b = Ok r /\ snv r = snv a /\ irredundant (scubes r) /\
            forall m, sop_value r m = sop_value a m || sop_value b m.
Proof.
  intros Hn Ha Hb. destruct (or_full a b Hn Ha Hb) as [r [E [N1 [I1 [_ V1]]]]]. exists r. auto.
Qed.

Lemma and_sem a b : snv a = snv b -> Forall c32 (scubes a) -> Forall c32 (scubes b) ->
  exists r, sop_and a b = Ok r /\ snv r = snv a /\ irredundant (scubes r) /\
            forall m, sop_value r m = sop_value a m && sop_value b m.
Proof.
  intros Hn Ha Hb. destruct (and_full a b Hn Ha Hb) as [r [E [N1 [I1 [_ V1]]]]]. exists r. auto.
Qed.

Lemma not_sem s : Forall good (scubes s) ->
  exists r, sop_not s = Ok r /\ snv r = snv s /\ irredundant (scubes r) /\
            forall m, m < 2 ^ 32 -> sop_value r m = negb (sop_value s m).
Proof.
  intros Hs. destruct (not_full s (Forall_good_c32 _ Hs)) as [r [E [N1 [I1 [_ V1]]]]]. exists r. auto.
Qed.

(* results are good, so the operations compose to any depth *)
Lemma or_good a b r : snv a = snv b -> Forall c32 (scubes a) -> Forall c32 (scubes b) ->
  sop_or a b = Ok r -> Forall good (scubes r).
Proof.
  intros Hn Ha Hb E. destruct (or_full a b Hn Ha Hb) as [r' [E' [_ [_ [G _]]]]]. congruence.
Qed.

Lemma and_good a b r : snv a = snv b -> Forall c32 (scubes a) -> Forall c32 (scubes b) ->
  sop_and a b = Ok r -> Forall good (scubes r).
Proof.
  intros Hn Ha Hb E. destruct (and_full a b Hn Ha Hb) as [r' [E' [_ [_ [G _]]]]]. congruence.
Qed.

Lemma not_good s r : Forall c32 (scubes s) -> sop_not s = Ok r -> Forall good (scubes r).
Proof.
  intros Hs E. destruct (not_full s Hs) as [r' [E' [_ [_ [G _]]]]]. congruence.
Qed.

Lemma from_lut_good n t : (n <= 32)%nat -> Forall good (scubes (sop_from_lut n t)).
Proof.
  intros Hn. pose proof (from_lut_c32 n t Hn) as Hc. rewrite Forall_forall in Hc.
  apply Forall_forall. intros c Hin. split; [apply Hc; exact Hin|].
  rewrite from_lut_cubes in Hin. apply in_map_iff in Hin. destruct Hin as [k [<- _]].
  rewrite cube_minterm_eq. cbn [cpos cneg]. apply N.bits_inj_0. intro p.
  rewrite !N.land_spec, not32_spec. destruct (N.testbit (wrap32 k) p) eqn:E.
  - rewrite wrap32_spec in E. apply andb_true_iff in E. destruct E as [_ E]. rewrite E. cbn [xorb andb].
    apply andb_false_r.
  - reflexivity.
Qed.

End C14Statements.
