(* C11: the named constructors build the functions they are named after; single-bit access. *)
From Coq Require Import List NArith Arith Bool Lia.
From V Require Import Base.Res Gen.Tables Model.Kernels Model.Api Base.Bits Spec.Bfun Proofs.Wf Proofs.Order.
Import ListNotations.
Open Scope N_scope.

(* ------------------------------------------------------------------ list helpers *)
Lemma nthN_map_const (c : N) (t : list N) i : (i < length t)%nat -> nthN (map (fun _ => c) t) i = c.
Proof.
  intros Hi. unfold nthN. rewrite (nth_indep _ 0 ((fun _ : N => c) 0)) by (rewrite map_length; exact Hi).
  rewrite (map_nth (fun _ : N => c) t 0 i). reflexivity.
Qed.

Lemma nthN_map_seq (g : nat -> N) k i : (i < k)%nat -> nthN (map g (seq 0 k)) i = g i.
Proof.
  intros Hi. unfold nthN. rewrite (nth_indep _ 0 (g 0%nat)) by (rewrite map_length, seq_length; exact Hi).
  rewrite map_nth, seq_nth by exact Hi. reflexivity.
Qed.

Lemma nthN_mapi (f : nat -> N -> N) (t : list N) i : (i < length t)%nat -> nthN (mapi f t) i = f i (nthN t i).
Proof.
  intros Hi. unfold nthN, mapi.
  rewrite (nth_indep _ 0 ((fun p : nat * N => f (fst p) (snd p)) (0%nat, 0)))
    by (rewrite map_length, combine_length, seq_length, Nat.min_id; exact Hi).
  rewrite (map_nth (fun p : nat * N => f (fst p) (snd p))).
  rewrite combine_nth by apply seq_length. rewrite seq_nth by exact Hi. reflexivity.
Qed.

Lemma mapi_length {A B} (f : nat -> A -> B) (t : list A) : length (mapi f t) = length t.
Proof. unfold mapi. rewrite map_length, combine_length, seq_length. apply Nat.min_id. Qed.

Lemma mapM_ok {A B} (f : A -> res B) (g : A -> B) (l : list A) :
  (forall x, In x l -> f x = Ok (g x)) -> mapM f l = Ok (map g l).
Proof.
  induction l as [|x l IH]; intros H; cbn [mapM map]; [reflexivity|].
  rewrite (H x) by (left; reflexivity). cbn [bind]. rewrite IH by (intros y Hy; apply H; right; exact Hy).
  reflexivity.
Qed.

Lemma wf_of_nth n t : length t = table_size n ->
  (forall i, (i < table_size n)%nat -> nthN t i < 2 ^ word_bits n) -> wf n t.
Proof.
  intros Hl H. split; [exact Hl|]. apply Forall_forall. intros x Hx.
  destruct (In_nth t x 0 Hx) as [i [Hi E]]. rewrite <- E. apply H. rewrite <- Hl. exact Hi.
Qed.

Lemma upd_length {A} (l : list A) i x : length (upd l i x) = length l.
Proof. revert i. induction l as [|y l IH]; intros [|i]; cbn [upd length]; auto. Qed.

Lemma nthN_upd (l : list N) i x j : (i < length l)%nat ->
  nthN (upd l i x) j = if Nat.eqb j i then x else nthN l j.
Proof.
  unfold nthN. revert i j. induction l as [|y l IH]; intros i j Hi; cbn [length] in Hi; [lia|].
  destruct i as [|i]; destruct j as [|j]; cbn [upd nth Nat.eqb]; try reflexivity.
  apply IH. lia.
Qed.

Lemma Forall_upd {A} (P : A -> Prop) (l : list A) i x : Forall P l -> P x -> Forall P (upd l i x).
Proof.
  intros Hl Hx. revert i. induction Hl as [|y l Hy Hl IH]; intros [|i]; cbn [upd]; constructor; auto.
Qed.

(* a single-bit mask *)
Lemma land_bit_eqb x j : (N.land x (N.shiftl 1 j) =? 0) = negb (N.testbit x j).
Proof.
  rewrite N.shiftl_1_l. destruct (N.testbit x j) eqn:E; cbn [negb].
  - apply N.eqb_neq. intros Z. assert (H : N.testbit (N.land x (2 ^ j)) j = true).
    { rewrite N.land_spec, E, N.pow2_bits_eqb, N.eqb_refl. reflexivity. }
    rewrite Z, N.bits_0 in H. discriminate.
  - apply N.eqb_eq. apply N.bits_inj_0. intro p. rewrite N.land_spec, N.pow2_bits_eqb.
    destruct (N.eqb_spec j p) as [<-|NE]; [rewrite E; reflexivity|apply andb_false_r].
Qed.

Lemma shiftr6 m : N.shiftr m 6 = m / 64.
Proof. rewrite N.shiftr_div_pow2. reflexivity. Qed.

Lemma land63 m : N.land m 63 = m mod 64.
Proof. change 63 with (N.ones 6). rewrite N.land_ones. reflexivity. Qed.

(* ------------------------------------------------------------------ zero, one *)
Lemma new_len n : length (tbl (lut_new n)) = table_size n.
Proof. unfold lut_new. cbn [tbl]. apply repeat_length. Qed.

Lemma zero_sem n :
  exists l, D_zero n = Ok l /\ nv l = n /\ wf n (tbl l) /\ forall m, val (tbl l) m = false.
Proof.
  exists (mkLut n (repeat 0 (table_size n))). split; [apply D_zero_eq|]. cbn [nv tbl].
  split; [reflexivity|]. split; [apply wf_zero|]. intro m. apply val_zero.
Qed.

Lemma fill_one_sem n t : length t = table_size n ->
  exists t', fill_one n t = Ok t' /\ wf n t' /\ forall m, m < 2 ^ N.of_nat n -> val t' m = true.
Proof.
  intros Hl. exists (map (fun _ => num_vars_mask n) t). split; [|split].
  - unfold fill_one, chk_len. rewrite Hl, Nat.eqb_refl. reflexivity.
  - apply wf_of_nth; [rewrite map_length; exact Hl|]. intros i Hi.
    rewrite nthN_map_const by (rewrite Hl; exact Hi). apply nvmask_lt.
  - intros m Hm. destruct (assignment_in_range n m Hm) as [Hk Hq]. unfold val.
    rewrite nthN_map_const by (rewrite Hl; exact Hk). rewrite nvmask_testbit. apply N.ltb_lt. exact Hq.
Qed.

Lemma one_sem n :
  exists l, D_one n = Ok l /\ nv l = n /\ wf n (tbl l) /\
            forall m, m < 2 ^ N.of_nat n -> val (tbl l) m = true.
Proof.
  destruct (fill_one_sem n (tbl (lut_new n)) (new_len n)) as [t' [E [Hwf Hv]]].
  exists (mkLut n t'). unfold D_one, with_tbl. rewrite E. cbn [bind nv tbl lut_new]. auto.
Qed.

(* ------------------------------------------------------------------ nth_var *)
Lemma var_mask_sweep :
  forallb (fun i => forallb (fun p => Bool.eqb (N.testbit (nthN VAR_MASK i) (N.of_nat p))
                                               (N.testbit (N.of_nat p) (N.of_nat i)))
                            (seq 0 64)) (seq 0 6) = true.
Proof. vm_compute. reflexivity. Qed.

Lemma var_mask_spec i p : (i < 6)%nat -> p < 64 -> N.testbit (var_mask i) p = N.testbit p (N.of_nat i).
Proof.
  intros Hi Hp. pose proof var_mask_sweep as H. rewrite forallb_forall in H.
  specialize (H i). rewrite forallb_forall in H.
  assert (Hin : In i (seq 0 6)) by (apply in_seq; lia).
  specialize (H Hin (N.to_nat p)). rewrite N2Nat.id in H. apply eqb_prop. apply H. apply in_seq. lia.
Qed.

Lemma nth_var_sem n v : v < N.of_nat n ->
  exists l, D_nth_var n v = Ok l /\ nv l = n /\ wf n (tbl l) /\
            forall m, m < 2 ^ N.of_nat n -> val (tbl l) m = N.testbit m v.
Proof.
  intros Hv. unfold D_nth_var, fill_nth_var, chk_len, chk_ind, with_tbl.
  rewrite (proj2 (N.ltb_lt _ _) Hv), new_len, Nat.eqb_refl. cbn [always dbg bind].
  destruct (N.leb_spec v 5) as [Lo|Hv6].
  - eexists. split; [reflexivity|]. cbn [nv tbl lut_new]. split; [reflexivity|]. split.
    + apply wf_of_nth; [rewrite map_length; apply repeat_length|]. intros i Hi.
      rewrite nthN_map_const by (rewrite repeat_length; exact Hi). apply land_lt_r, nvmask_lt.
    + intros m Hm. destruct (assignment_in_range n m Hm) as [Hk Hq]. unfold val.
      rewrite nthN_map_const by (rewrite repeat_length; exact Hk).
      rewrite N.land_spec, nvmask_testbit, (proj2 (N.ltb_lt _ _) Hq), andb_true_r.
      rewrite var_mask_spec by (lia || (apply N.mod_lt; lia)). rewrite N2Nat.id.
      change 64 with (2 ^ 6). apply N.mod_pow2_bits_low. lia.
  - assert (Hn : (6 <= n)%nat) by lia.
    eexists. split; [reflexivity|]. cbn [nv tbl lut_new]. split; [reflexivity|]. split.
    + apply wf_of_nth; [rewrite mapi_length; apply repeat_length|]. intros i Hi.
      rewrite nthN_mapi by (rewrite repeat_length; exact Hi). rewrite (word_bits_high n Hn).
      destruct (negb _); [reflexivity|lia].
    + intros m Hm. destruct (assignment_in_range n m Hm) as [Hk Hq]. unfold val.
      rewrite nthN_mapi by (rewrite repeat_length; exact Hk).
      rewrite land_bit_eqb, negb_involutive, N2Nat.id.
      assert (Hq64 : m mod 64 < 64) by (apply N.mod_lt; lia).
      change 64 with (2 ^ 6) at 1. rewrite N.div_pow2_bits. replace (v - 6 + 6) with v by lia.
      destruct (N.testbit m v); [|apply N.bits_0].
      rewrite ones64_spec. apply N.ltb_lt. exact Hq64.
Qed.

Lemma nth_var_guard n v : N.of_nat n <= v -> D_nth_var n v = PanicAlways.
Proof. intros H. unfold D_nth_var. rewrite (proj2 (N.ltb_ge _ _) H). reflexivity. Qed.

(* ------------------------------------------------------------------ single-bit access *)
Lemma word_at_ok n t m : wf n t -> m < 2 ^ N.of_nat n ->
  word_at t m = Ok (nthN t (N.to_nat (m / 64))).
Proof.
  intros Hwf Hm. destruct (assignment_in_range n m Hm) as [Hk _].
  unfold word_at. rewrite shiftr6. rewrite (nth_error_nth' t 0) by (rewrite (wf_length n t Hwf); exact Hk).
  reflexivity.
Qed.

Lemma chk_bit_ok n m : m < 2 ^ N.of_nat n -> chk_bit n m = Ok tt.
Proof. intros Hm. unfold chk_bit. rewrite N.shiftl_1_l, (proj2 (N.ltb_lt _ _) Hm). reflexivity. Qed.

Lemma get_bit_sem n t m : wf n t -> m < 2 ^ N.of_nat n -> get_bit n t m = Ok (val t m).
Proof.
  intros Hwf Hm. unfold get_bit. rewrite chk_bit_ok, (word_at_ok n) by assumption. cbn [bind].
  rewrite land63, land_bit_eqb, negb_involutive. reflexivity.
Qed.

(* replacing the addressed word by x, where x differs from it exactly at the addressed position *)
Lemma setval_kernel n t m (v : bool) x : wf n t -> m < 2 ^ N.of_nat n -> x < 2 ^ word_bits n ->
  (forall p, p < 64 -> N.testbit x p = if p =? m mod 64 then v else N.testbit (nthN t (N.to_nat (m / 64))) p) ->
  wf n (upd t (N.to_nat (m / 64)) x) /\
  forall m', val (upd t (N.to_nat (m / 64)) x) m' = if m' =? m then v else val t m'.
Proof.
  intros Hwf Hm Hx Hbits. destruct (assignment_in_range n m Hm) as [Hk _].
  rewrite <- (wf_length n t Hwf) in Hk. split.
  - destruct Hwf as [Hl Hw]. split; [rewrite upd_length; exact Hl|]. apply Forall_upd; assumption.
  - intro m'. unfold val. rewrite nthN_upd by exact Hk.
    assert (Hq : m' mod 64 < 64) by (apply N.mod_lt; lia).
    pose proof (N.div_mod m 64) as Dm. pose proof (N.div_mod m' 64) as Dm'.
    destruct (Nat.eqb_spec (N.to_nat (m' / 64)) (N.to_nat (m / 64))) as [E|NE].
    + rewrite Hbits by exact Hq. rewrite E.
      destruct (N.eqb_spec (m' mod 64) (m mod 64)) as [E2|NE2]; destruct (N.eqb_spec m' m) as [E3|NE3];
        try reflexivity.
      * exfalso. apply NE3. assert (m' / 64 = m / 64) by lia. lia.
      * exfalso. apply NE2. rewrite E3. reflexivity.
    + destruct (N.eqb_spec m' m) as [E3|NE3]; [|reflexivity]. exfalso. apply NE. rewrite E3. reflexivity.
Qed.

Lemma set_bit_sem n t m : wf n t -> m < 2 ^ N.of_nat n ->
  exists t', set_bit n t m = Ok t' /\ wf n t' /\ forall m', val t' m' = if m' =? m then true else val t m'.
Proof.
  intros Hwf Hm. destruct (assignment_in_range n m Hm) as [_ Hq].
  unfold set_bit. rewrite chk_bit_ok, (word_at_ok n) by assumption. cbn [bind].
  eexists. split; [reflexivity|]. rewrite shiftr6, land63, N.shiftl_1_l. apply setval_kernel; try assumption.
  - apply lor_lt; [apply (wf_word_lt n t _ Hwf)|]. apply N.pow_lt_mono_r; [lia|exact Hq].
  - intros p Hp. rewrite N.lor_spec, N.pow2_bits_eqb, (N.eqb_sym (m mod 64) p).
    destruct (p =? m mod 64); [apply orb_true_r|apply orb_false_r].
Qed.

Lemma unset_bit_sem n t m : wf n t -> m < 2 ^ N.of_nat n ->
  exists t', unset_bit n t m = Ok t' /\ wf n t' /\ forall m', val t' m' = if m' =? m then false else val t m'.
Proof.
  intros Hwf Hm.
  unfold unset_bit. rewrite chk_bit_ok, (word_at_ok n) by assumption. cbn [bind].
  eexists. split; [reflexivity|]. rewrite shiftr6, land63, N.shiftl_1_l. apply setval_kernel; try assumption.
  - apply land_lt_l. apply (wf_word_lt n t _ Hwf).
  - intros p Hp. rewrite N.land_spec, not64_spec_low by exact Hp.
    rewrite N.pow2_bits_eqb, (N.eqb_sym (m mod 64) p).
    destruct (p =? m mod 64); [apply andb_false_r|apply andb_true_r].
Qed.

Lemma check_bit_ok l m : m < 2 ^ N.of_nat (nv l) -> check_bit l m = Ok tt.
Proof.
  intros Hm. unfold check_bit, num_bits. rewrite N.shiftl_1_l, (proj2 (N.ltb_lt _ _) Hm). reflexivity.
Qed.

Lemma check_bit_fail l m : 2 ^ N.of_nat (nv l) <= m -> check_bit l m = PanicAlways.
Proof.
  intros Hm. unfold check_bit, num_bits. rewrite N.shiftl_1_l, (proj2 (N.ltb_ge _ _) Hm). reflexivity.
Qed.

Lemma D_get_bit_sem l m : wf (nv l) (tbl l) -> m < 2 ^ N.of_nat (nv l) -> D_get_bit l m = Ok (val (tbl l) m).
Proof.
  intros Hwf Hm. unfold D_get_bit. rewrite check_bit_ok by exact Hm. cbn [bind].
  apply get_bit_sem; assumption.
Qed.

Lemma D_set_bit_sem l m : wf (nv l) (tbl l) -> m < 2 ^ N.of_nat (nv l) ->
  exists l', D_set_bit l m = Ok l' /\ nv l' = nv l /\ wf (nv l') (tbl l') /\
             forall m', val (tbl l') m' = if m' =? m then true else val (tbl l) m'.
Proof.
  intros Hwf Hm. destruct (set_bit_sem _ _ m Hwf Hm) as [t' [E [Hwf' Hv]]].
  exists (mkLut (nv l) t'). unfold D_set_bit, with_tbl. rewrite check_bit_ok, E by exact Hm.
  cbn [bind nv tbl]. auto.
Qed.

Lemma D_unset_bit_sem l m : wf (nv l) (tbl l) -> m < 2 ^ N.of_nat (nv l) ->
  exists l', D_unset_bit l m = Ok l' /\ nv l' = nv l /\ wf (nv l') (tbl l') /\
             forall m', val (tbl l') m' = if m' =? m then false else val (tbl l) m'.
Proof.
  intros Hwf Hm. destruct (unset_bit_sem _ _ m Hwf Hm) as [t' [E [Hwf' Hv]]].
  exists (mkLut (nv l) t'). unfold D_unset_bit, with_tbl. rewrite check_bit_ok, E by exact Hm.
  cbn [bind nv tbl]. auto.
Qed.

Lemma D_set_value_sem l m v : wf (nv l) (tbl l) -> m < 2 ^ N.of_nat (nv l) ->
  exists l', D_set_value l m v = Ok l' /\ nv l' = nv l /\ wf (nv l') (tbl l') /\
             forall m', val (tbl l') m' = if m' =? m then v else val (tbl l) m'.
Proof.
  intros Hwf Hm. unfold D_set_value. destruct v; [apply D_set_bit_sem|apply D_unset_bit_sem]; assumption.
Qed.

(* the bounds check of the bit accessors is an assert!: out of range panics in every profile *)
Lemma D_bit_guard l m v : 2 ^ N.of_nat (nv l) <= m ->
  D_get_bit l m = PanicAlways /\ D_set_bit l m = PanicAlways /\ D_unset_bit l m = PanicAlways /\
  D_set_value l m v = PanicAlways.
Proof.
  intros Hm. unfold D_set_value, D_get_bit, D_set_bit, D_unset_bit. rewrite check_bit_fail by exact Hm.
  cbn [bind]. destruct v; auto.
Qed.

(* ------------------------------------------------------------------ popcount *)
Lemma popcount_double x b : popcount (2 * x + N.b2n b) = popcount x + N.b2n b.
Proof.
  destruct x as [|p]; destruct b; try reflexivity.
  - change (2 * N.pos p + N.b2n true) with (N.pos p~1). cbn [popcount pop_pos N.b2n]. lia.
  - change (2 * N.pos p + N.b2n false) with (N.pos p~0). cbn [popcount pop_pos N.b2n]. lia.
Qed.

Lemma popcount_bound_nat k : forall x, x < 2 ^ N.of_nat k -> popcount x <= N.of_nat k.
Proof.
  induction k as [|k IH]; intros x Hx.
  - change (2 ^ N.of_nat 0) with 1 in Hx. assert (x = 0) by lia. subst x. cbn [popcount]. lia.
  - rewrite Nat2N.inj_succ, N.pow_succ_r' in Hx. pose proof (N.div2_odd x) as Ex.
    set (y := N.div2 x) in *. set (b := N.odd x) in *. clearbody y b. subst x.
    rewrite popcount_double. assert (Hy : y < 2 ^ N.of_nat k) by (destruct b; cbn [N.b2n] in Hx; lia).
    specialize (IH y Hy). destruct b; cbn [N.b2n]; lia.
Qed.

Lemma popcount_bound x k : x < 2 ^ k -> popcount x <= k.
Proof. intros H. rewrite <- (N2Nat.id k) in H |- *. apply popcount_bound_nat. exact H. Qed.

Lemma popcount_add_nat j : forall k p, p < 2 ^ N.of_nat j ->
  popcount (2 ^ N.of_nat j * k + p) = popcount k + popcount p.
Proof.
  induction j as [|j IH]; intros k p Hp.
  - change (2 ^ N.of_nat 0) with 1 in *. assert (p = 0) by lia. subst p.
    rewrite N.mul_1_l, N.add_0_r. cbn [popcount]. lia.
  - rewrite Nat2N.inj_succ, N.pow_succ_r' in *. pose proof (N.div2_odd p) as Ep.
    set (q := N.div2 p) in *. set (b := N.odd p) in *. clearbody q b. subst p.
    assert (Hq : q < 2 ^ N.of_nat j) by (destruct b; cbn [N.b2n] in Hp; lia).
    replace (2 * 2 ^ N.of_nat j * k + (2 * q + N.b2n b)) with (2 * (2 ^ N.of_nat j * k + q) + N.b2n b) by lia.
    rewrite !popcount_double, (IH k q Hq). lia.
Qed.

Lemma popcount_split m : popcount m = popcount (m / 64) + popcount (m mod 64).
Proof.
  rewrite (N.div_mod m 64) at 1 by lia. apply (popcount_add_nat 6). apply N.mod_lt. lia.
Qed.

(* ------------------------------------------------------------------ symmetric functions *)
Open Scope res_scope.

Definition cm_list : list (N * N) := combine (map N.of_nat (seq 0 (length COUNT_MASKS))) COUNT_MASKS.

(* generated table COUNT_MASKS: entry c marks the positions of a word whose index has c bits set *)
Lemma cm_sweep_bits :
  forallb (fun cm => forallb (fun p => Bool.eqb (N.testbit (snd cm) (N.of_nat p))
                                                (popcount (N.of_nat p) =? fst cm)) (seq 0 64)) cm_list = true.
Proof. vm_compute. reflexivity. Qed.

Lemma cm_sweep_cover :
  forallb (fun p => existsb (fun cm => fst cm =? popcount (N.of_nat p)) cm_list) (seq 0 64) = true.
Proof. vm_compute. reflexivity. Qed.

Lemma cm_sweep_small : forallb (fun cm => fst cm <=? 6) cm_list = true.
Proof. vm_compute. reflexivity. Qed.

Lemma cm_bits cm p : In cm cm_list -> p < 64 -> N.testbit (snd cm) p = (popcount p =? fst cm).
Proof.
  intros Hcm Hp. pose proof cm_sweep_bits as H. rewrite forallb_forall in H. specialize (H cm Hcm).
  rewrite forallb_forall in H. specialize (H (N.to_nat p)). rewrite N2Nat.id in H.
  apply eqb_prop. apply H. apply in_seq. lia.
Qed.

Lemma cm_cover p : p < 64 -> exists cm, In cm cm_list /\ fst cm = popcount p.
Proof.
  intros Hp. pose proof cm_sweep_cover as H. rewrite forallb_forall in H. specialize (H (N.to_nat p)).
  rewrite N2Nat.id in H. assert (Hin : In (N.to_nat p) (seq 0 64)) by (apply in_seq; lia).
  specialize (H Hin). apply existsb_exists in H. destruct H as [cm [H1 H2]]. exists cm. split; [exact H1|].
  apply N.eqb_eq. exact H2.
Qed.

Lemma cm_small cm : In cm cm_list -> fst cm <= 6.
Proof.
  intros Hcm. pose proof cm_sweep_small as H. rewrite forallb_forall in H. apply N.leb_le. apply H. exact Hcm.
Qed.

Lemma count_mask_spec c p : (c < 7)%nat -> p < 64 ->
  N.testbit (nthN COUNT_MASKS c) p = (popcount p =? N.of_nat c).
Proof.
  intros Hc Hp. apply (cm_bits (N.of_nat c, nthN COUNT_MASKS c) p); [|exact Hp].
  do 7 (destruct c as [|c]; [vm_compute; tauto|]). lia.
Qed.

(* selecting by a predicate g on the count: the or of the selected masks has bit p iff g (popcount p) *)
Lemma cm_exists (g : N -> bool) p : p < 64 ->
  existsb (fun cm => g (fst cm) && N.testbit (snd cm) p) cm_list = g (popcount p).
Proof.
  intros Hp. apply eq_true_iff_eq. rewrite existsb_exists. split.
  - intros [cm [Hin H]]. apply andb_true_iff in H. destruct H as [H1 H2].
    rewrite (cm_bits cm p Hin Hp) in H2. apply N.eqb_eq in H2. rewrite H2. exact H1.
  - intros H. destruct (cm_cover p Hp) as [cm [Hin E]]. exists cm. split; [exact Hin|].
    rewrite (cm_bits cm p Hin Hp), E, H, N.eqb_refl. reflexivity.
Qed.

(* the word computed by the inner loop of fill_symmetric, without the checks *)
Definition symw (cv cnt : N) : N :=
  fold_left (fun a cm => if N.testbit cv (cnt + fst cm) then N.lor a (snd cm) else a) cm_list 0.

Lemma sym_fold_ok cv cnt l : (forall cm, In cm l -> cnt + fst cm < 64) -> forall a,
  fold_left (fun (acc : res N) (cm : N * N) =>
               let* a := acc in
               dbg (cnt + fst cm <? 64) ;;
               Ok (if N.testbit cv (cnt + fst cm) then N.lor a (snd cm) else a)) l (Ok a) =
  Ok (fold_left (fun a cm => if N.testbit cv (cnt + fst cm) then N.lor a (snd cm) else a) l a).
Proof.
  induction l as [|cm l IH]; intros H a; cbn [fold_left]; [reflexivity|]. cbn [bind].
  rewrite (proj2 (N.ltb_lt _ _) (H cm (or_introl eq_refl))). cbn [dbg bind].
  apply IH. intros cm' Hin. apply H. right. exact Hin.
Qed.

Lemma sym_fold_bits cv cnt p l : forall a,
  N.testbit (fold_left (fun a cm => if N.testbit cv (cnt + fst cm) then N.lor a (snd cm) else a) l a) p =
  N.testbit a p || existsb (fun cm => N.testbit cv (cnt + fst cm) && N.testbit (snd cm) p) l.
Proof.
  induction l as [|cm l IH]; intro a; cbn [fold_left existsb]; [symmetry; apply orb_false_r|].
  rewrite IH. destruct (N.testbit cv (cnt + fst cm)); cbn [andb orb]; [|reflexivity].
  rewrite N.lor_spec. symmetry. apply orb_assoc.
Qed.

Lemma symw_bits cv cnt p : p < 64 -> N.testbit (symw cv cnt) p = N.testbit cv (cnt + popcount p).
Proof.
  intros Hp. unfold symw. rewrite sym_fold_bits, N.bits_0. cbn [orb].
  apply (cm_exists (fun c => N.testbit cv (cnt + c)) p Hp).
Qed.

Lemma sym_word_ok n cv i : popcount (N.of_nat i) < 58 ->
  sym_word n cv i = Ok (N.land (symw cv (popcount (N.of_nat i))) (num_vars_mask n)).
Proof.
  intros Hc. unfold sym_word. fold cm_list. rewrite sym_fold_ok.
  - reflexivity.
  - intros cm Hin. pose proof (cm_small cm Hin). lia.
Qed.

Lemma table_index_popcount n i : (n < 64)%nat -> (i < table_size n)%nat -> popcount (N.of_nat i) < 58.
Proof.
  intros Hn Hi. assert (H : N.of_nat i < 2 ^ N.of_nat (Nat.max n 6 - 6)) by (rewrite <- table_size_N; lia).
  apply popcount_bound in H. lia.
Qed.

Lemma fill_symmetric_sem n t cv : (n < 64)%nat -> length t = table_size n ->
  exists t', fill_symmetric n t cv = Ok t' /\ wf n t' /\
             forall m, m < 2 ^ N.of_nat n -> val t' m = N.testbit cv (popcount m).
Proof.
  intros Hn Hl.
  exists (map (fun i => N.land (symw cv (popcount (N.of_nat i))) (num_vars_mask n)) (seq 0 (length t))).
  split; [|split].
  - unfold fill_symmetric. apply mapM_ok. intros i Hi. apply in_seq in Hi. apply sym_word_ok.
    apply (table_index_popcount n); lia.
  - apply wf_of_nth; [rewrite map_length, seq_length; exact Hl|]. intros i Hi.
    rewrite nthN_map_seq by (rewrite Hl; exact Hi). apply land_lt_r, nvmask_lt.
  - intros m Hm. destruct (assignment_in_range n m Hm) as [Hk Hq]. unfold val.
    rewrite nthN_map_seq by (rewrite Hl; exact Hk).
    rewrite N.land_spec, nvmask_testbit, (proj2 (N.ltb_lt _ _) Hq), andb_true_r.
    rewrite symw_bits by (apply N.mod_lt; lia). rewrite N2Nat.id, <- popcount_split. reflexivity.
Qed.

Lemma popcount_le_n n m : m < 2 ^ N.of_nat n -> popcount m <= N.of_nat n.
Proof. apply popcount_bound. Qed.

Lemma D_of_fill n (r : res (list N)) t' : r = Ok t' -> with_tbl (lut_new n) r = Ok (mkLut n t').
Proof. intros ->. reflexivity. Qed.

Lemma symmetric_sem n cv : (n < 64)%nat -> cv < 2 ^ 64 ->
  exists l, D_symmetric n cv = Ok l /\ nv l = n /\ wf n (tbl l) /\
            forall m, m < 2 ^ N.of_nat n -> val (tbl l) m = N.testbit cv (popcount m).
Proof.
  intros Hn _. destruct (fill_symmetric_sem n (tbl (lut_new n)) cv Hn (new_len n)) as [t' [E [Hwf Hv]]].
  exists (mkLut n t'). split; [apply D_of_fill; exact E|]. cbn [nv tbl]. auto.
Qed.

(* ------------------------------------------------------------------ equals, threshold, parity, majority *)
Lemma equals_sem n k : (n < 64)%nat ->
  exists l, D_equals n k = Ok l /\ nv l = n /\ wf n (tbl l) /\
            forall m, m < 2 ^ N.of_nat n -> val (tbl l) m = (popcount m =? k).
Proof.
  intros Hn. unfold D_equals, fill_equals.
  destruct (fill_symmetric_sem n (tbl (lut_new n)) (if k <? 64 then N.shiftl 1 k else 0) Hn (new_len n))
    as [t' [E [Hwf Hv]]].
  exists (mkLut n t'). split; [apply D_of_fill; exact E|]. cbn [nv tbl].
  split; [reflexivity|]. split; [exact Hwf|]. intros m Hm. rewrite (Hv m Hm).
  pose proof (popcount_le_n n m Hm) as Hpc.
  destruct (N.ltb_spec k 64) as [L|G].
  - rewrite N.shiftl_1_l, N.pow2_bits_eqb. apply N.eqb_sym.
  - rewrite N.bits_0. symmetry. apply N.eqb_neq. lia.
Qed.

Lemma fill_zero_sem n t : length t = table_size n ->
  exists t', fill_zero n t = Ok t' /\ wf n t' /\ forall m, val t' m = false.
Proof.
  intros Hl. exists (repeat 0 (table_size n)). split; [|split].
  - unfold fill_zero, chk_len. rewrite Hl, Nat.eqb_refl. cbn [dbg bind]. rewrite map_const_repeat, Hl. reflexivity.
  - apply wf_zero.
  - intro m. apply val_zero.
Qed.

(* !0 - (1 << k) + 1 has exactly the bits k..63 *)
Lemma thr_bits k j : k < 64 -> j < 64 -> N.testbit (ones64 - N.shiftl 1 k + 1) j = (k <=? j).
Proof.
  intros Hk Hj. rewrite N.shiftl_1_l.
  assert (HX : 2 ^ k <= 2 ^ 63) by (apply N.pow_le_mono_r; lia).
  assert (HX0 : 2 ^ k <> 0) by (apply N.pow_nonzero; lia).
  assert (E : ones64 - 2 ^ k + 1 = N.ldiff (N.ones 64) (N.ones k)).
  { rewrite <- N.sub_nocarry_ldiff.
    - rewrite (N.ones_equiv k). change (N.ones 64) with ones64. unfold ones64. change (2 ^ 63) with 9223372036854775808 in HX. lia.
    - apply N.bits_inj_0. intro p. rewrite N.ldiff_spec. destruct (N.lt_ge_cases p k) as [L|G].
      + rewrite (N.ones_spec_low 64 p) by lia. apply andb_false_r.
      + rewrite (N.ones_spec_high k p) by exact G. reflexivity. }
  rewrite E, N.ldiff_spec, (N.ones_spec_low 64 j) by exact Hj. cbn [andb].
  destruct (N.leb_spec k j) as [L|G].
  - rewrite N.ones_spec_high by exact L. reflexivity.
  - rewrite N.ones_spec_low by exact G. reflexivity.
Qed.

Lemma threshold_sem n k : (n < 64)%nat ->
  exists l, D_threshold n k = Ok l /\ nv l = n /\ wf n (tbl l) /\
            forall m, m < 2 ^ N.of_nat n -> val (tbl l) m = (k <=? popcount m).
Proof.
  intros Hn. unfold D_threshold, fill_threshold.
  destruct (N.eqb_spec k 0) as [Z|NZ].
  - destruct (fill_one_sem n (tbl (lut_new n)) (new_len n)) as [t' [E [Hwf Hv]]].
    exists (mkLut n t'). split; [apply D_of_fill; exact E|]. cbn [nv tbl].
    split; [reflexivity|]. split; [exact Hwf|]. intros m Hm. rewrite (Hv m Hm). subst k.
    symmetry. apply N.leb_le. lia.
  - destruct (N.ltb_spec (N.of_nat n) k) as [L|G].
    + destruct (fill_zero_sem n (tbl (lut_new n)) (new_len n)) as [t' [E [Hwf Hv]]].
      exists (mkLut n t'). split; [apply D_of_fill; exact E|]. cbn [nv tbl].
      split; [reflexivity|]. split; [exact Hwf|]. intros m Hm. rewrite (Hv m).
      pose proof (popcount_le_n n m Hm) as Hpc. symmetry. apply N.leb_gt. lia.
    + assert (Hk : k < 64) by lia. rewrite (proj2 (N.ltb_lt _ _) Hk). cbn [dbg bind].
      destruct (fill_symmetric_sem n (tbl (lut_new n)) (ones64 - N.shiftl 1 k + 1) Hn (new_len n))
        as [t' [E [Hwf Hv]]].
      exists (mkLut n t'). split; [apply D_of_fill; exact E|]. cbn [nv tbl].
      split; [reflexivity|]. split; [exact Hwf|]. intros m Hm. rewrite (Hv m Hm).
      pose proof (popcount_le_n n m Hm) as Hpc. apply thr_bits; lia.
Qed.

Lemma parity_sweep :
  forallb (fun j => Bool.eqb (N.testbit PARITY_COUNT_VALUES (N.of_nat j)) (N.odd (N.of_nat j))) (seq 0 64) = true.
Proof. vm_compute. reflexivity. Qed.

Lemma parity_bits j : j < 64 -> N.testbit PARITY_COUNT_VALUES j = N.odd j.
Proof.
  intros Hj. pose proof parity_sweep as H. rewrite forallb_forall in H. specialize (H (N.to_nat j)).
  rewrite N2Nat.id in H. apply eqb_prop. apply H. apply in_seq. lia.
Qed.

Lemma parity_sem n : (n < 64)%nat ->
  exists l, D_parity n = Ok l /\ nv l = n /\ wf n (tbl l) /\
            forall m, m < 2 ^ N.of_nat n -> val (tbl l) m = N.odd (popcount m).
Proof.
  intros Hn. unfold D_parity, fill_parity.
  destruct (fill_symmetric_sem n (tbl (lut_new n)) PARITY_COUNT_VALUES Hn (new_len n)) as [t' [E [Hwf Hv]]].
  exists (mkLut n t'). split; [apply D_of_fill; exact E|]. cbn [nv tbl].
  split; [reflexivity|]. split; [exact Hwf|]. intros m Hm. rewrite (Hv m Hm).
  pose proof (popcount_le_n n m Hm) as Hpc. apply parity_bits. lia.
Qed.

Lemma majority_threshold n : D_majority n = D_threshold n (N.of_nat ((n + 1) / 2)).
Proof. reflexivity. Qed.

Lemma majority_sem n : (n < 64)%nat ->
  exists l, D_majority n = Ok l /\ nv l = n /\ wf n (tbl l) /\
            forall m, m < 2 ^ N.of_nat n -> val (tbl l) m = (N.of_nat ((n + 1) / 2) <=? popcount m).
Proof. intros Hn. rewrite majority_threshold. apply threshold_sem. exact Hn. Qed.

Lemma default_zero : D_default = D_zero 0.
Proof. reflexivity. Qed.
