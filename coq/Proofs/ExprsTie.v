(* Ties between the word-level expressions translated from the Rust source text on every run (Gen/Exprs.v,
   produced by gen/gen_exprs.py) and the hand-written model (Model/Kernels.v, Model/Decomp.v).

   Every lemma has the shape  <model function> = <the same control skeleton around gx_...>  and is proved by
   conversion ([reflexivity]) - the generated and the hand-written expression have the same shape - except the
   three-term sum of swap_word_low, where the model checks the two additions one after the other and the tie
   checks the total ([add64_add64_checked]).  An edit of an operator, a mask, a shift direction or a `!` inside one
   of the translated Rust statements changes Gen/Exprs.v and breaks the corresponding Qed below.

   [checked x] is the model's own overflow discipline: [add64 a b = checked (a + b)]. *)
From Coq Require Import List NArith Arith Bool Lia.
From V Require Import Base.Res Gen.Tables Model.Kernels Base.Bits Model.Decomp Gen.Exprs.
Import ListNotations.
Open Scope N_scope.
Open Scope res_scope.

(* ------------------------------------------------------------------ checked sums *)
Definition checked (x : N) : res N := dbg (x <=? ones64) ;; Ok x.

Lemma add64_checked a b : add64 a b = checked (a + b).
Proof. reflexivity. Qed.

Lemma checked_ok x v : checked x = Ok v <-> v = x /\ x <= ones64.
Proof.
  unfold checked, dbg. destruct (N.leb_spec x ones64) as [H|H]; cbn [bind]; split.
  - intros E. injection E as E. split; [symmetry; exact E | exact H].
  - intros [E _]. rewrite E. reflexivity.
  - intros E. discriminate E.
  - intros [_ H']. exfalso. apply (N.lt_irrefl x). apply N.le_lt_trans with (1 := H'). exact H.
Qed.

Lemma checked_in_range x : x <= ones64 -> checked x = Ok x.
Proof. intros H. apply checked_ok. split; [reflexivity | exact H]. Qed.

Lemma checked_panics x : ones64 < x -> checked x = PanicDebug.
Proof.
  intros H. unfold checked, dbg. destruct (N.leb_spec x ones64) as [H'|H']; [|reflexivity].
  exfalso. apply (N.lt_irrefl x). apply N.le_lt_trans with (1 := H'). exact H.
Qed.

(* two checked additions in a row = one check of the total (a partial sum never exceeds the total) *)
Lemma add64_add64_checked a b c : (let* s := add64 a b in add64 s c) = checked (a + b + c).
Proof.
  unfold add64, checked, dbg.
  destruct (N.leb_spec (a + b) ones64) as [H1|H1]; cbn [bind].
  - reflexivity.
  - destruct (N.leb_spec (a + b + c) ones64) as [H2|H2]; cbn [bind]; [|reflexivity].
    exfalso. apply (N.lt_irrefl ones64). apply N.lt_le_trans with (1 := H1).
    apply N.le_trans with (2 := H2). apply N.le_add_r.
Qed.

(* ------------------------------------------------------------------ operations.rs: constants, fills *)
Lemma tie_num_vars_mask n : num_vars_mask n = gx_num_vars_mask n.
Proof. reflexivity. Qed.

Lemma tie_fill_nth_var n t ind :
  fill_nth_var n t ind =
  (chk_len n t ;; chk_ind n ind ;;
   if ind <=? 5 then Ok (map (fun _ => gx_fill_nth_var_word n ind) t)
   else Ok (mapi (fun i _ => gx_fill_nth_var_high ind i) t)).
Proof. reflexivity. Qed.

Lemma tie_fill_equals n t k : fill_equals n t k = fill_symmetric n t (gx_equals_count_values k).
Proof. reflexivity. Qed.

Lemma tie_fill_threshold n t k :
  fill_threshold n t k =
  if k =? 0 then fill_one n t
  else if N.of_nat n <? k then fill_zero n t
  else (dbg (k <? 64) ;; fill_symmetric n t (gx_threshold_count_values k)).
Proof. reflexivity. Qed.

(* ------------------------------------------------------------------ operations.rs: single bits *)
Lemma tie_word_at t ind :
  word_at t ind = match nth_error t (N.to_nat (gx_get_bit_index ind)) with Some w => Ok w | None => PanicAlways end.
Proof. reflexivity. Qed.

Lemma tie_get_bit n t ind :
  get_bit n t ind = (chk_bit n ind ;; let* w := word_at t ind in Ok (gx_get_bit_test ind w)).
Proof. reflexivity. Qed.

Lemma tie_set_bit n t ind :
  set_bit n t ind =
  (chk_bit n ind ;; let* w := word_at t ind in
   Ok (upd t (N.to_nat (gx_set_bit_index ind)) (gx_set_bit_word ind w))).
Proof. reflexivity. Qed.

Lemma tie_unset_bit n t ind :
  unset_bit n t ind =
  (chk_bit n ind ;; let* w := word_at t ind in
   Ok (upd t (N.to_nat (gx_unset_bit_index ind)) (gx_unset_bit_word ind w))).
Proof. reflexivity. Qed.

(* the three functions read the same word *)
Lemma tie_bit_index ind : gx_set_bit_index ind = gx_get_bit_index ind /\ gx_unset_bit_index ind = gx_get_bit_index ind.
Proof. split; reflexivity. Qed.

(* ------------------------------------------------------------------ operations.rs: logic *)
Lemma tie_not_inplace n t : not_inplace n t = map (gx_not_word n) t.
Proof. reflexivity. Qed.

Lemma tie_and_inplace : and_inplace = binop_inplace gx_and_word.
Proof. reflexivity. Qed.

Lemma tie_or_inplace : or_inplace = binop_inplace gx_or_word.
Proof. reflexivity. Qed.

Lemma tie_xor_inplace : xor_inplace = binop_inplace gx_xor_word.
Proof. reflexivity. Qed.

(* ------------------------------------------------------------------ operations.rs: swap *)
Lemma tie_swap_inplace_regimes n t ind1 ind2 :
  swap_inplace n t ind1 ind2 =
  (chk_len n t ;; chk_ind n ind1 ;; chk_ind n ind2 ;;
   if ind1 =? ind2 then Ok t
   else
     let i := N.to_nat (gx_swap_max ind1 ind2) in
     let j := N.to_nat (gx_swap_min ind1 ind2) in
     if Nat.leb i 5 then mapM (swap_word_low i j) t
     else if Nat.leb j 5 then
       fold_left (swap_cross_step j (Nat.pow 2 (i - 6))) (seq 0 (length t)) (Ok t)
     else
       Ok (fold_left (swap_high_step (Nat.pow 2 (i - 6)) (Nat.pow 2 (j - 6))) (seq 0 (length t)) t)).
Proof. reflexivity. Qed.

Lemma tie_swap_word_low i j w : swap_word_low i j w = checked (gx_swap_word_low i j w).
Proof. exact (add64_add64_checked _ _ _). Qed.

Lemma tie_swap_cross_step j mi acc k :
  swap_cross_step j mi acc k =
  (let* t := acc in
   if N.land (N.of_nat k) (N.of_nat mi) =? 0 then
     let t0 := nthN t k in
     let t1 := nthN t (k + mi) in
     let* a := checked (gx_swap_cross_lo j t0 t1) in
     let* b := checked (gx_swap_cross_hi j t0 t1) in
     Ok (upd (upd t k a) (k + mi) b)
   else Ok t).
Proof. reflexivity. Qed.

(* the four quarter words, individually *)
Lemma tie_swap_cross_quarters j mi acc k :
  swap_cross_step j mi acc k =
  (let* t := acc in
   if N.land (N.of_nat k) (N.of_nat mi) =? 0 then
     let t0 := nthN t k in
     let t1 := nthN t (k + mi) in
     let shift := N.shiftl 1 (N.of_nat j) in
     let* a := add64 (gx_swap_cross_t00 j t0) (shl64 (gx_swap_cross_t10 j t1) shift) in
     let* b := add64 (gx_swap_cross_t01 j t0) (shl64 (gx_swap_cross_t11 j t1) shift) in
     Ok (upd (upd t k a) (k + mi) b)
   else Ok t).
Proof. reflexivity. Qed.

Lemma tie_swap_cross_recombine j t0 t1 :
  gx_swap_cross_lo j t0 t1 = gx_swap_cross_t00 j t0 + shl64 (gx_swap_cross_t10 j t1) (N.shiftl 1 (N.of_nat j)) /\
  gx_swap_cross_hi j t0 t1 = gx_swap_cross_t01 j t0 + shl64 (gx_swap_cross_t11 j t1) (N.shiftl 1 (N.of_nat j)).
Proof. split; reflexivity. Qed.

(* ------------------------------------------------------------------ operations.rs: flip, cofactors *)
Lemma tie_flip_word i w : flip_word i w = checked (gx_flip_word i w).
Proof. reflexivity. Qed.

Lemma tie_cof0_word i w : cof0_word i w = checked (gx_cof0_word i w).
Proof. reflexivity. Qed.

Lemma tie_cof1_word i w : cof1_word i w = checked (gx_cof1_word i w).
Proof. reflexivity. Qed.

Lemma tie_from_cof_word i w0 w1 : from_cof_word i w0 w1 = checked (gx_from_cof_word i w0 w1).
Proof. reflexivity. Qed.

(* the two directions, spelled out for the word functions that return [res N] *)
Lemma tie_flip_word_ok i w v : flip_word i w = Ok v <-> v = gx_flip_word i w /\ gx_flip_word i w <= ones64.
Proof. rewrite tie_flip_word. apply checked_ok. Qed.
Lemma tie_cof0_word_ok i w v : cof0_word i w = Ok v <-> v = gx_cof0_word i w /\ gx_cof0_word i w <= ones64.
Proof. rewrite tie_cof0_word. apply checked_ok. Qed.
Lemma tie_cof1_word_ok i w v : cof1_word i w = Ok v <-> v = gx_cof1_word i w /\ gx_cof1_word i w <= ones64.
Proof. rewrite tie_cof1_word. apply checked_ok. Qed.
Lemma tie_from_cof_word_ok i w0 w1 v :
  from_cof_word i w0 w1 = Ok v <-> v = gx_from_cof_word i w0 w1 /\ gx_from_cof_word i w0 w1 <= ones64.
Proof. rewrite tie_from_cof_word. apply checked_ok. Qed.
Lemma tie_swap_word_low_ok i j w v :
  swap_word_low i j w = Ok v <-> v = gx_swap_word_low i j w /\ gx_swap_word_low i j w <= ones64.
Proof. rewrite tie_swap_word_low. apply checked_ok. Qed.

(* ------------------------------------------------------------------ operations.rs: successor *)
Lemma tie_next_inplace n t : next_inplace n t = (chk_len n t ;; Ok (next_words (gx_next_mask n) t)).
Proof. reflexivity. Qed.

Lemma tie_next_words mask w r :
  next_words mask (w :: r) =
  let w' := gx_next_word mask w in
  if w' =? 0 then let (r', ok) := next_words mask r in (w' :: r', ok)
  else (w' :: r, true).
Proof. reflexivity. Qed.

(* ------------------------------------------------------------------ decomposition.rs *)
Lemma tie_op_independent : op_independent = gx_op_independent. Proof. reflexivity. Qed.
Lemma tie_op_and : op_and = gx_op_and. Proof. reflexivity. Qed.
Lemma tie_op_or : op_or = gx_op_or. Proof. reflexivity. Qed.
Lemma tie_op_nand : op_nand = gx_op_nand. Proof. reflexivity. Qed.
Lemma tie_op_nor : op_nor = gx_op_nor. Proof. reflexivity. Qed.
Lemma tie_op_xor : op_xor = gx_op_xor. Proof. reflexivity. Qed.
Lemma tie_op_pos_unate : op_pos_unate = gx_op_pos_unate. Proof. reflexivity. Qed.
Lemma tie_op_neg_unate : op_neg_unate = gx_op_neg_unate. Proof. reflexivity. Qed.

Lemma tie_input_property_helper n t ind op :
  input_property_helper n t ind op =
  (always (Nat.eqb (length t) (table_size n)) ;;
   always (ind <? N.of_nat n) ;;
   let mask := gx_helper_mask n in
   let i := N.to_nat ind in
   if Nat.leb i 5 then
     Ok (fold_left (fun (ret : bool) (w : N) =>
                      gx_helper_test_low op mask ret (gx_helper_c0 ind w) (gx_helper_c1 ind w)) t true)
   else
     let stride := Nat.pow 2 (i - 6) in
     Ok (fold_left (fun (ret : bool) (k : nat) =>
                      if N.land (N.of_nat k) (N.of_nat stride) =? 0 then
                        gx_helper_test_high op mask ret (nthN t k) (nthN t (k + stride))
                      else ret) (seq 0 (length t)) true)).
Proof. reflexivity. Qed.

Lemma tie_input_ops n t ind :
  input_independent n t ind = input_property_helper n t ind gx_op_independent /\
  input_and n t ind = input_property_helper n t ind gx_op_and /\
  input_or n t ind = input_property_helper n t ind gx_op_or /\
  input_nand n t ind = input_property_helper n t ind gx_op_nand /\
  input_nor n t ind = input_property_helper n t ind gx_op_nor /\
  input_xor n t ind = input_property_helper n t ind gx_op_xor /\
  input_pos_unate n t ind = input_property_helper n t ind gx_op_pos_unate /\
  input_neg_unate n t ind = input_property_helper n t ind gx_op_neg_unate.
Proof. repeat split; reflexivity. Qed.

(* ------------------------------------------------------------------ *)
