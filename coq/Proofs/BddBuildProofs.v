(* C07: the constructive shared complement-edge ROBDD of Spec/BddBuild.v has exactly [bdd_nodes] non-literal
   nodes.  Semantics of the built edges, canonical form and canonicity of everything in the unique table,
   and the counting theorem. *)
From Coq Require Import List NArith Arith Bool Lia Permutation.
From V Require Import Base.Res Model.Kernels Model.Bdd Model.Api Base.Bits Spec.Bfun Spec.BddSpec Spec.BddBuild
  Proofs.Wf Proofs.BddProofs.
Import ListNotations.
Open Scope N_scope.

(* ================================================================== decidable equality of nodes and edges *)

Lemma bdd_eqb_spec x y : bdd_eqb x y = true <-> x = y.
Proof.
  revert y. induction x as [|v lc lo IHlo hc hi IHhi]; intros [|v' lc' lo' hc' hi']; cbn [bdd_eqb].
  - split; reflexivity.
  - split; discriminate.
  - split; discriminate.
  - rewrite !andb_true_iff, Nat.eqb_eq, !eqb_true_iff, IHlo, IHhi. split.
    + intros [[[[-> ->] ->] ->] ->]. reflexivity.
    + intros H. injection H as -> -> -> -> ->. repeat split.
Qed.

Lemma edge_eqb_spec (e f : edge) : edge_eqb e f = true <-> e = f.
Proof.
  destruct e as [c b], f as [c' b']. unfold edge_eqb. cbn [fst snd].
  rewrite andb_true_iff, eqb_true_iff, bdd_eqb_spec. split.
  - intros [-> ->]. reflexivity.
  - intros H. injection H as -> ->. split; reflexivity.
Qed.

Lemma edge_eqb_false (e f : edge) : edge_eqb e f = false <-> e <> f.
Proof.
  split.
  - intros H E. apply edge_eqb_spec in E. rewrite E in H. discriminate.
  - intros H. destruct (edge_eqb e f) eqn:E; [|reflexivity]. exfalso. apply H. apply edge_eqb_spec. exact E.
Qed.

Lemma bdd_eq_dec (x y : bdd) : {x = y} + {x <> y}.
Proof.
  destruct (bdd_eqb x y) eqn:E.
  - left. apply bdd_eqb_spec. exact E.
  - right. intro H. apply bdd_eqb_spec in H. rewrite H in E. discriminate.
Qed.

Lemma existsb_bdd_eqb x u : existsb (bdd_eqb x) u = true <-> In x u.
Proof.
  rewrite existsb_exists. split.
  - intros [y [Hy E]]. apply bdd_eqb_spec in E. subst y. exact Hy.
  - intros H. exists x. split; [exact H|apply bdd_eqb_spec; reflexivity].
Qed.

(* ================================================================== powers of two, bits *)

Lemma pow2_Sn (v : nat) : 2 ^ N.of_nat (S v) = 2 * 2 ^ N.of_nat v.
Proof. rewrite Nat2N.inj_succ. apply N.pow_succ_r'. Qed.

Lemma pow2_le_nat (a b : nat) : (a <= b)%nat -> 2 ^ N.of_nat a <= 2 ^ N.of_nat b.
Proof. intros H. apply N.pow_le_mono_r; lia. Qed.

Lemma testbit_low_false m (v : nat) : m < 2 ^ N.of_nat v -> N.testbit m (N.of_nat v) = false.
Proof. intros H. apply (testbit_lt_pow2 m (N.of_nat v)); [exact H|lia]. Qed.

Lemma add_pow2_lor m (v : nat) : m < 2 ^ N.of_nat v -> m + 2 ^ N.of_nat v = N.lor m (2 ^ N.of_nat v).
Proof.
  intros H. apply add_disjoint. apply N.bits_inj_0. intros p. rewrite N.land_spec, N.pow2_bits_eqb.
  destruct (N.eqb_spec (N.of_nat v) p) as [E|E].
  - subst p. rewrite (testbit_low_false m v H). reflexivity.
  - apply andb_false_r.
Qed.

Lemma testbit_add_pow2 m (v : nat) p :
  m < 2 ^ N.of_nat v -> N.testbit (m + 2 ^ N.of_nat v) p = N.testbit m p || (N.of_nat v =? p).
Proof. intros H. rewrite (add_pow2_lor m v H), N.lor_spec, N.pow2_bits_eqb. reflexivity. Qed.

(* ================================================================== canonical form *)

(* ordered (labels below k and strictly decreasing), low edge regular, reduced *)
Fixpoint canon (k : nat) (b : bdd) : Prop :=
  match b with
  | Zero => True
  | Node v lc lo hc hi => (v < k)%nat /\ lc = false /\ canon v lo /\ canon v hi /\ (lc, lo) <> (hc, hi)
  end.

Lemma canonb_canon k b : canonb k b = true <-> canon k b.
Proof.
  revert k. induction b as [|v lc lo IHlo hc hi IHhi]; intros k; cbn [canonb canon].
  - split; auto.
  - rewrite !andb_true_iff, Nat.ltb_lt, !negb_true_iff, IHlo, IHhi, edge_eqb_false. tauto.
Qed.

Lemma canon_mono k k' b : canon k b -> (k <= k')%nat -> canon k' b.
Proof.
  destruct b as [|v lc lo hc hi]; cbn [canon]; [auto|].
  intros [H1 H2] L. split; [lia|exact H2].
Qed.

(* the low edges are regular all the way down: every node is false on the all-zero assignment *)
Lemma canon_fun_0 k b : canon k b -> bdd_fun b 0 = false.
Proof.
  revert k. induction b as [|v lc lo IHlo hc hi IHhi]; intros k; cbn [canon bdd_fun]; [reflexivity|].
  intros [_ [-> [Hlo _]]]. rewrite N.bits_0. rewrite (IHlo v Hlo). reflexivity.
Qed.

(* a node below k only reads the variables below k *)
Lemma canon_support k b m m' :
  canon k b -> (forall i, (i < k)%nat -> N.testbit m (N.of_nat i) = N.testbit m' (N.of_nat i)) ->
  bdd_fun b m = bdd_fun b m'.
Proof.
  revert k. induction b as [|v lc lo IHlo hc hi IHhi]; intros k; cbn [canon bdd_fun]; [reflexivity|].
  intros [Hv [_ [Hlo [Hhi _]]]] H. rewrite (H v Hv).
  rewrite (IHlo v Hlo), (IHhi v Hhi); [reflexivity| |]; intros i Hi; apply H; lia.
Qed.

Lemma canon_support_add k b m :
  canon k b -> m < 2 ^ N.of_nat k -> bdd_fun b (m + 2 ^ N.of_nat k) = bdd_fun b m.
Proof.
  intros Hc Hm. apply (canon_support k); [exact Hc|]. intros i Hi.
  rewrite (testbit_add_pow2 m k _ Hm).
  destruct (N.eqb_spec (N.of_nat k) (N.of_nat i)) as [E|E]; [lia|apply orb_false_r].
Qed.

(* the two cofactors of a node are its two edges *)
Lemma node_cofactors v lc lo hc hi m :
  canon v lo -> canon v hi -> m < 2 ^ N.of_nat v ->
  bdd_fun (Node v lc lo hc hi) m = edge_fun (lc, lo) m /\
  bdd_fun (Node v lc lo hc hi) (m + 2 ^ N.of_nat v) = edge_fun (hc, hi) m.
Proof.
  intros Hlo Hhi Hm. unfold edge_fun. cbn [bdd_fun fst snd]. split.
  - rewrite (testbit_low_false m v Hm). reflexivity.
  - rewrite (testbit_add_pow2 m v _ Hm), N.eqb_refl, orb_true_r.
    rewrite (canon_support_add v hi m Hhi Hm). reflexivity.
Qed.

(* ================================================================== canonicity *)

Definition canonical_at (k : nat) : Prop :=
  forall e1 e2 : edge, canon k (snd e1) -> canon k (snd e2) ->
    (forall m, m < 2 ^ N.of_nat k -> edge_fun e1 m = edge_fun e2 m) -> e1 = e2.

(* a reduced node really depends on its label variable *)
Lemma node_dependent v lc lo hc hi :
  canonical_at v -> canon (S v) (Node v lc lo hc hi) ->
  ~ (forall m, m < 2 ^ N.of_nat v ->
       bdd_fun (Node v lc lo hc hi) m = bdd_fun (Node v lc lo hc hi) (m + 2 ^ N.of_nat v)).
Proof.
  intros Q [_ [_ [Hlo [Hhi Hne]]]] H. apply Hne. apply Q; [exact Hlo|exact Hhi|].
  intros m Hm. destruct (node_cofactors v lc lo hc hi m Hlo Hhi Hm) as [E0 E1].
  rewrite <- E0, <- E1. apply H. exact Hm.
Qed.

Lemma canon_node_S k v lc lo hc hi : canon k (Node v lc lo hc hi) -> canon (S v) (Node v lc lo hc hi).
Proof. cbn [canon]. intros [_ H]. split; [lia|exact H]. Qed.

Lemma canonicity_aux K : forall k, (k <= K)%nat -> canonical_at k.
Proof.
  induction K as [|K IH].
  - intros k Hk [c1 b1] [c2 b2]. cbn [snd]. intros H1 H2 H.
    assert (k = 0%nat) by lia. subst k.
    destruct b1 as [|v1 ? ? ? ?]; [|cbn [canon] in H1; lia].
    destruct b2 as [|v2 ? ? ? ?]; [|cbn [canon] in H2; lia].
    specialize (H 0 (pow2_pos _)). unfold edge_fun in H. cbn [fst snd bdd_fun] in H.
    rewrite !xorb_false_r in H. subst c2. reflexivity.
  - intros k Hk [c1 b1] [c2 b2]. cbn [snd]. intros H1 H2 H.
    assert (Hc : c1 = c2).
    { specialize (H 0 (pow2_pos _)). unfold edge_fun in H. cbn [fst snd] in H.
      rewrite (canon_fun_0 k b1 H1), (canon_fun_0 k b2 H2), !xorb_false_r in H. exact H. }
    subst c2. f_equal.
    assert (Hf : forall m, m < 2 ^ N.of_nat k -> bdd_fun b1 m = bdd_fun b2 m).
    { intros m Hm. specialize (H m Hm). unfold edge_fun in H. cbn [fst snd] in H.
      destruct c1, (bdd_fun b1 m), (bdd_fun b2 m); cbn in H; congruence. }
    clear H.
    (* a node labelled v < k whose function equals, on the domain, a function that ignores x_v: impossible *)
    assert (Hindep : forall v lc lo hc hi (g : N -> bool),
               canon k (Node v lc lo hc hi) ->
               (forall m, m < 2 ^ N.of_nat k -> bdd_fun (Node v lc lo hc hi) m = g m) ->
               (forall m, m < 2 ^ N.of_nat v -> g m = g (m + 2 ^ N.of_nat v)) -> False).
    { intros v lc lo hc hi g Hcn Hg Hi.
      assert (Hv : (v < k)%nat) by (cbn [canon] in Hcn; tauto).
      assert (Hp : 2 * 2 ^ N.of_nat v <= 2 ^ N.of_nat k).
      { rewrite <- pow2_Sn. apply pow2_le_nat. lia. }
      apply (node_dependent v lc lo hc hi); [apply IH; lia|apply (canon_node_S k); exact Hcn|].
      intros m Hm. rewrite !Hg by lia. apply Hi. exact Hm. }
    destruct b1 as [|v1 lc1 lo1 hc1 hi1]; destruct b2 as [|v2 lc2 lo2 hc2 hi2].
    + reflexivity.
    + exfalso. apply (Hindep v2 lc2 lo2 hc2 hi2 (fun _ => false) H2); [|reflexivity].
      intros m Hm. symmetry. apply Hf. exact Hm.
    + exfalso. apply (Hindep v1 lc1 lo1 hc1 hi1 (fun _ => false) H1); [|reflexivity].
      intros m Hm. apply Hf. exact Hm.
    + destruct (lt_eq_lt_dec v1 v2) as [[L|E]|L].
      * exfalso. apply (Hindep v2 lc2 lo2 hc2 hi2 (bdd_fun (Node v1 lc1 lo1 hc1 hi1)) H2).
        -- intros m Hm. symmetry. apply Hf. exact Hm.
        -- intros m Hm. symmetry. apply (canon_support (S v1)); [apply (canon_node_S k); exact H1|].
           intros i Hi. rewrite (testbit_add_pow2 m v2 _ Hm).
           destruct (N.eqb_spec (N.of_nat v2) (N.of_nat i)) as [E|E]; [lia|apply orb_false_r].
      * subst v2. pose proof H1 as H1'. pose proof H2 as H2'. cbn [canon] in H1', H2'.
        destruct H1' as [Hv [-> [Hlo1 [Hhi1 _]]]]. destruct H2' as [_ [-> [Hlo2 [Hhi2 _]]]].
        assert (Hp : 2 * 2 ^ N.of_nat v1 <= 2 ^ N.of_nat k).
        { rewrite <- pow2_Sn. apply pow2_le_nat. lia. }
        assert (Q : canonical_at v1) by (apply IH; lia).
        assert (El : (false, lo1) = (false, lo2)).
        { apply Q; [exact Hlo1|exact Hlo2|]. intros m Hm.
          rewrite <- (proj1 (node_cofactors v1 false lo1 hc1 hi1 m Hlo1 Hhi1 Hm)).
          rewrite <- (proj1 (node_cofactors v1 false lo2 hc2 hi2 m Hlo2 Hhi2 Hm)). apply Hf. lia. }
        assert (Eh : (hc1, hi1) = (hc2, hi2)).
        { apply Q; [exact Hhi1|exact Hhi2|]. intros m Hm.
          rewrite <- (proj2 (node_cofactors v1 false lo1 hc1 hi1 m Hlo1 Hhi1 Hm)).
          rewrite <- (proj2 (node_cofactors v1 false lo2 hc2 hi2 m Hlo2 Hhi2 Hm)). apply Hf. lia. }
        injection El as ->. injection Eh as -> ->. reflexivity.
      * exfalso. apply (Hindep v1 lc1 lo1 hc1 hi1 (bdd_fun (Node v2 lc2 lo2 hc2 hi2)) H1).
        -- intros m Hm. apply Hf. exact Hm.
        -- intros m Hm. symmetry. apply (canon_support (S v2)); [apply (canon_node_S k); exact H2|].
           intros i Hi. rewrite (testbit_add_pow2 m v1 _ Hm).
           destruct (N.eqb_spec (N.of_nat v1) (N.of_nat i)) as [E|E]; [lia|apply orb_false_r].
Qed.

(* ROBDD canonicity: two canonical edges that denote the same function are the same edge *)
Lemma canonicity k (e1 e2 : edge) :
  canon k (snd e1) -> canon k (snd e2) ->
  (forall m, m < 2 ^ N.of_nat k -> edge_fun e1 m = edge_fun e2 m) -> e1 = e2.
Proof. apply (canonicity_aux k k). lia. Qed.

(* ================================================================== the edge built, independently of the table *)

(* what [mk] returns *)
Definition mke (v : nat) (lo hi : edge) : edge :=
  if edge_eqb lo hi then lo else (fst lo, Node v false (snd lo) (xorb (fst lo) (fst hi)) (snd hi)).

(* what [build] returns *)
Fixpoint ptree (t : list N) (k : nat) (a : N) : edge :=
  match k with
  | O => (val t a, Zero)
  | S l => mke l (ptree t l (2 * a)) (ptree t l (2 * a + 1))
  end.

Lemma mk_edge u v lo hi : snd (mk u v lo hi) = mke v lo hi.
Proof. unfold mk, mke. destruct (edge_eqb lo hi); reflexivity. Qed.

Lemma mk_table u v lo hi x :
  In x (fst (mk u v lo hi)) <-> In x u \/ (lo <> hi /\ x = snd (mke v lo hi)).
Proof.
  unfold mk, mke. destruct (edge_eqb lo hi) eqn:E; cbn [fst snd].
  - apply edge_eqb_spec in E. split; [auto|]. intros [H|[H _]]; [exact H|contradiction].
  - apply edge_eqb_false in E.
    destruct (existsb (bdd_eqb (Node v false (snd lo) (xorb (fst lo) (fst hi)) (snd hi))) u) eqn:X.
    + apply existsb_bdd_eqb in X. split; [auto|]. intros [H|[_ ->]]; assumption.
    + rewrite in_app_iff. cbn [In]. split.
      * intros [H|[H|[]]]; [left; exact H|right; split; [exact E|symmetry; exact H]].
      * intros [H|[_ H]]; [left; exact H|right; left; symmetry; exact H].
Qed.

Lemma NoDup_app_one {A} (l : list A) x : NoDup l -> ~ In x l -> NoDup (l ++ [x]).
Proof.
  intros Hl Hx. apply NoDup_rev in Hl. rewrite <- (rev_involutive (l ++ [x])). apply NoDup_rev.
  rewrite rev_app_distr. cbn [rev app]. constructor; [|exact Hl].
  intro H. apply Hx. apply in_rev. exact H.
Qed.

Lemma mk_nodup u v lo hi : NoDup u -> NoDup (fst (mk u v lo hi)).
Proof.
  intros H. unfold mk. destruct (edge_eqb lo hi); cbn [fst]; [exact H|].
  destruct (existsb (bdd_eqb (Node v false (snd lo) (xorb (fst lo) (fst hi)) (snd hi))) u) eqn:X; [exact H|].
  apply NoDup_app_one; [exact H|].
  intro Hin. apply existsb_bdd_eqb in Hin. rewrite Hin in X. discriminate.
Qed.

(* [mk] does Shannon expansion *)
Lemma mke_fun v lo hi m :
  edge_fun (mke v lo hi) m = if N.testbit m (N.of_nat v) then edge_fun hi m else edge_fun lo m.
Proof.
  unfold mke. destruct (edge_eqb lo hi) eqn:E.
  - apply edge_eqb_spec in E. subst hi. destruct (N.testbit m (N.of_nat v)); reflexivity.
  - destruct lo as [c0 b0], hi as [c1 b1]. unfold edge_fun. cbn [fst snd bdd_fun].
    destruct (N.testbit m (N.of_nat v)), c0, c1, (bdd_fun b0 m), (bdd_fun b1 m); reflexivity.
Qed.

(* [mk] keeps the canonical form *)
Lemma mke_canon v lo hi : canon v (snd lo) -> canon v (snd hi) -> canon (S v) (snd (mke v lo hi)).
Proof.
  intros H0 H1. unfold mke. destruct (edge_eqb lo hi) eqn:E.
  - apply (canon_mono v); [exact H0|lia].
  - apply edge_eqb_false in E. cbn [snd canon]. repeat split; [lia|exact H0|exact H1|].
    intro X. apply E. destruct lo as [c0 b0], hi as [c1 b1]. cbn [fst snd] in X.
    injection X as Xc Xb. subst b1. f_equal. destruct c0, c1; cbn in Xc; congruence.
Qed.

Lemma mke_node v lo hi :
  lo <> hi -> snd (mke v lo hi) = Node v false (snd lo) (xorb (fst lo) (fst hi)) (snd hi).
Proof. intros H. unfold mke. apply edge_eqb_false in H. rewrite H. reflexivity. Qed.

Lemma mke_same v lo : mke v lo lo = lo.
Proof. unfold mke. rewrite (proj2 (edge_eqb_spec lo lo) eq_refl). reflexivity. Qed.

Lemma ptree_canon t k a : canon k (snd (ptree t k a)).
Proof.
  revert a. induction k as [|l IH]; intros a; cbn [ptree]; [exact I|].
  apply mke_canon; apply IH.
Qed.

Lemma mod_pow2_Sn m (l : nat) :
  m mod 2 ^ N.of_nat (S l) = m mod 2 ^ N.of_nat l + (if N.testbit m (N.of_nat l) then 2 ^ N.of_nat l else 0).
Proof.
  rewrite pow2_Sn, (N.mul_comm 2).
  rewrite N.mod_mul_r by (try apply N.pow_nonzero; lia).
  rewrite <- N.testbit_spec'. destruct (N.testbit m (N.of_nat l)); cbn [N.b2n]; lia.
Qed.

(* the built edge denotes the selected sub-function of the table *)
Lemma ptree_fun t k a m : edge_fun (ptree t k a) m = val t (m mod 2 ^ N.of_nat k + a * 2 ^ N.of_nat k).
Proof.
  revert a m. induction k as [|l IH]; intros a m.
  - cbn [ptree]. unfold edge_fun. cbn [fst snd bdd_fun]. rewrite xorb_false_r.
    change (2 ^ N.of_nat 0) with 1. rewrite N.mod_1_r. f_equal. lia.
  - cbn [ptree]. rewrite mke_fun, !IH, mod_pow2_Sn, pow2_Sn.
    destruct (N.testbit m (N.of_nat l)); f_equal; lia.
Qed.

Lemma ptree_fun_small t k a m :
  m < 2 ^ N.of_nat k -> edge_fun (ptree t k a) m = val t (m + a * 2 ^ N.of_nat k).
Proof. intros H. rewrite ptree_fun, N.mod_small by exact H. reflexivity. Qed.

(* ================================================================== the unique table after [build] *)

Lemma build_spec t k : forall a u,
  snd (build t k a u) = ptree t k a /\
  (forall x, In x (fst (build t k a u)) <-> In x u \/ In x (subnodes (snd (ptree t k a)))) /\
  (NoDup u -> NoDup (fst (build t k a u))).
Proof.
  induction k as [|l IH]; intros a u.
  - cbn [build ptree fst snd subnodes In]. repeat split; tauto.
  - cbn [build ptree].
    destruct (IH (2 * a) u) as [E0 [I0 N0]]. destruct (build t l (2 * a) u) as [u1 e0]. cbn [fst snd] in *.
    destruct (IH (2 * a + 1) u1) as [E1 [I1 N1]]. destruct (build t l (2 * a + 1) u1) as [u2 e1].
    cbn [fst snd] in *. subst e0 e1.
    set (e0 := ptree t l (2 * a)) in *. set (e1 := ptree t l (2 * a + 1)) in *.
    split; [apply mk_edge|]. split; [|intros H; apply mk_nodup; auto].
    intros x. rewrite mk_table, I1, I0.
    destruct (edge_eqb e0 e1) eqn:E.
    + apply edge_eqb_spec in E. rewrite <- E, mke_same. split; [|tauto].
      intros [[[H|H]|H]|[H _]]; tauto.
    + apply edge_eqb_false in E. rewrite (mke_node l e0 e1 E). cbn [subnodes In]. rewrite in_app_iff.
      split.
      * intros [[[H|H]|H]|[_ H]]; auto.
      * intros [H|[H|[H|H]]]; auto.
Qed.

Lemma build_list_spec n ts : forall u,
  snd (build_list n ts u) = map (fun t => ptree t n 0) ts /\
  (forall x, In x (fst (build_list n ts u)) <->
             In x u \/ exists t, In t ts /\ In x (subnodes (snd (ptree t n 0)))) /\
  (NoDup u -> NoDup (fst (build_list n ts u))).
Proof.
  induction ts as [|t r IH]; intros u.
  - cbn [build_list fst snd map]. repeat split; [tauto| |auto].
    intros [H|[t [[] _]]]. exact H.
  - cbn [build_list map].
    destruct (build_spec t n 0 u) as [E0 [I0 N0]]. destruct (build t n 0 u) as [u1 e]. cbn [fst snd] in *.
    destruct (IH u1) as [E1 [I1 N1]]. destruct (build_list n r u1) as [u2 es]. cbn [fst snd] in *.
    split; [rewrite E0, E1; reflexivity|]. split; [|auto].
    intros x. rewrite I1, I0. split.
    + intros [[H|H]|[t' [Ht H]]]; [left; exact H|right; exists t; split; [left; reflexivity|exact H]|].
      right. exists t'. split; [right; exact Ht|exact H].
    + intros [H|[t' [[Ht|Ht] H]]]; [left; left; exact H|subst t'; left; right; exact H|].
      right. exists t'. split; assumption.
Qed.

Lemma subnodes_mke j e0 e1 b :
  In b (subnodes (snd (mke j e0 e1))) <->
  (e0 <> e1 /\ b = snd (mke j e0 e1)) \/ In b (subnodes (snd e0)) \/ In b (subnodes (snd e1)).
Proof.
  destruct (edge_eqb e0 e1) eqn:E.
  - apply edge_eqb_spec in E. subst e1. rewrite mke_same. split; [auto|].
    intros [[H _]|[H|H]]; [contradiction|exact H|exact H].
  - apply edge_eqb_false in E. rewrite (mke_node j e0 e1 E). cbn [subnodes In]. rewrite in_app_iff. split.
    + intros [H|H]; [left; split; [exact E|symmetry; exact H]|right; exact H].
    + intros [[_ H]|H]; [left; symmetry; exact H|right; exact H].
Qed.

(* the nodes below the edge built for (k, a) are the edges built for the sub-functions (l+1, a') below it
   whose two cofactor edges differ; a' = a * 2^d + r runs over the extensions of a by d = k-1-l more digits *)
Lemma subnodes_ptree t k : forall a b,
  In b (subnodes (snd (ptree t k a))) <->
  exists (l d : nat) (r a' : N),
    k = (l + 1 + d)%nat /\ r < 2 ^ N.of_nat d /\ a' = a * 2 ^ N.of_nat d + r /\
    ptree t l (2 * a') <> ptree t l (2 * a' + 1) /\ b = snd (ptree t (S l) a').
Proof.
  induction k as [|j IH]; intros a b.
  - cbn [ptree snd subnodes In]. split; [intros []|]. intros [l [d [r [a' [H _]]]]]. lia.
  - cbn [ptree]. rewrite subnodes_mke, !IH. split.
    + intros [[Hne Hb]|[H|H]].
      * exists j, 0%nat, 0, a. refine (conj _ (conj _ (conj _ (conj _ _)))); [lia|apply pow2_pos|change (2 ^ N.of_nat 0) with 1; lia|exact Hne|exact Hb].
      * destruct H as [l [d [r [a' [Hk [Hr [Ha [Hne Hb]]]]]]]].
        exists l, (S d), r, a'. rewrite pow2_Sn. refine (conj _ (conj _ (conj _ (conj _ _)))); [lia|lia|lia|exact Hne|exact Hb].
      * destruct H as [l [d [r [a' [Hk [Hr [Ha [Hne Hb]]]]]]]].
        exists l, (S d), (2 ^ N.of_nat d + r), a'. rewrite pow2_Sn. refine (conj _ (conj _ (conj _ (conj _ _)))); [lia|lia|lia|exact Hne|exact Hb].
    + intros [l [d [r [a' [Hk [Hr [Ha [Hne Hb]]]]]]]]. destruct d as [|d].
      * left. assert (l = j) by lia. subst l. change (2 ^ N.of_nat 0) with 1 in Hr, Ha.
        assert (Ea : a' = a) by lia. clear Ha. subst a'. split; [exact Hne|exact Hb].
      * right. rewrite pow2_Sn in Hr, Ha. destruct (N.lt_ge_cases r (2 ^ N.of_nat d)) as [Lr|Lr].
        -- left. exists l, d, r, a'. refine (conj _ (conj _ (conj _ (conj _ _)))); [lia|exact Lr|lia|exact Hne|exact Hb].
        -- right. exists l, d, (r - 2 ^ N.of_nat d), a'. refine (conj _ (conj _ (conj _ (conj _ _)))); [lia|lia|lia|exact Hne|exact Hb].
Qed.

(* ================================================================== the nodes and the sub-functions *)

Lemma sub_cofactors t l a m :
  m < 2 ^ N.of_nat l ->
  sub t l a m = edge_fun (ptree t l (2 * a)) m /\
  sub t l a (m + 2 ^ N.of_nat l) = edge_fun (ptree t l (2 * a + 1)) m.
Proof.
  intros Hm. rewrite !ptree_fun_small by exact Hm. unfold sub. rewrite pow2_S. split; f_equal; lia.
Qed.

Lemma ptree_sub t l a m :
  m < 2 ^ N.of_nat (l + 1) -> edge_fun (ptree t (S l) a) m = sub t l a m.
Proof.
  intros Hm. rewrite ptree_fun_small by (rewrite <- Nat.add_1_r; exact Hm). unfold sub.
  rewrite <- Nat.add_1_r. reflexivity.
Qed.

(* the node built for a sub-function denotes its complement-normalised form *)
Lemma ptree_norm t l a m :
  m < 2 ^ N.of_nat (l + 1) -> bdd_fun (snd (ptree t (S l) a)) m = norm (sub t l a) m.
Proof.
  intros Hm. rewrite norm_spec. rewrite <- (ptree_sub t l a m Hm), <- (ptree_sub t l a 0 (pow2_pos _)).
  unfold edge_fun. rewrite (canon_fun_0 _ _ (ptree_canon t (S l) a)), xorb_false_r.
  destruct (fst (ptree t (S l) a)), (bdd_fun (snd (ptree t (S l) a)) m); reflexivity.
Qed.

(* a node is created at level l exactly when the sub-function depends on x_l *)
Lemma ptree_split_iff t l a :
  ptree t l (2 * a) <> ptree t l (2 * a + 1) <-> depends l (norm (sub t l a)) = true.
Proof.
  split.
  - intros Hne. destruct (depends l (norm (sub t l a))) eqn:D; [reflexivity|]. exfalso. apply Hne.
    apply (canonicity l); [apply ptree_canon|apply ptree_canon|]. intros m Hm.
    pose proof (proj1 (depends_false _ _) D m Hm) as H. rewrite !norm_spec in H.
    destruct (sub_cofactors t l a m Hm) as [E0 E1]. rewrite <- E0, <- E1.
    destruct (sub t l a m), (sub t l a (m + 2 ^ N.of_nat l)), (sub t l a 0); cbn in H; congruence.
  - intros D E. apply depends_true in D. destruct D as [m [Hm Hx]]. apply Hx. rewrite !norm_spec.
    destruct (sub_cofactors t l a m Hm) as [E0 E1]. rewrite E0, E1, E. reflexivity.
Qed.

Definition bvar (b : bdd) : nat := match b with Zero => 0%nat | Node v _ _ _ _ => v end.

Lemma ptree_node t l a :
  ptree t l (2 * a) <> ptree t l (2 * a + 1) ->
  exists lo hc hi, snd (ptree t (S l) a) = Node l false lo hc hi.
Proof. intros H. cbn [ptree]. rewrite (mke_node l _ _ H). eauto. Qed.

(* the literal node is the node of a literal function *)
Lemma literal_node_iff v lc lo hc hi :
  canon (S v) (Node v lc lo hc hi) ->
  is_literal_node (Node v lc lo hc hi) = is_literal v (bdd_fun (Node v lc lo hc hi)).
Proof.
  intros Hc. pose proof Hc as Hc'. cbn [canon] in Hc'. destruct Hc' as [_ [Hlc [Hlo [Hhi _]]]].
  destruct (is_literal v (bdd_fun (Node v lc lo hc hi))) eqn:L.
  - apply is_literal_true in L. destruct L as [L|L].
    + assert (E0 : (lc, lo) = (false, Zero)).
      { apply (canonicity v); [exact Hlo|exact I|]. intros m Hm.
        rewrite <- (proj1 (node_cofactors v lc lo hc hi m Hlo Hhi Hm)). rewrite (proj1 (L m Hm)). reflexivity. }
      assert (E1 : (hc, hi) = (true, Zero)).
      { apply (canonicity v); [exact Hhi|exact I|]. intros m Hm.
        rewrite <- (proj2 (node_cofactors v lc lo hc hi m Hlo Hhi Hm)). rewrite (proj2 (L m Hm)). reflexivity. }
      injection E0 as -> ->. injection E1 as -> ->. reflexivity.
    + exfalso. pose proof (proj1 (L 0 (pow2_pos _))) as H. rewrite (canon_fun_0 _ _ Hc) in H. discriminate.
  - destruct (is_literal_node (Node v lc lo hc hi)) eqn:S; [|reflexivity]. exfalso.
    assert (E : Node v lc lo hc hi = Node v false Zero true Zero).
    { destruct lc; [discriminate|]. destruct lo; [|discriminate]. destruct hc; [|discriminate].
      destruct hi; [reflexivity|discriminate]. }
    rewrite E in L. clear E S. 
    assert (T : is_literal v (bdd_fun (Node v false Zero true Zero)) = true).
    { apply is_literal_true. left. intros m Hm. cbn [bdd_fun]. rewrite (testbit_low_false m v Hm).
      rewrite (testbit_add_pow2 m v _ Hm), N.eqb_refl, orb_true_r. split; reflexivity. }
    rewrite T in L. discriminate.
Qed.

(* ================================================================== the shared unique table *)

Lemma table_In n ts b :
  In b (fst (shared_bdd n ts)) <->
  exists t (l : nat) a, In t ts /\ (l < n)%nat /\ a < 2 ^ N.of_nat (n - 1 - l) /\
                depends l (norm (sub t l a)) = true /\ b = snd (ptree t (S l) a).
Proof.
  unfold shared_bdd. rewrite (proj1 (proj2 (build_list_spec n ts []))). cbn [In]. split.
  - intros [[]|[t [Ht H]]]. apply subnodes_ptree in H.
    destruct H as [l [d [r [a' [Hk [Hr [Ha [Hne Hb]]]]]]]].
    assert (Ea : a' = r) by lia. clear Ha. subst a'. exists t, l, r. replace (n - 1 - l)%nat with d by lia.
    refine (conj _ (conj _ (conj _ (conj _ _)))); [exact Ht|lia|exact Hr|apply ptree_split_iff; exact Hne|exact Hb].
  - intros [t [l [a [Ht [Hl [Ha [D Hb]]]]]]]. right. exists t. split; [exact Ht|].
    apply subnodes_ptree. exists l, (n - 1 - l)%nat, a, a.
    refine (conj _ (conj _ (conj _ (conj _ _)))); [lia|exact Ha|lia|apply ptree_split_iff; exact D|exact Hb].
Qed.

Lemma table_nodup n ts : NoDup (fst (shared_bdd n ts)).
Proof. apply (proj2 (proj2 (build_list_spec n ts []))). constructor. Qed.

Lemma table_node n ts b :
  In b (fst (shared_bdd n ts)) ->
  canon n b /\ exists v lo hc hi, (v < n)%nat /\ b = Node v false lo hc hi /\ canon (S v) b.
Proof.
  intros H. apply table_In in H. destruct H as [t [l [a [Ht [Hl [Ha [D Hb]]]]]]].
  pose proof (ptree_canon t (S l) a) as Hc. rewrite <- Hb in Hc.
  split; [apply (canon_mono (S l)); [exact Hc|lia]|].
  apply ptree_split_iff in D. destruct (ptree_node t l a D) as [lo [hc [hi E]]]. rewrite <- Hb in E.
  exists l, lo, hc, hi. repeat split; [exact Hl|exact E|exact Hc].
Qed.

(* ================================================================== theorems 1 and 2: semantics, canonical form *)

(* 1. the i-th root edge denotes the i-th listed function *)
Theorem shared_bdd_roots n ts : snd (shared_bdd n ts) = map (fun t => ptree t n 0) ts.
Proof. apply (proj1 (build_list_spec n ts [])). Qed.

Theorem shared_bdd_semantics n ts :
  length (snd (shared_bdd n ts)) = length ts /\
  forall i t e, nth_error ts i = Some t -> nth_error (snd (shared_bdd n ts)) i = Some e ->
    forall m, m < 2 ^ N.of_nat n -> edge_fun e m = val t m.
Proof.
  rewrite shared_bdd_roots. split; [apply map_length|].
  intros i t e Ht He m Hm. rewrite nth_error_map, Ht in He. cbn [option_map] in He.
  injection He as <-. rewrite (ptree_fun_small t n 0 m Hm). f_equal. lia.
Qed.

Theorem build_semantics t n u m : m < 2 ^ N.of_nat n -> edge_fun (snd (build t n 0 u)) m = val t m.
Proof.
  intros Hm. rewrite (proj1 (build_spec t n 0 u)), (ptree_fun_small t n 0 m Hm). f_equal. lia.
Qed.

(* the root edges are canonical, and every node below a root is in the unique table *)
Theorem shared_bdd_roots_closed n ts e :
  In e (snd (shared_bdd n ts)) ->
  canon n (snd e) /\ forall b, In b (subnodes (snd e)) -> In b (fst (shared_bdd n ts)).
Proof.
  rewrite shared_bdd_roots. intros H. apply in_map_iff in H. destruct H as [t [<- Ht]].
  split; [apply ptree_canon|]. intros b Hb. unfold shared_bdd.
  apply (proj1 (proj2 (build_list_spec n ts []))). right. exists t. split; assumption.
Qed.

(* 2. everything in the unique table is in canonical form: ordered, low edge regular, reduced ... *)
Theorem shared_bdd_canonical n ts b :
  In b (fst (shared_bdd n ts)) ->
  exists v lo hc hi, b = Node v false lo hc hi /\ (v < n)%nat /\ canon v lo /\ canon v hi /\ (false, lo) <> (hc, hi).
Proof.
  intros H. destruct (table_node n ts b H) as [_ [v [lo [hc [hi [Hv [E Hc]]]]]]]. subst b.
  cbn [canon] in Hc. exists v, lo, hc, hi. tauto.
Qed.

Theorem shared_bdd_canonb n ts : forallb (canonb n) (fst (shared_bdd n ts)) = true.
Proof. apply forallb_forall. intros b Hb. apply canonb_canon. apply (table_node n ts b Hb). Qed.

(* ... the table has no duplicate entry, and no two entries denote the same function, or complementary ones *)
Theorem shared_bdd_nodup n ts : NoDup (fst (shared_bdd n ts)).
Proof. apply table_nodup. Qed.

Theorem shared_bdd_unique n ts b1 b2 :
  In b1 (fst (shared_bdd n ts)) -> In b2 (fst (shared_bdd n ts)) ->
  (forall m, m < 2 ^ N.of_nat n -> bdd_fun b1 m = bdd_fun b2 m) -> b1 = b2.
Proof.
  intros H1 H2 H. assert (E : (false, b1) = (false, b2)).
  { apply (canonicity n); [apply (table_node n ts b1 H1)|apply (table_node n ts b2 H2)|].
    intros m Hm. unfold edge_fun. cbn [fst snd]. rewrite (H m Hm). reflexivity. }
  injection E as ->. reflexivity.
Qed.

Theorem shared_bdd_no_complement n ts b1 b2 :
  In b1 (fst (shared_bdd n ts)) -> In b2 (fst (shared_bdd n ts)) ->
  ~ (forall m, m < 2 ^ N.of_nat n -> bdd_fun b1 m = negb (bdd_fun b2 m)).
Proof.
  intros H1 H2 H. specialize (H 0 (pow2_pos _)).
  rewrite (canon_fun_0 n b1), (canon_fun_0 n b2) in H; [discriminate| |].
  - apply (table_node n ts b2 H2).
  - apply (table_node n ts b1 H1).
Qed.

(* ================================================================== theorem 3: counting *)

Lemma NoDup_map_inj_on {A B} (f : A -> B) l :
  NoDup l -> (forall x y, In x l -> In y l -> f x = f y -> x = y) -> NoDup (map f l).
Proof.
  induction l as [|x l IH]; intros Hn Hinj; cbn [map]; [constructor|].
  inversion Hn as [|x' l' Hx Hl]; subst. constructor.
  - intro H. apply in_map_iff in H. destruct H as [y [Hy Hin]].
    apply Hx. rewrite (Hinj x y); [exact Hin|left; reflexivity|right; exact Hin|symmetry; exact Hy].
  - apply IH; [exact Hl|]. intros a b Ha Hb. apply Hinj; right; assumption.
Qed.

Lemma filter_lt_split {A} (f : A -> nat) n (U : list A) :
  length (filter (fun x => f x <? S n)%nat U) =
  (length (filter (fun x => f x <? n)%nat U) + length (filter (fun x => f x =? n)%nat U))%nat.
Proof.
  induction U as [|x U IH]; [reflexivity|]. cbn [filter].
  destruct (Nat.ltb_spec (f x) (S n)) as [A1|A1]; destruct (Nat.ltb_spec (f x) n) as [A2|A2];
    destruct (Nat.eqb_spec (f x) n) as [A3|A3]; cbn [length]; lia.
Qed.

Lemma filter_all {A} (f : A -> bool) (U : list A) : (forall x, In x U -> f x = true) -> filter f U = U.
Proof.
  induction U as [|x U IH]; intros H; [reflexivity|]. cbn [filter]. rewrite (H x) by (left; reflexivity).
  rewrite IH; [reflexivity|]. intros y Hy. apply H. right. exact Hy.
Qed.

Lemma length_by_class {A} (f : A -> nat) n (U : list A) :
  (forall x, In x U -> (f x < n)%nat) ->
  length U = list_sum (map (fun l => length (filter (fun x => f x =? l)%nat U)) (seq 0 n)).
Proof.
  intros H.
  assert (E : forall k, length (filter (fun x => f x <? k)%nat U) =
                        list_sum (map (fun l => length (filter (fun x => f x =? l)%nat U)) (seq 0 k))).
  { induction k as [|k IH].
    - cbn [seq map list_sum]. induction U as [|x U IHU]; [reflexivity|]. cbn [filter]. apply IHU.
      intros y Hy. apply H. right. exact Hy.
    - rewrite seq_S, map_app, list_sum_app'. cbn [map Nat.add]. rewrite filter_lt_split, IH.
      unfold list_sum at 3. cbn [fold_right]. lia. }
  rewrite <- E. f_equal. symmetry. apply filter_all. intros x Hx.
  apply Nat.ltb_lt. apply H. exact Hx.
Qed.

(* the nodes labelled x_l of the unique table, literal excluded, are in bijection (via their truth-table numbers)
   with the distinct level-l nodes of the specification *)
Lemma level_bijection n ts l :
  (l < n)%nat ->
  length (filter (fun b => bvar b =? l)%nat (filter (fun b => negb (is_literal_node b)) (fst (shared_bdd n ts)))) =
  level_count n ts l.
Proof.
  intros Hl. unfold level_count.
  set (U := fst (shared_bdd n ts)).
  set (L := filter (fun b => (bvar b =? l)%nat) (filter (fun b => negb (is_literal_node b)) U)).
  set (F := fun b => ttnum (l + 1) (bdd_fun b)).
  assert (HL : forall b, In b L <-> In b U /\ is_literal_node b = false /\ bvar b = l).
  { intros b. unfold L. rewrite !filter_In, negb_true_iff, Nat.eqb_eq. tauto. }
  assert (Hcan : forall b, In b L -> canon (S l) b).
  { intros b Hb. apply HL in Hb. destruct Hb as [Hb [_ Hv]].
    destruct (table_node n ts b Hb) as [_ [v [lo [hc [hi [_ [E Hc]]]]]]]. subst b. cbn [bvar] in Hv. subst v.
    exact Hc. }
  assert (Hnd : NoDup (map F L)).
  { apply NoDup_map_inj_on; [unfold L; apply NoDup_filter, NoDup_filter, table_nodup|].
    intros b1 b2 H1 H2 E. unfold F in E.
    assert (X : (false, b1) = (false, b2)).
    { apply (canonicity (S l)); [apply Hcan; exact H1|apply Hcan; exact H2|].
      intros m Hm. unfold edge_fun. cbn [fst snd]. f_equal. apply (ttnum_inj (l + 1) _ _ E).
      rewrite Nat.add_1_r. exact Hm. }
    injection X as ->. reflexivity. }
  rewrite <- (map_length F L).
  apply Permutation_length. apply NoDup_Permutation; [exact Hnd|apply NoDup_nodup|].
  intros x. rewrite nodup_In, level_nodes_In, in_map_iff. split.
  - intros [b [Hx Hb]]. apply HL in Hb. destruct Hb as [Hb [Hlit Hv]].
    apply table_In in Hb. destruct Hb as [t [l' [a [Ht [Hl' [Ha [D E]]]]]]].
    destruct (ptree_node t l' a (proj2 (ptree_split_iff t l' a) D)) as [lo [hc [hi En]]].
    assert (l' = l) by (rewrite E, En in Hv; exact Hv). subst l'.
    assert (Hfun : forall m, m < 2 ^ N.of_nat (l + 1) -> bdd_fun b m = norm (sub t l a) m).
    { intros m Hm. rewrite E. apply ptree_norm. exact Hm. }
    exists t, a. refine (conj Ht (conj Ha (conj _ _))).
    + rewrite <- Hx. unfold F. apply ttnum_ext. exact Hfun.
    + unfold keep. rewrite D. cbn [andb]. apply negb_true_iff.
      rewrite <- (is_literal_ext l _ _ Hfun). rewrite <- Hlit. rewrite E, En. symmetry.
      apply literal_node_iff. rewrite <- En. apply ptree_canon.
  - intros [t [a [Ht [Ha [Hx Hk]]]]]. unfold keep in Hk. apply andb_true_iff in Hk. destruct Hk as [D Hlit].
    apply negb_true_iff in Hlit.
    set (b := snd (ptree t (S l) a)).
    assert (Hfun : forall m, m < 2 ^ N.of_nat (l + 1) -> bdd_fun b m = norm (sub t l a) m).
    { intros m Hm. apply ptree_norm. exact Hm. }
    destruct (ptree_node t l a (proj2 (ptree_split_iff t l a) D)) as [lo [hc [hi En]]]. fold b in En.
    exists b. split.
    + rewrite Hx. unfold F. apply ttnum_ext. exact Hfun.
    + apply HL. refine (conj _ (conj _ _)).
      * apply table_In. exists t, l, a. auto.
      * rewrite <- Hlit, <- (is_literal_ext l _ _ Hfun). rewrite En. apply literal_node_iff.
        rewrite <- En. apply ptree_canon.
      * rewrite En. reflexivity.
Qed.

(* 3. the number of non-literal nodes of the shared BDD is the specification [bdd_nodes] *)
Theorem count_nonliteral_spec n ts : count_nonliteral (fst (shared_bdd n ts)) = bdd_nodes n ts.
Proof.
  unfold count_nonliteral, bdd_nodes.
  rewrite (length_by_class bvar n).
  - apply list_sum_map_ext_in. intros l Hl. apply in_seq in Hl. apply level_bijection. lia.
  - intros b Hb. apply filter_In in Hb. destruct Hb as [Hb _].
    destruct (table_node n ts b Hb) as [_ [v [lo [hc [hi [Hv [E _]]]]]]]. subst b. exact Hv.
Qed.

Theorem bdd_size_spec n ts : bdd_size n ts = bdd_nodes n ts.
Proof. apply count_nonliteral_spec. Qed.

(* 4. the model of the code returns the number of non-literal nodes of the constructed BDD *)
Theorem table_complexity_build n ts :
  Forall (wf n) ts -> table_complexity n (concat ts) = Ok (count_nonliteral (fst (shared_bdd n ts))).
Proof. intros H. rewrite count_nonliteral_spec. apply table_complexity_spec. exact H. Qed.

(* ================================================================== statements in terms of Spec-level notions only *)

Theorem canonicity_b k (e1 e2 : edge) :
  canonb k (snd e1) = true -> canonb k (snd e2) = true ->
  ((forall m, m < 2 ^ N.of_nat k -> edge_fun e1 m = edge_fun e2 m) <-> e1 = e2).
Proof.
  intros H1 H2. split.
  - apply canonicity; apply canonb_canon; assumption.
  - intros -> m _. reflexivity.
Qed.

Theorem shared_bdd_canonical_b n ts b :
  In b (fst (shared_bdd n ts)) ->
  exists v lo hc hi, b = Node v false lo hc hi /\ (v < n)%nat /\
                     canonb v lo = true /\ canonb v hi = true /\ (false, lo) <> (hc, hi).
Proof.
  intros H. destruct (shared_bdd_canonical n ts b H) as [v [lo [hc [hi [E [Hv [H0 [H1 Hne]]]]]]]].
  exists v, lo, hc, hi. rewrite !canonb_canon. tauto.
Qed.

Theorem shared_bdd_roots_canonb n ts e : In e (snd (shared_bdd n ts)) -> canonb n (snd e) = true.
Proof. intros H. apply canonb_canon. apply (shared_bdd_roots_closed n ts e H). Qed.

(* the unique table is exactly the set of the nodes reachable from the roots: no garbage, nothing missing *)
Theorem shared_bdd_reachable n ts b :
  In b (fst (shared_bdd n ts)) <-> exists e, In e (snd (shared_bdd n ts)) /\ In b (subnodes (snd e)).
Proof.
  rewrite shared_bdd_roots. unfold shared_bdd. rewrite (proj1 (proj2 (build_list_spec n ts []))). cbn [In]. split.
  - intros [[]|[t [Ht H]]]. exists (ptree t n 0). split; [apply in_map_iff; exists t; auto|exact H].
  - intros [e [He H]]. apply in_map_iff in He. destruct He as [t [<- Ht]]. right. exists t. auto.
Qed.

(* the node whose two edges go to the terminal is the node of a literal, and conversely *)
Theorem literal_node_meaning k v lc lo hc hi :
  canonb k (Node v lc lo hc hi) = true ->
  is_literal_node (Node v lc lo hc hi) = is_literal v (bdd_fun (Node v lc lo hc hi)).
Proof. intros H. apply literal_node_iff. apply (canon_node_S k). apply canonb_canon. exact H. Qed.

(* every node of the table depends on its label variable *)
Theorem shared_bdd_depends n ts v lc lo hc hi :
  In (Node v lc lo hc hi) (fst (shared_bdd n ts)) -> depends v (bdd_fun (Node v lc lo hc hi)) = true.
Proof.
  intros H. destruct (table_node n ts _ H) as [_ [v' [lo' [hc' [hi' [_ [E Hc]]]]]]].
  injection E as <- -> <- <- <-.
  destruct (depends v (bdd_fun (Node v false lo hc hi))) eqn:D; [reflexivity|]. exfalso.
  apply (node_dependent v false lo hc hi); [intros e1 e2; apply canonicity|exact Hc|].
  apply depends_false. exact D.
Qed.

(* API forms *)
Theorem D_bdd_complexity_build l0 luts :
  Forall (fun l => nv l = nv l0 /\ wf (nv l) (tbl l)) (l0 :: luts) ->
  D_bdd_complexity (l0 :: luts) = Ok (bdd_size (nv l0) (map tbl (l0 :: luts))).
Proof. intros H. rewrite bdd_size_spec. apply D_bdd_complexity_spec. exact H. Qed.

Theorem S_bdd_complexity_build n luts :
  Forall (fun l => wf n (tbl l)) luts -> S_bdd_complexity n luts = Ok (bdd_size n (map tbl luts)).
Proof. intros H. rewrite bdd_size_spec. apply S_bdd_complexity_spec. exact H. Qed.

(* the table is closed under children: it is a DAG in which every node can refer to its children by their
   position in the table (or to the terminal) *)
Lemma subnodes_trans r : forall b c, In b (subnodes r) -> In c (subnodes b) -> In c (subnodes r).
Proof.
  induction r as [|v lc lo IHlo hc hi IHhi]; intros b c Hb Hc; [destruct Hb|].
  cbn [subnodes In] in Hb. destruct Hb as [Hb|Hb]; [subst b; exact Hc|].
  cbn [subnodes In]. right. apply in_app_iff. apply in_app_iff in Hb.
  destruct Hb as [Hb|Hb]; [left; apply (IHlo b c Hb Hc)|right; apply (IHhi b c Hb Hc)].
Qed.

Lemma subnodes_self b : b = Zero \/ In b (subnodes b).
Proof. destruct b; [left; reflexivity|right; left; reflexivity]. Qed.

Theorem shared_bdd_closed n ts v lc lo hc hi :
  In (Node v lc lo hc hi) (fst (shared_bdd n ts)) ->
  (lo = Zero \/ In lo (fst (shared_bdd n ts))) /\ (hi = Zero \/ In hi (fst (shared_bdd n ts))).
Proof.
  intros H. apply shared_bdd_reachable in H. destruct H as [e [He H]].
  split.
  - destruct (subnodes_self lo) as [Z|S]; [left; exact Z|right].
    apply shared_bdd_reachable. exists e. split; [exact He|].
    apply (subnodes_trans _ _ _ H). cbn [subnodes In]. right. apply in_app_iff. left. exact S.
  - destruct (subnodes_self hi) as [Z|S]; [left; exact Z|right].
    apply shared_bdd_reachable. exists e. split; [exact He|].
    apply (subnodes_trans _ _ _ H). cbn [subnodes In]. right. apply in_app_iff. right. exact S.
Qed.
