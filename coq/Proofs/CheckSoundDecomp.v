(* Soundness of the executable specification-level checkers of Checkers/Check.v, part C06 / C07:
   spec_top, spec_pos_unate, spec_neg_unate, decomp_eqb (top decomposition and unateness) and chk_bdd (BDD size).
   Each checker decides exactly the statement that the corresponding property theorem (Properties/C06.v,
   Properties/C07.v) proves about the model: a mismatch is a genuine violation of that statement, and on the model's
   own results checker and model agree. *)
From Coq Require Import List NArith ZArith Arith Bool Lia.
From V Require Import Base.Res Gen.Tables Model.Kernels Model.Decomp Model.Bdd Model.Api Base.Bits Spec.Bfun
  Spec.BddSpec Spec.TwoLevelCost Proofs.Wf Proofs.ApiTransforms Proofs.DecompProofs Proofs.BddProofs
  Checkers.Check Proofs.CheckSound.
Import ListNotations.
Open Scope N_scope.

(* ------------------------------------------------------------------ 1. the six boolean sweeps of spec_top *)
Definition sweep_indep (n : nat) (t : list N) (v : N) : bool :=
  forallb (fun m => Bool.eqb (c0 t v m) (c1 t v m)) (dom n).
Definition sweep_zero0 (n : nat) (t : list N) (v : N) : bool := forallb (fun m => negb (c0 t v m)) (dom n).
Definition sweep_one0 (n : nat) (t : list N) (v : N) : bool := forallb (c0 t v) (dom n).
Definition sweep_zero1 (n : nat) (t : list N) (v : N) : bool := forallb (fun m => negb (c1 t v m)) (dom n).
Definition sweep_one1 (n : nat) (t : list N) (v : N) : bool := forallb (c1 t v) (dom n).
Definition sweep_xr (n : nat) (t : list N) (v : N) : bool :=
  forallb (fun m => Bool.eqb (c0 t v m) (negb (c1 t v m))) (dom n).

(* spec_top is, definitionally, the priority chain `classify` of Proofs/DecompProofs.v applied to the six sweeps
   (argument order of classify: independent, and = Zero0, or = One1, nand = One0, nor = Zero1, xor) *)
Lemma spec_top_classify n t v :
  spec_top n t v = classify (sweep_indep n t v) (sweep_zero0 n t v) (sweep_one1 n t v)
                            (sweep_one0 n t v) (sweep_zero1 n t v) (sweep_xr n t v).
Proof. reflexivity. Qed.

Lemma sweep_indep_iff n t v : sweep_indep n t v = true <-> Indep n t v.
Proof. unfold sweep_indep, Indep. apply forallb_dom_eqb. Qed.

Lemma sweep_zero0_iff n t v : sweep_zero0 n t v = true <-> Zero0 n t v.
Proof.
  unfold sweep_zero0, Zero0. rewrite forallb_dom.
  split; intros H m Hm; apply negb_true_iff; apply H; exact Hm.
Qed.

Lemma sweep_one0_iff n t v : sweep_one0 n t v = true <-> One0 n t v.
Proof. unfold sweep_one0, One0. apply forallb_dom. Qed.

Lemma sweep_zero1_iff n t v : sweep_zero1 n t v = true <-> Zero1 n t v.
Proof.
  unfold sweep_zero1, Zero1. rewrite forallb_dom.
  split; intros H m Hm; apply negb_true_iff; apply H; exact Hm.
Qed.

Lemma sweep_one1_iff n t v : sweep_one1 n t v = true <-> One1 n t v.
Proof. unfold sweep_one1, One1. apply forallb_dom. Qed.

Lemma sweep_xr_iff n t v : sweep_xr n t v = true <-> Xr n t v.
Proof. unfold sweep_xr, Xr. apply forallb_dom_eqb. Qed.

(* ------------------------------------------------------------------ 2. spec_top = the priority chain of C06_top *)
(* the nine-way statement of C06_top, as a predicate on the result *)
Definition top_chain (n : nat) (t : list N) (v : N) (d : DecompositionType) : Prop :=
  (d = DIndependent <-> Indep n t v) /\
  (d = DIdentity <-> ~ Indep n t v /\ (Zero0 n t v /\ One1 n t v)) /\
  (d = DNegation <-> ~ Indep n t v /\ ~ (Zero0 n t v /\ One1 n t v) /\ (One0 n t v /\ Zero1 n t v)) /\
  (d = DAnd <-> ~ Indep n t v /\ ~ (Zero0 n t v /\ One1 n t v) /\ ~ (One0 n t v /\ Zero1 n t v) /\ Zero0 n t v) /\
  (d = DOr <-> ~ Indep n t v /\ ~ (Zero0 n t v /\ One1 n t v) /\ ~ (One0 n t v /\ Zero1 n t v) /\
               ~ Zero0 n t v /\ One1 n t v) /\
  (d = DLe <-> ~ Indep n t v /\ ~ (Zero0 n t v /\ One1 n t v) /\ ~ (One0 n t v /\ Zero1 n t v) /\
               ~ Zero0 n t v /\ ~ One1 n t v /\ One0 n t v) /\
  (d = DLt <-> ~ Indep n t v /\ ~ (Zero0 n t v /\ One1 n t v) /\ ~ (One0 n t v /\ Zero1 n t v) /\
               ~ Zero0 n t v /\ ~ One1 n t v /\ ~ One0 n t v /\ Zero1 n t v) /\
  (d = DXor <-> ~ Indep n t v /\ ~ (Zero0 n t v /\ One1 n t v) /\ ~ (One0 n t v /\ Zero1 n t v) /\
                ~ Zero0 n t v /\ ~ One1 n t v /\ ~ One0 n t v /\ ~ Zero1 n t v /\ Xr n t v) /\
  (d = DNone <-> ~ Indep n t v /\ ~ (Zero0 n t v /\ One1 n t v) /\ ~ (One0 n t v /\ Zero1 n t v) /\
                 ~ Zero0 n t v /\ ~ One1 n t v /\ ~ One0 n t v /\ ~ Zero1 n t v /\ ~ Xr n t v).

(* top_chain is literally the conclusion of top_sem / C06_top *)
Lemma top_sem_chain n t v : wf n t -> v < N.of_nat n ->
  exists d, top_decomposition n t v = Ok d /\ top_chain n t v d.
Proof. exact (top_sem n t v). Qed.

(* the chain holds of spec_top, with no hypothesis on n, t, v *)
Lemma spec_top_chain n t v : top_chain n t v (spec_top n t v).
Proof.
  unfold top_chain. rewrite spec_top_classify.
  rewrite <- sweep_indep_iff, <- sweep_zero0_iff, <- sweep_one1_iff, <- sweep_one0_iff, <- sweep_zero1_iff,
          <- sweep_xr_iff.
  exact (classify_chain (sweep_indep n t v) (sweep_zero0 n t v) (sweep_one1 n t v)
                        (sweep_one0 n t v) (sweep_zero1 n t v) (sweep_xr n t v)).
Qed.

(* the nine conditions determine d: at most one d satisfies the chain *)
Lemma top_chain_unique n t v d d' : top_chain n t v d -> top_chain n t v d' -> d = d'.
Proof.
  unfold top_chain.
  intros [H1 [H2 [H3 [H4 [H5 [H6 [H7 [H8 H9]]]]]]]] [G1 [G2 [G3 [G4 [G5 [G6 [G7 [G8 G9]]]]]]]].
  destruct d.
  - symmetry. apply G9, H9. reflexivity.
  - symmetry. apply G1, H1. reflexivity.
  - symmetry. apply G2, H2. reflexivity.
  - symmetry. apply G3, H3. reflexivity.
  - symmetry. apply G4, H4. reflexivity.
  - symmetry. apply G5, H5. reflexivity.
  - symmetry. apply G6, H6. reflexivity.
  - symmetry. apply G7, H7. reflexivity.
  - symmetry. apply G8, H8. reflexivity.
Qed.

Theorem spec_top_iff n t v d : spec_top n t v = d <-> top_chain n t v d.
Proof.
  split.
  - intros <-. apply spec_top_chain.
  - intros H. apply (top_chain_unique n t v); [apply spec_top_chain|exact H].
Qed.

(* the same, with the chain written out exactly as in C06_top *)
Theorem spec_top_iff_explicit : forall n t v d,
  spec_top n t v = d <->
    (d = DIndependent <-> Indep n t v) /\
    (d = DIdentity <-> ~ Indep n t v /\ (Zero0 n t v /\ One1 n t v)) /\
    (d = DNegation <-> ~ Indep n t v /\ ~ (Zero0 n t v /\ One1 n t v) /\ (One0 n t v /\ Zero1 n t v)) /\
    (d = DAnd <-> ~ Indep n t v /\ ~ (Zero0 n t v /\ One1 n t v) /\ ~ (One0 n t v /\ Zero1 n t v) /\ Zero0 n t v) /\
    (d = DOr <-> ~ Indep n t v /\ ~ (Zero0 n t v /\ One1 n t v) /\ ~ (One0 n t v /\ Zero1 n t v) /\
                 ~ Zero0 n t v /\ One1 n t v) /\
    (d = DLe <-> ~ Indep n t v /\ ~ (Zero0 n t v /\ One1 n t v) /\ ~ (One0 n t v /\ Zero1 n t v) /\
                 ~ Zero0 n t v /\ ~ One1 n t v /\ One0 n t v) /\
    (d = DLt <-> ~ Indep n t v /\ ~ (Zero0 n t v /\ One1 n t v) /\ ~ (One0 n t v /\ Zero1 n t v) /\
                 ~ Zero0 n t v /\ ~ One1 n t v /\ ~ One0 n t v /\ Zero1 n t v) /\
    (d = DXor <-> ~ Indep n t v /\ ~ (Zero0 n t v /\ One1 n t v) /\ ~ (One0 n t v /\ Zero1 n t v) /\
                  ~ Zero0 n t v /\ ~ One1 n t v /\ ~ One0 n t v /\ ~ Zero1 n t v /\ Xr n t v) /\
    (d = DNone <-> ~ Indep n t v /\ ~ (Zero0 n t v /\ One1 n t v) /\ ~ (One0 n t v /\ Zero1 n t v) /\
                   ~ Zero0 n t v /\ ~ One1 n t v /\ ~ One0 n t v /\ ~ Zero1 n t v /\ ~ Xr n t v).
Proof. exact spec_top_iff. Qed.

(* ------------------------------------------------------------------ 3. the model agrees with spec_top *)
Theorem spec_top_sound n t v : wf n t -> v < N.of_nat n -> top_decomposition n t v = Ok (spec_top n t v).
Proof.
  intros Hwf Hv. destruct (top_sem_chain n t v Hwf Hv) as [d [E H]].
  rewrite E. f_equal. symmetry. apply spec_top_iff. exact H.
Qed.

Corollary spec_top_complete n t v d : wf n t -> v < N.of_nat n ->
  (top_decomposition n t v = Ok d <-> spec_top n t v = d).
Proof.
  intros Hwf Hv. rewrite (spec_top_sound n t v Hwf Hv). split.
  - intros E. injection E as E. exact E.
  - intros <-. reflexivity.
Qed.

Theorem D_spec_top_sound l v : lwf l -> v < N.of_nat (nv l) ->
  D_top_decomposition l v = Ok (spec_top (nv l) (tbl l) v).
Proof.
  intros Hwf Hv. destruct (D_top_decomposition_sem l v Hwf Hv) as [d [E H]].
  rewrite E. f_equal. symmetry. apply spec_top_iff. exact H.
Qed.

Corollary D_spec_top_complete l v d : lwf l -> v < N.of_nat (nv l) ->
  (D_top_decomposition l v = Ok d <-> spec_top (nv l) (tbl l) v = d).
Proof.
  intros Hwf Hv. rewrite (D_spec_top_sound l v Hwf Hv). split.
  - intros E. injection E as E. exact E.
  - intros <-. reflexivity.
Qed.

Theorem decomp_eqb_iff a b : decomp_eqb a b = true <-> a = b.
Proof. destruct a, b; cbn [decomp_eqb]; split; intros H; try reflexivity; discriminate H. Qed.

Corollary decomp_eqb_false a b : decomp_eqb a b = false <-> a <> b.
Proof. rewrite <- decomp_eqb_iff. destruct (decomp_eqb a b); split; congruence. Qed.

(* the comparison the driver runs: the observed class d passes iff it satisfies the statement of C06_top *)
Corollary decomp_check_iff n t v d : decomp_eqb d (spec_top n t v) = true <-> top_chain n t v d.
Proof. rewrite decomp_eqb_iff, <- spec_top_iff. split; intros H; symmetry; exact H. Qed.

(* ... and, under the hypotheses of C06_top, iff it is the model's result *)
Corollary decomp_check_model n t v d : wf n t -> v < N.of_nat n ->
  (decomp_eqb d (spec_top n t v) = true <-> top_decomposition n t v = Ok d).
Proof.
  intros Hwf Hv. rewrite (spec_top_complete n t v d Hwf Hv), decomp_eqb_iff.
  split; intros H; symmetry; exact H.
Qed.

(* ------------------------------------------------------------------ 4. unateness *)
Theorem spec_pos_unate_iff n t v :
  spec_pos_unate n t v = true <-> forall m, m < 2 ^ N.of_nat n -> c0 t v m = true -> c1 t v m = true.
Proof.
  unfold spec_pos_unate. rewrite forallb_dom. fold (c0 t v) (c1 t v). unfold c0, c1.
  split; intros H m Hm.
  - intros E. specialize (H m Hm). rewrite E in H. exact H.
  - specialize (H m Hm). destruct (val t (clearbit m v)); [cbn [implb]; apply H; reflexivity|reflexivity].
Qed.

Theorem spec_neg_unate_iff n t v :
  spec_neg_unate n t v = true <-> forall m, m < 2 ^ N.of_nat n -> c1 t v m = true -> c0 t v m = true.
Proof.
  unfold spec_neg_unate. rewrite forallb_dom. unfold c0, c1.
  split; intros H m Hm.
  - intros E. specialize (H m Hm). rewrite E in H. exact H.
  - specialize (H m Hm). destruct (val t (setbit m v)); [cbn [implb]; apply H; reflexivity|reflexivity].
Qed.

Corollary spec_pos_unate_PosUnate n t v : spec_pos_unate n t v = true <-> PosUnate n t v.
Proof. exact (spec_pos_unate_iff n t v). Qed.

Corollary spec_neg_unate_NegUnate n t v : spec_neg_unate n t v = true <-> NegUnate n t v.
Proof. exact (spec_neg_unate_iff n t v). Qed.

Lemma bool_eq_of_iff (b b' : bool) (P : Prop) : (b = true <-> P) -> (b' = true <-> P) -> b = b'.
Proof. intros H H'. apply eq_true_iff_eq. rewrite H, H'. reflexivity. Qed.

Theorem spec_pos_unate_sound n t v : wf n t -> v < N.of_nat n ->
  input_pos_unate n t v = Ok (spec_pos_unate n t v).
Proof.
  intros Hwf Hv. destruct (input_pos_unate_sem n t v Hwf Hv) as [b [E H]].
  rewrite E. f_equal. exact (bool_eq_of_iff _ _ _ H (spec_pos_unate_PosUnate n t v)).
Qed.

Theorem spec_neg_unate_sound n t v : wf n t -> v < N.of_nat n ->
  input_neg_unate n t v = Ok (spec_neg_unate n t v).
Proof.
  intros Hwf Hv. destruct (input_neg_unate_sem n t v Hwf Hv) as [b [E H]].
  rewrite E. f_equal. exact (bool_eq_of_iff _ _ _ H (spec_neg_unate_NegUnate n t v)).
Qed.

Corollary spec_pos_unate_complete n t v b : wf n t -> v < N.of_nat n ->
  (input_pos_unate n t v = Ok b <-> spec_pos_unate n t v = b).
Proof.
  intros Hwf Hv. rewrite (spec_pos_unate_sound n t v Hwf Hv). split.
  - intros E. injection E as E. exact E.
  - intros <-. reflexivity.
Qed.

Corollary spec_neg_unate_complete n t v b : wf n t -> v < N.of_nat n ->
  (input_neg_unate n t v = Ok b <-> spec_neg_unate n t v = b).
Proof.
  intros Hwf Hv. rewrite (spec_neg_unate_sound n t v Hwf Hv). split.
  - intros E. injection E as E. exact E.
  - intros <-. reflexivity.
Qed.

Theorem D_spec_pos_unate_sound l v : lwf l -> v < N.of_nat (nv l) ->
  D_is_pos_unate l v = Ok (spec_pos_unate (nv l) (tbl l) v).
Proof.
  intros Hwf Hv. destruct (D_is_pos_unate_sem l v Hwf Hv) as [b [E H]].
  rewrite E. f_equal. exact (bool_eq_of_iff _ _ _ H (spec_pos_unate_PosUnate (nv l) (tbl l) v)).
Qed.

Theorem D_spec_neg_unate_sound l v : lwf l -> v < N.of_nat (nv l) ->
  D_is_neg_unate l v = Ok (spec_neg_unate (nv l) (tbl l) v).
Proof.
  intros Hwf Hv. destruct (D_is_neg_unate_sem l v Hwf Hv) as [b [E H]].
  rewrite E. f_equal. exact (bool_eq_of_iff _ _ _ H (spec_neg_unate_NegUnate (nv l) (tbl l) v)).
Qed.

(* the comparison the driver runs on an observed boolean b: it passes iff b satisfies the statement of
   C06_input_pos_unate / C06_input_neg_unate *)
Corollary pos_unate_check_iff n t v b :
  Bool.eqb b (spec_pos_unate n t v) = true <->
  (b = true <-> forall m, m < 2 ^ N.of_nat n -> c0 t v m = true -> c1 t v m = true).
Proof.
  rewrite eqb_true_iff, <- spec_pos_unate_iff. split.
  - intros ->. reflexivity.
  - intros H. apply eq_true_iff_eq. exact H.
Qed.

Corollary neg_unate_check_iff n t v b :
  Bool.eqb b (spec_neg_unate n t v) = true <->
  (b = true <-> forall m, m < 2 ^ N.of_nat n -> c1 t v m = true -> c0 t v m = true).
Proof.
  rewrite eqb_true_iff, <- spec_neg_unate_iff. split.
  - intros ->. reflexivity.
  - intros H. apply eq_true_iff_eq. exact H.
Qed.

(* ------------------------------------------------------------------ 5. chk_bdd and C07 *)
Theorem chk_bdd_iff n ts count : chk_bdd n ts count = true <-> count = bdd_nodes n ts.
Proof. unfold chk_bdd. apply Nat.eqb_eq. Qed.

Corollary chk_bdd_false n ts count : chk_bdd n ts count = false <-> count <> bdd_nodes n ts.
Proof. unfold chk_bdd. apply Nat.eqb_neq. Qed.

(* under the hypothesis of C07_count (table_complexity_spec), with its exact arguments *)
Theorem chk_bdd_sound n ts count : Forall (wf n) ts ->
  (chk_bdd n ts count = true <-> table_complexity n (concat ts) = Ok count).
Proof.
  intros Hwf. rewrite chk_bdd_iff, (table_complexity_spec n ts Hwf). split.
  - intros ->. reflexivity.
  - intros E. injection E as E. symmetry. exact E.
Qed.

(* the model's own result passes *)
Corollary chk_bdd_model n ts : Forall (wf n) ts ->
  exists count, table_complexity n (concat ts) = Ok count /\ chk_bdd n ts count = true.
Proof.
  intros Hwf. exists (bdd_nodes n ts). split; [apply table_complexity_spec; exact Hwf|].
  apply chk_bdd_iff. reflexivity.
Qed.

(* under the hypothesis of C07_api_D (dynamic-size API, non-empty list) *)
Theorem chk_bdd_sound_D l0 luts count :
  Forall (fun l => nv l = nv l0 /\ wf (nv l) (tbl l)) (l0 :: luts) ->
  (chk_bdd (nv l0) (map tbl (l0 :: luts)) count = true <-> D_bdd_complexity (l0 :: luts) = Ok count).
Proof.
  intros H. rewrite chk_bdd_iff, (D_bdd_complexity_spec l0 luts H). split.
  - intros ->. reflexivity.
  - intros E. injection E as E. symmetry. exact E.
Qed.

(* C07_api_D_empty: the empty list (any n) *)
Theorem chk_bdd_sound_D_empty n count :
  chk_bdd n [] count = true <-> D_bdd_complexity [] = Ok count.
Proof.
  rewrite chk_bdd_iff, D_bdd_complexity_empty, bdd_empty. split.
  - intros ->. reflexivity.
  - intros E. injection E as E. symmetry. exact E.
Qed.

(* under the hypothesis of C07_api_S (static-size API) *)
Theorem chk_bdd_sound_S n luts count :
  Forall (fun l => wf n (tbl l)) luts ->
  (chk_bdd n (map tbl luts) count = true <-> S_bdd_complexity n luts = Ok count).
Proof.
  intros H. rewrite chk_bdd_iff, (S_bdd_complexity_spec n luts H). split.
  - intros ->. reflexivity.
  - intros E. injection E as E. symmetry. exact E.
Qed.

(* ------------------------------------------------------------------ concrete instances (both storage regimes) *)
Example spec_top_examples :
  spec_top 3 [0xaa] 1 = DIndependent /\ spec_top 3 [0xaa] 0 = DIdentity /\ spec_top 3 [0x55] 0 = DNegation /\
  spec_top 3 [0x88] 0 = DAnd /\ spec_top 3 [0xee] 0 = DOr /\ spec_top 3 [0x77] 0 = DLe /\
  spec_top 3 [0x11] 0 = DLt /\ spec_top 3 [0x96] 0 = DXor /\ spec_top 3 [0xe8] 0 = DNone /\
  spec_top 7 [0; 0x0123456789abcdef] 6 = DAnd /\
  spec_top 7 [0x0123456789abcdef; 0xfedcba9876543210] 6 = DXor /\
  spec_pos_unate 3 [0xe8] 0 = true /\ spec_neg_unate 3 [0xe8] 0 = false /\
  chk_bdd 3 [[0x96]; [0xe8]] 5 = true /\ chk_bdd 3 [[0x96]; [0xe8]] 4 = false.
Proof. repeat split; vm_compute; reflexivity. Qed.

