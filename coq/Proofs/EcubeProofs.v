(* Ecube and Soes semantics (C13). *)
From Coq Require Import List NArith Arith Bool Lia FinFun.
From V Require Import Base.Res Gen.Tables Model.Kernels Base.Bits Model.TwoLevel Spec.Bfun Proofs.Wf
                      Proofs.Tabulate Proofs.CubeProofs.
Import ListNotations.
Open Scope N_scope.

(* ------------------------------------------------------------------ popcount *)
Lemma popcount_double x : popcount (N.double x) = popcount x.
Proof. destruct x; reflexivity. Qed.

Lemma popcount_succ_double x : popcount (N.succ_double x) = 1 + popcount x.
Proof. destruct x; reflexivity. Qed.

Lemma odd_1_add x : N.odd (1 + x) = negb (N.odd x).
Proof. rewrite N.odd_add. reflexivity. Qed.

Lemma odd_pop_lxor_pos p : forall q,
  N.odd (popcount (Pos.lxor p q)) = xorb (N.odd (pop_pos p)) (N.odd (pop_pos q)).
Proof.
  induction p as [p IH|p IH|]; intros [q|q|]; cbn [Pos.lxor pop_pos];
    rewrite ?popcount_double, ?popcount_succ_double, ?odd_1_add, ?IH; cbn [popcount pop_pos];
    rewrite ?odd_1_add;
    try (destruct (N.odd (pop_pos p)), (N.odd (pop_pos q)); reflexivity);
    try (destruct (N.odd (pop_pos p)); reflexivity);
    try (destruct (N.odd (pop_pos q)); reflexivity);
    reflexivity.
Qed.

Lemma odd_pop_lxor a b :
  N.odd (popcount (N.lxor a b)) = xorb (N.odd (popcount a)) (N.odd (popcount b)).
Proof.
  destruct a as [|p], b as [|q]; unfold N.lxor; cbn [popcount].
  - reflexivity.
  - destruct (N.odd (pop_pos q)); reflexivity.
  - destruct (N.odd (pop_pos p)); reflexivity.
  - apply odd_pop_lxor_pos.
Qed.

Lemma popcount_pow2 v : popcount (2 ^ v) = 1.
Proof.
  induction v as [|v IH] using N.peano_ind; [reflexivity|].
  rewrite N.pow_succ_r'. rewrite <- N.double_spec, popcount_double. exact IH.
Qed.

(* parity of the popcount = xor of the bits *)
Fixpoint bpar (k : nat) (x : N) : bool :=
  match k with O => false | S k' => xorb (N.odd x) (bpar k' (N.div2 x)) end.

Lemma odd_pop_bpar k : forall x, x < 2 ^ N.of_nat k -> N.odd (popcount x) = bpar k x.
Proof.
  induction k as [|k IH]; intros x Hx.
  - change (2 ^ N.of_nat 0) with 1 in Hx. assert (x = 0) by lia. subst x. reflexivity.
  - assert (Hd : N.div2 x < 2 ^ N.of_nat k).
    { rewrite Nat2N.inj_succ, N.pow_succ_r' in Hx. rewrite N.div2_div.
      apply N.div_lt_upper_bound; lia. }
    cbn [bpar]. rewrite <- (IH _ Hd).
    destruct x as [|[p|p|]]; cbn [N.div2 popcount pop_pos N.odd]; rewrite ?odd_1_add; try reflexivity.
    + destruct (N.odd (pop_pos p)); reflexivity.
Qed.

Definition xbits (x : N) (s k : nat) : bool :=
  fold_right (fun v acc => xorb (N.testbit x (N.of_nat v)) acc) false (seq s k).

Lemma bpar_xbits x k : forall s, bpar k (N.shiftr x (N.of_nat s)) = xbits x s k.
Proof.
  induction k as [|k IH]; intros s; [reflexivity|].
  cbn [bpar]. unfold xbits. cbn [seq fold_right]. fold (xbits x (S s) k).
  rewrite <- IH. rewrite Nat2N.inj_succ, N.shiftr_succ_r.
  rewrite <- N.bit0_odd, N.shiftr_spec', N.add_0_l. reflexivity.
Qed.

Lemma odd_pop_xbits x : x < 2 ^ 32 ->
  N.odd (popcount x) = xbits x 0 32.
Proof.
  intros Hx. rewrite (odd_pop_bpar 32 x Hx). rewrite <- bpar_xbits. rewrite N.shiftr_0_r. reflexivity.
Qed.

(* ------------------------------------------------------------------ 1. ecube_value *)
Definition parity_of (vars m : N) : bool :=
  fold_right (fun v acc => xorb (N.testbit vars v && N.testbit m v) acc) false (map N.of_nat (seq 0 32)).

Lemma ecube_value_def e m :
  ecube_value e m = xorb (N.odd (popcount (N.land (evars e) (m mod 2 ^ 32)))) (exnor e).
Proof. unfold ecube_value. cbv zeta. rewrite wrap32_mod. reflexivity. Qed.

Lemma fold_xor_ext (f g : nat -> bool) l : (forall v, In v l -> f v = g v) ->
  fold_right (fun v acc => xorb (f v) acc) false l = fold_right (fun v acc => xorb (g v) acc) false l.
Proof.
  induction l as [|a l IH]; intros H; [reflexivity|]. cbn [fold_right].
  rewrite (H a (or_introl eq_refl)), IH; [reflexivity|]. intros v Hv. apply H. right; exact Hv.
Qed.

Lemma fold_right_map {A B C} (g : A -> B) (f : B -> C -> C) c l :
  fold_right f c (map g l) = fold_right (fun a acc => f (g a) acc) c l.
Proof. induction l as [|a l IH]; cbn [map fold_right]; [|rewrite IH]; reflexivity. Qed.

Lemma parity_of_spec vars m : N.odd (popcount (N.land vars (wrap32 m))) = parity_of vars m.
Proof.
  rewrite odd_pop_xbits by (apply land_lt_r, wrap32_lt).
  unfold parity_of, xbits. rewrite fold_right_map. apply fold_xor_ext.
  intros v Hv. apply in_seq in Hv. rewrite N.land_spec, wrap32_spec.
  destruct (N.ltb_spec (N.of_nat v) 32); [|lia]. rewrite andb_true_r. reflexivity.
Qed.

Lemma ecube_value_sem e m : ecube_value e m = xorb (parity_of (evars e) m) (exnor e).
Proof. unfold ecube_value. cbv zeta. rewrite parity_of_spec. reflexivity. Qed.

(* ------------------------------------------------------------------ 2. xor / not *)
Lemma ecube_xor_sem a b m :
  ecube_value (ecube_xor a b) m = xorb (ecube_value a m) (ecube_value b m).
Proof.
  unfold ecube_value, ecube_xor. cbv zeta. cbn [evars exnor].
  assert (E : N.land (N.lxor (evars a) (evars b)) (wrap32 m)
              = N.lxor (N.land (evars a) (wrap32 m)) (N.land (evars b) (wrap32 m))).
  { apply N.bits_inj. intro p. rewrite !N.lxor_spec, !N.land_spec, N.lxor_spec.
    destruct (N.testbit (evars a) p), (N.testbit (evars b) p), (N.testbit (wrap32 m) p); reflexivity. }
  rewrite E, odd_pop_lxor.
  destruct (N.odd (popcount (N.land (evars a) (wrap32 m)))), (N.odd (popcount (N.land (evars b) (wrap32 m)))),
    (exnor a), (exnor b); reflexivity.
Qed.

Lemma ecube_not_sem e m : ecube_value (ecube_not e) m = negb (ecube_value e m).
Proof.
  unfold ecube_value, ecube_not. cbv zeta. cbn [evars exnor].
  destruct (N.odd (popcount (N.land (evars e) (wrap32 m)))), (exnor e); reflexivity.
Qed.

(* ------------------------------------------------------------------ 3. equality is semantic *)
Lemma ecube_value_0 e : ecube_value e 0 = exnor e.
Proof.
  unfold ecube_value. cbv zeta. change (wrap32 0) with 0. rewrite N.land_0_r. destruct (exnor e); reflexivity.
Qed.

Lemma land_pow2 x v : N.land x (2 ^ v) = if N.testbit x v then 2 ^ v else 0.
Proof.
  apply N.bits_inj. intro p. rewrite N.land_spec, N.pow2_bits_eqb.
  destruct (N.eqb_spec v p) as [->|Hne].
  - destruct (N.testbit x p); [rewrite N.pow2_bits_true|rewrite N.bits_0]; reflexivity.
  - rewrite andb_false_r. destruct (N.testbit x v); [rewrite N.pow2_bits_false by exact Hne|rewrite N.bits_0]; reflexivity.
Qed.

Lemma ecube_value_pow2 e v : v < 32 -> ecube_value e (2 ^ v) = xorb (N.testbit (evars e) v) (exnor e).
Proof.
  intros Hv. unfold ecube_value. cbv zeta. rewrite wrap32_small by (apply pow2_lt32; exact Hv).
  rewrite land_pow2. destruct (N.testbit (evars e) v); [rewrite popcount_pow2|]; reflexivity.
Qed.

Lemma ecube_ext a b : evars a = evars b -> exnor a = exnor b -> a = b.
Proof. destruct a, b; simpl; intros -> ->; reflexivity. Qed.

Lemma ecube_eq_semantic a b : evars a < 2 ^ 32 -> evars b < 2 ^ 32 ->
  (a = b <-> forall m, m < 2 ^ 32 -> ecube_value a m = ecube_value b m).
Proof.
  intros Ha Hb. split; [intros -> m _; reflexivity|]. intros H.
  assert (X : exnor a = exnor b).
  { rewrite <- !ecube_value_0. apply H. reflexivity. }
  apply ecube_ext; [|exact X]. apply N.bits_inj. intro v.
  destruct (N.lt_ge_cases v 32) as [L|L].
  - pose proof (H (2 ^ v) (pow2_lt32 v L)) as E. rewrite !ecube_value_pow2, X in E by exact L.
    destruct (N.testbit (evars a) v), (N.testbit (evars b) v), (exnor b); auto; discriminate E.
  - rewrite (bit_hi32 _ _ Ha L), (bit_hi32 _ _ Hb L). reflexivity.
Qed.

(* ------------------------------------------------------------------ 4. enumeration *)
Lemma ecube_pairs_sem r : NoDup r ->
  NoDup (flat_map (fun i => [mkEcube i false; mkEcube i true]) r) /\
  length (flat_map (fun i => [mkEcube i false; mkEcube i true]) r) = (2 * length r)%nat /\
  forall e, In e (flat_map (fun i => [mkEcube i false; mkEcube i true]) r) <-> In (evars e) r.
Proof.
  intros Hr. split; [|split].
  - induction r as [|a r IH]; cbn [flat_map app]; [constructor|].
    inversion Hr as [|? ? Hn Hr']; subst. specialize (IH Hr').
    assert (D : forall x, In (mkEcube a x) (flat_map (fun i => [mkEcube i false; mkEcube i true]) r) -> False).
    { intros x Hin. apply in_flat_map in Hin. destruct Hin as [i [Hi [E|[E|[]]]]]; inversion E; subst; contradiction. }
    constructor.
    + intros [E|Hin]; [discriminate E|]. apply (D _ Hin).
    + constructor; [intros Hin; apply (D _ Hin)|exact IH].
  - clear Hr. induction r as [|a r IH]; [reflexivity|]. cbn [flat_map app length]. rewrite IH. lia.
  - intros e. rewrite in_flat_map. split.
    + intros [i [Hi [E|[E|[]]]]]; subst e; exact Hi.
    + intros Hin. exists (evars e). split; [exact Hin|]. destruct e as [v [|]]; cbn; auto.
Qed.

Lemma ecube_all_complete vars : vars <= 31 ->
  exists l, ecube_all vars = Ok l /\ NoDup l /\ length l = (2 * Nat.pow 2 (N.to_nat vars))%nat /\
    forall e, In e l <-> evars e < 2 ^ vars.
Proof.
  intros Hv. unfold ecube_all. rewrite bit32_ok by lia. cbn [bind].
  destruct (ecube_pairs_sem _ (seqN_NoDup (N.to_nat (2 ^ vars)))) as [A [B C]].
  eexists. split; [reflexivity|]. split; [exact A|]. split.
  - rewrite B, map_length, seq_length. f_equal.
    apply Nat2N.inj. rewrite N2Nat.id, Nat2N.inj_pow, N2Nat.id. reflexivity.
  - intros e. rewrite C, In_seqN, N2Nat.id. reflexivity.
Qed.

(* ------------------------------------------------------------------ 5. Soes *)
Lemma fold_or_existsb {A} (f : A -> bool) l : forall acc,
  fold_left (fun r c => r || f c) l acc = acc || existsb f l.
Proof.
  induction l as [|a l IH]; intros acc; cbn [fold_left existsb]; [rewrite orb_false_r; reflexivity|].
  rewrite IH, orb_assoc. reflexivity.
Qed.

Lemma soes_value_sem s m : soes_value s m = existsb (fun e => ecube_value e m) (ocubes s).
Proof. unfold soes_value. rewrite fold_or_existsb. reflexivity. Qed.

Lemma soes_or_sem a b : onv a = onv b ->
  exists r, soes_or a b = Ok r /\ onv r = onv a /\ ocubes r = ocubes a ++ ocubes b /\
            forall m, soes_value r m = soes_value a m || soes_value b m.
Proof.
  intros E. unfold soes_or. rewrite (proj2 (Nat.eqb_eq _ _) E). cbn [always bind].
  eexists. split; [reflexivity|]. cbn [onv ocubes]. split; [reflexivity|]. split; [reflexivity|].
  intros m. rewrite !soes_value_sem. cbn [ocubes]. apply existsb_app.
Qed.

Lemma soes_or_mismatch a b : onv a <> onv b -> soes_or a b = PanicAlways.
Proof. intros E. unfold soes_or. rewrite (proj2 (Nat.eqb_neq _ _) E). reflexivity. Qed.

(* ------------------------------------------------------------------ 6. conversion to a truth table *)
Lemma soes_to_lut_sem s :
  wf (onv s) (soes_to_lut s) /\
  forall m, m < 2 ^ N.of_nat (onv s) -> val (soes_to_lut s) m = soes_value s m.
Proof. unfold soes_to_lut. apply tabulate_sem. Qed.

(* ------------------------------------------------------------------ 7. constant tests *)
Lemma soes_is_zero_sound s : soes_is_zero s = true -> forall m, soes_value s m = false.
Proof.
  unfold soes_is_zero. intros H m. rewrite soes_value_sem. destruct (ocubes s); [reflexivity|discriminate].
Qed.

Lemma ecube_is_one_value e m : ecube_is_one e = true -> ecube_value e m = true.
Proof.
  unfold ecube_is_one. intros H. apply andb_true_iff in H. destruct H as [V X]. apply N.eqb_eq in V.
  unfold ecube_value. cbv zeta. rewrite V, X, N.land_0_l. reflexivity.
Qed.

Lemma soes_is_one_sound s : soes_is_one s = true -> forall m, soes_value s m = true.
Proof.
  unfold soes_is_one. intros H m. rewrite soes_value_sem. destruct (ocubes s) as [|e l]; [discriminate|].
  cbn [existsb]. rewrite (ecube_is_one_value e m H). reflexivity.
Qed.
