(* Cube algebra (C12): literal semantics of cube_value and of every cube operation of Model/TwoLevel.v. *)
From Coq Require Import List NArith Arith Bool Lia Sorting.Sorted FinFun.
From V Require Import Base.Res Gen.Tables Model.Kernels Base.Bits Model.TwoLevel Spec.Bfun Proofs.Wf Proofs.Tabulate.
Import ListNotations.
Open Scope N_scope.

(* ------------------------------------------------------------------ 32-bit words *)
Lemma ones32_ones : ones32 = N.ones 32.
Proof. reflexivity. Qed.

Lemma ones32_spec p : N.testbit ones32 p = (p <? 32).
Proof.
  rewrite ones32_ones. destruct (N.ltb_spec p 32).
  - apply N.ones_spec_low; assumption.
  - apply N.ones_spec_high; assumption.
Qed.

Lemma ones32_lt : ones32 < 2 ^ 32.
Proof. reflexivity. Qed.

Lemma wrap32_spec x p : N.testbit (wrap32 x) p = N.testbit x p && (p <? 32).
Proof. unfold wrap32. rewrite N.land_spec, ones32_spec. reflexivity. Qed.

Lemma not32_spec x p : N.testbit (not32 x) p = xorb (N.testbit x p) (p <? 32).
Proof. unfold not32. rewrite N.lxor_spec, ones32_spec. reflexivity. Qed.

Lemma wrap32_mod x : wrap32 x = x mod 2 ^ 32.
Proof. unfold wrap32. rewrite ones32_ones. apply N.land_ones. Qed.

Lemma wrap32_lt x : wrap32 x < 2 ^ 32.
Proof. rewrite wrap32_mod. apply N.mod_lt. apply N.pow_nonzero. lia. Qed.

Lemma wrap32_small x : x < 2 ^ 32 -> wrap32 x = x.
Proof. intros H. rewrite wrap32_mod. apply N.mod_small. exact H. Qed.

Lemma not32_lt x : x < 2 ^ 32 -> not32 x < 2 ^ 32.
Proof.
  intros Hx. apply lt_pow2_of_bits. intros p Hp. rewrite not32_spec.
  rewrite (testbit_lt_pow2 x 32 p) by assumption.
  destruct (N.ltb_spec p 32); [lia|reflexivity].
Qed.

Lemma bit_hi32 x p : x < 2 ^ 32 -> 32 <= p -> N.testbit x p = false.
Proof. intros Hx Hp. apply (testbit_lt_pow2 x 32 p Hx Hp). Qed.

Lemma eqb_ones32_iff x : (x =? ones32) = true <-> forall p, N.testbit x p = (p <? 32).
Proof.
  rewrite N.eqb_eq. split.
  - intros -> p. apply ones32_spec.
  - intros H. apply N.bits_inj. intro p. rewrite H, ones32_spec. reflexivity.
Qed.

Lemma land0_disjoint p q v : N.land p q = 0 -> N.testbit p v = true -> N.testbit q v = false.
Proof.
  intros H Hp. assert (E : N.testbit (N.land p q) v = false) by (rewrite H; apply N.bits_0).
  rewrite N.land_spec, Hp in E. exact E.
Qed.

Lemma land0_of_bits p q : (forall v, N.testbit p v = true -> N.testbit q v = false) -> N.land p q = 0.
Proof.
  intros H. apply N.bits_inj_0. intro v. rewrite N.land_spec.
  destruct (N.testbit p v) eqn:E; [rewrite (H v E)|]; reflexivity.
Qed.

Lemma bool_eq_iff (a b : bool) : (a = true <-> b = true) -> a = b.
Proof. destruct a, b; intros [H1 H2]; auto; try (symmetry; auto); auto. Qed.

(* ------------------------------------------------------------------ definitions *)
Definition c32 (c : cube) : Prop := cpos c < 2 ^ 32 /\ cneg c < 2 ^ 32.
Definition canon (c : cube) : Prop := N.land (cpos c) (cneg c) = 0 \/ c = cube_zero.
(* literal semantics *)
Definition sat (c : cube) (m : N) : Prop :=
  forall v, v < 32 ->
    (N.testbit (cpos c) v = true -> N.testbit m v = true) /\
    (N.testbit (cneg c) v = true -> N.testbit m v = false).

Lemma cube_eta c : c = mkCube (cpos c) (cneg c).
Proof. destruct c; reflexivity. Qed.

Lemma cube_ext a b : cpos a = cpos b -> cneg a = cneg b -> a = b.
Proof. destruct a, b; simpl; intros -> ->; reflexivity. Qed.

Lemma c32_zero : c32 cube_zero.
Proof. split; reflexivity. Qed.
Lemma c32_one : c32 cube_one.
Proof. split; reflexivity. Qed.
Lemma canon_zero : canon cube_zero.
Proof. right; reflexivity. Qed.
Lemma canon_one : canon cube_one.
Proof. left; reflexivity. Qed.

(* ------------------------------------------------------------------ 1. cube_value is the literal semantics *)
Lemma pos_clause p m : p < 2 ^ 32 ->
  ((N.lor (N.land p (wrap32 m)) (not32 p) =? ones32) = true <->
   forall v, v < 32 -> N.testbit p v = true -> N.testbit m v = true).
Proof.
  intros Hp. rewrite eqb_ones32_iff. split.
  - intros H v Hv Pv. specialize (H v).
    rewrite N.lor_spec, N.land_spec, wrap32_spec, not32_spec, Pv in H.
    destruct (N.ltb_spec v 32) as [_|L]; [|lia].
    destruct (N.testbit m v); [reflexivity|discriminate H].
  - intros H v. rewrite N.lor_spec, N.land_spec, wrap32_spec, not32_spec.
    destruct (N.ltb_spec v 32) as [L|L].
    + destruct (N.testbit p v) eqn:Pv; [rewrite (H v L Pv)|]; reflexivity.
    + rewrite (bit_hi32 p v Hp L). reflexivity.
Qed.

Lemma neg_clause q m : q < 2 ^ 32 ->
  ((N.lor (N.land q (not32 (wrap32 m))) (not32 q) =? ones32) = true <->
   forall v, v < 32 -> N.testbit q v = true -> N.testbit m v = false).
Proof.
  intros Hq. rewrite eqb_ones32_iff. split.
  - intros H v Hv Qv. specialize (H v).
    rewrite N.lor_spec, N.land_spec, not32_spec, wrap32_spec, not32_spec, Qv in H.
    destruct (N.ltb_spec v 32) as [_|L]; [|lia].
    destruct (N.testbit m v); [discriminate H|reflexivity].
  - intros H v. rewrite N.lor_spec, N.land_spec, not32_spec, wrap32_spec, not32_spec.
    destruct (N.ltb_spec v 32) as [L|L].
    + destruct (N.testbit q v) eqn:Qv; [rewrite (H v L Qv)|]; reflexivity.
    + rewrite (bit_hi32 q v Hq L). reflexivity.
Qed.

Lemma value_sem c m : c32 c -> (cube_value c m = true <-> sat c m).
Proof.
  intros [Hp Hq]. unfold cube_value. cbv zeta. rewrite andb_true_iff, (pos_clause _ m Hp), (neg_clause _ m Hq).
  unfold sat. split.
  - intros [A B] v Hv. split; [apply A|apply B]; exact Hv.
  - intros H. split; intros v Hv; apply (H v Hv).
Qed.

(* the value only depends on the low 32 bits of the assignment *)
Lemma value_wrap c m : cube_value c (wrap32 m) = cube_value c m.
Proof.
  unfold cube_value. cbv zeta. rewrite (wrap32_small (wrap32 m)) by apply wrap32_lt. reflexivity.
Qed.

(* ------------------------------------------------------------------ 2. constants *)
Lemma value_zero m : cube_value cube_zero m = false.
Proof.
  destruct (cube_value cube_zero m) eqn:E; [|reflexivity].
  apply (value_sem _ _ c32_zero) in E. destruct (E 0) as [A B]; [lia|].
  rewrite A in B by reflexivity. discriminate B; reflexivity.
Qed.

Lemma value_one m : cube_value cube_one m = true.
Proof.
  apply (value_sem _ _ c32_one). intros v Hv. unfold cube_one. cbn [cpos cneg].
  rewrite N.bits_0. split; discriminate.
Qed.

(* ------------------------------------------------------------------ witnesses of satisfiable cubes *)
Lemma sat_pos_witness c : N.land (cpos c) (cneg c) = 0 -> sat c (cpos c).
Proof.
  intros H v Hv. split; [auto|]. intros Q.
  destruct (N.testbit (cpos c) v) eqn:P; [|reflexivity].
  rewrite (land0_disjoint _ _ v H P) in Q. discriminate.
Qed.

Lemma sat_neg_witness c : N.land (cpos c) (cneg c) = 0 -> sat c (not32 (cneg c)).
Proof.
  intros H v Hv. rewrite not32_spec. destruct (N.ltb_spec v 32) as [_|L]; [|lia]. split.
  - intros P. rewrite (land0_disjoint _ _ v H P). reflexivity.
  - intros Q. rewrite Q. reflexivity.
Qed.

Lemma canon_nonzero_disjoint c : canon c -> c <> cube_zero -> N.land (cpos c) (cneg c) = 0.
Proof. intros [H|H] Hz; [exact H|contradiction]. Qed.

Lemma sat_disjoint c m : c32 c -> sat c m -> N.land (cpos c) (cneg c) = 0.
Proof.
  intros [Hp Hq] H. apply land0_of_bits. intros v P.
  destruct (N.lt_ge_cases v 32) as [L|L]; [|apply (bit_hi32 _ _ Hq L)].
  destruct (H v L) as [A B]. destruct (N.testbit (cneg c) v) eqn:Q; [|reflexivity].
  rewrite (A P) in B. discriminate B; reflexivity.
Qed.

(* ------------------------------------------------------------------ normalize *)
Lemma is_zero_false_iff c : cube_is_zero c = false <-> N.land (cpos c) (cneg c) = 0.
Proof. unfold cube_is_zero. rewrite negb_false_iff, N.eqb_eq. reflexivity. Qed.

Lemma normalize_canon c : canon (cube_normalize c).
Proof.
  unfold cube_normalize. destruct (cube_is_zero c) eqn:E; [apply canon_zero|].
  left. apply is_zero_false_iff. exact E.
Qed.

Lemma normalize_c32 c : c32 c -> c32 (cube_normalize c).
Proof. intros H. unfold cube_normalize. destruct (cube_is_zero c); [apply c32_zero|exact H]. Qed.

Lemma normalize_id c : N.land (cpos c) (cneg c) = 0 -> cube_normalize c = c.
Proof. intros H. unfold cube_normalize. apply is_zero_false_iff in H. rewrite H. reflexivity. Qed.

Lemma normalize_value c m : c32 c -> cube_value (cube_normalize c) m = cube_value c m.
Proof.
  intros Hc. unfold cube_normalize. destruct (cube_is_zero c) eqn:E; [|reflexivity].
  rewrite value_zero. symmetry. destruct (cube_value c m) eqn:V; [|reflexivity].
  apply (value_sem _ _ Hc) in V. apply (sat_disjoint _ _ Hc) in V. apply is_zero_false_iff in V. congruence.
Qed.

(* ------------------------------------------------------------------ 3. conjunction *)
Lemma and_raw_c32 a b : c32 a -> c32 b -> c32 (mkCube (N.lor (cpos a) (cpos b)) (N.lor (cneg a) (cneg b))).
Proof. intros [A1 A2] [B1 B2]. split; cbn [cpos cneg]; apply lor_lt; assumption. Qed.

Lemma and_raw_sat a b m :
  sat (mkCube (N.lor (cpos a) (cpos b)) (N.lor (cneg a) (cneg b))) m <-> sat a m /\ sat b m.
Proof.
  unfold sat. cbn [cpos cneg]. split.
  - intros H. split; intros v Hv; destruct (H v Hv) as [P Q]; rewrite N.lor_spec in P, Q;
      split; intros E; first [apply P|apply Q]; rewrite E; auto using orb_true_r.
  - intros [Ha Hb] v Hv. destruct (Ha v Hv) as [P1 Q1]. destruct (Hb v Hv) as [P2 Q2].
    rewrite !N.lor_spec. split; intros E; apply orb_true_iff in E; destruct E; auto.
Qed.

Lemma and_sem a b m : c32 a -> c32 b ->
  cube_value (cube_and a b) m = cube_value a m && cube_value b m.
Proof.
  intros Ha Hb. unfold cube_and. rewrite normalize_value by (apply and_raw_c32; assumption).
  apply bool_eq_iff. rewrite andb_true_iff.
  rewrite (value_sem _ m (and_raw_c32 a b Ha Hb)), (value_sem _ m Ha), (value_sem _ m Hb).
  apply and_raw_sat.
Qed.

Lemma and_canon a b : c32 a -> c32 b -> canon (cube_and a b) /\ c32 (cube_and a b).
Proof.
  intros Ha Hb. unfold cube_and. split; [apply normalize_canon|].
  apply normalize_c32, and_raw_c32; assumption.
Qed.

(* a contradictory conjunction is the canonical zero cube *)
Lemma and_zero a b :
  (exists v, v < 32 /\ N.testbit (N.lor (cpos a) (cpos b)) v = true /\
                       N.testbit (N.lor (cneg a) (cneg b)) v = true) ->
  cube_and a b = cube_zero.
Proof.
  intros [v [_ [P Q]]]. unfold cube_and, cube_normalize.
  destruct (cube_is_zero _) eqn:E; [reflexivity|].
  apply is_zero_false_iff in E. cbn [cpos cneg] in E.
  rewrite (land0_disjoint _ _ v E P) in Q. discriminate.
Qed.

(* ------------------------------------------------------------------ 4. equality is semantic on canonical cubes *)
Lemma sat_witness_pos_sub a b : c32 b -> N.land (cpos a) (cneg a) = 0 ->
  cpos a < 2 ^ 32 -> cube_value b (cpos a) = true ->
  forall v, N.testbit (cpos b) v = true -> N.testbit (cpos a) v = true.
Proof.
  intros Hb D Ha V v P. apply (value_sem _ _ Hb) in V.
  destruct (N.lt_ge_cases v 32) as [L|L].
  - apply (V v L). exact P.
  - rewrite (bit_hi32 _ _ (proj1 Hb) L) in P. discriminate.
Qed.

Lemma sat_witness_neg_sub a b : c32 b -> cube_value b (not32 (cneg a)) = true ->
  forall v, N.testbit (cneg b) v = true -> N.testbit (cneg a) v = true.
Proof.
  intros Hb V v Q. apply (value_sem _ _ Hb) in V.
  destruct (N.lt_ge_cases v 32) as [L|L].
  - destruct (V v L) as [_ B]. specialize (B Q). rewrite not32_spec in B.
    destruct (N.ltb_spec v 32) as [_|L']; [|lia]. destruct (N.testbit (cneg a) v); [reflexivity|discriminate].
  - rewrite (bit_hi32 _ _ (proj2 Hb) L) in Q. discriminate.
Qed.

Lemma bits_sub_antisym x y :
  (forall v, N.testbit x v = true -> N.testbit y v = true) ->
  (forall v, N.testbit y v = true -> N.testbit x v = true) -> x = y.
Proof.
  intros H1 H2. apply N.bits_inj. intro v.
  destruct (N.testbit x v) eqn:X, (N.testbit y v) eqn:Y; auto.
  - rewrite (H1 v X) in Y. discriminate.
  - rewrite (H2 v Y) in X. discriminate.
Qed.

Lemma canon_cases c : canon c -> c32 c ->
  (c = cube_zero) \/ (N.land (cpos c) (cneg c) = 0 /\ cube_value c (cpos c) = true /\
                      cube_value c (not32 (cneg c)) = true).
Proof.
  intros [D|Z] Hc; [right|left; exact Z]. split; [exact D|]. split; apply (value_sem _ _ Hc).
  - apply sat_pos_witness; exact D.
  - apply sat_neg_witness; exact D.
Qed.

Lemma eq_semantic a b : c32 a -> c32 b -> canon a -> canon b ->
  (a = b <-> forall m, m < 2 ^ 32 -> cube_value a m = cube_value b m).
Proof.
  intros Ha Hb Ca Cb. split; [intros -> m _; reflexivity|]. intros H.
  assert (Pa := proj1 Ha). assert (Pb := proj1 Hb).
  assert (Na := not32_lt _ (proj2 Ha)). assert (Nb := not32_lt _ (proj2 Hb)).
  destruct (canon_cases a Ca Ha) as [Za|[Da [Va1 Va2]]];
  destruct (canon_cases b Cb Hb) as [Zb|[Db [Vb1 Vb2]]].
  - congruence.
  - rewrite <- (H _ Pb), Za, value_zero in Vb1. discriminate.
  - rewrite (H _ Pa), Zb, value_zero in Va1. discriminate.
  - apply cube_ext; apply bits_sub_antisym.
    + apply (sat_witness_pos_sub b a Ha Db Pb). rewrite (H _ Pb). exact Vb1.
    + apply (sat_witness_pos_sub a b Hb Da Pa). rewrite <- (H _ Pa). exact Va1.
    + apply (sat_witness_neg_sub b a Ha). rewrite (H _ Nb). exact Vb2.
    + apply (sat_witness_neg_sub a b Hb). rewrite <- (H _ Na). exact Va2.
Qed.

(* ------------------------------------------------------------------ 5. implication *)
Lemma lor_absorb_iff x y : (N.lor x y =? x) = true <-> forall v, N.testbit y v = true -> N.testbit x v = true.
Proof.
  rewrite N.eqb_eq. split.
  - intros E v Y. rewrite <- E, N.lor_spec, Y. apply orb_true_r.
  - intros H. apply N.bits_inj. intro v. rewrite N.lor_spec.
    destruct (N.testbit y v) eqn:Y; [rewrite (H v Y)|rewrite orb_false_r]; reflexivity.
Qed.

Lemma implies_sem a b : c32 a -> c32 b -> canon a -> canon b ->
  (cube_implies a b = true <->
   forall m, m < 2 ^ 32 -> cube_value a m = true -> cube_value b m = true).
Proof.
  intros Ha Hb Ca _. unfold cube_implies. rewrite andb_true_iff, !lor_absorb_iff. split.
  - intros [P Q] m _ V. apply (value_sem _ _ Ha) in V. apply (value_sem _ _ Hb).
    intros v Hv. destruct (V v Hv) as [A B]. split; intros E; [apply A, P|apply B, Q]; exact E.
  - intros H. destruct (canon_cases a Ca Ha) as [Za|[Da [Va1 Va2]]].
    + subst a. unfold cube_zero. cbn [cpos cneg]. split; intros v E; rewrite ones32_spec; apply N.ltb_lt;
        (destruct (N.lt_ge_cases v 32) as [L|L]; [exact L|]).
      * rewrite (bit_hi32 _ _ (proj1 Hb) L) in E. discriminate.
      * rewrite (bit_hi32 _ _ (proj2 Hb) L) in E. discriminate.
    + split.
      * apply (sat_witness_pos_sub a b Hb Da (proj1 Ha)). apply H; [apply Ha|exact Va1].
      * apply (sat_witness_neg_sub a b Hb). apply H; [apply not32_lt, Ha|exact Va2].
Qed.

(* ------------------------------------------------------------------ 6. intersection *)
Lemma cube_eqb_eq a b : cube_eqb a b = true <-> a = b.
Proof.
  unfold cube_eqb. rewrite andb_true_iff, !N.eqb_eq. split.
  - intros [P Q]. apply cube_ext; assumption.
  - intros ->. split; reflexivity.
Qed.

Lemma intersects_sem a b : c32 a -> c32 b -> canon a -> canon b ->
  (cube_intersects a b = true <->
   exists m, m < 2 ^ 32 /\ cube_value a m = true /\ cube_value b m = true).
Proof.
  intros Ha Hb _ _. unfold cube_intersects. rewrite negb_true_iff.
  destruct (and_canon a b Ha Hb) as [Cc Hc]. split.
  - intros E. destruct (canon_cases _ Cc Hc) as [Z|[_ [V _]]].
    + apply cube_eqb_eq in Z. congruence.
    + exists (cpos (cube_and a b)). split; [apply Hc|]. rewrite and_sem in V by assumption.
      apply andb_true_iff in V. exact V.
  - intros [m [_ [Va Vb]]]. destruct (cube_eqb (cube_and a b) cube_zero) eqn:E; [|reflexivity].
    apply cube_eqb_eq in E.
    assert (V : cube_value (cube_and a b) m = true) by (rewrite and_sem, Va, Vb by assumption; reflexivity).
    rewrite E, value_zero in V. discriminate.
Qed.

(* ------------------------------------------------------------------ 7. implication of a truth table *)
Lemma implies_lut_sem c n t :
  cube_implies_lut c n t = true <->
  forall m, m < 2 ^ N.of_nat n -> cube_value c m = true -> val t m = true.
Proof.
  unfold cube_implies_lut. rewrite forallb_forall. split.
  - intros H m Hm V. specialize (H m (proj2 (In_assignments n m) Hm)).
    rewrite V, tget_val in H. destruct (val t m); [reflexivity|discriminate].
  - intros H m Hm. apply In_assignments in Hm. rewrite tget_val.
    destruct (cube_value c m) eqn:V; [|reflexivity]. rewrite (H m Hm V). reflexivity.
Qed.

(* ------------------------------------------------------------------ 8. minterms *)
Lemma minterm_tot_spec nv p :
  N.testbit (if 32 <=? nv then ones32 else N.shiftl 1 nv - 1) p = (p <? 32) && (p <? nv).
Proof.
  destruct (N.leb_spec 32 nv) as [L|L].
  - rewrite ones32_spec. destruct (N.ltb_spec p 32) as [L1|L1]; [|reflexivity].
    destruct (N.ltb_spec p nv); [reflexivity|lia].
  - rewrite N.sub_1_r. change (N.pred (N.shiftl 1 nv)) with (N.ones nv).
    destruct (N.ltb_spec p nv) as [L1|L1].
    + rewrite N.ones_spec_low by exact L1. destruct (N.ltb_spec p 32); [reflexivity|lia].
    + rewrite N.ones_spec_high by exact L1. rewrite andb_false_r. reflexivity.
Qed.

Lemma minterm_pos_spec nv k v :
  N.testbit (cpos (cube_minterm nv k)) v = N.testbit k v && ((v <? 32) && (v <? nv)).
Proof.
  unfold cube_minterm. cbv zeta. cbn [cpos]. rewrite N.land_spec, wrap32_spec, minterm_tot_spec.
  destruct (N.testbit k v), (v <? 32), (v <? nv); reflexivity.
Qed.

Lemma minterm_neg_spec nv k v :
  N.testbit (cneg (cube_minterm nv k)) v = negb (N.testbit k v) && ((v <? 32) && (v <? nv)).
Proof.
  unfold cube_minterm. cbv zeta. cbn [cneg]. rewrite N.land_spec, not32_spec, wrap32_spec, minterm_tot_spec.
  destruct (N.testbit k v), (v <? 32), (v <? nv); reflexivity.
Qed.

Lemma minterm_canon nv k :
  canon (cube_minterm nv k) /\ c32 (cube_minterm nv k) /\
  forall v, nv <= v -> N.testbit (cpos (cube_minterm nv k)) v = false /\
                       N.testbit (cneg (cube_minterm nv k)) v = false.
Proof.
  split; [|split].
  - left. apply land0_of_bits. intros v. rewrite minterm_pos_spec, minterm_neg_spec.
    destruct (N.testbit k v); [reflexivity|discriminate].
  - split; apply lt_pow2_of_bits; intros p Hp; rewrite ?minterm_pos_spec, ?minterm_neg_spec;
      (destruct (N.ltb_spec p 32); [lia|]); rewrite andb_false_r; reflexivity.
  - intros v Hv. rewrite minterm_pos_spec, minterm_neg_spec.
    destruct (N.ltb_spec v nv); [lia|]. rewrite !andb_false_r. split; reflexivity.
Qed.

Lemma mod_mod_bits k nv v : nv <= 32 ->
  N.testbit ((k mod 2 ^ 32) mod 2 ^ nv) v = N.testbit k v && (v <? nv).
Proof.
  intros Hn. destruct (N.ltb_spec v nv) as [L|L].
  - rewrite !N.mod_pow2_bits_low by lia. rewrite andb_true_r. reflexivity.
  - rewrite N.mod_pow2_bits_high by exact L. rewrite andb_false_r. reflexivity.
Qed.

Lemma minterm_sem nv k m : nv <= 32 -> m < 2 ^ nv ->
  (cube_value (cube_minterm nv k) m = true <-> m = (k mod 2 ^ 32) mod 2 ^ nv).
Proof.
  intros Hn Hm. rewrite (value_sem _ _ (proj1 (proj2 (minterm_canon nv k)))). split.
  - intros S. apply N.bits_inj. intro v. rewrite mod_mod_bits by exact Hn.
    destruct (N.ltb_spec v nv) as [L|L].
    + assert (L32 : v < 32) by lia. destruct (S v L32) as [A B].
      rewrite minterm_pos_spec in A. rewrite minterm_neg_spec in B.
      destruct (N.ltb_spec v 32) as [_|L']; [|lia]. destruct (N.ltb_spec v nv) as [_|L']; [|lia].
      destruct (N.testbit k v); [rewrite A|rewrite B]; reflexivity.
    + rewrite andb_false_r. apply (testbit_lt_pow2 m nv v Hm L).
  - intros -> v Hv. rewrite minterm_pos_spec, minterm_neg_spec, mod_mod_bits by exact Hn.
    destruct (N.testbit k v), (v <? 32), (v <? nv); split; intros E; try reflexivity; discriminate E.
Qed.

(* ------------------------------------------------------------------ 9. constructors *)
Lemma bit32_ok v : v < 32 -> bit32 v = Ok (2 ^ v).
Proof.
  intros H. unfold bit32. apply N.ltb_lt in H. rewrite H. cbn [dbg bind]. rewrite N.shiftl_1_l. reflexivity.
Qed.

Lemma bit32_panic {A} v (f : N -> res A) : 32 <= v -> bind (bit32 v) f = PanicDebug.
Proof. intros H. unfold bit32. apply N.ltb_ge in H. rewrite H. reflexivity. Qed.

Lemma pow2_lt32 v : v < 32 -> 2 ^ v < 2 ^ 32.
Proof. intros H. apply N.pow_lt_mono_r; [lia|exact H]. Qed.

Lemma lit_pos_value v m : v < 32 -> cube_value (mkCube (2 ^ v) 0) m = N.testbit m v.
Proof.
  intros Hv. apply bool_eq_iff.
  rewrite value_sem by (split; cbn [cpos cneg]; [apply pow2_lt32; exact Hv|reflexivity]).
  unfold sat. cbn [cpos cneg]. split.
  - intros S. apply (S v Hv). rewrite N.pow2_bits_eqb. apply N.eqb_refl.
  - intros M u Hu. rewrite N.pow2_bits_eqb, N.bits_0. split; [|discriminate].
    intros E. apply N.eqb_eq in E. subst u. exact M.
Qed.

Lemma lit_neg_value v m : v < 32 -> cube_value (mkCube 0 (2 ^ v)) m = negb (N.testbit m v).
Proof.
  intros Hv. apply bool_eq_iff.
  rewrite value_sem by (split; cbn [cpos cneg]; [reflexivity|apply pow2_lt32; exact Hv]).
  unfold sat. cbn [cpos cneg]. rewrite negb_true_iff. split.
  - intros S. apply (S v Hv). rewrite N.pow2_bits_eqb. apply N.eqb_refl.
  - intros M u Hu. rewrite N.pow2_bits_eqb, N.bits_0. split; [discriminate|].
    intros E. apply N.eqb_eq in E. subst u. exact M.
Qed.

Lemma nth_var_sem v : v < 32 ->
  exists c, cube_nth_var v = Ok c /\ c = mkCube (2 ^ v) 0 /\ forall m, cube_value c m = N.testbit m v.
Proof.
  intros Hv. exists (mkCube (2 ^ v) 0). unfold cube_nth_var. rewrite (bit32_ok v Hv). cbn [bind].
  split; [reflexivity|]. split; [reflexivity|]. intros m. apply lit_pos_value. exact Hv.
Qed.

Lemma nth_var_inv_sem v : v < 32 ->
  exists c, cube_nth_var_inv v = Ok c /\ c = mkCube 0 (2 ^ v) /\ forall m, cube_value c m = negb (N.testbit m v).
Proof.
  intros Hv. exists (mkCube 0 (2 ^ v)). unfold cube_nth_var_inv. rewrite (bit32_ok v Hv). cbn [bind].
  split; [reflexivity|]. split; [reflexivity|]. intros m. apply lit_neg_value. exact Hv.
Qed.

Lemma nth_var_panic v : 32 <= v -> cube_nth_var v = PanicDebug /\ cube_nth_var_inv v = PanicDebug.
Proof. intros H. unfold cube_nth_var, cube_nth_var_inv. split; apply bit32_panic; exact H. Qed.

Lemma lit_canon v : v < 32 ->
  canon (mkCube (2 ^ v) 0) /\ c32 (mkCube (2 ^ v) 0) /\ canon (mkCube 0 (2 ^ v)) /\ c32 (mkCube 0 (2 ^ v)).
Proof.
  intros Hv. pose proof (pow2_lt32 v Hv) as Hp. unfold canon, c32. cbn [cpos cneg].
  rewrite N.land_0_r, N.land_0_l. repeat split; auto; reflexivity.
Qed.

Lemma from_mask_canon p q : canon (cube_from_mask p q).
Proof. apply normalize_canon. Qed.

Lemma from_mask_c32 p q : p < 2 ^ 32 -> q < 2 ^ 32 -> c32 (cube_from_mask p q).
Proof. intros Hp Hq. apply normalize_c32. split; assumption. Qed.

Lemma from_mask_id p q : N.land p q = 0 -> cube_from_mask p q = mkCube p q.
Proof. intros H. apply normalize_id. exact H. Qed.

Lemma from_mask_zero p q : N.land p q <> 0 -> cube_from_mask p q = cube_zero.
Proof.
  intros H. unfold cube_from_mask, cube_normalize, cube_is_zero. cbn [cpos cneg].
  apply N.eqb_neq in H. rewrite H. reflexivity.
Qed.

Lemma from_mask_value p q m : p < 2 ^ 32 -> q < 2 ^ 32 ->
  cube_value (cube_from_mask p q) m = cube_value (mkCube p q) m.
Proof. intros Hp Hq. apply normalize_value. split; assumption. Qed.

Lemma from_mask_sem p q : p < 2 ^ 32 -> q < 2 ^ 32 ->
  canon (cube_from_mask p q) /\ c32 (cube_from_mask p q) /\
  (N.land p q = 0 -> cube_from_mask p q = mkCube p q) /\
  (N.land p q <> 0 -> cube_from_mask p q = cube_zero) /\
  forall m, cube_value (cube_from_mask p q) m = cube_value (mkCube p q) m.
Proof.
  intros Hp Hq. split; [apply from_mask_canon|]. split; [apply from_mask_c32; assumption|].
  split; [apply from_mask_id|]. split; [apply from_mask_zero|]. intros m. apply from_mask_value; assumption.
Qed.

Lemma or_bits_ok l : forall acc, (forall v, In v l -> v < 32) ->
  exists r, or_bits l acc = Ok r /\ forall p, N.testbit r p = N.testbit acc p || existsb (N.eqb p) l.
Proof.
  induction l as [|a l IH]; intros acc H.
  - exists acc. split; [reflexivity|]. intros p. cbn [existsb]. rewrite orb_false_r. reflexivity.
  - assert (Ha : a < 32) by (apply H; left; reflexivity).
    destruct (IH (N.lor acc (2 ^ a)) (fun v Hv => H v (or_intror Hv))) as [r [E B]].
    exists r. cbn [or_bits]. rewrite (bit32_ok a Ha). cbn [bind]. split; [exact E|].
    intros p. rewrite B, N.lor_spec, N.pow2_bits_eqb. cbn [existsb]. rewrite (N.eqb_sym a p).
    rewrite orb_assoc. reflexivity.
Qed.

Lemma or_bits_panic l : forall acc, (exists v, In v l /\ 32 <= v) -> or_bits l acc = PanicDebug.
Proof.
  induction l as [|a l IH]; intros acc [v [Hin Hv]]; [destruct Hin|].
  cbn [or_bits]. destruct (N.lt_ge_cases a 32) as [L|L].
  - rewrite (bit32_ok a L). cbn [bind]. apply IH. destruct Hin as [->|Hin]; [lia|]. exists v. auto.
  - apply bit32_panic. exact L.
Qed.

Lemma all_lt32_dec (l : list N) : (forall v, In v l -> v < 32) \/ (exists v, In v l /\ 32 <= v).
Proof.
  induction l as [|a l [IH|[v [Hin Hv]]]].
  - left. intros v [].
  - destruct (N.lt_ge_cases a 32) as [L|L].
    + left. intros v [<-|Hin]; auto.
    + right. exists a. split; [left; reflexivity|exact L].
  - right. exists v. split; [right; exact Hin|exact Hv].
Qed.

Lemma or_bits_lt l r : (forall v, In v l -> v < 32) ->
  (forall p, N.testbit r p = N.testbit 0 p || existsb (N.eqb p) l) -> r < 2 ^ 32.
Proof.
  intros H B. apply lt_pow2_of_bits. intros p Hp. rewrite B, N.bits_0. cbn [orb].
  destruct (existsb (N.eqb p) l) eqn:E; [|reflexivity].
  apply existsb_exists in E. destruct E as [v [Hin E]]. apply N.eqb_eq in E. subst v.
  specialize (H p Hin). lia.
Qed.

Lemma from_vars_sem pv nv : (forall v, In v pv -> v < 32) -> (forall v, In v nv -> v < 32) ->
  exists c, cube_from_vars pv nv = Ok c /\ canon c /\ c32 c /\
    forall m, cube_value c m = forallb (fun v => N.testbit m v) pv && forallb (fun v => negb (N.testbit m v)) nv.
Proof.
  intros Hp Hn. destruct (or_bits_ok pv 0 Hp) as [p [Ep Bp]]. destruct (or_bits_ok nv 0 Hn) as [q [Eq Bq]].
  pose proof (or_bits_lt pv p Hp Bp) as Lp. pose proof (or_bits_lt nv q Hn Bq) as Lq.
  exists (cube_normalize (mkCube p q)). unfold cube_from_vars. rewrite Ep, Eq. cbn [bind].
  split; [reflexivity|]. split; [apply normalize_canon|].
  assert (Hc : c32 (mkCube p q)) by (split; assumption).
  split; [apply normalize_c32; exact Hc|]. intros m. rewrite normalize_value by exact Hc.
  apply bool_eq_iff. rewrite (value_sem _ _ Hc), andb_true_iff, !forallb_forall. unfold sat. cbn [cpos cneg]. split.
  - intros S. split; intros v Hin.
    + apply (S v (Hp v Hin)). rewrite Bp. apply orb_true_iff. right. apply existsb_exists. exists v.
      split; [exact Hin|apply N.eqb_refl].
    + apply negb_true_iff. apply (S v (Hn v Hin)). rewrite Bq. apply orb_true_iff. right. apply existsb_exists.
      exists v. split; [exact Hin|apply N.eqb_refl].
  - intros [A B] v Hv. rewrite Bp, Bq, N.bits_0. cbn [orb]. split; intros E;
      apply existsb_exists in E; destruct E as [u [Hin E]]; apply N.eqb_eq in E; subst u.
    + apply A. exact Hin.
    + apply negb_true_iff. apply B. exact Hin.
Qed.

Lemma from_vars_panic pv nv : (exists v, In v (pv ++ nv) /\ 32 <= v) -> cube_from_vars pv nv = PanicDebug.
Proof.
  intros [v [Hin Hv]]. unfold cube_from_vars. destruct (all_lt32_dec pv) as [Hp|Hp].
  - destruct (or_bits_ok pv 0 Hp) as [p [Ep _]]. rewrite Ep. cbn [bind].
    rewrite (or_bits_panic nv 0); [reflexivity|]. apply in_app_or in Hin. destruct Hin as [Hin|Hin].
    + specialize (Hp v Hin). lia.
    + exists v. auto.
  - rewrite (or_bits_panic pv 0 Hp). reflexivity.
Qed.

(* ------------------------------------------------------------------ 10. counts and variable lists *)
Lemma num_lits_sem c : canon c -> c32 c -> c <> cube_zero ->
  cube_num_lits c = popcount (cpos c) + popcount (cneg c).
Proof.
  intros Cc _ Hz. unfold cube_num_lits.
  rewrite (proj2 (is_zero_false_iff c) (canon_nonzero_disjoint c Cc Hz)). reflexivity.
Qed.

Lemma num_lits_zero : cube_num_lits cube_zero = 0.
Proof. reflexivity. Qed.

Lemma num_gates_sem c : cube_num_gates c = cube_num_lits c - 1.
Proof. unfold cube_num_gates. lia. Qed.

Lemma In_seqN k v : In v (map N.of_nat (seq 0 k)) <-> v < N.of_nat k.
Proof.
  rewrite in_map_iff. split.
  - intros [i [<- Hi]]. apply in_seq in Hi. lia.
  - intros H. exists (N.to_nat v). split; [apply N2Nat.id|]. apply in_seq. lia.
Qed.

Lemma In_bits_of x v : In v (bits_of x) <-> v < 32 /\ N.testbit x v = true.
Proof. unfold bits_of. rewrite filter_In, In_seqN. reflexivity. Qed.

Lemma seqN_sorted k : forall a, StronglySorted N.lt (map N.of_nat (seq a k)).
Proof.
  induction k as [|k IH]; intros a; cbn [seq map]; constructor; [apply IH|].
  apply Forall_forall. intros y Hy. apply in_map_iff in Hy. destruct Hy as [i [<- Hi]].
  apply in_seq in Hi. lia.
Qed.

Lemma filter_sorted {A} (R : A -> A -> Prop) f l : StronglySorted R l -> StronglySorted R (filter f l).
Proof.
  induction 1 as [|a l Hs IH Hf]; cbn [filter]; [constructor|].
  destruct (f a); [|exact IH]. constructor; [exact IH|].
  rewrite Forall_forall in *. intros y Hy. apply filter_In in Hy. apply Hf, Hy.
Qed.

Lemma bits_of_sorted x : StronglySorted N.lt (bits_of x).
Proof. unfold bits_of. apply filter_sorted, seqN_sorted. Qed.

Lemma pos_vars_sem c :
  (forall v, In v (cube_pos_vars c) <-> v < 32 /\ N.testbit (cpos c) v = true) /\
  StronglySorted N.lt (cube_pos_vars c).
Proof. split; [intros v; apply In_bits_of|apply bits_of_sorted]. Qed.

Lemma neg_vars_sem c :
  (forall v, In v (cube_neg_vars c) <-> v < 32 /\ N.testbit (cneg c) v = true) /\
  StronglySorted N.lt (cube_neg_vars c).
Proof. split; [intros v; apply In_bits_of|apply bits_of_sorted]. Qed.

(* ------------------------------------------------------------------ 11. enumeration of all cubes *)
Lemma NoDup_app_disj {A} (l1 l2 : list A) :
  NoDup l1 -> NoDup l2 -> (forall x, In x l1 -> ~ In x l2) -> NoDup (l1 ++ l2).
Proof.
  induction l1 as [|a l1 IH]; intros H1 H2 D; [exact H2|].
  inversion H1 as [|? ? Hn H1']; subst. cbn [app]. constructor.
  - intros Hin. apply in_app_or in Hin. destruct Hin as [Hin|Hin]; [contradiction|].
    apply (D a); [left; reflexivity|exact Hin].
  - apply IH; auto. intros x Hx. apply D. right; exact Hx.
Qed.

Lemma seqN_NoDup k : NoDup (map N.of_nat (seq 0 k)).
Proof.
  apply Injective_map_NoDup; [|apply seq_NoDup]. intros a b H. apply Nat2N.inj. exact H.
Qed.

Lemma NoDup_cube_product r2 : NoDup r2 -> forall r1, NoDup r1 ->
  NoDup (flat_map (fun i => map (fun j => mkCube i j) r2) r1).
Proof.
  intros H2. induction r1 as [|a r1 IH]; intros H1; cbn [flat_map]; [constructor|].
  inversion H1 as [|? ? Hn H1']; subst. apply NoDup_app_disj.
  - apply Injective_map_NoDup; [|exact H2]. intros x y E. congruence.
  - apply IH. exact H1'.
  - intros c Hc1 Hc2. apply in_map_iff in Hc1. destruct Hc1 as [j [<- _]].
    apply in_flat_map in Hc2. destruct Hc2 as [i [Hi Hc]]. apply in_map_iff in Hc.
    destruct Hc as [j' [E _]]. inversion E; subst. contradiction.
Qed.

Lemma all_complete vars : vars <= 31 ->
  exists l, cube_all vars = Ok l /\ NoDup l /\
    forall c, In c l <-> (cpos c < 2 ^ vars /\ cneg c < 2 ^ vars /\ N.land (cpos c) (cneg c) = 0).
Proof.
  intros Hv. unfold cube_all. rewrite bit32_ok by lia. cbn [bind].
  set (r := map N.of_nat (seq 0 (N.to_nat (2 ^ vars)))).
  assert (Hr : forall i, In i r <-> i < 2 ^ vars).
  { intros i. unfold r. rewrite In_seqN, N2Nat.id. reflexivity. }
  eexists. split; [reflexivity|]. split.
  - apply NoDup_filter. apply NoDup_cube_product; apply seqN_NoDup.
  - intros c. rewrite filter_In, in_flat_map, negb_true_iff, is_zero_false_iff. split.
    + intros [[i [Hi Hc]] D]. apply in_map_iff in Hc. destruct Hc as [j [<- Hj]]. cbn [cpos cneg] in *.
      apply Hr in Hi. apply Hr in Hj. auto.
    + intros [Hp [Hq D]]. split; [|exact D]. exists (cpos c). split; [apply Hr; exact Hp|].
      apply in_map_iff. exists (cneg c). split; [symmetry; apply cube_eta|apply Hr; exact Hq].
Qed.

Definition all_count_ok (v : N) : bool :=
  match cube_all v with Ok l => Nat.eqb (length l) (N.to_nat (3 ^ v)) | _ => false end.

Lemma all_count_check : forallb all_count_ok (map N.of_nat (seq 0 7)) = true.
Proof. vm_compute. reflexivity. Qed.

Lemma all_count vars : vars <= 6 -> exists l, cube_all vars = Ok l /\ length l = N.to_nat (3 ^ vars).
Proof.
  intros Hv. pose proof all_count_check as H. rewrite forallb_forall in H.
  specialize (H vars). rewrite In_seqN in H. specialize (H ltac:(lia)).
  unfold all_count_ok in H. destruct (cube_all vars) as [l| |]; try discriminate H.
  exists l. split; [reflexivity|]. apply Nat.eqb_eq. exact H.
Qed.

(* ------------------------------------------------------------------ 12. every constructor returns canonical 32-bit cubes *)
Lemma reachable_canon :
  (canon cube_one /\ c32 cube_one) /\
  (canon cube_zero /\ c32 cube_zero) /\
  (forall v c, cube_nth_var v = Ok c -> canon c /\ c32 c) /\
  (forall v c, cube_nth_var_inv v = Ok c -> canon c /\ c32 c) /\
  (forall nv k, canon (cube_minterm nv k) /\ c32 (cube_minterm nv k)) /\
  (forall pv nv c, cube_from_vars pv nv = Ok c -> canon c /\ c32 c) /\
  (forall p q, p < 2 ^ 32 -> q < 2 ^ 32 -> canon (cube_from_mask p q) /\ c32 (cube_from_mask p q)) /\
  (forall a b, c32 a -> c32 b -> canon (cube_and a b) /\ c32 (cube_and a b)).
Proof.
  split; [split; [apply canon_one|apply c32_one]|].
  split; [split; [apply canon_zero|apply c32_zero]|].
  split; [|split; [|split; [|split; [|split]]]].
  - intros v c E. destruct (N.lt_ge_cases v 32) as [L|L].
    + destruct (nth_var_sem v L) as [c' [E' [-> _]]]. rewrite E in E'. inversion E'; subst.
      destruct (lit_canon v L) as [A [B _]]. split; assumption.
    + rewrite (proj1 (nth_var_panic v L)) in E. discriminate.
  - intros v c E. destruct (N.lt_ge_cases v 32) as [L|L].
    + destruct (nth_var_inv_sem v L) as [c' [E' [-> _]]]. rewrite E in E'. inversion E'; subst.
      destruct (lit_canon v L) as [_ [_ [A B]]]. split; assumption.
    + rewrite (proj2 (nth_var_panic v L)) in E. discriminate.
  - intros nv k. destruct (minterm_canon nv k) as [A [B _]]. split; assumption.
  - intros pv nv c E. destruct (all_lt32_dec (pv ++ nv)) as [H|H].
    + destruct (from_vars_sem pv nv) as [c' [E' [A [B _]]]].
      * intros v Hin. apply H, in_or_app. left; exact Hin.
      * intros v Hin. apply H, in_or_app. right; exact Hin.
      * rewrite E in E'. inversion E'; subst. split; assumption.
    + rewrite (from_vars_panic pv nv H) in E. discriminate.
  - intros p q Hp Hq. split; [apply from_mask_canon|apply from_mask_c32; assumption].
  - apply and_canon.
Qed.

(* and_zero with the literals spelled out *)
Lemma and_zero_lits a b :
  (exists v, v < 32 /\ (N.testbit (cpos a) v = true \/ N.testbit (cpos b) v = true) /\
                       (N.testbit (cneg a) v = true \/ N.testbit (cneg b) v = true)) ->
  cube_and a b = cube_zero.
Proof.
  intros [v [Hv [P Q]]]. apply and_zero. exists v. split; [exact Hv|].
  rewrite !N.lor_spec, !orb_true_iff. split; assumption.
Qed.
