(* N-canonization for every n <= 31 (the bound of xor_bit32 in n_canonization_res), not only n <= 8:
   Proofs/GrayAll.v (the generated Gray-code walk covers all input/output complementations, any n) combined with
   the generic walk lemmas of Proofs/CanonWalk.v (n_generic, n_small) and the orbit argument of Proofs/CanonOrbit.v.
   Same statements as Properties/C05.v (C05_n, C05_already_canonical_n) and Properties/C04.v (C04_n_min, C04_n_cmp,
   C04_n_idempotent, C04_n_same_rep_iff) with (n <= 31) instead of (n <= 8). *)
From Coq Require Import List NArith Arith Bool Lia.
From V Require Import Base.Res Model.Kernels Base.Bits Model.Canon Spec.Bfun Spec.Transform
  Proofs.Wf Proofs.Order Proofs.Coverage Proofs.ActGroup Proofs.CanonWalk Proofs.CanonOrbit Proofs.GrayAll.
Import ListNotations.
Open Scope N_scope.

Lemma le31_lt32 n : (n <= 31)%nat -> N.of_nat n < 32.
Proof. lia. Qed.

Theorem n_main_general : forall n t, (n <= 31)%nat -> wf n t ->
  exists c mask, n_canonization n t = Ok (c, mask) /\ wf n c /\ cert_ok n (val t) (val c) (identity n) mask /\
    forall mask' c', mask' < 2 ^ (N.of_nat n + 1) -> wf n c' ->
      (forall y, y < 2 ^ N.of_nat n -> val c' y = act n (identity n) mask' (val t) y) -> big c <= big c'.
Proof.
  intros n t Hn Hwf. destruct (Nat.eq_dec n 0) as [->|Hb].
  - exact (n_small t Hwf).
  - destruct (coverage_N_general n ltac:(lia)) as [fl [Hfl [Hv [Hc [Hne Hcov]]]]].
    destruct (n_generic n t fl ltac:(lia) (le31_lt32 n Hn) Hwf Hfl Hv Hc Hne) as [c [mask [E [Hwc [Hcert Hmin]]]]].
    exists c, mask. split; [exact E|]. split; [exact Hwc|]. split; [exact Hcert|].
    intros mask' c' Hm. apply Hmin. apply Hcov. exact Hm.
Qed.

(* ---- C05 *)
Theorem C05_n_general : forall n t, (n <= 31)%nat -> wf n t ->
  exists c mask, n_canonization n t = Ok (c, mask) /\ wf n c /\ cert_ok n (val t) (val c) (identity n) mask.
Proof.
  intros n t Hn Hwf. destruct (n_main_general n t Hn Hwf) as [c [mask [E [Hwc [Hcert _]]]]].
  exists c, mask. split; [exact E|]. split; assumption.
Qed.

Theorem C05_already_canonical_n_general : forall n t mask, (n <= 31)%nat -> wf n t ->
  n_canonization n t = Ok (t, mask) -> cert_ok n (val t) (val t) (identity n) mask.
Proof.
  intros n t mask Hn Hwf E. destruct (C05_n_general n t Hn Hwf) as [c [mask' [E' [_ Hcert]]]].
  rewrite E in E'. injection E' as <- <-. exact Hcert.
Qed.

(* ---- C04 *)
Theorem C04_n_min_general : forall n t, (n <= 31)%nat -> wf n t ->
  exists c mask, n_canonization n t = Ok (c, mask) /\
    forall mask' c', mask' < 2 ^ (N.of_nat n + 1) -> wf n c' ->
      (forall y, y < 2 ^ N.of_nat n -> val c' y = act n (identity n) mask' (val t) y) -> big c <= big c'.
Proof.
  intros n t Hn Hwf. destruct (n_main_general n t Hn Hwf) as [c [mask [E [_ [_ Hmin]]]]].
  exists c, mask. split; [exact E|exact Hmin].
Qed.

Theorem C04_n_cmp_general : forall n t, (n <= 31)%nat -> wf n t ->
  exists c mask, n_canonization n t = Ok (c, mask) /\
    forall mask' c', mask' < 2 ^ (N.of_nat n + 1) -> wf n c' ->
      (forall y, y < 2 ^ N.of_nat n -> val c' y = act n (identity n) mask' (val t) y) -> cmp c c' = Ok Lt \/ c = c'.
Proof.
  intros n t Hn Hwf. destruct (n_main_general n t Hn Hwf) as [c [mask [E [Hwc [_ Hmin]]]]].
  exists c, mask. split; [exact E|]. intros mask' c' Hm Hwc' Hval.
  apply (le_big_cmp n); [exact Hwc|exact Hwc'|]. exact (Hmin mask' c' Hm Hwc' Hval).
Qed.

Lemma Kn_spec_general n : (n <= 31)%nat -> forall t c, wf n t -> Kn n t c ->
  wf n c /\ equivN n (val t) (val c) /\ forall c', wf n c' -> equivN n (val t) (val c') -> big c <= big c'.
Proof.
  intros Hn t c Hwf [mask E].
  destruct (n_main_general n t Hn Hwf) as [c0 [mask0 [E0 [Hwc [[Hp [Hm Hv]] Hmin]]]]].
  rewrite E in E0. injection E0 as <- <-.
  split; [exact Hwc|]. split.
  - exists mask. split; [exact Hm|exact Hv].
  - intros c' Hwc' [m' [Hm' Hv']]. exact (Hmin m' c' Hm' Hwc' Hv').
Qed.

Theorem C04_n_idempotent_general : forall n t, (n <= 31)%nat -> wf n t ->
  exists c mask mask', n_canonization n t = Ok (c, mask) /\ n_canonization n c = Ok (c, mask').
Proof.
  intros n t Hn Hwf.
  destruct (n_main_general n t Hn Hwf) as [c [mask [E [Hwc _]]]].
  destruct (n_main_general n c Hn Hwc) as [c2 [mask' [E2 _]]].
  assert (Ec : c2 = c).
  { apply (orbit_idem n (equivN n) (equivN_sym n) (equivN_trans n) (Kn n)
             (Kn_spec_general n Hn) t c c2 Hwf).
    - exists mask. exact E.
    - exists mask'. exact E2. }
  subst c2. exists c, mask, mask'. split; assumption.
Qed.

Theorem C04_n_same_rep_iff_general : forall n t1 t2, (n <= 31)%nat -> wf n t1 -> wf n t2 ->
  exists c1 m1 c2 m2,
    n_canonization n t1 = Ok (c1, m1) /\ n_canonization n t2 = Ok (c2, m2) /\
    (c1 = c2 <-> equivN n (val t1) (val t2)).
Proof.
  intros n t1 t2 Hn H1 H2.
  destruct (n_main_general n t1 Hn H1) as [c1 [m1 [E1 _]]].
  destruct (n_main_general n t2 Hn H2) as [c2 [m2 [E2 _]]].
  exists c1, m1, c2, m2. split; [exact E1|]. split; [exact E2|].
  apply (orbit_same n (equivN n) (equivN_sym n) (equivN_trans n) (Kn n) (Kn_spec_general n Hn) t1 t2 c1 c2 H1 H2).
  - exists m1. exact E1.
  - exists m2. exact E2.
Qed.

(* non-vacuity beyond n = 8: a 9-variable table (8 words), its N representative under the generated Gray walk
   (mask 262 = inputs 1, 2 and 8 complemented), the certificate checked by the executable checker *)
Example n_general_nonvacuous :
  wf 9 [0xd4; 0; 0; 0; 0x17; 0; 0; 0x8000000000000000] /\
  n_canonization 9 [0xd4; 0; 0; 0; 0x17; 0; 0; 0x8000000000000000] =
    Ok ([0xd4; 0; 0; 0x200000000000000; 0x17; 0; 0; 0], 262) /\
  cert_okb 9 (val [0xd4; 0; 0; 0; 0x17; 0; 0; 0x8000000000000000])
             (val [0xd4; 0; 0; 0x200000000000000; 0x17; 0; 0; 0]) (identity 9) 262 = true /\
  cmp [0xd4; 0; 0; 0x200000000000000; 0x17; 0; 0; 0] [0xd4; 0; 0; 0; 0x17; 0; 0; 0x8000000000000000] = Ok Lt.
Proof.
  split; [apply wfb_wf; vm_compute; reflexivity|].
  split; [vm_compute; reflexivity|]. split; vm_compute; reflexivity.
Qed.

