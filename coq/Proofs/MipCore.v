(* The part shared by the SOP and ESOP programmes of Model/Mip.v: usage variables of the candidate cubes, per-function
   usage variables, the counters of extra terms, the cover and counter constraints and the objective.
   Soundness of decoding (any feasible point, real-valued counters) and the integral point encoding a given solution. *)
From Coq Require Import List NArith ZArith QArith Arith Bool Lia Lqa Permutation.
From V Require Import Base.Res Model.Kernels Model.TwoLevel Model.Api Model.Mip Spec.Bfun Spec.TwoLevelCost Proofs.MipBase.
Import ListNotations.
Open Scope nat_scope.

Lemma num_le_aux (q : Q) (L : Z) :
  (inject_Z (Z2 (-1)) * q + inject_Z (Z2 1 * L + Z2 (-1)) <= 0)%Q -> (inject_Z (L - 1) <= q)%Q.
Proof.
  unfold Z.sub. rewrite !inject_Z_plus, !inject_Z_mult.
  change (inject_Z (Z2 (-1))) with (-2 # 1)%Q. change (inject_Z (Z2 1)) with (2 # 1)%Q.
  change (inject_Z (- (1))) with (-1 # 1)%Q. intros H. lra.
Qed.

Section Core.
  Variable cubes : list cube.
  Variable nf : nat.
  Variables ac oc : Z.
  Let nc := length cubes.
  Definition cuf (i j : nat) : nat := nc + i * nf + j.
  Definition orv (j : nat) : nat := nc + nc * nf + j.
  Definition cb (i : nat) : cube := nth i cubes cube_zero.
  Definition gz (i : nat) : Z := Z.of_N (cube_num_gates (cb i)).

  Definition k_num (j : nat) : constr :=
    mkConstr (mkLin ((Z2 (-1), orv j) :: map (fun i => (Z2 1, cuf i j)) (seq 0 nc)) (Z2 (-1))) RLe.
  Definition k_cover (j : nat) : list constr :=
    map (fun i => mkConstr (mkLin [(Z2 1, cuf i j); (Z2 (-1), i)] 0) RLe) (seq 0 nc).
  Definition k_obj : lin :=
    mkLin (map (fun i => (Z2 (gz i * ac), i)) (seq 0 nc) ++ map (fun j => (Z2 oc, orv j)) (seq 0 nf)) 0.
  Definition dec (x : nat -> Q) (j : nat) : list cube :=
    map cb (filter (fun i => used x (cuf i j)) (seq 0 nc)).

  Lemma cuf_lt i j : i < nc -> j < nf -> cuf i j < nc + nc * nf.
  Proof. unfold cuf. intros Hi Hj. assert (i * nf + nf <= nc * nf) by nia. lia. Qed.

  Lemma cb_In i : i < nc -> In (cb i) cubes.
  Proof. intros H. apply nth_In. exact H. Qed.

  Lemma In_cb c : In c cubes -> exists i, i < nc /\ cb i = c.
  Proof. intros H. destruct (In_nth cubes c cube_zero H) as [i [Hi E]]. exists i. auto. Qed.

  Lemma cb_inj i i' : NoDup cubes -> i < nc -> i' < nc -> cb i = cb i' -> i = i'.
  Proof. intros Hn Hi Hi' E. exact (proj1 (NoDup_nth cubes cube_zero) Hn i i' Hi Hi' E). Qed.

  Lemma dec_filter_cb (P : cube -> bool) : map cb (filter (fun i => P (cb i)) (seq 0 nc)) = filter P cubes.
  Proof. exact (decode_filter cubes cube_zero P). Qed.

  Lemma gz_nonneg i : (0 <= gz i)%Z.
  Proof. unfold gz. lia. Qed.

  (* ---------------------------------------------------------------- soundness: any feasible point *)
  Section Sound.
    Variable x : nat -> Q.
    Hypothesis Hbin : forall v, v < nc + nc * nf -> (x v == 0 \/ x v == 1)%Q.
    Let z (v : nat) : Z := b2z (used x v).

    Lemma bin_eval cs k : (forall cv, In cv cs -> snd cv < nc + nc * nf) ->
      (eval2 x (mkLin cs k) == inject_Z (evalZ z (mkLin cs k)))%Q.
    Proof. intros H. apply eval2_int. intros cv Hcv. apply used_binary. apply Hbin. apply H. exact Hcv. Qed.

    Lemma k_num_sound j : j < nf -> constr_ok x (k_num j) ->
      (inject_Z (Z.of_nat (length (filter (fun i => used x (cuf i j)) (seq 0 nc))) - 1) <= x (orv j))%Q.
    Proof.
      intros Hj H. unfold constr_ok, k_num in H. cbn [crel cexpr] in H. rewrite eval2_cons in H.
      rewrite bin_eval in H.
      2:{ intros cv Hcv. apply in_map_iff in Hcv. destruct Hcv as [i [<- Hi]]. apply in_seq in Hi.
          cbn [snd]. apply cuf_lt; [lia|exact Hj]. }
      rewrite (evalZ_map z (fun _ => Z2 1) (fun i => cuf i j)) in H.
      unfold z in H. rewrite (zsum_count (fun i => used x (cuf i j))) in H.
      cbn [fst snd] in H. apply num_le_aux. exact H.
    Qed.

    Lemma k_cover_sound j : j < nf -> Forall (constr_ok x) (k_cover j) ->
      forall i, i < nc -> used x (cuf i j) = true -> used x i = true.
    Proof.
      intros Hj H i Hi U. unfold k_cover in H. rewrite Forall_map, Forall_forall in H.
      specialize (H i (proj2 (in_seq nc 0 i) ltac:(lia))).
      unfold constr_ok in H. cbn [crel cexpr] in H. rewrite bin_eval in H.
      2:{ intros cv [<-|[<-|[]]]; cbn [snd]; [apply cuf_lt; assumption|lia]. }
      change 0%Q with (inject_Z 0) in H. rewrite <- Zle_Qle in H.
      unfold evalZ in H. cbn [lcoef lconst fold_right fst snd] in H. unfold z in H. rewrite U in H.
      destruct (used x i); [reflexivity|]. exfalso. revert H. unfold Z2. cbn [b2z]. lia.
    Qed.

    Hypothesis Hor : forall j, j < nf -> (0 <= x (orv j))%Q.
    Hypothesis Hnum : forall j, j < nf -> constr_ok x (k_num j).
    Hypothesis Hcov : forall j, j < nf -> Forall (constr_ok x) (k_cover j).
    Hypothesis Hnd : NoDup cubes.
    Hypothesis Hac : (0 <= ac)%Z.
    Hypothesis Hoc : (0 <= oc)%Z.

    Lemma dec_incl j : incl (dec x j) cubes.
    Proof.
      intros c Hc. unfold dec in Hc. apply in_map_iff in Hc. destruct Hc as [i [<- Hi]].
      apply filter_In in Hi. destruct Hi as [Hi _]. apply in_seq in Hi. apply cb_In. lia.
    Qed.

    Lemma dec_NoDup j : NoDup (dec x j).
    Proof.
      unfold dec.
      assert (G : forall l, NoDup l -> (forall i, In i l -> i < nc) -> NoDup (map cb l)).
      { induction l as [|a l IH]; intros Hl Hb; cbn [map]; [constructor|].
        inversion Hl; subst. constructor.
        - intros Hin. apply in_map_iff in Hin. destruct Hin as [i [E Hi]].
          assert (i = a) by (apply cb_inj; auto; apply Hb; [right|left]; auto). subst. contradiction.
        - apply IH; [assumption|]. intros i Hi. apply Hb. right. exact Hi. }
      apply G.
      - apply NoDup_filter. apply seq_NoDup.
      - intros i Hi. apply filter_In in Hi. destruct Hi as [Hi _]. apply in_seq in Hi. lia.
    Qed.

    Lemma In_dec j c : In c (dec x j) <-> exists i, i < nc /\ cb i = c /\ used x (cuf i j) = true.
    Proof.
      unfold dec. rewrite in_map_iff. split.
      - intros [i [E Hi]]. apply filter_In in Hi. destruct Hi as [Hi U]. apply in_seq in Hi.
        exists i. split; [lia|auto].
      - intros [i [Hi [E U]]]. exists i. split; [exact E|]. apply filter_In. split; [apply in_seq; lia|exact U].
    Qed.

    Lemma or_ge_extra j : j < nf -> (inject_Z (extra (length (dec x j))) <= x (orv j))%Q.
    Proof.
      intros Hj. unfold dec. rewrite map_length. rewrite extra_spec.
      pose proof (k_num_sound j Hj (Hnum j Hj)) as H1. pose proof (Hor j Hj) as H2.
      set (L := Z.of_nat (length (filter (fun i => used x (cuf i j)) (seq 0 nc)))) in *.
      destruct (Z.max_spec (L - 1) 0) as [[_ ->]|[_ ->]]; assumption.
    Qed.

    Lemma gates_le :
      (sum_gates (dedupb cube_eqb (concat (map (dec x) (seq 0 nf)))) <=
       zsum (map (fun i => gz i * z i) (seq 0 nc)))%Z.
    Proof.
      set (L := concat (map (dec x) (seq 0 nf))).
      assert (HL : incl L cubes).
      { intros c Hc. unfold L in Hc. apply in_concat in Hc. destruct Hc as [l [Hl Hc]].
        apply in_map_iff in Hl. destruct Hl as [j [<- _]]. exact (dec_incl j c Hc). }
      rewrite (sum_gates_dedupb cubes L Hnd HL).
      rewrite <- (zsum_index cubes cube_zero
                    (fun c => (Z.of_N (cube_num_gates c) * b2z (existsb (cube_eqb c) L))%Z)).
      apply zsum_le. intros i Hi. apply in_seq in Hi. fold (cb i). fold (gz i).
      apply Z.mul_le_mono_nonneg_l; [apply gz_nonneg|].
      destruct (existsb (cube_eqb (cb i)) L) eqn:E; [|unfold z; destruct (used x i); cbn [b2z]; lia].
      apply mem_iff in E. unfold L in E. apply in_concat in E. destruct E as [l [Hl Hc]].
      apply in_map_iff in Hl. destruct Hl as [j [<- Hj]]. apply in_seq in Hj.
      apply In_dec in Hc. destruct Hc as [i' [Hi' [E U]]].
      assert (i' = i) by (apply cb_inj; auto; lia). subst i'.
      unfold z. rewrite (k_cover_sound j ltac:(lia) (Hcov j ltac:(lia)) i ltac:(lia) U). cbn [b2z]. lia.
    Qed.

    Lemma obj_sound :
      (inject_Z (2 * sop_cost ac oc (map (dec x) (seq 0 nf))) <= eval2 x k_obj)%Q.
    Proof.
      unfold k_obj. rewrite eval2_app. rewrite bin_eval.
      2:{ intros cv Hcv. apply in_map_iff in Hcv. destruct Hcv as [i [<- Hi]]. apply in_seq in Hi. cbn [snd]. lia. }
      rewrite (evalZ_map z (fun i => Z2 (gz i * ac)) (fun i => i)).
      pose proof (eval2_map_ge x (Z2 oc) orv (fun j => extra (length (dec x j))) (seq 0 nf)
                    ltac:(unfold Z2; lia)
                    (fun j Hj => or_ge_extra j (proj2 (proj1 (in_seq nf 0 j) Hj)))) as H2.
      eapply Qle_trans; [|apply Qplus_le_compat; [apply Qle_refl|exact H2]].
      rewrite <- inject_Z_plus. rewrite <- Zle_Qle.
      unfold sop_cost. rewrite (cost_fold (fun c => extra (length c))), map_map.
      pose proof gates_le as G.
      rewrite (zsum_ext (fun i => (Z2 (gz i * ac) * z i)%Z) (fun i => (2 * ac * (gz i * z i))%Z))
        by (intros i _; unfold Z2; ring).
      rewrite zsum_scale.
      set (S1 := sum_gates _) in *. set (S2 := zsum (map (fun i => (gz i * z i)%Z) _)) in *.
      set (E := zsum (map (fun j => extra (length (dec x j))) (seq 0 nf))).
      assert (ac * S1 <= ac * S2)%Z by (apply Z.mul_le_mono_nonneg_l; assumption).
      unfold Z2. lia.
    Qed.
  End Sound.

  (* ---------------------------------------------------------------- encoding of a given solution *)
  Section Encode.
    Variable sol : list (list cube).
    Variable rest : nat -> Z.
    Hypothesis Hlen : length sol = nf.
    Hypothesis Hsol : forall j, j < nf -> NoDup (nth j sol []) /\ incl (nth j sol []) cubes.
    Hypothesis Hnd : NoDup cubes.

    Definition xz (v : nat) : Z :=
      if v <? nc then b2z (existsb (cube_eqb (cb v)) (concat sol))
      else if v <? nc + nc * nf then b2z (existsb (cube_eqb (cb ((v - nc) / nf))) (nth ((v - nc) mod nf) sol []))
      else if v <? nc + nc * nf + nf then extra (length (nth (v - nc - nc * nf) sol []))
      else rest v.
    Definition xq (v : nat) : Q := inject_Z (xz v).

    Lemma xz_cu i : i < nc -> xz i = b2z (existsb (cube_eqb (cb i)) (concat sol)).
    Proof. intros H. unfold xz. destruct (Nat.ltb_spec i nc); [reflexivity|lia]. Qed.

    Lemma xz_cuf i j : i < nc -> j < nf -> xz (cuf i j) = b2z (existsb (cube_eqb (cb i)) (nth j sol [])).
    Proof.
      intros Hi Hj. pose proof (cuf_lt i j Hi Hj) as L. unfold xz.
      destruct (Nat.ltb_spec (cuf i j) nc) as [L1|L1]; [unfold cuf in L1; lia|].
      destruct (Nat.ltb_spec (cuf i j) (nc + nc * nf)) as [_|L2]; [|lia].
      replace (cuf i j - nc) with (j + i * nf) by (unfold cuf; lia).
      rewrite Nat.div_add by lia. rewrite Nat.mod_add by lia.
      rewrite Nat.div_small, Nat.mod_small by exact Hj. reflexivity.
    Qed.

    Lemma xz_or j : j < nf -> xz (orv j) = extra (length (nth j sol [])).
    Proof.
      intros Hj. unfold xz, orv.
      destruct (Nat.ltb_spec (nc + nc * nf + j) nc); [lia|].
      destruct (Nat.ltb_spec (nc + nc * nf + j) (nc + nc * nf)); [lia|].
      destruct (Nat.ltb_spec (nc + nc * nf + j) (nc + nc * nf + nf)); [|lia].
      replace (nc + nc * nf + j - nc - nc * nf) with j by lia. reflexivity.
    Qed.

    Lemma xz_rest v : nc + nc * nf + nf <= v -> xz v = rest v.
    Proof.
      intros H. unfold xz.
      destruct (Nat.ltb_spec v nc); [lia|]. destruct (Nat.ltb_spec v (nc + nc * nf)); [lia|].
      destruct (Nat.ltb_spec v (nc + nc * nf + nf)); [lia|]. reflexivity.
    Qed.

    Lemma xq_binary v : v < nc + nc * nf -> (xq v == 0 \/ xq v == 1)%Q.
    Proof.
      intros H. unfold xq, xz. destruct (Nat.ltb_spec v nc).
      - destruct (existsb _ _); [right|left]; reflexivity.
      - destruct (Nat.ltb_spec v (nc + nc * nf)); [|lia]. destruct (existsb _ _); [right|left]; reflexivity.
    Qed.

    Lemma xq_nonneg v : nc + nc * nf <= v -> v < nc + nc * nf + nf -> (0 <= xq v)%Q.
    Proof.
      intros H1 H2. unfold xq, xz.
      destruct (Nat.ltb_spec v nc); [lia|]. destruct (Nat.ltb_spec v (nc + nc * nf)); [lia|].
      destruct (Nat.ltb_spec v (nc + nc * nf + nf)); [|lia].
      change 0%Q with (inject_Z 0). rewrite <- Zle_Qle. unfold extra. lia.
    Qed.

    Lemma xq_eval l : (eval2 xq l == inject_Z (evalZ xz l))%Q.
    Proof. destruct l as [cs k]. apply eval2_int. intros cv _. reflexivity. Qed.

    Lemma xq_used_cuf i j : i < nc -> j < nf -> used xq (cuf i j) = existsb (cube_eqb (cb i)) (nth j sol []).
    Proof. intros Hi Hj. apply used_b2z. apply xz_cuf; assumption. Qed.

    Lemma sol_nth : sol = map (fun j => nth j sol []) (seq 0 nf).
    Proof. rewrite <- Hlen. symmetry. apply map_nth_seq. Qed.

    Lemma dec_xq j : j < nf -> dec xq j = filter (fun c => existsb (cube_eqb c) (nth j sol [])) cubes.
    Proof.
      intros Hj. unfold dec.
      rewrite (filter_ext_in (fun i => used xq (cuf i j)) (fun i => existsb (cube_eqb (cb i)) (nth j sol []))).
      - apply (dec_filter_cb (fun c => existsb (cube_eqb c) (nth j sol []))).
      - intros i Hi. apply in_seq in Hi. apply xq_used_cuf; [lia|exact Hj].
    Qed.

    Lemma dec_xq_perm j : j < nf -> Permutation (dec xq j) (nth j sol []).
    Proof.
      intros Hj. rewrite dec_xq by exact Hj. destruct (Hsol j Hj) as [H1 H2]. apply filter_mem_perm; assumption.
    Qed.

    Lemma count_cuf j : j < nf ->
      zsum (map (fun i => (Z2 1 * xz (cuf i j))%Z) (seq 0 nc)) = (Z2 1 * Z.of_nat (length (nth j sol [])))%Z.
    Proof.
      intros Hj.
      rewrite (zsum_ext _ (fun i => (Z2 1 * b2z (existsb (cube_eqb (cb i)) (nth j sol [])))%Z)).
      2:{ intros i Hi. apply in_seq in Hi. rewrite xz_cuf by (lia || assumption). reflexivity. }
      rewrite (zsum_count (fun i => existsb (cube_eqb (cb i)) (nth j sol []))).
      f_equal. f_equal.
      rewrite <- (map_length cb).
      rewrite (dec_filter_cb (fun c => existsb (cube_eqb c) (nth j sol []))).
      destruct (Hsol j Hj) as [H1 H2]. apply length_filter_mem; assumption.
    Qed.

    Lemma k_num_enc j : j < nf -> constr_ok xq (k_num j).
    Proof.
      intros Hj. unfold constr_ok, k_num. cbn [crel cexpr]. rewrite xq_eval.
      change 0%Q with (inject_Z 0). rewrite <- Zle_Qle.
      rewrite evalZ_cons. cbn [fst snd]. rewrite (evalZ_map xz (fun _ => Z2 1) (fun i => cuf i j)).
      rewrite count_cuf by exact Hj. rewrite xz_or by exact Hj. unfold extra, Z2. lia.
    Qed.

    Lemma k_cover_enc j : j < nf -> Forall (constr_ok xq) (k_cover j).
    Proof.
      intros Hj. unfold k_cover. rewrite Forall_map, Forall_forall. intros i Hi. apply in_seq in Hi.
      unfold constr_ok. cbn [crel cexpr]. rewrite xq_eval. change 0%Q with (inject_Z 0). rewrite <- Zle_Qle.
      unfold evalZ. cbn [lcoef lconst fold_right fst snd].
      rewrite xz_cuf, xz_cu by (lia || assumption).
      destruct (existsb (cube_eqb (cb i)) (nth j sol [])) eqn:E.
      - apply mem_iff in E.
        assert (E' : existsb (cube_eqb (cb i)) (concat sol) = true).
        { apply mem_iff. apply in_concat. exists (nth j sol []). split; [|exact E]. apply nth_In. lia. }
        rewrite E'. unfold Z2. cbn [b2z]. lia.
      - destruct (existsb (cube_eqb (cb i)) (concat sol)); unfold Z2; cbn [b2z]; lia.
    Qed.

    Lemma obj_enc : evalZ xz k_obj = (2 * sop_cost ac oc sol)%Z.
    Proof.
      unfold k_obj. rewrite evalZ_app.
      rewrite (evalZ_map xz (fun i => Z2 (gz i * ac)) (fun i => i)).
      rewrite (evalZ_map xz (fun _ => Z2 oc) orv).
      unfold sop_cost. rewrite (cost_fold (fun c => extra (length c))).
      assert (HL : incl (concat sol) cubes).
      { intros c Hc. apply in_concat in Hc. destruct Hc as [l [Hl Hc]].
        destruct (In_nth sol l [] Hl) as [j [Hj E]]. subst l. apply (proj2 (Hsol j ltac:(lia))). exact Hc. }
      rewrite (sum_gates_dedupb cubes (concat sol) Hnd HL).
      rewrite <- (zsum_index cubes cube_zero
                    (fun c => (Z.of_N (cube_num_gates c) * b2z (existsb (cube_eqb c) (concat sol)))%Z)).
      rewrite (zsum_ext (fun i => (Z2 (gz i * ac) * xz i)%Z)
                 (fun i => (2 * ac * (Z.of_N (cube_num_gates (nth i cubes cube_zero)) *
                                      b2z (existsb (cube_eqb (nth i cubes cube_zero)) (concat sol))))%Z)).
      2:{ intros i Hi. apply in_seq in Hi. rewrite xz_cu by lia. unfold Z2, gz, cb. ring. }
      rewrite zsum_scale.
      rewrite (zsum_ext (fun j => (Z2 oc * xz (orv j))%Z) (fun j => (2 * oc * extra (length (nth j sol []))))%Z).
      2:{ intros j Hj. apply in_seq in Hj. rewrite xz_or by lia. unfold Z2. ring. }
      rewrite zsum_scale.
      assert (E : zsum (map (fun c : list cube => extra (length c)) sol) =
                  zsum (map (fun a => extra (length (nth a sol []))) (seq 0 nf))).
      { rewrite sol_nth at 1. rewrite map_map. reflexivity. }
      rewrite E. fold nc. ring.
    Qed.
  End Encode.
End Core.
