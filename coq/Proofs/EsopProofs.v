(* C15: From<&Lut> for Esop yields the unique positive-polarity Reed-Muller form; Esop operators. *)
From Coq Require Import List NArith Arith Bool Lia Sorted FinFun.
From V Require Import Base.Res Gen.Tables Model.Kernels Model.TwoLevel Base.Bits Spec.Bfun Proofs.Wf Proofs.Tabulate.
Import ListNotations.
Open Scope N_scope.

(* ------------------------------------------------------------------ vocabulary *)
(* s is a sub-assignment of m (every variable set in s is set in m) *)
Definition subset (s m : N) : bool := N.land s m =? s.
(* the all-positive cube on the variable set s *)
Definition pcube (s : N) : cube := mkCube s 0.
(* denotation of a cube list read as an exclusive sum *)
Definition esem (cs : list cube) (m : N) : bool := fold_left (fun r c => xorb r (cube_value c m)) cs false.
(* algebraic-normal-form coefficient: the XOR of f over all assignments (below 2^n) contained in s *)
Definition anf (f : N -> bool) (n : nat) (s : N) : bool :=
  fold_left xorb (map f (filter (fun k => subset k s) (assignments n))) false.

(* xor-sum of g over a list (the proof-side normal form of all the folds above) *)
Definition xsum {A} (g : A -> bool) (l : list A) : bool := fold_right (fun s r => xorb (g s) r) false l.

(* ------------------------------------------------------------------ xsum algebra *)
Lemma fold_left_xorb_acc {A} (g : A -> bool) l a :
  fold_left (fun r c => xorb r (g c)) l a = xorb a (xsum g l).
Proof.
  revert a. induction l as [|x l IH]; intro a; cbn [fold_left xsum fold_right].
  - destruct a; reflexivity.
  - rewrite IH. unfold xsum. destruct a, (g x); cbn [xorb]; destruct (fold_right _ _ _); reflexivity.
Qed.

Lemma xsum_nil {A} (g : A -> bool) : xsum g [] = false.
Proof. reflexivity. Qed.

Lemma xsum_cons {A} (g : A -> bool) x l : xsum g (x :: l) = xorb (g x) (xsum g l).
Proof. reflexivity. Qed.

Lemma xsum_app {A} (g : A -> bool) l1 l2 : xsum g (l1 ++ l2) = xorb (xsum g l1) (xsum g l2).
Proof.
  induction l1 as [|x l1 IH]; cbn [app].
  - rewrite xsum_nil. destruct (xsum g l2); reflexivity.
  - rewrite !xsum_cons, IH. rewrite xorb_assoc. reflexivity.
Qed.

Lemma xsum_rev {A} (g : A -> bool) l : xsum g (rev l) = xsum g l.
Proof.
  induction l as [|x l IH]; [reflexivity|]. cbn [rev]. rewrite xsum_app, IH, !xsum_cons, xsum_nil.
  rewrite xorb_false_r. apply xorb_comm.
Qed.

Lemma xsum_ext {A} (g h : A -> bool) l : (forall x, In x l -> g x = h x) -> xsum g l = xsum h l.
Proof.
  induction l as [|x l IH]; intro H; [reflexivity|]. rewrite !xsum_cons.
  rewrite (H x) by (left; reflexivity). rewrite IH; [reflexivity|]. intros y Hy. apply H. right. exact Hy.
Qed.

Lemma xsum_false {A} (g : A -> bool) l : (forall x, In x l -> g x = false) -> xsum g l = false.
Proof.
  induction l as [|x l IH]; intro H; [reflexivity|]. rewrite xsum_cons.
  rewrite (H x) by (left; reflexivity). rewrite IH; [reflexivity|]. intros y Hy. apply H. right. exact Hy.
Qed.

Lemma xsum_map {A B} (f : A -> B) (g : B -> bool) l : xsum g (map f l) = xsum (fun x => g (f x)) l.
Proof. induction l as [|x l IH]; [reflexivity|]. cbn [map]. rewrite !xsum_cons, IH. reflexivity. Qed.

Lemma xsum_filter {A} (p g : A -> bool) l : xsum g (filter p l) = xsum (fun x => p x && g x) l.
Proof.
  induction l as [|x l IH]; [reflexivity|]. cbn [filter]. rewrite (xsum_cons (fun x => p x && g x)).
  destruct (p x).
  - rewrite xsum_cons, IH. reflexivity.
  - rewrite IH. cbn [andb]. rewrite xorb_false_l. reflexivity.
Qed.

Lemma xsum_andb_l {A} b (g : A -> bool) l : xsum (fun x => b && g x) l = b && xsum g l.
Proof.
  induction l as [|x l IH]; [destruct b; reflexivity|]. rewrite !xsum_cons, IH.
  destruct b; reflexivity.
Qed.

Lemma xsum_xorb {A} (g h : A -> bool) l : xsum (fun x => xorb (g x) (h x)) l = xorb (xsum g l) (xsum h l).
Proof.
  induction l as [|x l IH]; [reflexivity|]. rewrite !xsum_cons, IH.
  destruct (g x), (h x), (xsum g l), (xsum h l); reflexivity.
Qed.

(* exchange of two xor-sums *)
Lemma xsum_swap {A B} (g : A -> B -> bool) la lb :
  xsum (fun a => xsum (fun b => g a b) lb) la = xsum (fun b => xsum (fun a => g a b) la) lb.
Proof.
  induction la as [|a la IH].
  - cbn [xsum fold_right]. symmetry. apply xsum_false. reflexivity.
  - rewrite xsum_cons, IH. rewrite <- xsum_xorb. apply xsum_ext. intros b _. rewrite xsum_cons. reflexivity.
Qed.

Lemma esem_xsum cs m : esem cs m = xsum (fun c => cube_value c m) cs.
Proof. unfold esem. rewrite fold_left_xorb_acc. apply xorb_false_l. Qed.

Lemma anf_xsum f n s : anf f n s = xsum (fun k => subset k s && f k) (assignments n).
Proof.
  unfold anf. rewrite <- (xsum_filter (fun k => subset k s) f).
  rewrite <- (xsum_map f (fun b => b)).
  generalize (map f (filter (fun k => subset k s) (assignments n))). intro l.
  change (fold_left xorb l false) with (fold_left (fun r c => xorb r ((fun b : bool => b) c)) l false).
  rewrite fold_left_xorb_acc. apply xorb_false_l.
Qed.

(* ------------------------------------------------------------------ subset *)
Lemma subset_spec s m : subset s m = true <-> forall p, N.testbit s p = true -> N.testbit m p = true.
Proof.
  unfold subset. rewrite N.eqb_eq. split.
  - intros H p Hp. rewrite <- H in Hp. rewrite N.land_spec in Hp. apply andb_true_iff in Hp. apply Hp.
  - intros H. apply N.bits_inj. intro p. rewrite N.land_spec.
    destruct (N.testbit s p) eqn:E; [|reflexivity]. rewrite (H p E). reflexivity.
Qed.

Lemma subset_refl s : subset s s = true.
Proof. apply subset_spec. auto. Qed.

Lemma subset_le s m : subset s m = true -> s <= m.
Proof.
  intros H. apply N.ldiff_le. apply N.bits_inj_0. intro p. rewrite N.ldiff_spec.
  destruct (N.testbit s p) eqn:E; [|reflexivity].
  rewrite (proj1 (subset_spec s m) H p E). reflexivity.
Qed.

Lemma subset_gt_false s m : m < s -> subset s m = false.
Proof.
  intros H. destruct (subset s m) eqn:E; [|reflexivity]. apply subset_le in E. lia.
Qed.

Lemma subset_0_l m : subset 0 m = true.
Proof. apply subset_spec. intros p Hp. rewrite N.bits_0 in Hp. discriminate. Qed.

Lemma bool_eq_iff (a b : bool) : (a = true <-> b = true) -> a = b.
Proof. destruct a, b; intros [H1 H2]; auto; try (symmetry; auto). Qed.

(* the superset test of the sweep (!j & i == 0 on u64/usize) is the subset test *)
Lemma sweep_cond_subset i j : i < 2 ^ 64 -> (N.land (not64 j) i =? 0) = subset i j.
Proof.
  intros Hi. apply bool_eq_iff. rewrite N.eqb_eq, subset_spec. split.
  - intros H p Hp. destruct (N.ltb_spec p 64) as [L|L].
    + assert (E : N.testbit (N.land (not64 j) i) p = false) by (rewrite H; apply N.bits_0).
      rewrite N.land_spec, Hp, andb_true_r, not64_spec_low in E by exact L.
      destruct (N.testbit j p); [reflexivity|discriminate].
    + rewrite (testbit_lt_pow2 i 64 p) in Hp by assumption. discriminate.
  - intros H. apply N.bits_inj_0. intro p. rewrite N.land_spec.
    destruct (N.testbit i p) eqn:E; [|apply andb_false_r]. rewrite andb_true_r.
    destruct (N.ltb_spec p 64) as [L|L].
    + rewrite not64_spec_low by exact L. rewrite (H p E). reflexivity.
    + rewrite (testbit_lt_pow2 i 64 p) in E by assumption. discriminate.
Qed.

(* ------------------------------------------------------------------ cubes *)
Lemma ones32_ones : ones32 = N.ones 32.
Proof. reflexivity. Qed.

Lemma ones32_spec p : N.testbit ones32 p = (p <? 32).
Proof.
  rewrite ones32_ones. destruct (N.ltb_spec p 32).
  - apply N.ones_spec_low; assumption.
  - apply N.ones_spec_high; assumption.
Qed.

Lemma wrap32_mod x : wrap32 x = x mod 2 ^ 32.
Proof. unfold wrap32. rewrite ones32_ones. apply N.land_ones. Qed.

Lemma wrap32_small x : x < 2 ^ 32 -> wrap32 x = x.
Proof. intros H. rewrite wrap32_mod. apply N.mod_small. exact H. Qed.

Lemma not32_0 : not32 0 = ones32.
Proof. reflexivity. Qed.

Lemma cube_value_one m : cube_value cube_one m = true.
Proof.
  unfold cube_value, cube_one. cbn [cpos cneg]. rewrite !N.land_0_l, not32_0, N.lor_0_l. reflexivity.
Qed.

(* value of an all-positive cube *)
Lemma cube_value_pcube s m : s < 2 ^ 32 -> cube_value (pcube s) m = subset s (m mod 2 ^ 32).
Proof.
  intros Hs. unfold cube_value, pcube. cbn [cpos cneg].
  rewrite N.land_0_l, not32_0, N.lor_0_l, N.eqb_refl, andb_true_r. rewrite wrap32_mod.
  set (mw := m mod 2 ^ 32). apply bool_eq_iff. rewrite N.eqb_eq, subset_spec. split.
  - intros H p Hp.
    assert (L : p < 32).
    { destruct (N.lt_ge_cases p 32) as [L|L]; [exact L|].
      rewrite (testbit_lt_pow2 s 32 p) in Hp by assumption. discriminate. }
    assert (E : N.testbit (N.lor (N.land s mw) (not32 s)) p = true).
    { rewrite H, ones32_spec. apply N.ltb_lt. exact L. }
    unfold not32 in E. rewrite N.lor_spec, N.land_spec, N.lxor_spec, Hp in E.
    rewrite ones32_spec in E. apply N.ltb_lt in L. rewrite L in E. cbn [xorb andb orb] in E.
    rewrite orb_false_r in E. exact E.
  - intros H. apply N.bits_inj. intro p. unfold not32.
    rewrite N.lor_spec, N.land_spec, N.lxor_spec, ones32_spec.
    destruct (N.ltb_spec p 32) as [L|L].
    + destruct (N.testbit s p) eqn:E; [|reflexivity]. rewrite (H p E). reflexivity.
    + rewrite (testbit_lt_pow2 s 32 p) by assumption. reflexivity.
Qed.

Lemma cube_from_mask_pos i : i < 2 ^ 32 -> cube_from_mask (wrap32 i) 0 = pcube i.
Proof.
  intros Hi. rewrite wrap32_small by exact Hi. unfold cube_from_mask, cube_normalize, cube_is_zero.
  cbn [cpos cneg]. rewrite N.land_0_r. reflexivity.
Qed.

Lemma pcube_inj a b : pcube a = pcube b -> a = b.
Proof. intros H. injection H. auto. Qed.

(* ------------------------------------------------------------------ value of a positive form *)
Lemma esop_value_esem s m : esop_value s m = esem (ecubes s) m.
Proof. reflexivity. Qed.

Lemma esem_pcubes ss m :
  Forall (fun s => s < 2 ^ 32) ss -> m < 2 ^ 32 ->
  esem (map pcube ss) m = xsum (fun s => subset s m) ss.
Proof.
  intros Hss Hm. rewrite esem_xsum, xsum_map. apply xsum_ext. intros s Hs.
  rewrite Forall_forall in Hss. rewrite cube_value_pcube by (apply Hss; exact Hs).
  rewrite N.mod_small by exact Hm. reflexivity.
Qed.

(* ------------------------------------------------------------------ operators *)
Lemma esop_xor_sem a b : env a = env b ->
  exists r, esop_xor a b = Ok r /\ env r = env a /\
            forall m, esop_value r m = xorb (esop_value a m) (esop_value b m).
Proof.
  intros He. exists (mkEsop (env a) (ecubes a ++ ecubes b)). split; [|split].
  - unfold esop_xor. rewrite He, Nat.eqb_refl. reflexivity.
  - reflexivity.
  - intro m. rewrite !esop_value_esem, !esem_xsum. cbn [ecubes]. apply xsum_app.
Qed.

Lemma esop_xor_mismatch a b : env a <> env b -> esop_xor a b = PanicAlways.
Proof.
  intros He. unfold esop_xor. apply Nat.eqb_neq in He. rewrite He. reflexivity.
Qed.

Lemma esop_not_env s : env (esop_not s) = env s.
Proof. reflexivity. Qed.

Lemma esop_not_sem s m : esop_value (esop_not s) m = negb (esop_value s m).
Proof.
  rewrite !esop_value_esem, !esem_xsum. unfold esop_not. cbn [ecubes].
  rewrite xsum_app, xsum_cons, xsum_nil, cube_value_one. destruct (xsum _ (ecubes s)); reflexivity.
Qed.

Lemma esop_is_zero_sound s : esop_is_zero s = true -> forall m, esop_value s m = false.
Proof.
  unfold esop_is_zero. intros H m. rewrite esop_value_esem. destruct (ecubes s); [reflexivity|discriminate].
Qed.

Lemma cube_is_one_eq c : cube_is_one c = true -> c = cube_one.
Proof.
  unfold cube_is_one. intros H. apply andb_true_iff in H. destruct H as [H1 H2].
  apply N.eqb_eq in H1, H2. destruct c as [p q]. cbn [cpos cneg] in *. subst. reflexivity.
Qed.

Lemma esop_is_one_sound s : esop_is_one s = true -> forall m, esop_value s m = true.
Proof.
  unfold esop_is_one. intros H m. rewrite esop_value_esem.
  destruct (ecubes s) as [|c [|d r]]; try discriminate.
  apply cube_is_one_eq in H. subst c. rewrite esem_xsum, xsum_cons, xsum_nil, cube_value_one. reflexivity.
Qed.

Lemma esop_zero_sem n m : esop_value (esop_zero n) m = false.
Proof. reflexivity. Qed.

Lemma esop_one_sem n m : esop_value (esop_one n) m = true.
Proof.
  rewrite esop_value_esem, esem_xsum. cbn [esop_one ecubes].
  rewrite xsum_cons, xsum_nil, cube_value_one. reflexivity.
Qed.

(* ------------------------------------------------------------------ the sweep: inner toggle loop *)
Definition toggle_step (i : N) (t : list N) (j : N) : list N :=
  if N.land (not64 j) i =? 0 then tset t j (negb (tget t j)) else t.

Lemma toggle_fold n i t cnt :
  length t = table_size n -> i + 1 + N.of_nat cnt <= 2 ^ N.of_nat n ->
  length (fold_left (toggle_step i) (map (fun d => i + 1 + N.of_nat d) (seq 0 cnt)) t) = table_size n /\
  forall j, val (fold_left (toggle_step i) (map (fun d => i + 1 + N.of_nat d) (seq 0 cnt)) t) j
            = xorb (val t j) ((i <? j) && (j <? i + 1 + N.of_nat cnt) && (N.land (not64 j) i =? 0)).
Proof.
  intros Hlen. induction cnt as [|cnt IH]; intros Hb.
  - cbn [seq map fold_left]. split; [exact Hlen|]. intro j.
    replace ((i <? j) && (j <? i + 1 + N.of_nat 0)) with false.
    + cbn [andb]. rewrite xorb_false_r. reflexivity.
    + destruct (N.ltb_spec i j) as [L|L]; [|reflexivity].
      destruct (N.ltb_spec j (i + 1 + N.of_nat 0)) as [L'|L']; [lia|reflexivity].
  - rewrite seq_S, map_app, fold_left_app. cbn [map fold_left Nat.add].
    destruct IH as [IHl IHv]; [lia|].
    set (tm := fold_left (toggle_step i) (map (fun d => i + 1 + N.of_nat d) (seq 0 cnt)) t) in *.
    set (j0 := i + 1 + N.of_nat cnt).
    assert (Hj0 : j0 < 2 ^ N.of_nat n) by (unfold j0; lia).
    assert (Hr : (N.to_nat (j0 / 64) < length tm)%nat).
    { rewrite IHl. apply (assignment_in_range n j0 Hj0). }
    assert (Ets : toggle_step i tm j0
                  = if N.land (not64 j0) i =? 0 then tset tm j0 (negb (tget tm j0)) else tm) by reflexivity.
    rewrite Ets. clear Ets. split.
    + destruct (N.land (not64 j0) i =? 0); [rewrite tset_length|]; exact IHl.
    + intro j.
      assert (Hlt : (j <? i + 1 + N.of_nat (S cnt)) = (j <? j0) || (j =? j0)).
      { unfold j0. destruct (N.ltb_spec j (i + 1 + N.of_nat (S cnt))) as [L|L];
          destruct (N.ltb_spec j (i + 1 + N.of_nat cnt)) as [L'|L'];
          destruct (N.eqb_spec j (i + 1 + N.of_nat cnt)) as [E|E]; try reflexivity; lia. }
      rewrite Hlt. fold j0 in IHv.
      destruct (N.eqb_spec j j0) as [E|E].
      * subst j. rewrite orb_true_r.
        replace (i <? j0) with true by (symmetry; apply N.ltb_lt; unfold j0; lia). cbn [andb].
        destruct (N.land (not64 j0) i =? 0) eqn:C.
        -- rewrite val_tset by exact Hr. rewrite N.eqb_refl, tget_val, IHv.
           rewrite N.ltb_irrefl, andb_false_r. cbn [andb]. rewrite xorb_false_r.
           destruct (val t j0); reflexivity.
        -- rewrite IHv. rewrite N.ltb_irrefl, andb_false_r. reflexivity.
      * rewrite orb_false_r.
        destruct (N.land (not64 j0) i =? 0) eqn:C.
        -- rewrite val_tset by exact Hr. apply N.eqb_neq in E. rewrite E. apply IHv.
        -- apply IHv.
Qed.

(* ------------------------------------------------------------------ the sweep: outer loop invariant *)
Lemma StronglySorted_snoc (l : list N) k :
  StronglySorted N.lt l -> Forall (fun s => s < k) l -> StronglySorted N.lt (l ++ [k]).
Proof.
  induction l as [|x l IH]; intros Hs Hf; cbn [app].
  - constructor; constructor.
  - apply StronglySorted_inv in Hs. destruct Hs as [Hs Hx]. inversion Hf as [|? ? Hxk Hf']; subst.
    constructor; [apply IH; assumption|]. apply Forall_app. split; [exact Hx|]. constructor; [exact Hxk|constructor].
Qed.

(* after the assignments below k have been processed: ss lists the emitted variable sets (newest first),
   bits below k of the denotation are final, the others are still pending in the working table *)
Definition sweep_inv (n : nat) (t : list N) (k : N) (st : list N * list cube) : Prop :=
  exists ss, snd st = map pcube ss /\ length (fst st) = table_size n /\
    Forall (fun s => s < k) ss /\ StronglySorted N.lt (rev ss) /\
    forall j, j < 2 ^ N.of_nat n ->
      xorb (val t j) (xsum (fun s => subset s j) ss) = (k <=? j) && val (fst st) j.

Lemma pow2_le_32 n : (n <= 32)%nat -> 2 ^ N.of_nat n <= 2 ^ 32.
Proof. intros H. apply N.pow_le_mono_r; lia. Qed.

Lemma sweep_step_inv n t k st :
  (n <= 32)%nat -> k < 2 ^ N.of_nat n -> sweep_inv n t k st -> sweep_inv n t (k + 1) (esop_sweep_step n st k).
Proof.
  intros Hn Hk [ss (Hacc & Hlen & Hlt & Hsort & Hinv)]. destruct st as [w acc]. cbn [fst snd] in *.
  pose proof (pow2_le_32 n Hn) as H32.
  unfold esop_sweep_step. rewrite tget_val. destruct (val w k) eqn:Ek; cbn [negb].
  - (* emit k and toggle its strict supersets *)
    change (fun (t0 : list N) (j : N) => if N.land (not64 j) k =? 0 then tset t0 j (negb (tget t0 j)) else t0)
      with (toggle_step k).
    set (cnt := (Nat.pow 2 n - 1 - N.to_nat k)%nat).
    assert (Hcnt : k + 1 + N.of_nat cnt = 2 ^ N.of_nat n).
    { unfold cnt. rewrite <- pow2_nat_N in *. lia. }
    destruct (toggle_fold n k w cnt Hlen) as [Hl' Hv']; [lia|].
    exists (k :: ss). cbn [fst snd]. split; [|split; [|split; [|split]]].
    + cbn [map]. rewrite cube_from_mask_pos by lia. rewrite Hacc. reflexivity.
    + exact Hl'.
    + constructor; [lia|]. eapply Forall_impl; [|exact Hlt]. cbv beta. intros; lia.
    + cbn [rev]. apply StronglySorted_snoc; [exact Hsort|]. apply Forall_rev. exact Hlt.
    + intros j Hj. rewrite xsum_cons, Hv', Hcnt. specialize (Hinv j Hj).
      rewrite sweep_cond_subset by lia.
      destruct (N.lt_trichotomy j k) as [L|[L|L]].
      * rewrite (subset_gt_false k j L).
        replace (k <=? j) with false in Hinv by (symmetry; apply N.leb_gt; lia).
        replace (k + 1 <=? j) with false by (symmetry; apply N.leb_gt; lia).
        cbn [andb] in *. rewrite xorb_false_l. exact Hinv.
      * subst j. rewrite N.leb_refl, Ek in Hinv. rewrite subset_refl.
        replace (k + 1 <=? k) with false by (symmetry; apply N.leb_gt; lia).
        cbn [andb] in *. destruct (val t k), (xsum (fun s => subset s k) ss); cbn in *; congruence.
      * replace (k <=? j) with true in Hinv by (symmetry; apply N.leb_le; lia).
        replace (k + 1 <=? j) with true by (symmetry; apply N.leb_le; lia).
        replace (k <? j) with true by (symmetry; apply N.ltb_lt; lia).
        replace (j <? 2 ^ N.of_nat n) with true by (symmetry; apply N.ltb_lt; lia).
        cbn [andb] in *. rewrite <- Hinv.
        destruct (val t j), (subset k j), (xsum (fun s => subset s j) ss); reflexivity.
  - (* nothing emitted *)
    exists ss. cbn [fst snd]. split; [exact Hacc|]. split; [exact Hlen|]. split; [|split; [exact Hsort|]].
    + eapply Forall_impl; [|exact Hlt]. cbv beta. intros; lia.
    + intros j Hj. specialize (Hinv j Hj). destruct (N.eq_dec j k) as [E|E].
      * subst j. rewrite N.leb_refl, Ek in Hinv. rewrite Hinv, Ek. rewrite !andb_false_r. reflexivity.
      * rewrite Hinv. f_equal.
        destruct (N.leb_spec k j) as [L|L]; destruct (N.leb_spec (k + 1) j) as [L'|L']; try reflexivity; lia.
Qed.

Lemma sweep_fold_inv n t len :
  (n <= 32)%nat -> length t = table_size n -> N.of_nat len <= 2 ^ N.of_nat n ->
  sweep_inv n t (N.of_nat len) (fold_left (esop_sweep_step n) (map N.of_nat (seq 0 len)) (t, [])).
Proof.
  intros Hn Hlen. induction len as [|len IH]; intros Hb.
  - cbn [seq map fold_left]. exists []. cbn [fst snd map rev]. split; [reflexivity|]. split; [exact Hlen|].
    split; [constructor|]. split; [constructor|]. intros j _. rewrite xsum_nil, xorb_false_r.
    replace (N.of_nat 0 <=? j) with true by (symmetry; apply N.leb_le; lia). reflexivity.
  - rewrite seq_S, map_app, fold_left_app. cbn [map fold_left Nat.add].
    replace (N.of_nat (S len)) with (N.of_nat len + 1) by lia.
    apply sweep_step_inv; [exact Hn|lia|]. apply IH. lia.
Qed.

(* the emitted form: increasing all-positive cubes denoting t *)
Lemma esop_from_lut_spec n t :
  (n <= 32)%nat -> length t = table_size n ->
  exists ss, ecubes (esop_from_lut n t) = map pcube ss /\
             Forall (fun s => s < 2 ^ N.of_nat n) ss /\ StronglySorted N.lt ss /\
             forall j, j < 2 ^ N.of_nat n -> xsum (fun s => subset s j) ss = val t j.
Proof.
  intros Hn Hlen.
  destruct (sweep_fold_inv n t (Nat.pow 2 n) Hn Hlen) as [ss (Hacc & _ & Hlt & Hsort & Hinv)].
  { rewrite pow2_nat_N. lia. }
  fold (assignments n) in Hacc, Hinv. rewrite pow2_nat_N in Hlt, Hinv.
  exists (rev ss). unfold esop_from_lut. cbn [ecubes]. split; [|split; [|split]].
  - rewrite Hacc. symmetry. apply map_rev.
  - apply Forall_rev. exact Hlt.
  - exact Hsort.
  - intros j Hj. specialize (Hinv j Hj). rewrite xsum_rev.
    replace (2 ^ N.of_nat n <=? j) with false in Hinv by (symmetry; apply N.leb_gt; lia).
    cbn [andb] in Hinv. destruct (val t j), (xsum (fun s => subset s j) ss); cbn in *; congruence.
Qed.

(* ------------------------------------------------------------------ main theorems about From<&Lut> for Esop *)
Lemma esop_from_lut_env n t : env (esop_from_lut n t) = n.
Proof. reflexivity. Qed.

Lemma Forall_lt_mono (ss : list N) a b : a <= b -> Forall (fun s => s < a) ss -> Forall (fun s => s < b) ss.
Proof. intros H Hf. eapply Forall_impl; [|exact Hf]. cbv beta. intros; lia. Qed.

(* only positive literals, on variables below n, strictly increasing (hence each cube once) *)
Lemma esop_from_lut_positive n t : (n <= 32)%nat -> wf n t ->
  exists ss, ecubes (esop_from_lut n t) = map pcube ss /\
             Forall (fun s => s < 2 ^ N.of_nat n) ss /\ StronglySorted N.lt ss.
Proof.
  intros Hn Hwf. destruct (esop_from_lut_spec n t Hn (wf_length n t Hwf)) as [ss (H1 & H2 & H3 & _)].
  exists ss. auto.
Qed.

Lemma StronglySorted_lt_NoDup (ss : list N) : StronglySorted N.lt ss -> NoDup ss.
Proof.
  induction ss as [|x ss IH]; intros H; [constructor|].
  apply StronglySorted_inv in H. destruct H as [Hs Hx]. constructor; [|apply IH; exact Hs].
  intro Hin. rewrite Forall_forall in Hx. specialize (Hx x Hin). lia.
Qed.

Lemma esop_from_lut_NoDup n t : (n <= 32)%nat -> wf n t -> NoDup (ecubes (esop_from_lut n t)).
Proof.
  intros Hn Hwf. destruct (esop_from_lut_positive n t Hn Hwf) as [ss (H1 & _ & H3)]. rewrite H1.
  apply FinFun.Injective_map_NoDup; [|apply StronglySorted_lt_NoDup; exact H3].
  intros a b. apply pcube_inj.
Qed.

(* THE MAIN THEOREM: the form denotes the function *)
Lemma esop_from_lut_value n t : (n <= 32)%nat -> wf n t ->
  forall m, m < 2 ^ N.of_nat n -> esop_value (esop_from_lut n t) m = val t m.
Proof.
  intros Hn Hwf m Hm. pose proof (pow2_le_32 n Hn) as H32.
  destruct (esop_from_lut_spec n t Hn (wf_length n t Hwf)) as [ss (H1 & H2 & _ & H4)].
  rewrite esop_value_esem, H1. rewrite esem_pcubes; [apply H4; exact Hm| |lia].
  apply (Forall_lt_mono ss _ _ H32 H2).
Qed.

(* ------------------------------------------------------------------ uniqueness of the increasing positive form *)
Lemma xsum_subset_above (l : list N) m : Forall (fun s => m < s) l -> xsum (fun s => subset s m) l = false.
Proof.
  intros H. apply xsum_false. rewrite Forall_forall in H. intros s Hs. apply subset_gt_false. apply H. exact Hs.
Qed.

Lemma xsum_subset_head a (r : list N) : Forall (N.lt a) r -> xsum (fun s => subset s a) (a :: r) = true.
Proof.
  intros H. rewrite xsum_cons, subset_refl, xsum_subset_above; [reflexivity|exact H].
Qed.

Lemma sorted_xsum_unique P (ss1 : list N) : forall ss2,
  StronglySorted N.lt ss1 -> StronglySorted N.lt ss2 -> Forall P ss1 -> Forall P ss2 ->
  (forall m, P m -> xsum (fun s => subset s m) ss1 = xsum (fun s => subset s m) ss2) -> ss1 = ss2.
Proof.
  induction ss1 as [|a r1 IH]; intros [|b r2] S1 S2 F1 F2 H.
  - reflexivity.
  - exfalso. apply StronglySorted_inv in S2. destruct S2 as [_ Hb]. inversion F2 as [|? ? Pb _]; subst.
    specialize (H b Pb). rewrite xsum_subset_head, xsum_nil in H by exact Hb. discriminate.
  - exfalso. apply StronglySorted_inv in S1. destruct S1 as [_ Ha]. inversion F1 as [|? ? Pa _]; subst.
    specialize (H a Pa). rewrite xsum_subset_head, xsum_nil in H by exact Ha. discriminate.
  - apply StronglySorted_inv in S1. destruct S1 as [S1 Ha]. apply StronglySorted_inv in S2. destruct S2 as [S2 Hb].
    inversion F1 as [|? ? Pa F1']; subst. inversion F2 as [|? ? Pb F2']; subst.
    destruct (N.lt_trichotomy a b) as [L|[L|L]].
    + exfalso. specialize (H a Pa). rewrite xsum_subset_head in H by exact Ha.
      rewrite xsum_subset_above in H; [discriminate|]. constructor; [exact L|].
      eapply Forall_impl; [|exact Hb]. cbv beta. intros; lia.
    + subst b. f_equal. apply IH; try assumption. intros m Pm. specialize (H m Pm).
      rewrite !xsum_cons in H. destruct (subset a m); [|rewrite !xorb_false_l in H; exact H].
      destruct (xsum (fun s => subset s m) r1), (xsum (fun s => subset s m) r2); cbn in H; congruence.
    + exfalso. specialize (H b Pb). rewrite (xsum_subset_head b r2) in H by exact Hb.
      rewrite xsum_subset_above in H; [discriminate|]. constructor; [exact L|].
      eapply Forall_impl; [|exact Ha]. cbv beta. intros; lia.
Qed.

Lemma positive_form_unique n ss1 ss2 : (n <= 32)%nat ->
  StronglySorted N.lt ss1 -> StronglySorted N.lt ss2 ->
  Forall (fun s => s < 2 ^ N.of_nat n) ss1 -> Forall (fun s => s < 2 ^ N.of_nat n) ss2 ->
  (forall m, m < 2 ^ N.of_nat n -> esem (map pcube ss1) m = esem (map pcube ss2) m) -> ss1 = ss2.
Proof.
  intros Hn S1 S2 F1 F2 H. pose proof (pow2_le_32 n Hn) as H32.
  apply (sorted_xsum_unique (fun s => s < 2 ^ N.of_nat n)); try assumption.
  intros m Hm. specialize (H m Hm).
  rewrite !esem_pcubes in H; try lia; try (eapply Forall_lt_mono; [exact H32|assumption]). exact H.
Qed.

(* the conversion returns THE increasing positive form denoting t *)
Lemma esop_from_lut_canonical n t ss : (n <= 32)%nat -> wf n t ->
  StronglySorted N.lt ss -> Forall (fun s => s < 2 ^ N.of_nat n) ss ->
  (forall m, m < 2 ^ N.of_nat n -> esem (map pcube ss) m = val t m) ->
  ecubes (esop_from_lut n t) = map pcube ss.
Proof.
  intros Hn Hwf S F H. destruct (esop_from_lut_positive n t Hn Hwf) as [ss' (H1 & H2 & H3)].
  rewrite H1. f_equal. apply (positive_form_unique n); try assumption.
  intros m Hm. rewrite H by exact Hm. rewrite <- H1. rewrite <- esop_value_esem.
  apply esop_from_lut_value; assumption.
Qed.

(* equal functions give equal Esops (no extensionality of tables needed) *)
Lemma esop_from_lut_ext n t1 t2 : (n <= 32)%nat -> wf n t1 -> wf n t2 ->
  (forall m, m < 2 ^ N.of_nat n -> val t1 m = val t2 m) -> esop_from_lut n t1 = esop_from_lut n t2.
Proof.
  intros Hn W1 W2 H. destruct (esop_from_lut_positive n t2 Hn W2) as [ss (H1 & H2 & H3)].
  assert (E : ecubes (esop_from_lut n t1) = ecubes (esop_from_lut n t2)).
  { rewrite H1. apply esop_from_lut_canonical; try assumption.
    intros m Hm. rewrite H by exact Hm. rewrite <- H1, <- esop_value_esem. apply esop_from_lut_value; assumption. }
  unfold esop_from_lut in *. cbn [ecubes] in E. rewrite E. reflexivity.
Qed.

(* ------------------------------------------------------------------ back to a table *)
Lemma esop_to_lut_sem s :
  wf (env s) (esop_to_lut s) /\
  forall m, m < 2 ^ N.of_nat (env s) -> val (esop_to_lut s) m = esop_value s m.
Proof. unfold esop_to_lut. apply tabulate_sem. Qed.

Section RoundTrip.
  Hypothesis wf_ext : forall n a b, wf n a -> wf n b ->
    (forall m, m < 2 ^ (N.of_nat n) -> val a m = val b m) -> a = b.

  Lemma esop_roundtrip n t : (n <= 32)%nat -> wf n t -> esop_to_lut (esop_from_lut n t) = t.
  Proof.
    intros Hn Hwf. destruct (esop_to_lut_sem (esop_from_lut n t)) as [W V]. rewrite esop_from_lut_env in *.
    apply (wf_ext n); [exact W|exact Hwf|]. intros m Hm. rewrite V by exact Hm.
    apply esop_from_lut_value; assumption.
  Qed.
End RoundTrip.

(* ------------------------------------------------------------------ algebraic normal form coefficients *)
Lemma tb_add_pow2 k q p : k < 2 ^ q -> N.testbit (k + 2 ^ q) p = N.testbit k p || (p =? q).
Proof.
  intros Hk. rewrite add_disjoint.
  - rewrite N.lor_spec, N.pow2_bits_eqb, (N.eqb_sym q p). reflexivity.
  - apply N.bits_inj_0. intro r. rewrite N.land_spec, N.pow2_bits_eqb.
    destruct (N.eqb_spec q r) as [E|E]; [|apply andb_false_r]. subst r.
    rewrite (testbit_lt_pow2 k q q) by (assumption || lia). reflexivity.
Qed.

Lemma tb_mod_pow2 x q p : N.testbit (x mod 2 ^ q) p = N.testbit x p && (p <? q).
Proof.
  destruct (N.ltb_spec p q) as [L|L].
  - rewrite N.mod_pow2_bits_low by exact L. rewrite andb_true_r. reflexivity.
  - rewrite N.mod_pow2_bits_high by exact L. rewrite andb_false_r. reflexivity.
Qed.

Lemma tb_true_le x q p : x < 2 ^ (q + 1) -> N.testbit x p = true -> p <= q.
Proof.
  intros Hx Hp. destruct (N.le_gt_cases p q) as [L|L]; [exact L|].
  rewrite (testbit_lt_pow2 x (q + 1) p) in Hp by (assumption || lia). discriminate.
Qed.

Lemma tb_true_lt x q p : x < 2 ^ q -> N.testbit x p = true -> p < q.
Proof.
  intros Hx Hp. destruct (N.lt_ge_cases p q) as [L|L]; [exact L|].
  rewrite (testbit_lt_pow2 x q p) in Hp by assumption. discriminate.
Qed.

Lemma mod_pow2_lt x q : x mod 2 ^ q < 2 ^ q.
Proof. apply N.mod_lt. apply N.pow_nonzero. lia. Qed.

Lemma subset_lo_l e k q : e < 2 ^ (q + 1) -> k < 2 ^ q ->
  subset e k = negb (N.testbit e q) && subset (e mod 2 ^ q) k.
Proof.
  intros He Hk. apply bool_eq_iff. rewrite andb_true_iff, negb_true_iff, !subset_spec. split.
  - intros H. split.
    + destruct (N.testbit e q) eqn:E; [|reflexivity]. apply H in E. apply (tb_true_lt k q q Hk) in E. lia.
    + intros p Hp. rewrite tb_mod_pow2 in Hp. apply andb_true_iff in Hp. apply H. apply Hp.
  - intros [Hq H] p Hp. apply H. rewrite tb_mod_pow2, Hp. cbn [andb]. apply N.ltb_lt.
    pose proof (tb_true_le e q p He Hp) as L. destruct (N.eq_dec p q) as [E|E]; [|lia].
    subst p. congruence.
Qed.

Lemma subset_lo_l_hi e k q : e < 2 ^ (q + 1) -> k < 2 ^ q ->
  subset e (k + 2 ^ q) = subset (e mod 2 ^ q) k.
Proof.
  intros He Hk. apply bool_eq_iff. rewrite !subset_spec. split.
  - intros H p Hp. rewrite tb_mod_pow2 in Hp. apply andb_true_iff in Hp. destruct Hp as [Hp L].
    apply H in Hp. rewrite tb_add_pow2 in Hp by exact Hk. apply N.ltb_lt in L.
    destruct (N.eqb_spec p q) as [E|E]; [lia|]. rewrite orb_false_r in Hp. exact Hp.
  - intros H p Hp. rewrite tb_add_pow2 by exact Hk. destruct (N.eqb_spec p q) as [E|E]; [apply orb_true_r|].
    rewrite orb_false_r. apply H. rewrite tb_mod_pow2, Hp. cbn [andb]. apply N.ltb_lt.
    pose proof (tb_true_le e q p He Hp). lia.
Qed.

Lemma subset_lo_r k s q : k < 2 ^ q -> subset k s = subset k (s mod 2 ^ q).
Proof.
  intros Hk. apply bool_eq_iff. rewrite !subset_spec. split.
  - intros H p Hp. rewrite tb_mod_pow2, (H p Hp). cbn [andb]. apply N.ltb_lt. apply (tb_true_lt k q p Hk Hp).
  - intros H p Hp. apply H in Hp. rewrite tb_mod_pow2 in Hp. apply andb_true_iff in Hp. apply Hp.
Qed.

Lemma subset_lo_r_hi k s q : k < 2 ^ q ->
  subset (k + 2 ^ q) s = N.testbit s q && subset k (s mod 2 ^ q).
Proof.
  intros Hk. apply bool_eq_iff. rewrite andb_true_iff, !subset_spec. split.
  - intros H. split.
    + apply H. rewrite tb_add_pow2 by exact Hk. rewrite N.eqb_refl. apply orb_true_r.
    + intros p Hp. rewrite tb_mod_pow2. rewrite H.
      * cbn [andb]. apply N.ltb_lt. apply (tb_true_lt k q p Hk Hp).
      * rewrite tb_add_pow2 by exact Hk. rewrite Hp. reflexivity.
  - intros [Hq H] p Hp. rewrite tb_add_pow2 in Hp by exact Hk. destruct (N.eqb_spec p q) as [E|E].
    + subst p. exact Hq.
    + rewrite orb_false_r in Hp. apply H in Hp. rewrite tb_mod_pow2 in Hp. apply andb_true_iff in Hp. apply Hp.
Qed.

Lemma eqb_hi_lo e s q : e < 2 ^ (q + 1) -> s < 2 ^ (q + 1) ->
  (e =? s) = Bool.eqb (N.testbit e q) (N.testbit s q) && (e mod 2 ^ q =? s mod 2 ^ q).
Proof.
  intros He Hs. apply bool_eq_iff. rewrite andb_true_iff, !N.eqb_eq, eqb_true_iff. split.
  - intros ->. auto.
  - intros [Hq Hm]. apply N.bits_inj. intro p. destruct (N.lt_trichotomy p q) as [L|[L|L]].
    + assert (E : N.testbit (e mod 2 ^ q) p = N.testbit (s mod 2 ^ q) p) by (rewrite Hm; reflexivity).
      rewrite !tb_mod_pow2 in E. apply N.ltb_lt in L. rewrite L, !andb_true_r in E. exact E.
    + subst p. exact Hq.
    + rewrite (testbit_lt_pow2 e (q + 1) p), (testbit_lt_pow2 s (q + 1) p) by (assumption || lia). reflexivity.
Qed.

Lemma seq_shift_add a len : seq a len = map (fun x => (x + a)%nat) (seq 0 len).
Proof.
  induction len as [|len IH]; [reflexivity|]. rewrite !seq_S, map_app, IH. cbn [map Nat.add].
  rewrite (Nat.add_comm a len). reflexivity.
Qed.

Lemma assignments_S n :
  assignments (S n) = assignments n ++ map (fun k => k + 2 ^ N.of_nat n) (assignments n).
Proof.
  unfold assignments. cbn [Nat.pow]. rewrite Nat.mul_succ_l, Nat.mul_1_l.
  rewrite seq_app, map_app. f_equal. cbn [Nat.add]. rewrite (seq_shift_add (Nat.pow 2 n)), !map_map.
  apply map_ext. intro x. rewrite Nat2N.inj_add, pow2_nat_N. reflexivity.
Qed.

(* the number of sets between e and s is odd exactly when e = s *)
Lemma interval_parity n : forall e s, e < 2 ^ N.of_nat n -> s < 2 ^ N.of_nat n ->
  xsum (fun k => subset e k && subset k s) (assignments n) = (e =? s).
Proof.
  induction n as [|n IH]; intros e s He Hs.
  - change (2 ^ N.of_nat 0) with 1 in *. assert (e = 0) by lia. assert (s = 0) by lia. subst. reflexivity.
  - set (q := N.of_nat n) in *. replace (N.of_nat (S n)) with (q + 1) in * by (unfold q; lia).
    rewrite assignments_S, xsum_app, xsum_map. fold q.
    rewrite (xsum_ext _ (fun k => negb (N.testbit e q) && (subset (e mod 2 ^ q) k && subset k (s mod 2 ^ q)))).
    2:{ intros k Hk. apply In_assignments in Hk. fold q in Hk.
        rewrite (subset_lo_l e k q He Hk), (subset_lo_r k s q Hk). rewrite andb_assoc. reflexivity. }
    rewrite (xsum_ext (fun k => subset e (k + 2 ^ q) && subset (k + 2 ^ q) s)
                      (fun k => N.testbit s q && (subset (e mod 2 ^ q) k && subset k (s mod 2 ^ q)))).
    2:{ intros k Hk. apply In_assignments in Hk. fold q in Hk.
        rewrite (subset_lo_l_hi e k q He Hk), (subset_lo_r_hi k s q Hk).
        destruct (N.testbit s q), (subset (e mod 2 ^ q) k); reflexivity. }
    rewrite !xsum_andb_l. rewrite IH by apply mod_pow2_lt. rewrite (eqb_hi_lo e s q He Hs).
    destruct (N.testbit e q), (N.testbit s q), (e mod 2 ^ q =? s mod 2 ^ q); reflexivity.
Qed.

Lemma xsum_eqb_In (l : list N) s : NoDup l -> xsum (fun e => e =? s) l = true <-> In s l.
Proof.
  induction l as [|x l IH]; intros Hnd.
  - rewrite xsum_nil. split; [discriminate|intros []].
  - inversion Hnd as [|? ? Hx Hnd']; subst. rewrite xsum_cons. cbn [In]. destruct (N.eqb_spec x s) as [E|E].
    + subst x. split; [auto|]. intros _. destruct (IH Hnd') as [I1 _].
      destruct (xsum (fun e => e =? s) l); [|reflexivity]. exfalso. apply Hx, I1. reflexivity.
    + rewrite xorb_false_l, IH by exact Hnd'. split; [auto|]. intros [H|H]; [contradiction|exact H].
Qed.

(* the ANF coefficient of a function given as an exclusive sum of distinct positive cubes *)
Lemma anf_of_positive_form n (f : N -> bool) ss s :
  NoDup ss -> Forall (fun e => e < 2 ^ N.of_nat n) ss -> s < 2 ^ N.of_nat n ->
  (forall m, m < 2 ^ N.of_nat n -> xsum (fun e => subset e m) ss = f m) ->
  (anf f n s = true <-> In s ss).
Proof.
  intros Hnd Hlt Hs Hf. rewrite <- (xsum_eqb_In ss s Hnd). rewrite anf_xsum.
  rewrite (xsum_ext _ (fun k => xsum (fun e => subset e k && subset k s) ss)).
  2:{ intros k Hk. apply In_assignments in Hk. rewrite <- (Hf k Hk). rewrite <- xsum_andb_l.
      apply xsum_ext. intros e _. apply andb_comm. }
  rewrite xsum_swap.
  rewrite (xsum_ext _ (fun e => e =? s)); [reflexivity|].
  intros e He. rewrite Forall_forall in Hlt. apply interval_parity; [apply Hlt; exact He|exact Hs].
Qed.

(* coefficient-exactness: cube s is present iff the ANF coefficient of s is 1 *)
Lemma esop_from_lut_anf n t s : (n <= 32)%nat -> wf n t -> s < 2 ^ N.of_nat n ->
  (In (pcube s) (ecubes (esop_from_lut n t)) <-> anf (val t) n s = true).
Proof.
  intros Hn Hwf Hs. destruct (esop_from_lut_spec n t Hn (wf_length n t Hwf)) as [ss (H1 & H2 & H3 & H4)].
  rewrite H1. rewrite (anf_of_positive_form n (val t) ss s (StronglySorted_lt_NoDup ss H3) H2 Hs H4).
  rewrite in_map_iff. split.
  - intros [x [E Hx]]. apply pcube_inj in E. subst x. exact Hx.
  - intros Hx. exists s. auto.
Qed.

(* Moebius inversion over GF(2) as a by-product: xor of the ANF coefficients of the subsets of m gives back f m *)
Lemma anf_inversion n t m : (n <= 32)%nat -> wf n t -> m < 2 ^ N.of_nat n ->
  xsum (fun s => subset s m && anf (val t) n s) (assignments n) = val t m.
Proof.
  intros Hn Hwf Hm. destruct (esop_from_lut_spec n t Hn (wf_length n t Hwf)) as [ss (H1 & H2 & H3 & H4)].
  rewrite <- (H4 m Hm).
  pose proof (StronglySorted_lt_NoDup ss H3) as Hnd.
  (* anf s = [s in ss] on the domain, and [s in ss] = xsum_e (e =? s) *)
  rewrite (xsum_ext _ (fun s => xsum (fun e => (e =? s) && subset e m) ss)).
  2:{ intros s Hs. apply In_assignments in Hs.
      assert (E : anf (val t) n s = xsum (fun e => e =? s) ss).
      { apply bool_eq_iff. rewrite (anf_of_positive_form n (val t) ss s Hnd H2 Hs H4).
        symmetry. apply xsum_eqb_In. exact Hnd. }
      rewrite E. rewrite <- xsum_andb_l. apply xsum_ext. intros e _.
      destruct (N.eqb_spec e s) as [->|]; [apply andb_comm|rewrite andb_false_r; reflexivity]. }
  rewrite xsum_swap. apply xsum_ext. intros e He.
  rewrite (xsum_ext _ (fun s => subset e m && (e =? s))) by (intros; apply andb_comm).
  rewrite xsum_andb_l.
  assert (X : xsum (fun s => e =? s) (assignments n) = true).
  { rewrite (xsum_ext _ (fun s => s =? e)) by (intros; apply N.eqb_sym).
    apply xsum_eqb_In; [apply assignments_NoDup|]. apply In_assignments.
    rewrite Forall_forall in H2. apply H2. exact He. }
  change (xsum (N.eqb e) (assignments n)) with (xsum (fun s => e =? s) (assignments n)).
  rewrite X. apply andb_true_r.
Qed.

(* the same identity for an arbitrary function (through its table) *)
Lemma anf_ext n f g s : (forall m, m < 2 ^ N.of_nat n -> f m = g m) -> anf f n s = anf g n s.
Proof.
  intros H. rewrite !anf_xsum. apply xsum_ext. intros k Hk. apply In_assignments in Hk.
  rewrite (H k Hk). reflexivity.
Qed.

Lemma anf_inversion_fun n (f : N -> bool) m : (n <= 32)%nat -> m < 2 ^ N.of_nat n ->
  xsum (fun s => subset s m && anf f n s) (assignments n) = f m.
Proof.
  intros Hn Hm. destruct (tabulate_sem n f) as [W V]. rewrite <- (V m Hm).
  rewrite <- (anf_inversion n (tabulate n f) m Hn W Hm). apply xsum_ext. intros s _.
  f_equal. apply anf_ext. intros k Hk. symmetry. apply V. exact Hk.
Qed.

(* ------------------------------------------------------------------ closed form of the conversion *)
Lemma StronglySorted_filter (p : N -> bool) l : StronglySorted N.lt l -> StronglySorted N.lt (filter p l).
Proof.
  induction l as [|x l IH]; intros H; [constructor|]. apply StronglySorted_inv in H. destruct H as [Hs Hx].
  cbn [filter]. destruct (p x); [|apply IH; exact Hs]. constructor; [apply IH; exact Hs|].
  rewrite Forall_forall in *. intros y Hy. apply Hx. apply (incl_filter p l). exact Hy.
Qed.

Lemma seq_sorted len : StronglySorted N.lt (map N.of_nat (seq 0 len)).
Proof.
  induction len as [|len IH]; [constructor|]. rewrite seq_S, map_app. cbn [map Nat.add].
  apply StronglySorted_snoc; [exact IH|]. apply Forall_forall. intros x Hx. apply in_map_iff in Hx.
  destruct Hx as [k [<- Hk]]. apply in_seq in Hk. lia.
Qed.

Lemma assignments_sorted n : StronglySorted N.lt (assignments n).
Proof. apply seq_sorted. Qed.

(* the cubes are exactly the variable sets with ANF coefficient 1, in increasing order *)
Lemma esop_from_lut_closed_form n t : (n <= 32)%nat -> wf n t ->
  esop_from_lut n t = mkEsop n (map pcube (filter (anf (val t) n) (assignments n))).
Proof.
  intros Hn Hwf. pose proof (pow2_le_32 n Hn) as H32.
  assert (F : Forall (fun s => s < 2 ^ N.of_nat n) (filter (anf (val t) n) (assignments n))).
  { apply Forall_forall. intros s Hs. apply filter_In in Hs. apply In_assignments. apply Hs. }
  assert (E : ecubes (esop_from_lut n t) = map pcube (filter (anf (val t) n) (assignments n))).
  { apply esop_from_lut_canonical; try assumption.
    - apply StronglySorted_filter. apply assignments_sorted.
    - intros m Hm. rewrite esem_pcubes; [| |lia].
      + rewrite xsum_filter. rewrite <- (anf_inversion n t m Hn Hwf Hm). apply xsum_ext. intros s _. apply andb_comm.
      + apply (Forall_lt_mono _ _ _ H32 F). }
  unfold esop_from_lut in *. cbn [ecubes] in E. rewrite E. reflexivity.
Qed.
