(* C03 at the API layer (guards + kernels), and the always-on guards of these methods. *)
From Coq Require Import List NArith Arith Bool Lia.
From V Require Import Base.Res Gen.Tables Model.Kernels Model.Api Base.Bits Spec.Bfun Proofs.Wf Proofs.Positions
  Proofs.Transforms Proofs.Order.
Import ListNotations.
Open Scope N_scope.

Definition lwf (l : lut) : Prop := wf (nv l) (tbl l).

Lemma check_var_ok l ind : ind < N.of_nat (nv l) -> check_var l ind = Ok tt.
Proof. intros H. unfold check_var. apply N.ltb_lt in H. rewrite H. reflexivity. Qed.
Lemma check_var_bad l ind : N.of_nat (nv l) <= ind -> check_var l ind = PanicAlways.
Proof. intros H. unfold check_var. apply N.ltb_ge in H. rewrite H. reflexivity. Qed.

Lemma D_flip_sem l ind : lwf l -> ind < N.of_nat (nv l) ->
  exists l', D_flip l ind = Ok l' /\ nv l' = nv l /\ lwf l' /\
             forall m, m < 2 ^ N.of_nat (nv l) -> val (tbl l') m = val (tbl l) (flipbit m ind).
Proof.
  intros Hwf Hind. destruct (flip_sem _ _ _ Hwf Hind) as [t' [E [W S]]].
  exists (mkLut (nv l) t'). unfold D_flip. rewrite (check_var_ok l ind Hind). cbn [bind].
  unfold with_tbl. rewrite E. cbn [bind]. unfold lwf. cbn [nv tbl]. auto.
Qed.

Lemma D_flip_guard l ind : N.of_nat (nv l) <= ind -> D_flip l ind = PanicAlways.
Proof. intros H. unfold D_flip. rewrite (check_var_bad l ind H). reflexivity. Qed.

Lemma D_swap_sem l i j : lwf l -> i < N.of_nat (nv l) -> j < N.of_nat (nv l) ->
  exists l', D_swap l i j = Ok l' /\ nv l' = nv l /\ lwf l' /\
             forall m, m < 2 ^ N.of_nat (nv l) -> val (tbl l') m = val (tbl l) (swapbits m i j).
Proof.
  intros Hwf Hi Hj. destruct (swap_sem _ _ _ _ Hwf Hi Hj) as [t' [E [W S]]].
  exists (mkLut (nv l) t'). unfold D_swap. rewrite (check_var_ok l i Hi), (check_var_ok l j Hj). cbn [bind].
  unfold with_tbl. rewrite E. cbn [bind]. unfold lwf. cbn [nv tbl]. auto.
Qed.

Lemma D_swap_guard l i j : N.of_nat (nv l) <= i \/ N.of_nat (nv l) <= j -> D_swap l i j = PanicAlways.
Proof.
  intros H. unfold D_swap. destruct (N.lt_ge_cases i (N.of_nat (nv l))) as [Hi|Hi].
  - rewrite (check_var_ok l i Hi). cbn [bind]. destruct H as [H|H]; [lia|]. rewrite (check_var_bad l j H). reflexivity.
  - rewrite (check_var_bad l i Hi). reflexivity.
Qed.

Lemma D_swap_adjacent_sem l ind : N.of_nat (nv l) < 2 ^ 64 -> lwf l -> ind + 1 < N.of_nat (nv l) ->
  exists l', D_swap_adjacent l ind = Ok l' /\ nv l' = nv l /\ lwf l' /\
             forall m, m < 2 ^ N.of_nat (nv l) -> val (tbl l') m = val (tbl l) (swapbits m ind (ind + 1)).
Proof.
  intros Hn Hwf Hind. destruct (swap_adjacent_sem _ _ _ Hn Hwf Hind) as [t' [E [W S]]].
  exists (mkLut (nv l) t'). unfold D_swap_adjacent.
  rewrite (check_var_ok l ind ltac:(lia)), (check_var_ok l (ind + 1) Hind). cbn [bind].
  unfold with_tbl. rewrite E. cbn [bind]. unfold lwf. cbn [nv tbl]. auto.
Qed.

Lemma D_swap_adjacent_guard l ind : N.of_nat (nv l) <= ind + 1 -> D_swap_adjacent l ind = PanicAlways.
Proof.
  intros H. unfold D_swap_adjacent. destruct (N.lt_ge_cases ind (N.of_nat (nv l))) as [Hi|Hi].
  - rewrite (check_var_ok l ind Hi). cbn [bind]. rewrite (check_var_bad l (ind + 1) H). reflexivity.
  - rewrite (check_var_bad l ind Hi). reflexivity.
Qed.

Lemma D_cofactors_sem l ind : lwf l -> ind < N.of_nat (nv l) ->
  exists c0 c1, D_cofactors l ind = Ok (c0, c1) /\ nv c0 = nv l /\ nv c1 = nv l /\ lwf c0 /\ lwf c1 /\
    (forall m, m < 2 ^ N.of_nat (nv l) -> val (tbl c0) m = val (tbl l) (clearbit m ind)) /\
    (forall m, m < 2 ^ N.of_nat (nv l) -> val (tbl c1) m = val (tbl l) (setbit m ind)) /\
    (forall m, m < 2 ^ N.of_nat (nv l) -> val (tbl c0) (flipbit m ind) = val (tbl c0) m) /\
    (forall m, m < 2 ^ N.of_nat (nv l) -> val (tbl c1) (flipbit m ind) = val (tbl c1) m).
Proof.
  intros Hwf Hind.
  destruct (cofactor0_sem _ _ _ Hwf Hind) as [t0 [E0 [W0 S0]]].
  destruct (cofactor1_sem _ _ _ Hwf Hind) as [t1 [E1 [W1 S1]]].
  exists (mkLut (nv l) t0), (mkLut (nv l) t1). unfold D_cofactors. rewrite (check_var_ok l ind Hind). cbn [bind].
  unfold with_tbl. rewrite E0, E1. cbn [bind]. unfold lwf. cbn [nv tbl].
  split; [reflexivity|]. split; [reflexivity|]. split; [reflexivity|]. split; [exact W0|]. split; [exact W1|].
  split; [exact S0|]. split; [exact S1|]. split.
  - apply (cofactor0_independent _ _ _ _ Hwf Hind E0).
  - apply (cofactor1_independent _ _ _ _ Hwf Hind E1).
Qed.

Lemma D_cofactors_guard l ind : N.of_nat (nv l) <= ind -> D_cofactors l ind = PanicAlways.
Proof. intros H. unfold D_cofactors. rewrite (check_var_bad l ind H). reflexivity. Qed.

Lemma lut_new_wf n : wf n (tbl (lut_new n)).
Proof.
  unfold lut_new. cbn [tbl]. split; [apply repeat_length|].
  apply Forall_forall. intros x Hx. apply repeat_spec in Hx. subst. apply N.neq_0_lt_0, N.pow_nonzero. lia.
Qed.

Lemma D_from_cofactors_sem c0 c1 ind : lwf c0 -> lwf c1 -> nv c0 = nv c1 -> ind < N.of_nat (nv c0) ->
  exists l, D_from_cofactors c0 c1 ind = Ok l /\ nv l = nv c0 /\ lwf l /\
            forall m, m < 2 ^ N.of_nat (nv c0) -> val (tbl l) m = if N.testbit m ind then val (tbl c1) m else val (tbl c0) m.
Proof.
  intros W0 W1 En Hind. unfold lwf in W1. rewrite <- En in W1.
  destruct (from_cofactors_sem _ _ _ _ _ (lut_new_wf (nv c0)) W0 W1 Hind) as [t' [E [W S]]].
  exists (mkLut (nv c0) t'). unfold D_from_cofactors. rewrite <- En, Nat.eqb_refl.
  apply N.ltb_lt in Hind. rewrite Hind. cbn [always bind]. unfold with_tbl. rewrite E. cbn [bind].
  unfold lwf. cbn [nv tbl]. auto.
Qed.

Lemma S_from_cofactors_sem c0 c1 ind : lwf c0 -> lwf c1 -> nv c0 = nv c1 -> ind < N.of_nat (nv c0) ->
  exists l, S_from_cofactors c0 c1 ind = Ok l /\ nv l = nv c0 /\ lwf l /\
            forall m, m < 2 ^ N.of_nat (nv c0) -> val (tbl l) m = if N.testbit m ind then val (tbl c1) m else val (tbl c0) m.
Proof.
  intros W0 W1 En Hind. unfold lwf in W1. rewrite <- En in W1.
  destruct (from_cofactors_sem _ _ _ _ _ (lut_new_wf (nv c0)) W0 W1 Hind) as [t' [E [W S]]].
  exists (mkLut (nv c0) t'). unfold S_from_cofactors.
  apply N.ltb_lt in Hind. rewrite Hind. cbn [always bind]. unfold with_tbl. rewrite E. cbn [bind].
  unfold lwf. cbn [nv tbl]. auto.
Qed.

Lemma D_from_cofactors_guard c0 c1 ind : nv c0 <> nv c1 \/ N.of_nat (nv c0) <= ind ->
  D_from_cofactors c0 c1 ind = PanicAlways.
Proof.
  intros H. unfold D_from_cofactors. destruct (Nat.eqb_spec (nv c0) (nv c1)) as [E|E]; [|reflexivity].
  cbn [always bind]. destruct H as [H|H]; [congruence|]. apply N.ltb_ge in H. rewrite H. reflexivity.
Qed.

Lemma S_from_cofactors_guard c0 c1 ind : N.of_nat (nv c0) <= ind -> S_from_cofactors c0 c1 ind = PanicAlways.
Proof. intros H. unfold S_from_cofactors. apply N.ltb_ge in H. rewrite H. reflexivity. Qed.

(* from_cofactors (cofactors f i) i = f : equality of tables, by extensionality *)
Theorem D_shannon l ind c0 c1 : lwf l -> ind < N.of_nat (nv l) -> D_cofactors l ind = Ok (c0, c1) ->
  D_from_cofactors c0 c1 ind = Ok l.
Proof.
  intros Hwf Hind E.
  destruct (D_cofactors_sem l ind Hwf Hind) as [d0 [d1 [E' [N0 [N1 [W0 [W1 [S0 [S1 _]]]]]]]]].
  rewrite E in E'. injection E' as <- <-.
  destruct (D_from_cofactors_sem c0 c1 ind W0 W1 ltac:(congruence) ltac:(rewrite N0; exact Hind)) as [r [R [Nr [Wr Sr]]]].
  rewrite R. f_equal. destruct r as [rn rt], l as [ln lt]. cbn [nv tbl] in *. unfold lwf in *. cbn [nv tbl] in *.
  subst rn. rewrite N0 in *. f_equal.
  apply (proj2 (wf_ext ln rt lt Wr Hwf)). intros m Hm. rewrite (Sr m Hm).
  destruct (N.testbit m ind) eqn:B.
  - rewrite (S1 m Hm). f_equal. apply N.bits_inj. intro p. rewrite setbit_testbit.
    destruct (N.eqb_spec ind p) as [<-|]; [rewrite B; reflexivity|apply orb_false_r].
  - rewrite (S0 m Hm). f_equal. apply N.bits_inj. intro p. rewrite clearbit_testbit.
    destruct (N.eqb_spec ind p) as [<-|]; [rewrite B; reflexivity|apply andb_true_r].
Qed.
