(* Group laws of the NPN action `act` of Spec/Transform.v (corollaries of C04): characterisation of `xin`,
   identity, composition, inverse, and the three equivalence relations (NPN, P, N).  Valid for every n. *)
From Coq Require Import List NArith Arith Bool Permutation Lia.
From V Require Import Base.Res Model.Kernels Base.Bits Spec.Bfun Spec.Transform Proofs.Coverage.
Import ListNotations.
Open Scope N_scope.

(* ------------------------------------------------------------------ 0. a number given by its set bits *)
Definition gfold (b : nat -> bool) (g : nat -> N) (l : list nat) (acc : N) : N :=
  fold_left (fun x i => if b i then setbit x (g i) else x) l acc.

Lemma setbit_spec x i q : N.testbit (setbit x i) q = N.testbit x q || (i =? q).
Proof. unfold setbit. rewrite N.lor_spec, N.pow2_bits_eqb. reflexivity. Qed.

Lemma gfold_spec b g l : forall acc q,
  N.testbit (gfold b g l acc) q = N.testbit acc q || existsb (fun i => b i && (g i =? q)) l.
Proof.
  induction l as [|i l IH]; intros acc q.
  - cbn [gfold fold_left existsb]. rewrite orb_false_r. reflexivity.
  - unfold gfold in *. cbn [fold_left existsb]. rewrite IH. destruct (b i).
    + rewrite setbit_spec. cbn [andb]. rewrite orb_assoc. reflexivity.
    + cbn [andb orb]. reflexivity.
Qed.

Lemma gfold_pick b g l i0 : In i0 l -> (forall j, In j l -> g j = g i0 -> j = i0) ->
  N.testbit (gfold b g l 0) (g i0) = b i0.
Proof.
  intros Hin Huniq. rewrite gfold_spec, N.bits_0. cbn [orb].
  destruct (b i0) eqn:Eb.
  - apply existsb_exists. exists i0. split; [exact Hin|]. rewrite Eb, N.eqb_refl. reflexivity.
  - destruct (existsb (fun i => b i && (g i =? g i0)) l) eqn:Ee; [|reflexivity].
    apply existsb_exists in Ee. destruct Ee as [j [Hj Hb]].
    apply andb_true_iff in Hb. destruct Hb as [Hbj Hg]. apply N.eqb_eq in Hg.
    rewrite (Huniq j Hj Hg) in Hbj. congruence.
Qed.

Lemma gfold_none b g l q : (forall j, In j l -> g j <> q) -> N.testbit (gfold b g l 0) q = false.
Proof.
  intros Hno. rewrite gfold_spec, N.bits_0. cbn [orb].
  destruct (existsb (fun i => b i && (g i =? q)) l) eqn:Ee; [|reflexivity].
  apply existsb_exists in Ee. destruct Ee as [j [Hj Hb]].
  apply andb_true_iff in Hb. destruct Hb as [_ Hg]. apply N.eqb_eq in Hg.
  exfalso. exact (Hno j Hj Hg).
Qed.

Lemma gfold_ext b b' g l : (forall i, In i l -> b i = b' i) -> forall acc, gfold b g l acc = gfold b' g l acc.
Proof.
  unfold gfold. induction l as [|i l IH]; intros Hb acc.
  - reflexivity.
  - cbn [fold_left]. rewrite (Hb i (or_introl eq_refl)). apply IH. intros j Hj. apply Hb. right. exact Hj.
Qed.

Definition mkbits (k : nat) (b : nat -> bool) : N := gfold b N.of_nat (seq 0 k) 0.

Lemma mkbits_spec k b q : N.testbit (mkbits k b) q = (q <? N.of_nat k) && b (N.to_nat q).
Proof.
  unfold mkbits. destruct (N.ltb_spec q (N.of_nat k)) as [Hq|Hq]; cbn [andb].
  - assert (H : N.testbit (gfold b N.of_nat (seq 0 k) 0) (N.of_nat (N.to_nat q)) = b (N.to_nat q)).
    { apply (gfold_pick b N.of_nat (seq 0 k) (N.to_nat q)).
      - apply in_seq. lia.
      - intros j _ Hj. lia. }
    rewrite N2Nat.id in H. exact H.
  - apply gfold_none. intros j Hj. apply in_seq in Hj. lia.
Qed.

Lemma mkbits_lt k b : mkbits k b < 2 ^ N.of_nat k.
Proof.
  apply lt_pow2_of_bits. intros q Hq. rewrite mkbits_spec.
  destruct (N.ltb_spec q (N.of_nat k)) as [H|H]; [lia|reflexivity].
Qed.

Lemma mkbits_false k b : (forall i, (i < k)%nat -> b i = false) -> mkbits k b = 0.
Proof.
  intros Hb. apply N.bits_inj_0. intros q. rewrite mkbits_spec.
  destruct (N.ltb_spec q (N.of_nat k)) as [H|H]; cbn [andb]; [|reflexivity].
  apply Hb. lia.
Qed.

Lemma of_nat_succ n : N.of_nat (S n) = N.of_nat n + 1.
Proof. lia. Qed.

(* ------------------------------------------------------------------ 1. facts about permutations of 0..n *)
Lemma NoDup_map_in {A B} (f : A -> B) (l : list A) :
  (forall x y, In x l -> In y l -> f x = f y -> x = y) -> NoDup l -> NoDup (map f l).
Proof.
  induction l as [|a l IH]; intros Hinj Hnd.
  - constructor.
  - inversion Hnd as [|a' l' Hnotin Hnd']. subst a' l'. cbn [map]. constructor.
    + intros Hin. apply in_map_iff in Hin. destruct Hin as [y [Ey Hy]].
      apply Hnotin. rewrite <- (Hinj y a (or_intror Hy) (or_introl eq_refl) Ey). exact Hy.
    + apply IH; [|exact Hnd']. intros x y Hx Hy. apply Hinj; right; assumption.
Qed.

Lemma identity_NoDup n : NoDup (identity n).
Proof.
  unfold identity. apply NoDup_map_in; [|apply seq_NoDup].
  intros x y _ _ H. apply Nat2N.inj. exact H.
Qed.

Lemma nthN_map_seq (f : nat -> N) n i : (i < n)%nat -> nthN (map f (seq 0 n)) i = f i.
Proof.
  intros Hi. unfold nthN.
  rewrite (nth_indep (map f (seq 0 n)) 0 (f 0%nat)) by (rewrite map_length, seq_length; exact Hi).
  rewrite map_nth, seq_nth by exact Hi. reflexivity.
Qed.

Lemma identity_nth n i : (i < n)%nat -> nthN (identity n) i = N.of_nat i.
Proof. apply nthN_map_seq. Qed.

Lemma perm_NoDup n p : is_perm n p -> NoDup p.
Proof. intros H. apply (Permutation_NoDup (Permutation_sym H)). apply identity_NoDup. Qed.

Lemma perm_nth_lt n p i : is_perm n p -> (i < n)%nat -> nthN p i < N.of_nat n.
Proof.
  intros Hp Hi. apply (cov_is_perm_entries n p _ Hp). apply nthN_In.
  rewrite (cov_is_perm_length n p Hp). exact Hi.
Qed.

Lemma perm_nth_inj n p i j : is_perm n p -> (i < n)%nat -> (j < n)%nat -> nthN p i = nthN p j -> i = j.
Proof.
  intros Hp Hi Hj E. pose proof (cov_is_perm_length n p Hp) as Hl.
  apply (proj1 (NoDup_nth p 0) (perm_NoDup n p Hp)); [lia|lia|exact E].
Qed.

Lemma perm_In n p q : is_perm n p -> q < N.of_nat n -> In q p.
Proof.
  intros Hp Hq. apply (Permutation_in _ (Permutation_sym Hp)). apply cov_below_in. exact Hq.
Qed.

Lemma perm_surj n p q : is_perm n p -> q < N.of_nat n -> exists i, (i < n)%nat /\ nthN p i = q.
Proof.
  intros Hp Hq. destruct (In_nth p q 0 (perm_In n p q Hp Hq)) as [i [Hi E]].
  exists i. rewrite (cov_is_perm_length n p Hp) in Hi. split; [exact Hi|exact E].
Qed.

Lemma is_perm_intro n p : NoDup p -> length p = n -> (forall x, In x p -> x < N.of_nat n) -> is_perm n p.
Proof.
  intros Hnd Hl Hlt. unfold is_perm. apply NoDup_Permutation_bis.
  - exact Hnd.
  - rewrite cov_identity_length, Hl. apply le_n.
  - intros x Hx. apply cov_below_in. apply Hlt. exact Hx.
Qed.

(* ------------------------------------------------------------------ 2. characterisation of xin *)
Lemma xin_gfold n p m y :
  xin n p m y = gfold (fun i => xorb (N.testbit y (N.of_nat i)) (N.testbit m (N.of_nat i))) (nthN p) (seq 0 n) 0.
Proof. reflexivity. Qed.

Lemma xin_testbit : forall n p mask y i, is_perm n p -> (i < n)%nat ->
  N.testbit (xin n p mask y) (nthN p i) = xorb (N.testbit y (N.of_nat i)) (N.testbit mask (N.of_nat i)).
Proof.
  intros n p m y i Hp Hi. rewrite xin_gfold.
  apply (gfold_pick (fun i => xorb (N.testbit y (N.of_nat i)) (N.testbit m (N.of_nat i))) (nthN p) (seq 0 n) i).
  - apply in_seq. lia.
  - intros j Hj E. apply in_seq in Hj. apply (perm_nth_inj n p j i Hp); [lia|exact Hi|exact E].
Qed.

Lemma xin_testbit_high : forall n p mask y q, is_perm n p -> N.of_nat n <= q ->
  N.testbit (xin n p mask y) q = false.
Proof.
  intros n p m y q Hp Hq. rewrite xin_gfold. apply gfold_none.
  intros j Hj E. apply in_seq in Hj.
  assert (H : nthN p j < N.of_nat n) by (apply (perm_nth_lt n p j Hp); lia). lia.
Qed.

Lemma xin_lt : forall n p mask y, is_perm n p -> xin n p mask y < 2 ^ N.of_nat n.
Proof. intros n p m y Hp. apply lt_pow2_of_bits. intros q Hq. apply xin_testbit_high; assumption. Qed.

(* xin only looks at the bits below n of y and of mask (no hypothesis on p) *)
Lemma xin_ext : forall n p mask mask' y y',
  (forall i, (i < n)%nat -> N.testbit y (N.of_nat i) = N.testbit y' (N.of_nat i)) ->
  (forall i, (i < n)%nat -> N.testbit mask (N.of_nat i) = N.testbit mask' (N.of_nat i)) ->
  xin n p mask y = xin n p mask' y'.
Proof.
  intros n p m m' y y' Hy Hm. rewrite !xin_gfold. apply gfold_ext.
  intros i Hi. apply in_seq in Hi. rewrite Hy, Hm by lia. reflexivity.
Qed.

Lemma xin_mod : forall n p mask y,
  xin n p mask y = xin n p (mask mod 2 ^ N.of_nat n) (y mod 2 ^ N.of_nat n).
Proof.
  intros n p m y. apply xin_ext; intros i Hi; rewrite N.mod_pow2_bits_low by lia; reflexivity.
Qed.

(* x is THE number below 2^n whose bit perm[i] is y[i] xor mask[i] *)
Lemma xin_eq : forall n p mask y x, is_perm n p -> x < 2 ^ N.of_nat n ->
  (forall i, (i < n)%nat ->
     N.testbit x (nthN p i) = xorb (N.testbit y (N.of_nat i)) (N.testbit mask (N.of_nat i))) ->
  xin n p mask y = x.
Proof.
  intros n p m y x Hp Hx Hbits. apply N.bits_inj. intros q.
  destruct (N.lt_ge_cases q (N.of_nat n)) as [Hq|Hq].
  - destruct (perm_surj n p q Hp Hq) as [i [Hi E]]. subst q.
    rewrite xin_testbit by assumption. symmetry. apply Hbits. exact Hi.
  - rewrite xin_testbit_high by assumption. symmetry. apply (testbit_lt_pow2 x (N.of_nat n)); assumption.
Qed.

(* act respects equality on the domain *)
Lemma act_feq : forall n p m f f', is_perm n p -> feq n f f' -> feq n (act n p m f) (act n p m f').
Proof.
  intros n p m f f' Hp Hf y _. unfold act. rewrite (Hf (xin n p m y) (xin_lt n p m y Hp)). reflexivity.
Qed.

(* ------------------------------------------------------------------ 3. identity *)
Lemma xin_identity : forall n y, y < 2 ^ N.of_nat n -> xin n (identity n) 0 y = y.
Proof.
  intros n y Hy. apply xin_eq; [apply cov_is_perm_identity|exact Hy|].
  intros i Hi. rewrite identity_nth by exact Hi. rewrite N.bits_0, xorb_false_r. reflexivity.
Qed.

Theorem act_identity : forall n f, feq n (act n (identity n) 0 f) f.
Proof.
  intros n f y Hy. unfold act. rewrite xin_identity by exact Hy. rewrite N.bits_0, xorb_false_r. reflexivity.
Qed.

(* ------------------------------------------------------------------ 4. composition *)
(* first (p1, m1), then (p2, m2) *)
Definition compose_perm (n : nat) (p1 p2 : list N) : list N :=
  map (fun i => nthN p1 (N.to_nat (nthN p2 i))) (seq 0 n).
Definition compose_mask (n : nat) (p2 : list N) (m1 m2 : N) : N :=
  mkbits (S n) (fun i => if (i <? n)%nat
                         then xorb (N.testbit m2 (N.of_nat i)) (N.testbit m1 (nthN p2 i))
                         else xorb (N.testbit m1 (N.of_nat n)) (N.testbit m2 (N.of_nat n))).

Lemma compose_perm_nth n p1 p2 i : (i < n)%nat ->
  nthN (compose_perm n p1 p2) i = nthN p1 (N.to_nat (nthN p2 i)).
Proof. intros Hi. unfold compose_perm. apply (nthN_map_seq (fun i => nthN p1 (N.to_nat (nthN p2 i)))). exact Hi. Qed.

Lemma compose_mask_low n p2 m1 m2 i : (i < n)%nat ->
  N.testbit (compose_mask n p2 m1 m2) (N.of_nat i) = xorb (N.testbit m2 (N.of_nat i)) (N.testbit m1 (nthN p2 i)).
Proof.
  intros Hi. unfold compose_mask. rewrite mkbits_spec, Nat2N.id.
  destruct (N.ltb_spec (N.of_nat i) (N.of_nat (S n))) as [H|H]; [|lia]. cbn [andb].
  destruct (Nat.ltb_spec i n) as [H'|H']; [reflexivity|lia].
Qed.

Lemma compose_mask_top n p2 m1 m2 :
  N.testbit (compose_mask n p2 m1 m2) (N.of_nat n) = xorb (N.testbit m1 (N.of_nat n)) (N.testbit m2 (N.of_nat n)).
Proof.
  unfold compose_mask. rewrite mkbits_spec, Nat2N.id.
  destruct (N.ltb_spec (N.of_nat n) (N.of_nat (S n))) as [H|H]; [|lia]. cbn [andb].
  destruct (Nat.ltb_spec n n) as [H'|H']; [lia|reflexivity].
Qed.

Lemma compose_mask_lt : forall n p2 m1 m2, compose_mask n p2 m1 m2 < 2 ^ (N.of_nat n + 1).
Proof. intros n p2 m1 m2. rewrite <- of_nat_succ. apply mkbits_lt. Qed.

Lemma compose_perm_is_perm : forall n p1 p2, is_perm n p1 -> is_perm n p2 -> is_perm n (compose_perm n p1 p2).
Proof.
  intros n p1 p2 H1 H2.
  assert (Hlt : forall i, (i < n)%nat -> (N.to_nat (nthN p2 i) < n)%nat).
  { intros i Hi. pose proof (perm_nth_lt n p2 i H2 Hi). lia. }
  apply is_perm_intro.
  - unfold compose_perm. apply NoDup_map_in; [|apply seq_NoDup].
    intros x y Hx Hy E. apply in_seq in Hx. apply in_seq in Hy.
    apply (perm_nth_inj n p1) in E; [|exact H1|apply Hlt; lia|apply Hlt; lia].
    apply N2Nat.inj in E. apply (perm_nth_inj n p2 x y H2); [lia|lia|exact E].
  - unfold compose_perm. rewrite map_length, seq_length. reflexivity.
  - intros x Hx. unfold compose_perm in Hx. apply in_map_iff in Hx. destruct Hx as [i [E Hi]].
    apply in_seq in Hi. subst x. apply (perm_nth_lt n p1 _ H1). apply Hlt. lia.
Qed.

(* the two successive re-assignments are one re-assignment; no hypothesis on y or on the masks *)
Lemma xin_compose : forall n p1 m1 p2 m2 y, is_perm n p1 -> is_perm n p2 ->
  xin n (compose_perm n p1 p2) (compose_mask n p2 m1 m2) y = xin n p1 m1 (xin n p2 m2 y).
Proof.
  intros n p1 m1 p2 m2 y H1 H2.
  apply xin_eq; [apply compose_perm_is_perm; assumption|apply xin_lt; exact H1|].
  intros i Hi. rewrite compose_perm_nth, compose_mask_low by exact Hi.
  pose proof (perm_nth_lt n p2 i H2 Hi) as Hk.
  rewrite xin_testbit by (try exact H1; lia).
  rewrite N2Nat.id. rewrite (xin_testbit n p2 m2 y i H2 Hi).
  rewrite !xorb_assoc. reflexivity.
Qed.

(* pointwise equality everywhere, hence in particular feq; no hypothesis on f, on y, or on the size of the masks *)
Lemma act_compose_pointwise : forall n p1 m1 p2 m2 f y, is_perm n p1 -> is_perm n p2 ->
  act n p2 m2 (act n p1 m1 f) y = act n (compose_perm n p1 p2) (compose_mask n p2 m1 m2) f y.
Proof.
  intros n p1 m1 p2 m2 f y H1 H2. unfold act at 1 2 3.
  rewrite xin_compose by assumption. rewrite compose_mask_top. rewrite xorb_assoc. reflexivity.
Qed.

Theorem act_compose : forall n p1 m1 p2 m2, is_perm n p1 -> is_perm n p2 ->
  m1 < 2 ^ (N.of_nat n + 1) -> m2 < 2 ^ (N.of_nat n + 1) ->
  is_perm n (compose_perm n p1 p2) /\
  compose_mask n p2 m1 m2 < 2 ^ (N.of_nat n + 1) /\
  forall f, feq n (act n p2 m2 (act n p1 m1 f)) (act n (compose_perm n p1 p2) (compose_mask n p2 m1 m2) f).
Proof.
  intros n p1 m1 p2 m2 H1 H2 _ _. split; [apply compose_perm_is_perm; assumption|].
  split; [apply compose_mask_lt|]. intros f y _. apply act_compose_pointwise; assumption.
Qed.

Corollary act_compose_ex : forall n p1 m1 p2 m2, is_perm n p1 -> is_perm n p2 ->
  m1 < 2 ^ (N.of_nat n + 1) -> m2 < 2 ^ (N.of_nat n + 1) ->
  exists p3 m3, is_perm n p3 /\ m3 < 2 ^ (N.of_nat n + 1) /\
    forall f, feq n (act n p2 m2 (act n p1 m1 f)) (act n p3 m3 f).
Proof.
  intros n p1 m1 p2 m2 H1 H2 Hm1 Hm2.
  exists (compose_perm n p1 p2), (compose_mask n p2 m1 m2). apply act_compose; assumption.
Qed.

(* closure: P group *)
Lemma compose_mask_0 : forall n p2, compose_mask n p2 0 0 = 0.
Proof.
  intros n p2. unfold compose_mask. apply mkbits_false. intros i _.
  rewrite !N.bits_0. destruct (i <? n)%nat; reflexivity.
Qed.

(* closure: N group *)
Lemma compose_perm_identity : forall n, compose_perm n (identity n) (identity n) = identity n.
Proof.
  intros n. unfold compose_perm, identity at 3. apply map_ext_in. intros i Hi. apply in_seq in Hi.
  rewrite (identity_nth n i) by lia. rewrite Nat2N.id. apply identity_nth. lia.
Qed.

(* in the N group the masks compose by xor *)
Lemma compose_mask_identity : forall n m1 m2, m1 < 2 ^ (N.of_nat n + 1) -> m2 < 2 ^ (N.of_nat n + 1) ->
  compose_mask n (identity n) m1 m2 = N.lxor m1 m2.
Proof.
  intros n m1 m2 Hm1 Hm2. apply N.bits_inj. intros q. rewrite N.lxor_spec.
  destruct (N.lt_ge_cases q (N.of_nat n + 1)) as [Hq|Hq].
  - destruct (N.eq_dec q (N.of_nat n)) as [E|E].
    + subst q. rewrite compose_mask_top. reflexivity.
    + rewrite <- (N2Nat.id q). rewrite compose_mask_low by lia. rewrite identity_nth by lia.
      apply xorb_comm.
  - rewrite (testbit_lt_pow2 _ _ q (compose_mask_lt n (identity n) m1 m2) Hq).
    rewrite (testbit_lt_pow2 _ _ q Hm1 Hq), (testbit_lt_pow2 _ _ q Hm2 Hq). reflexivity.
Qed.

(* ------------------------------------------------------------------ 5. inverse *)
Fixpoint find_idx (p : list N) (v : N) : nat :=
  match p with [] => 0%nat | x :: r => if x =? v then 0%nat else S (find_idx r v) end.

Definition inverse_perm (n : nat) (p : list N) : list N :=
  map (fun j => N.of_nat (find_idx p (N.of_nat j))) (seq 0 n).
Definition inverse_mask (n : nat) (p : list N) (m : N) : N :=
  mkbits (S n) (fun j => if (j <? n)%nat then N.testbit m (N.of_nat (find_idx p (N.of_nat j)))
                         else N.testbit m (N.of_nat n)).

Lemma find_idx_In p v : In v p -> (find_idx p v < length p)%nat /\ nthN p (find_idx p v) = v.
Proof.
  induction p as [|x r IH]; intros Hin.
  - destruct Hin.
  - cbn [find_idx length]. destruct (N.eqb_spec x v) as [E|E].
    + split; [lia|exact E].
    + destruct Hin as [Hx|Hr]; [contradiction|]. destruct (IH Hr) as [Hl Hn].
      split; [lia|exact Hn].
Qed.

Lemma find_idx_perm n p q : is_perm n p -> q < N.of_nat n ->
  (find_idx p q < n)%nat /\ nthN p (find_idx p q) = q.
Proof.
  intros Hp Hq. destruct (find_idx_In p q (perm_In n p q Hp Hq)) as [Hl Hn].
  rewrite (cov_is_perm_length n p Hp) in Hl. split; assumption.
Qed.

Lemma find_idx_nth n p i : is_perm n p -> (i < n)%nat -> find_idx p (nthN p i) = i.
Proof.
  intros Hp Hi. destruct (find_idx_perm n p (nthN p i) Hp (perm_nth_lt n p i Hp Hi)) as [Hl Hn].
  apply (perm_nth_inj n p _ i Hp Hl Hi Hn).
Qed.

Lemma inverse_perm_nth n p j : (j < n)%nat -> nthN (inverse_perm n p) j = N.of_nat (find_idx p (N.of_nat j)).
Proof. intros Hj. unfold inverse_perm. apply (nthN_map_seq (fun j => N.of_nat (find_idx p (N.of_nat j)))). exact Hj. Qed.

Lemma inverse_mask_low n p m j : (j < n)%nat ->
  N.testbit (inverse_mask n p m) (N.of_nat j) = N.testbit m (N.of_nat (find_idx p (N.of_nat j))).
Proof.
  intros Hj. unfold inverse_mask. rewrite mkbits_spec, Nat2N.id.
  destruct (N.ltb_spec (N.of_nat j) (N.of_nat (S n))) as [H|H]; [|lia]. cbn [andb].
  destruct (Nat.ltb_spec j n) as [H'|H']; [reflexivity|lia].
Qed.

Lemma inverse_mask_top n p m : N.testbit (inverse_mask n p m) (N.of_nat n) = N.testbit m (N.of_nat n).
Proof.
  unfold inverse_mask. rewrite mkbits_spec, Nat2N.id.
  destruct (N.ltb_spec (N.of_nat n) (N.of_nat (S n))) as [H|H]; [|lia]. cbn [andb].
  destruct (Nat.ltb_spec n n) as [H'|H']; [lia|reflexivity].
Qed.

Lemma inverse_mask_lt : forall n p m, inverse_mask n p m < 2 ^ (N.of_nat n + 1).
Proof. intros n p m. rewrite <- of_nat_succ. apply mkbits_lt. Qed.

Lemma inverse_perm_is_perm : forall n p, is_perm n p -> is_perm n (inverse_perm n p).
Proof.
  intros n p Hp. apply is_perm_intro.
  - unfold inverse_perm. apply NoDup_map_in; [|apply seq_NoDup].
    intros x y Hx Hy E. apply in_seq in Hx. apply in_seq in Hy. apply Nat2N.inj in E.
    destruct (find_idx_perm n p (N.of_nat x) Hp) as [_ Ex]; [lia|].
    destruct (find_idx_perm n p (N.of_nat y) Hp) as [_ Ey]; [lia|].
    rewrite E in Ex. rewrite Ex in Ey. apply Nat2N.inj. exact Ey.
  - unfold inverse_perm. rewrite map_length, seq_length. reflexivity.
  - intros x Hx. unfold inverse_perm in Hx. apply in_map_iff in Hx. destruct Hx as [j [E Hj]].
    apply in_seq in Hj. subst x.
    destruct (find_idx_perm n p (N.of_nat j) Hp) as [Hl _]; lia.
Qed.

(* y |-> xin n p m y is a bijection of [0, 2^n) with inverse xin n p' m' *)
Lemma xin_inverse_r : forall n p m x, is_perm n p -> x < 2 ^ N.of_nat n ->
  xin n p m (xin n (inverse_perm n p) (inverse_mask n p m) x) = x.
Proof.
  intros n p m x Hp Hx. apply xin_eq; [exact Hp|exact Hx|].
  intros i Hi.
  pose proof (perm_nth_lt n p i Hp Hi) as Hq.
  assert (Hqn : (N.to_nat (nthN p i) < n)%nat) by lia.
  assert (Efi : find_idx p (N.of_nat (N.to_nat (nthN p i))) = i).
  { rewrite N2Nat.id. apply (find_idx_nth n p i Hp Hi). }
  assert (Ei : N.of_nat i = nthN (inverse_perm n p) (N.to_nat (nthN p i))).
  { rewrite inverse_perm_nth by exact Hqn. rewrite Efi. reflexivity. }
  rewrite Ei at 1.
  rewrite (xin_testbit n (inverse_perm n p) _ x _ (inverse_perm_is_perm n p Hp) Hqn).
  rewrite inverse_mask_low by exact Hqn. rewrite Efi. rewrite N2Nat.id.
  rewrite xorb_assoc, xorb_nilpotent, xorb_false_r. reflexivity.
Qed.

Lemma xin_inverse_l : forall n p m y, is_perm n p -> y < 2 ^ N.of_nat n ->
  xin n (inverse_perm n p) (inverse_mask n p m) (xin n p m y) = y.
Proof.
  intros n p m y Hp Hy. apply xin_eq; [apply inverse_perm_is_perm; exact Hp|exact Hy|].
  intros j Hj. rewrite inverse_perm_nth, inverse_mask_low by exact Hj.
  destruct (find_idx_perm n p (N.of_nat j) Hp) as [Hl Hn]; [lia|].
  rewrite <- Hn at 2. rewrite (xin_testbit n p m y _ Hp Hl).
  rewrite xorb_assoc, xorb_nilpotent, xorb_false_r. reflexivity.
Qed.

Theorem act_inverse : forall n p m, is_perm n p -> m < 2 ^ (N.of_nat n + 1) ->
  is_perm n (inverse_perm n p) /\
  inverse_mask n p m < 2 ^ (N.of_nat n + 1) /\
  forall f g, feq n g (act n p m f) -> feq n f (act n (inverse_perm n p) (inverse_mask n p m) g).
Proof.
  intros n p m Hp _. split; [apply inverse_perm_is_perm; exact Hp|]. split; [apply inverse_mask_lt|].
  intros f g Hg x Hx. unfold act at 1.
  rewrite (Hg _ (xin_lt n _ _ x (inverse_perm_is_perm n p Hp))). unfold act.
  rewrite xin_inverse_r by assumption. rewrite inverse_mask_top.
  rewrite xorb_assoc, xorb_nilpotent, xorb_false_r. reflexivity.
Qed.

Corollary act_inverse_ex : forall n p m, is_perm n p -> m < 2 ^ (N.of_nat n + 1) ->
  exists p' m', is_perm n p' /\ m' < 2 ^ (N.of_nat n + 1) /\
    forall f g, feq n g (act n p m f) -> feq n f (act n p' m' g).
Proof.
  intros n p m Hp Hm. exists (inverse_perm n p), (inverse_mask n p m). apply act_inverse; assumption.
Qed.

(* act by the inverse undoes act, and conversely *)
Corollary act_inverse_cancel_l : forall n p m f, is_perm n p -> m < 2 ^ (N.of_nat n + 1) ->
  feq n (act n (inverse_perm n p) (inverse_mask n p m) (act n p m f)) f.
Proof.
  intros n p m f Hp Hm x Hx. symmetry.
  apply (proj2 (proj2 (act_inverse n p m Hp Hm)) f (act n p m f)); [|exact Hx].
  intros y _. reflexivity.
Qed.

Corollary act_inverse_cancel_r : forall n p m f, is_perm n p -> m < 2 ^ (N.of_nat n + 1) ->
  feq n (act n p m (act n (inverse_perm n p) (inverse_mask n p m) f)) f.
Proof.
  intros n p m f Hp Hm y Hy. unfold act.
  rewrite xin_inverse_l by assumption. rewrite inverse_mask_top.
  rewrite xorb_assoc, xorb_nilpotent, xorb_false_r. reflexivity.
Qed.

(* closure: P group *)
Lemma inverse_mask_0 : forall n p, inverse_mask n p 0 = 0.
Proof.
  intros n p. unfold inverse_mask. apply mkbits_false. intros j _.
  rewrite !N.bits_0. destruct (j <? n)%nat; reflexivity.
Qed.

(* closure: N group *)
Lemma inverse_perm_identity : forall n, inverse_perm n (identity n) = identity n.
Proof.
  intros n. unfold inverse_perm, identity at 2. apply map_ext_in. intros j Hj. apply in_seq in Hj.
  f_equal. rewrite <- (identity_nth n j) by lia.
  apply (find_idx_nth n (identity n) j (cov_is_perm_identity n)). lia.
Qed.

(* in the N group every element is its own inverse *)
Lemma inverse_mask_identity : forall n m, m < 2 ^ (N.of_nat n + 1) -> inverse_mask n (identity n) m = m.
Proof.
  intros n m Hm. apply N.bits_inj. intros q.
  destruct (N.lt_ge_cases q (N.of_nat n + 1)) as [Hq|Hq].
  - destruct (N.eq_dec q (N.of_nat n)) as [E|E].
    + subst q. apply inverse_mask_top.
    + rewrite <- (N2Nat.id q). rewrite inverse_mask_low by lia.
      rewrite <- (identity_nth n (N.to_nat q)) at 1 by lia.
      rewrite (find_idx_nth n (identity n) _ (cov_is_perm_identity n)) by lia. reflexivity.
  - rewrite (testbit_lt_pow2 _ _ q (inverse_mask_lt n (identity n) m) Hq).
    rewrite (testbit_lt_pow2 _ _ q Hm Hq). reflexivity.
Qed.

(* ------------------------------------------------------------------ 6. the three equivalence relations *)
Definition equivNPN (n : nat) (f g : N -> bool) : Prop :=
  exists p m, is_perm n p /\ m < 2 ^ (N.of_nat n + 1) /\ feq n g (act n p m f).
Definition equivP (n : nat) (f g : N -> bool) : Prop :=
  exists p, is_perm n p /\ feq n g (act n p 0 f).
Definition equivN (n : nat) (f g : N -> bool) : Prop :=
  exists m, m < 2 ^ (N.of_nat n + 1) /\ feq n g (act n (identity n) m f).

Lemma zero_lt_pow2 k : 0 < 2 ^ k.
Proof. apply cov_pow2_pos. Qed.

(* generic steps *)
Lemma equiv_refl_step n f : feq n f (act n (identity n) 0 f).
Proof. intros y Hy. symmetry. apply act_identity. exact Hy. Qed.

Lemma equiv_trans_step n p1 m1 p2 m2 f g h : is_perm n p1 -> is_perm n p2 ->
  feq n g (act n p1 m1 f) -> feq n h (act n p2 m2 g) ->
  feq n h (act n (compose_perm n p1 p2) (compose_mask n p2 m1 m2) f).
Proof.
  intros H1 H2 Hg Hh y Hy. rewrite (Hh y Hy).
  rewrite (act_feq n p2 m2 g (act n p1 m1 f) H2 Hg y Hy).
  apply act_compose_pointwise; assumption.
Qed.

Theorem equivNPN_refl : forall n f, equivNPN n f f.
Proof.
  intros n f. exists (identity n), 0. split; [apply cov_is_perm_identity|]. split; [apply zero_lt_pow2|].
  apply equiv_refl_step.
Qed.

Theorem equivNPN_sym : forall n f g, equivNPN n f g -> equivNPN n g f.
Proof.
  intros n f g [p [m [Hp [Hm Hg]]]]. destruct (act_inverse n p m Hp Hm) as [Hp' [Hm' Hinv]].
  exists (inverse_perm n p), (inverse_mask n p m). split; [exact Hp'|]. split; [exact Hm'|].
  apply Hinv. exact Hg.
Qed.

Theorem equivNPN_trans : forall n f g h, equivNPN n f g -> equivNPN n g h -> equivNPN n f h.
Proof.
  intros n f g h [p1 [m1 [H1 [Hm1 Hg]]]] [p2 [m2 [H2 [Hm2 Hh]]]].
  exists (compose_perm n p1 p2), (compose_mask n p2 m1 m2).
  split; [apply compose_perm_is_perm; assumption|]. split; [apply compose_mask_lt|].
  apply (equiv_trans_step n p1 m1 p2 m2 f g h); assumption.
Qed.

Theorem equivP_refl : forall n f, equivP n f f.
Proof. intros n f. exists (identity n). split; [apply cov_is_perm_identity|apply equiv_refl_step]. Qed.

Theorem equivP_sym : forall n f g, equivP n f g -> equivP n g f.
Proof.
  intros n f g [p [Hp Hg]]. destruct (act_inverse n p 0 Hp (zero_lt_pow2 _)) as [Hp' [_ Hinv]].
  exists (inverse_perm n p). split; [exact Hp'|].
  rewrite <- (inverse_mask_0 n p). apply Hinv. exact Hg.
Qed.

Theorem equivP_trans : forall n f g h, equivP n f g -> equivP n g h -> equivP n f h.
Proof.
  intros n f g h [p1 [H1 Hg]] [p2 [H2 Hh]].
  exists (compose_perm n p1 p2). split; [apply compose_perm_is_perm; assumption|].
  rewrite <- (compose_mask_0 n p2). apply (equiv_trans_step n p1 0 p2 0 f g h); assumption.
Qed.

Theorem equivN_refl : forall n f, equivN n f f.
Proof. intros n f. exists 0. split; [apply zero_lt_pow2|apply equiv_refl_step]. Qed.

Theorem equivN_sym : forall n f g, equivN n f g -> equivN n g f.
Proof.
  intros n f g [m [Hm Hg]].
  destruct (act_inverse n (identity n) m (cov_is_perm_identity n) Hm) as [_ [Hm' Hinv]].
  exists (inverse_mask n (identity n) m). split; [exact Hm'|].
  rewrite <- (inverse_perm_identity n) at 1. apply Hinv. exact Hg.
Qed.

Theorem equivN_trans : forall n f g h, equivN n f g -> equivN n g h -> equivN n f h.
Proof.
  intros n f g h [m1 [Hm1 Hg]] [m2 [Hm2 Hh]].
  exists (compose_mask n (identity n) m1 m2). split; [apply compose_mask_lt|].
  rewrite <- (compose_perm_identity n) at 1.
  apply (equiv_trans_step n (identity n) m1 (identity n) m2 f g h);
    try apply cov_is_perm_identity; assumption.
Qed.

(* P and N are sub-relations of NPN *)
Lemma equivP_NPN : forall n f g, equivP n f g -> equivNPN n f g.
Proof. intros n f g [p [Hp Hg]]. exists p, 0. split; [exact Hp|]. split; [apply zero_lt_pow2|exact Hg]. Qed.

Lemma equivN_NPN : forall n f g, equivN n f g -> equivNPN n f g.
Proof.
  intros n f g [m [Hm Hg]]. exists (identity n), m. split; [apply cov_is_perm_identity|]. split; assumption.
Qed.

