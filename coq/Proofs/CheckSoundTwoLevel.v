(* Soundness of the executable specification-level checkers of Checkers/Check.v, two-level forms (C14, C15, C18):
   strictly_sorted, irredundantb, chk_sop_result, chk_esop_result, chk_sop_from_lut, chk_esop_from_lut,
   chk_sop_opt, chk_sopes_opt, chk_esop_opt, and the validity predicates of Spec/TwoLevelCost.v.
   Each checker decides exactly the Prop-level statement that the property theorems prove about the model
   (so a [false] is a genuine violation), and the model's own results pass. *)
From Coq Require Import List NArith ZArith Arith Bool Lia Sorted.
From V Require Import Base.Res Gen.Tables Model.Kernels Model.TwoLevel Base.Bits Spec.Bfun Spec.TwoLevelCost
  Proofs.Wf Proofs.Tabulate Checkers.Check Proofs.CheckSound.
From V Require Proofs.SopProofs Proofs.EsopProofs.
Import ListNotations.
Open Scope N_scope.

(* ================================================================== A. building blocks *)

(* ---- the denotations of the checkers are the denotations of the proofs (all by conversion) *)
Lemma sem_or_sem cs m : sem_or cs m = SopProofs.sem cs m.
Proof. reflexivity. Qed.

Lemma sem_or_value s m : sem_or (scubes s) m = sop_value s m.
Proof. rewrite sem_or_sem. symmetry. apply SopProofs.value_sem. Qed.

Lemma sem_xor_esem cs m : sem_xor cs m = EsopProofs.esem cs m.
Proof. reflexivity. Qed.

Lemma sem_xor_value s m : sem_xor (ecubes s) m = esop_value s m.
Proof. reflexivity. Qed.

Lemma sem_xor_xsum cs m : sem_xor cs m = EsopProofs.xsum (fun c => cube_value c m) cs.
Proof. apply EsopProofs.esem_xsum. Qed.

Lemma dom_assignments n : dom n = assignments n.
Proof. reflexivity. Qed.

(* ---- boolean equalities *)
Lemma cube_eqb_iff a b : cube_eqb a b = true <-> a = b.
Proof. exact (SopProofs.cube_eqb_eq a b). Qed.

Lemma ecube_eqb_iff a b : ecube_eqb a b = true <-> a = b.
Proof.
  unfold ecube_eqb. rewrite andb_true_iff, N.eqb_eq, eqb_true_iff.
  destruct a as [va xa], b as [vb xb]; cbn [evars exnor].
  split; [intros [-> ->]; reflexivity|intros H; injection H; auto].
Qed.

Lemma list_eqb_iff {A} (eqb : A -> A -> bool) :
  (forall x y, eqb x y = true <-> x = y) -> forall a b, list_eqb eqb a b = true <-> a = b.
Proof.
  intros He. induction a as [|x a IH]; intros [|y b]; cbn [list_eqb].
  - split; reflexivity.
  - split; discriminate.
  - split; discriminate.
  - rewrite andb_true_iff, He, IH. split; [intros [-> ->]; reflexivity|intros H; injection H; auto].
Qed.

(* ---- sortedness *)
Lemma cube_lt_trans a b c : cube_cmp a b = Lt -> cube_cmp b c = Lt -> cube_cmp a c = Lt.
Proof. rewrite !SopProofs.cube_cmp_lt. lia. Qed.

(* adjacent comparison (the boolean) against all-pairs comparison (the Prop), for a transitive relation *)
Lemma sorted_adjacent_strong {A} (R : A -> A -> Prop) (Rb : A -> A -> bool) (chk : list A -> bool) :
  (forall a b c, R a b -> R b c -> R a c) ->
  (forall a b, Rb a b = true <-> R a b) ->
  (forall a b r, chk (a :: b :: r) = Rb a b && chk (b :: r)) -> chk [] = true -> (forall a, chk [a] = true) ->
  forall l, chk l = true <-> StronglySorted R l.
Proof.
  intros Htr Hb Hcc Hnil Hone. induction l as [|a r IH].
  - split; [constructor|intros _; exact Hnil].
  - destruct r as [|b r'].
    + split; [intros _; constructor; constructor|intros _; apply Hone].
    + rewrite Hcc, andb_true_iff, Hb, IH. split.
      * intros [Hab Hs]. constructor; [exact Hs|]. constructor; [exact Hab|].
        apply StronglySorted_inv in Hs. destruct Hs as [_ Hf].
        eapply Forall_impl; [|exact Hf]. intros z Hz. eapply Htr; eassumption.
      * intros Hs. apply StronglySorted_inv in Hs. destruct Hs as [Hs Hf]. split; [|exact Hs].
        apply Forall_inv in Hf. exact Hf.
Qed.

Definition cube_ltb (a b : cube) : bool := match cube_cmp a b with Lt => true | _ => false end.

Theorem strictly_sorted_iff cs :
  strictly_sorted cs = true <-> StronglySorted (fun a b => cube_cmp a b = Lt) cs.
Proof.
  apply (sorted_adjacent_strong (fun a b => cube_cmp a b = Lt) cube_ltb strictly_sorted).
  - exact cube_lt_trans.
  - intros a b. unfold cube_ltb. destruct (cube_cmp a b); split; congruence.
  - intros a b r. unfold cube_ltb. cbn [strictly_sorted]. destruct (cube_cmp a b); reflexivity.
  - reflexivity.
  - reflexivity.
Qed.

Theorem increasing_iff l : increasing l = true <-> StronglySorted N.lt l.
Proof.
  apply (sorted_adjacent_strong N.lt N.ltb increasing).
  - intros a b c. apply N.lt_trans.
  - intros a b. apply N.ltb_lt.
  - reflexivity.
  - reflexivity.
  - reflexivity.
Qed.

(* ---- cube_good *)
Definition cube_below (n : nat) (c : cube) : Prop := cpos c < 2 ^ N.of_nat n /\ cneg c < 2 ^ N.of_nat n.

Lemma cube_good_iff n c :
  cube_good n c = true <-> cube_below n c /\ N.land (cpos c) (cneg c) = 0.
Proof. unfold cube_good, cube_below. rewrite !andb_true_iff, !N.ltb_lt, N.eqb_eq. tauto. Qed.

Lemma cube_good_nonzero n c : cube_good n c = true -> cube_is_zero c = false.
Proof. rewrite cube_good_iff. intros [_ H]. apply SopProofs.cube_is_zero_false. exact H. Qed.

(* on at most 32 variables a good cube of the specification is a good cube of C14 *)
Lemma cube_good_good n c : (n <= 32)%nat -> cube_good n c = true -> SopProofs.good c.
Proof.
  intros Hn. rewrite cube_good_iff. intros [[Hp Hq] Hd].
  assert (H32 : 2 ^ N.of_nat n <= 2 ^ 32) by (apply N.pow_le_mono_r; lia).
  split; [split; lia|exact Hd].
Qed.

Lemma Forall_cube_good_iff n cs :
  forallb (cube_good n) cs = true <-> Forall (fun c => cube_good n c = true) cs.
Proof. rewrite forallb_forall, Forall_forall. reflexivity. Qed.

(* ---- irredundancy: the checker is exactly "good cubes + the irredundancy of C14" *)
Theorem irredundantb_iff n cs :
  irredundantb n cs = true <-> Forall (fun c => cube_good n c = true) cs /\ SopProofs.irredundant cs.
Proof.
  unfold irredundantb, SopProofs.irredundant.
  rewrite !andb_true_iff, Forall_cube_good_iff, strictly_sorted_iff. split.
  - intros [[Hg Hs] Hi]. split; [exact Hg|]. split; [|split; [|split; [exact Hs|]]].
    + eapply Forall_impl; [|exact Hg]. intros c. apply cube_good_nonzero.
    + apply SopProofs.ltR_sorted_NoDup. exact Hs.
    + intros c o Hc Ho Hne. rewrite forallb_forall in Hi. specialize (Hi c Hc).
      rewrite forallb_forall in Hi. specialize (Hi o Ho).
      apply SopProofs.cube_eqb_neq in Hne. rewrite Hne in Hi. cbn [orb] in Hi.
      apply negb_true_iff in Hi. exact Hi.
  - intros [Hg [_ [_ [Hs Hi]]]]. split; [split; assumption|].
    apply forallb_forall. intros c Hc. apply forallb_forall. intros o Ho.
    destruct (cube_eqb c o) eqn:E; [reflexivity|]. cbn [orb]. apply negb_true_iff.
    apply Hi; [exact Hc|exact Ho|]. apply SopProofs.cube_eqb_neq. exact E.
Qed.

Corollary irredundantb_sound n cs : irredundantb n cs = true -> SopProofs.irredundant cs.
Proof. intros H. apply irredundantb_iff in H. apply H. Qed.

Corollary irredundantb_good n cs : irredundantb n cs = true -> Forall (fun c => cube_good n c = true) cs.
Proof. intros H. apply irredundantb_iff in H. apply H. Qed.

Corollary irredundantb_complete n cs :
  SopProofs.irredundant cs -> Forall (fun c => cube_good n c = true) cs -> irredundantb n cs = true.
Proof. intros H1 H2. apply irredundantb_iff. split; assumption. Qed.

(* an irredundant cover has no contradictory cube: only the bounds of the masks have to be added *)
Corollary irredundantb_complete_below n cs :
  SopProofs.irredundant cs -> Forall (cube_below n) cs -> irredundantb n cs = true.
Proof.
  intros H1 H2. apply irredundantb_complete; [exact H1|]. destruct H1 as [Hz _].
  rewrite Forall_forall in *. intros c Hc. apply cube_good_iff. split; [apply H2; exact Hc|].
  apply SopProofs.cube_is_zero_false. apply Hz. exact Hc.
Qed.

Corollary irredundantb_false n cs :
  irredundantb n cs = false <-> ~ (Forall (fun c => cube_good n c = true) cs /\ SopProofs.irredundant cs).
Proof. rewrite <- irredundantb_iff. destruct (irredundantb n cs); split; congruence. Qed.

(* ================================================================== B. chk_sop_result (C14) *)
Theorem chk_sop_result_iff n r f :
  chk_sop_result n r f = true <->
  irredundantb n r = true /\ forall m, m < 2 ^ N.of_nat n -> sem_or r m = f m.
Proof. unfold chk_sop_result. rewrite andb_true_iff, forallb_dom_eqb. reflexivity. Qed.

(* fully in Prop: the statement of C14 for a result r denoting f *)
Corollary chk_sop_result_spec n r f :
  chk_sop_result n r f = true <->
  Forall (fun c => cube_good n c = true) r /\ SopProofs.irredundant r /\
  forall m, m < 2 ^ N.of_nat n -> SopProofs.sem r m = f m.
Proof. rewrite chk_sop_result_iff, irredundantb_iff. unfold sem_or, SopProofs.sem. tauto. Qed.

Corollary chk_sop_result_false n r f :
  chk_sop_result n r f = false <->
  ~ (Forall (fun c => cube_good n c = true) r /\ SopProofs.irredundant r /\
     forall m, m < 2 ^ N.of_nat n -> SopProofs.sem r m = f m).
Proof. rewrite <- chk_sop_result_spec. destruct (chk_sop_result n r f); split; congruence. Qed.

(* the checker depends on f only through its values on the domain *)
Lemma chk_sop_result_ext n r f g :
  (forall m, m < 2 ^ N.of_nat n -> f m = g m) -> chk_sop_result n r f = chk_sop_result n r g.
Proof.
  intros E. apply eq_true_iff_eq. rewrite !chk_sop_result_iff.
  split; intros [Hi H]; (split; [exact Hi|]); intros m Hm; rewrite H by exact Hm; [|symmetry]; apply E; exact Hm.
Qed.

(* ---- the masks of the results stay below 2^n *)
Lemma simplify_below n cs : Forall (cube_below n) cs -> Forall (cube_below n) (sop_simplify cs).
Proof.
  rewrite !Forall_forall. intros H c Hc. apply SopProofs.In_simplify in Hc. apply H. apply Hc.
Qed.

Lemma prods_below n A B : Forall (cube_below n) A -> Forall (cube_below n) B ->
  Forall (cube_below n) (SopProofs.prods A B).
Proof.
  rewrite !Forall_forall. intros HA HB c Hc. apply SopProofs.In_prods in Hc.
  destruct Hc as [c1 [c2 [H1 [H2 [-> Hz]]]]]. revert Hz. unfold cube_and, cube_normalize.
  destruct (cube_is_zero _).
  - intros Hz. vm_compute in Hz. discriminate.
  - intros _. destruct (HA c1 H1) as [P1 Q1]. destruct (HB c2 H2) as [P2 Q2].
    split; cbn [cpos cneg]; apply lor_lt; assumption.
Qed.

Lemma sop_or_below a b r : Forall (cube_below (snv a)) (scubes a) -> Forall (cube_below (snv a)) (scubes b) ->
  sop_or a b = Ok r -> Forall (cube_below (snv a)) (scubes r).
Proof.
  intros Ha Hb. unfold sop_or. destruct (Nat.eqb (snv a) (snv b)); cbn [always bind]; [|discriminate].
  intros E. injection E as <-. cbn [scubes]. apply simplify_below. apply Forall_app. split; assumption.
Qed.

Lemma sop_and_below n a b r : Forall (cube_below n) (scubes a) -> Forall (cube_below n) (scubes b) ->
  sop_and a b = Ok r -> Forall (cube_below n) (scubes r).
Proof.
  intros Ha Hb. rewrite SopProofs.sop_and_eq. destruct (Nat.eqb (snv a) (snv b)); cbn [always bind]; [|discriminate].
  intros E. injection E as <-. cbn [scubes]. apply simplify_below. apply prods_below; assumption.
Qed.

Lemma shiftl1_below n l : l < N.of_nat n -> N.shiftl 1 l < 2 ^ N.of_nat n.
Proof. intros H. rewrite N.shiftl_1_l. apply N.pow_lt_mono_r; lia. Qed.

Lemma bit_true_below x k p : x < 2 ^ k -> N.testbit x p = true -> p < k.
Proof.
  intros Hx Hp. destruct (N.lt_ge_cases p k) as [L|L]; [exact L|].
  rewrite (testbit_lt_pow2 x k p Hx L) in Hp. discriminate.
Qed.

Lemma pow2_pos k : 0 < 2 ^ k.
Proof. apply N.neq_0_lt_0. apply N.pow_nonzero. discriminate. Qed.

Lemma complement_sum_below n c : cube_below n c -> Forall (cube_below n) (cube_complement_sum c).
Proof.
  intros [Hp Hq]. apply Forall_forall. intros x Hx. apply SopProofs.In_complement_sum in Hx.
  destruct Hx as [[l [_ [Hb ->]]]|[l [_ [Hb ->]]]]; split; cbn [cpos cneg]; try apply pow2_pos;
    apply shiftl1_below; first [exact (bit_true_below _ _ _ Hp Hb)|exact (bit_true_below _ _ _ Hq Hb)].
Qed.

Lemma not_step_panic n cs : forall acc, (forall r, acc <> Ok r) ->
  forall r, fold_left (SopProofs.not_step n) cs acc <> Ok r.
Proof.
  induction cs as [|c cs IH]; intros acc Hacc r; cbn [fold_left]; [apply Hacc|].
  apply IH. intros r'. unfold SopProofs.not_step. destruct acc as [x| |]; cbn [bind]; try discriminate.
  exfalso. apply (Hacc x). reflexivity.
Qed.

Lemma not_fold_below n cs : Forall (cube_below n) cs ->
  forall r0 r, Forall (cube_below n) (scubes r0) ->
  fold_left (SopProofs.not_step n) cs (Ok r0) = Ok r -> Forall (cube_below n) (scubes r).
Proof.
  induction cs as [|c cs IH]; intros Hcs r0 r H0; cbn [fold_left].
  - intros E. injection E as <-. exact H0.
  - apply Forall_cons_iff in Hcs. destruct Hcs as [Hc Hcs].
    unfold SopProofs.not_step at 2. cbn [bind].
    destruct (sop_and r0 (mkSop n (cube_complement_sum c))) as [r1| |] eqn:E1.
    + apply (IH Hcs r1 r). apply (sop_and_below n r0 (mkSop n (cube_complement_sum c)) r1 H0 (complement_sum_below n c Hc) E1).
    + intros E. exfalso. revert E. apply not_step_panic. discriminate.
    + intros E. exfalso. revert E. apply not_step_panic. discriminate.
Qed.

Lemma cube_one_below n : cube_below n cube_one.
Proof. split; cbn [cube_one cpos cneg]; apply pow2_pos. Qed.

Lemma sop_not_below s r : Forall (cube_below (snv s)) (scubes s) -> sop_not s = Ok r ->
  Forall (cube_below (snv s)) (scubes r).
Proof.
  intros Hs. rewrite SopProofs.sop_not_eq. apply not_fold_below; [exact Hs|].
  cbn [sop_one scubes]. constructor; [apply cube_one_below|constructor].
Qed.

(* ---- the model's results pass (hypotheses of C14_or_sem / C14_and_sem / C14_not_sem_gen, plus: the masks of the
        arguments are below 2^n, which is what Sop::from_cubes enforces) *)
Theorem chk_sop_or_model a b r : snv a = snv b ->
  Forall SopProofs.c32 (scubes a) -> Forall SopProofs.c32 (scubes b) ->
  Forall (cube_below (snv a)) (scubes a) -> Forall (cube_below (snv a)) (scubes b) ->
  sop_or a b = Ok r ->
  snv r = snv a /\ chk_sop_result (snv a) (scubes r) (fun m => sop_value a m || sop_value b m) = true.
Proof.
  intros Hn Ha Hb Ba Bb Hr. destruct (SopProofs.or_sem a b Hn Ha Hb) as [r' [E [N1 [I1 V1]]]].
  rewrite Hr in E. injection E as <-. split; [exact N1|]. apply chk_sop_result_iff. split.
  - apply irredundantb_complete_below; [exact I1|]. apply (sop_or_below a b r Ba Bb Hr).
  - intros m _. rewrite sem_or_value. apply V1.
Qed.

Theorem chk_sop_and_model a b r : snv a = snv b ->
  Forall SopProofs.c32 (scubes a) -> Forall SopProofs.c32 (scubes b) ->
  Forall (cube_below (snv a)) (scubes a) -> Forall (cube_below (snv a)) (scubes b) ->
  sop_and a b = Ok r ->
  snv r = snv a /\ chk_sop_result (snv a) (scubes r) (fun m => sop_value a m && sop_value b m) = true.
Proof.
  intros Hn Ha Hb Ba Bb Hr. destruct (SopProofs.and_sem a b Hn Ha Hb) as [r' [E [N1 [I1 V1]]]].
  rewrite Hr in E. injection E as <-. split; [exact N1|]. apply chk_sop_result_iff. split.
  - apply irredundantb_complete_below; [exact I1|]. apply (sop_and_below (snv a) a b r Ba Bb Hr).
  - intros m _. rewrite sem_or_value. apply V1.
Qed.

Theorem chk_sop_not_model s r :
  Forall SopProofs.c32 (scubes s) -> Forall (cube_below (snv s)) (scubes s) ->
  sop_not s = Ok r ->
  snv r = snv s /\ chk_sop_result (snv s) (scubes r) (fun m => negb (sop_value s m)) = true.
Proof.
  intros Hs Bs Hr. destruct (SopProofs.not_full s Hs) as [r' [E [N1 [I1 [_ V1]]]]].
  rewrite Hr in E. injection E as <-. split; [exact N1|]. apply chk_sop_result_iff. split.
  - apply irredundantb_complete_below; [exact I1|]. apply (sop_not_below s r Bs Hr).
  - intros m _. rewrite sem_or_value. apply V1.
Qed.

(* on at most 32 variables the bound of the masks alone is enough *)
Lemma below_c32 n cs : (n <= 32)%nat -> Forall (cube_below n) cs -> Forall SopProofs.c32 cs.
Proof.
  intros Hn. apply Forall_impl. intros c [Hp Hq].
  assert (H32 : 2 ^ N.of_nat n <= 2 ^ 32) by (apply N.pow_le_mono_r; lia). split; lia.
Qed.

Corollary chk_sop_or_model32 a b r : (snv a <= 32)%nat -> snv a = snv b ->
  Forall (cube_below (snv a)) (scubes a) -> Forall (cube_below (snv a)) (scubes b) -> sop_or a b = Ok r ->
  snv r = snv a /\ chk_sop_result (snv a) (scubes r) (fun m => sop_value a m || sop_value b m) = true.
Proof. intros H32 Hn Ba Bb. apply chk_sop_or_model; try assumption; eapply below_c32; eassumption. Qed.

Corollary chk_sop_and_model32 a b r : (snv a <= 32)%nat -> snv a = snv b ->
  Forall (cube_below (snv a)) (scubes a) -> Forall (cube_below (snv a)) (scubes b) -> sop_and a b = Ok r ->
  snv r = snv a /\ chk_sop_result (snv a) (scubes r) (fun m => sop_value a m && sop_value b m) = true.
Proof. intros H32 Hn Ba Bb. apply chk_sop_and_model; try assumption; eapply below_c32; eassumption. Qed.

Corollary chk_sop_not_model32 s r : (snv s <= 32)%nat ->
  Forall (cube_below (snv s)) (scubes s) -> sop_not s = Ok r ->
  snv r = snv s /\ chk_sop_result (snv s) (scubes r) (fun m => negb (sop_value s m)) = true.
Proof. intros H32 Bs. apply chk_sop_not_model; try assumption; eapply below_c32; eassumption. Qed.

(* ================================================================== D. chk_sop_from_lut (C14) *)
Lemma cube_minterm_closed n m : (n <= 32)%nat -> m < 2 ^ N.of_nat n ->
  cube_minterm (N.of_nat n) m = mkCube m (N.lxor m (N.ones (N.of_nat n))).
Proof.
  intros Hn Hm. assert (Hn' : N.of_nat n <= 32) by lia.
  assert (H32 : 2 ^ N.of_nat n <= 2 ^ 32) by (apply N.pow_le_mono_r; lia).
  rewrite SopProofs.cube_minterm_eq. rewrite EsopProofs.wrap32_small by lia. f_equal.
  - apply N.bits_inj. intro p. rewrite N.land_spec, (SopProofs.mtot_spec _ p Hn').
    destruct (N.ltb_spec p (N.of_nat n)) as [L|L]; [apply andb_true_r|].
    rewrite (testbit_lt_pow2 m _ p Hm L). reflexivity.
  - apply N.bits_inj. intro p.
    rewrite N.land_spec, (SopProofs.mtot_spec _ p Hn'), SopProofs.not32_spec, N.lxor_spec.
    destruct (N.ltb_spec p (N.of_nat n)) as [L|L].
    + rewrite N.ones_spec_low by exact L. replace (p <? 32) with true by (symmetry; apply N.ltb_lt; lia).
      apply andb_true_r.
    + rewrite N.ones_spec_high by exact L. rewrite (testbit_lt_pow2 m _ p Hm L). apply andb_false_r.
Qed.

(* the list the checker compares with is the cube list of the model's conversion *)
Lemma sop_from_lut_closed n t : (n <= 32)%nat ->
  scubes (sop_from_lut n t) = map (fun m => mkCube m (N.lxor m (N.ones (N.of_nat n)))) (filter (val t) (dom n)).
Proof.
  intros Hn. rewrite SopProofs.from_lut_cubes. change (dom n) with (assignments n).
  change (fun m => val t m) with (val t). apply map_ext_in. intros m Hm. apply filter_In in Hm.
  apply cube_minterm_closed; [exact Hn|]. apply In_assignments. apply Hm.
Qed.

Theorem chk_sop_from_lut_iff n t r : (n <= 32)%nat ->
  (chk_sop_from_lut n t r = true <-> r = scubes (sop_from_lut n t)).
Proof.
  intros Hn. unfold chk_sop_from_lut. rewrite (list_eqb_iff cube_eqb cube_eqb_iff), (sop_from_lut_closed n t Hn).
  reflexivity.
Qed.

Corollary chk_sop_from_lut_model n t : (n <= 32)%nat -> chk_sop_from_lut n t (scubes (sop_from_lut n t)) = true.
Proof. intros Hn. apply (chk_sop_from_lut_iff n t _ Hn). reflexivity. Qed.

(* hence everything C14 proves about the conversion holds of an accepted result *)
Corollary chk_sop_from_lut_sound n t r : (n <= 32)%nat -> chk_sop_from_lut n t r = true ->
  Forall SopProofs.good r /\ forall m, m < 2 ^ N.of_nat n -> sem_or r m = val t m.
Proof.
  intros Hn H. apply (chk_sop_from_lut_iff n t r Hn) in H. subst r. split.
  - apply SopProofs.from_lut_good. exact Hn.
  - intros m Hm. rewrite sem_or_value. apply SopProofs.from_lut_value; assumption.
Qed.

(* the bound n <= 32 is necessary for the closed form: beyond it the model truncates the assignment to 32 bits *)
Example cube_minterm_closed_needs_32 :
  cube_minterm 33 (2 ^ 32) <> mkCube (2 ^ 32) (N.lxor (2 ^ 32) (N.ones 33)).
Proof. vm_compute. discriminate. Qed.

(* ================================================================== F. the optimality checkers (C18) *)
Lemma witness_iff (okw : bool) (a b : Z) :
  negb okw || Z.leb a b = true <-> (okw = true -> (a <= b)%Z).
Proof.
  rewrite orb_true_iff, negb_true_iff, Z.leb_le. destruct okw; split.
  - intros [H|H] _; [discriminate|exact H].
  - intros H. right. apply H. reflexivity.
  - intros _ H. discriminate.
  - intros _. left. reflexivity.
Qed.

Theorem chk_sop_opt_iff n fs ac oc ret w :
  chk_sop_opt n fs ac oc ret w = true <->
  sop_solution_ok n fs ret = true /\
  match w with
  | None => True
  | Some w' => sop_solution_ok n fs w' = true -> (sop_cost ac oc ret <= sop_cost ac oc w')%Z
  end.
Proof.
  unfold chk_sop_opt. rewrite andb_true_iff. destruct w as [w'|].
  - rewrite witness_iff. reflexivity.
  - split; [intros [H _]; split; [exact H|exact I]|intros [H _]; split; [exact H|reflexivity]].
Qed.

Theorem chk_esop_opt_iff n fs ac xc ret w :
  chk_esop_opt n fs ac xc ret w = true <->
  esop_solution_ok n fs ret = true /\
  match w with
  | None => True
  | Some w' => esop_solution_ok n fs w' = true -> (esop_cost ac xc ret <= esop_cost ac xc w')%Z
  end.
Proof.
  unfold chk_esop_opt. rewrite andb_true_iff. destruct w as [w'|].
  - rewrite witness_iff. reflexivity.
  - split; [intros [H _]; split; [exact H|exact I]|intros [H _]; split; [exact H|reflexivity]].
Qed.

Theorem chk_sopes_opt_iff n fs ac xc oc ret w :
  chk_sopes_opt n fs ac xc oc ret w = true <->
  sopes_solution_ok n fs ret = true /\
  match w with
  | None => True
  | Some w' => sopes_solution_ok n fs w' = true -> (sopes_cost ac xc oc ret <= sopes_cost ac xc oc w')%Z
  end.
Proof.
  unfold chk_sopes_opt. rewrite andb_true_iff. destruct w as [w'|].
  - rewrite witness_iff. reflexivity.
  - split; [intros [H _]; split; [exact H|exact I]|intros [H _]; split; [exact H|reflexivity]].
Qed.

(* ---- nodupb *)
Section Nodupb.
Context {A : Type} (eqb : A -> A -> bool) (eqb_iff : forall x y, eqb x y = true <-> x = y).

Lemma existsb_eqb_In x l : existsb (eqb x) l = true <-> In x l.
Proof.
  rewrite existsb_exists. split.
  - intros [y [Hy E]]. apply eqb_iff in E. subst y. exact Hy.
  - intros H. exists x. split; [exact H|]. apply eqb_iff. reflexivity.
Qed.

Lemma dedupb_length_le l : (length (dedupb eqb l) <= length l)%nat.
Proof.
  induction l as [|x r IH]; cbn [dedupb length]; [lia|].
  destruct (existsb (eqb x) r); cbn [length]; lia.
Qed.

Lemma nodupb_iff l : nodupb eqb l = true <-> NoDup l.
Proof.
  unfold nodupb. rewrite Nat.eqb_eq. induction l as [|x r IH]; cbn [dedupb length].
  - split; [intros _; constructor|reflexivity].
  - pose proof (dedupb_length_le r) as Hle. destruct (existsb (eqb x) r) eqn:E.
    + apply existsb_eqb_In in E. split; [lia|]. intros H. inversion H; subst. contradiction.
    + cbn [length]. split.
      * intros H. constructor; [|apply IH; lia]. intro Hin. apply existsb_eqb_In in Hin. congruence.
      * intros H. inversion H; subst. f_equal. apply IH. assumption.
Qed.

(* the deduplicated list has the same elements and no repetition (what the cost functions count) *)
Lemma dedupb_In l x : In x (dedupb eqb l) <-> In x l.
Proof.
  induction l as [|y r IH]; cbn [dedupb]; [reflexivity|].
  destruct (existsb (eqb y) r) eqn:E.
  - rewrite IH. cbn [In]. apply existsb_eqb_In in E. split; [auto|]. intros [<-|H]; assumption.
  - cbn [In]. rewrite IH. reflexivity.
Qed.

Lemma dedupb_NoDup l : NoDup (dedupb eqb l).
Proof.
  induction l as [|y r IH]; cbn [dedupb]; [constructor|].
  destruct (existsb (eqb y) r) eqn:E; [exact IH|]. constructor; [|exact IH].
  rewrite dedupb_In. intro Hin. apply existsb_eqb_In in Hin. congruence.
Qed.
End Nodupb.

(* ---- combine + length = Forall2 *)
Lemma combine_Forall2 {A B} (P : A -> B -> Prop) (l1 : list A) : forall (l2 : list B),
  (length l2 = length l1 /\ Forall (fun ab => P (fst ab) (snd ab)) (combine l1 l2)) <-> Forall2 P l1 l2.
Proof.
  induction l1 as [|a l1 IH]; intros [|b l2]; cbn [combine length].
  - split; [intros _; constructor|intros _; split; [reflexivity|constructor]].
  - split; [intros [H _]; discriminate|intros H; inversion H].
  - split; [intros [H _]; discriminate|intros H; inversion H].
  - rewrite Forall_cons_iff. cbn [fst snd]. split.
    + intros [Hl [Hp Hf]]. constructor; [exact Hp|]. apply IH. split; [lia|exact Hf].
    + intros H. inversion H as [|? ? ? ? Hp Hf]; subst. apply IH in Hf. destruct Hf as [Hl Hf].
      split; [lia|]. split; assumption.
Qed.

(* what a valid cover of one function is *)
Definition sop_cover_ok (n : nat) (f : list N) (cs : list cube) : Prop :=
  Forall (fun c => cube_good n c = true) cs /\ NoDup cs /\
  forall m, m < 2 ^ N.of_nat n -> sem_or cs m = val f m.
Definition esop_cover_ok (n : nat) (f : list N) (cs : list cube) : Prop :=
  Forall (fun c => cube_good n c = true) cs /\ NoDup cs /\
  forall m, m < 2 ^ N.of_nat n -> sem_xor cs m = val f m.
Definition sopes_cover_ok (n : nat) (f : list N) (ce : list cube * list ecube) : Prop :=
  Forall (fun c => cube_good n c = true) (fst ce) /\ NoDup (fst ce) /\
  Forall (fun e => evars e < 2 ^ N.of_nat n) (snd ce) /\ NoDup (snd ce) /\
  forall m, m < 2 ^ N.of_nat n -> sem_or (fst ce) m || sem_soes (snd ce) m = val f m.

Theorem sop_solution_ok_iff n fs sol :
  sop_solution_ok n fs sol = true <-> Forall2 (sop_cover_ok n) fs sol.
Proof.
  rewrite <- combine_Forall2. unfold sop_solution_ok.
  rewrite andb_true_iff, Nat.eqb_eq, forallb_forall, Forall_forall.
  split; intros [Hl H]; (split; [exact Hl|]); intros fc Hfc; specialize (H fc Hfc); revert H; unfold sop_cover_ok;
    rewrite !andb_true_iff, Forall_cube_good_iff, (nodupb_iff cube_eqb cube_eqb_iff), forallb_dom_eqb; tauto.
Qed.

Theorem esop_solution_ok_iff n fs sol :
  esop_solution_ok n fs sol = true <-> Forall2 (esop_cover_ok n) fs sol.
Proof.
  rewrite <- combine_Forall2. unfold esop_solution_ok.
  rewrite andb_true_iff, Nat.eqb_eq, forallb_forall, Forall_forall.
  split; intros [Hl H]; (split; [exact Hl|]); intros fc Hfc; specialize (H fc Hfc); revert H; unfold esop_cover_ok;
    rewrite !andb_true_iff, Forall_cube_good_iff, (nodupb_iff cube_eqb cube_eqb_iff), forallb_dom_eqb; tauto.
Qed.

Lemma Forall_ecube_good_iff n es :
  forallb (ecube_good n) es = true <-> Forall (fun e => evars e < 2 ^ N.of_nat n) es.
Proof.
  rewrite forallb_forall, Forall_forall. unfold ecube_good.
  split; intros H e He; [apply N.ltb_lt|apply N.ltb_lt]; apply H; exact He.
Qed.

Theorem sopes_solution_ok_iff n fs sol :
  sopes_solution_ok n fs sol = true <-> Forall2 (sopes_cover_ok n) fs sol.
Proof.
  rewrite <- combine_Forall2. unfold sopes_solution_ok.
  rewrite andb_true_iff, Nat.eqb_eq, forallb_forall, Forall_forall.
  split; intros [Hl H]; (split; [exact Hl|]); intros [f [cs es]] Hfc; specialize (H (f, (cs, es)) Hfc); revert H;
    unfold sopes_cover_ok; cbn [fst snd];
    rewrite !andb_true_iff, Forall_cube_good_iff, Forall_ecube_good_iff, (nodupb_iff cube_eqb cube_eqb_iff),
      (nodupb_iff ecube_eqb ecube_eqb_iff), forallb_dom_eqb; tauto.
Qed.

(* the optimality checkers, fully in Prop *)
Corollary chk_sop_opt_spec n fs ac oc ret w :
  chk_sop_opt n fs ac oc ret w = true <->
  Forall2 (sop_cover_ok n) fs ret /\
  match w with
  | None => True
  | Some w' => Forall2 (sop_cover_ok n) fs w' -> (sop_cost ac oc ret <= sop_cost ac oc w')%Z
  end.
Proof. rewrite chk_sop_opt_iff, sop_solution_ok_iff. destruct w as [w'|]; [rewrite sop_solution_ok_iff|]; reflexivity. Qed.

Corollary chk_esop_opt_spec n fs ac xc ret w :
  chk_esop_opt n fs ac xc ret w = true <->
  Forall2 (esop_cover_ok n) fs ret /\
  match w with
  | None => True
  | Some w' => Forall2 (esop_cover_ok n) fs w' -> (esop_cost ac xc ret <= esop_cost ac xc w')%Z
  end.
Proof. rewrite chk_esop_opt_iff, esop_solution_ok_iff. destruct w as [w'|]; [rewrite esop_solution_ok_iff|]; reflexivity. Qed.

Corollary chk_sopes_opt_spec n fs ac xc oc ret w :
  chk_sopes_opt n fs ac xc oc ret w = true <->
  Forall2 (sopes_cover_ok n) fs ret /\
  match w with
  | None => True
  | Some w' => Forall2 (sopes_cover_ok n) fs w' -> (sopes_cost ac xc oc ret <= sopes_cost ac xc oc w')%Z
  end.
Proof.
  rewrite chk_sopes_opt_iff, sopes_solution_ok_iff. destruct w as [w'|]; [rewrite sopes_solution_ok_iff|]; reflexivity.
Qed.

(* ================================================================== C. chk_esop_result (C15) *)
Theorem chk_esop_result_iff n r f :
  chk_esop_result n r f = true <-> forall m, m < 2 ^ N.of_nat n -> sem_xor r m = f m.
Proof. unfold chk_esop_result. apply forallb_dom_eqb. Qed.

Corollary chk_esop_result_spec n r f :
  chk_esop_result n r f = true <-> forall m, m < 2 ^ N.of_nat n -> EsopProofs.esem r m = f m.
Proof. apply chk_esop_result_iff. Qed.

Corollary chk_esop_result_false n r f :
  chk_esop_result n r f = false <-> ~ (forall m, m < 2 ^ N.of_nat n -> EsopProofs.esem r m = f m).
Proof. rewrite <- chk_esop_result_spec. destruct (chk_esop_result n r f); split; congruence. Qed.

Lemma chk_esop_result_ext n r f g :
  (forall m, m < 2 ^ N.of_nat n -> f m = g m) -> chk_esop_result n r f = chk_esop_result n r g.
Proof.
  intros E. apply eq_true_iff_eq. rewrite !chk_esop_result_iff.
  split; intros H m Hm; rewrite H by exact Hm; [|symmetry]; apply E; exact Hm.
Qed.

(* the model's results pass: the operators of C15 (^ and !); there is no hypothesis beyond the ones of C15 *)
Theorem chk_esop_xor_model a b r : env a = env b -> esop_xor a b = Ok r ->
  env r = env a /\ chk_esop_result (env a) (ecubes r) (fun m => xorb (esop_value a m) (esop_value b m)) = true.
Proof.
  intros He Hr. destruct (EsopProofs.esop_xor_sem a b He) as [r' [E [N1 V1]]].
  rewrite Hr in E. injection E as <-. split; [exact N1|]. apply chk_esop_result_iff. intros m _.
  rewrite sem_xor_value. apply V1.
Qed.

Theorem chk_esop_not_model s :
  env (esop_not s) = env s /\
  chk_esop_result (env s) (ecubes (esop_not s)) (fun m => negb (esop_value s m)) = true.
Proof.
  split; [reflexivity|]. apply chk_esop_result_iff. intros m _. rewrite sem_xor_value. apply EsopProofs.esop_not_sem.
Qed.

(* the conversion from a table, read only as "denotes the function" *)
Theorem chk_esop_from_lut_value_model n t : (n <= 32)%nat -> wf n t ->
  chk_esop_result n (ecubes (esop_from_lut n t)) (val t) = true.
Proof.
  intros Hn Hw. apply chk_esop_result_iff. intros m Hm. rewrite sem_xor_value.
  apply EsopProofs.esop_from_lut_value; assumption.
Qed.

(* ================================================================== E. chk_esop_from_lut (C15) *)
Theorem chk_esop_from_lut_iff n t r :
  chk_esop_from_lut n t r = true <->
  Forall (fun c => cneg c = 0 /\ cpos c < 2 ^ N.of_nat n) r /\
  StronglySorted N.lt (map cpos r) /\
  forall m, m < 2 ^ N.of_nat n -> sem_xor r m = val t m.
Proof.
  unfold chk_esop_from_lut. rewrite !andb_true_iff, increasing_iff, forallb_dom_eqb, forallb_forall, Forall_forall.
  split.
  - intros [[H1 H2] H3]. split; [|split; assumption]. intros c Hc. specialize (H1 c Hc).
    apply andb_true_iff in H1. rewrite N.eqb_eq, N.ltb_lt in H1. exact H1.
  - intros [H1 [H2 H3]]. split; [split; [|exact H2]|exact H3]. intros c Hc. specialize (H1 c Hc).
    apply andb_true_iff. rewrite N.eqb_eq, N.ltb_lt. exact H1.
Qed.

(* a list of all-positive cubes is the image of its positive masks *)
Lemma positive_cubes_pcube r : Forall (fun c => cneg c = 0) r -> r = map EsopProofs.pcube (map cpos r).
Proof.
  induction r as [|c r IH]; intros H; [reflexivity|]. apply Forall_cons_iff in H. destruct H as [Hc Hr].
  cbn [map]. rewrite <- IH by exact Hr. f_equal. destruct c as [p q]. cbn [cpos cneg] in *. subst q. reflexivity.
Qed.

Lemma map_cpos_pcube ss : map cpos (map EsopProofs.pcube ss) = ss.
Proof. rewrite map_map. cbn [EsopProofs.pcube cpos]. apply map_id. Qed.

(* the same statement in the vocabulary of C15: r is a strictly increasing positive form on n variables denoting t *)
Corollary chk_esop_from_lut_spec n t r :
  chk_esop_from_lut n t r = true <->
  exists ss, r = map EsopProofs.pcube ss /\ Forall (fun s => s < 2 ^ N.of_nat n) ss /\ StronglySorted N.lt ss /\
             forall m, m < 2 ^ N.of_nat n -> EsopProofs.esem (map EsopProofs.pcube ss) m = val t m.
Proof.
  rewrite chk_esop_from_lut_iff. split.
  - intros [H1 [H2 H3]]. exists (map cpos r).
    assert (E : r = map EsopProofs.pcube (map cpos r)).
    { apply positive_cubes_pcube. eapply Forall_impl; [|exact H1]. intros c Hc. apply Hc. }
    split; [exact E|]. split; [|split; [exact H2|]].
    + apply Forall_forall. intros s Hs. apply in_map_iff in Hs. destruct Hs as [c [<- Hc]].
      rewrite Forall_forall in H1. apply (H1 c Hc).
    + rewrite <- E. exact H3.
  - intros [ss [-> [H1 [H2 H3]]]]. rewrite map_cpos_pcube. split; [|split; [exact H2|exact H3]].
    apply Forall_forall. intros c Hc. apply in_map_iff in Hc. destruct Hc as [s [<- Hs]].
    cbn [EsopProofs.pcube cpos cneg]. split; [reflexivity|]. rewrite Forall_forall in H1. apply H1. exact Hs.
Qed.

(* the model's result passes (hypotheses of C15_positive / C15_roundtrip_sem) *)
Theorem chk_esop_from_lut_model n t : (n <= 32)%nat -> wf n t ->
  chk_esop_from_lut n t (ecubes (esop_from_lut n t)) = true.
Proof.
  intros Hn Hw. apply chk_esop_from_lut_spec.
  destruct (EsopProofs.esop_from_lut_positive n t Hn Hw) as [ss [H1 [H2 H3]]]. exists ss.
  split; [exact H1|]. split; [exact H2|]. split; [exact H3|]. intros m Hm.
  rewrite <- H1, <- EsopProofs.esop_value_esem. apply EsopProofs.esop_from_lut_value; assumption.
Qed.

(* and it is the only list that passes (C15_canonical): the checker accepts exactly the model's result *)
Theorem chk_esop_from_lut_sound n t r : (n <= 32)%nat -> wf n t ->
  (chk_esop_from_lut n t r = true <-> r = ecubes (esop_from_lut n t)).
Proof.
  intros Hn Hw. split.
  - intros H. apply chk_esop_from_lut_spec in H. destruct H as [ss [-> [H1 [H2 H3]]]].
    symmetry. apply EsopProofs.esop_from_lut_canonical; assumption.
  - intros ->. apply chk_esop_from_lut_model; assumption.
Qed.

(* ================================================================== complements *)
(* the bound on the masks is what the model's constructor guard (Sop::from_cubes / Esop::from_cubes) checks *)
Lemma bits_below_lt x n : x < 2 ^ 32 -> forallb (fun v => v <? N.of_nat n) (bits_of x) = true -> x < 2 ^ N.of_nat n.
Proof.
  intros Hx H. rewrite forallb_forall in H. apply lt_pow2_of_bits. intros p Hp.
  destruct (N.testbit x p) eqn:E; [|reflexivity]. exfalso.
  assert (L : p < 32) by (eapply bit_true_below; eassumption).
  specialize (H p (proj2 (SopProofs.in_bits_of x p) (conj L E))). apply N.ltb_lt in H. lia.
Qed.

(* stated as an equation, and proved in this orientation, so that the kernel never has to compare two unfolded
   32-step filters (it would, exponentially, if [cube_vars_below] were unfolded by conversion in a hypothesis) *)
Lemma cube_vars_below_eq n c :
  cube_vars_below n c = forallb (fun v => v <? N.of_nat n) (bits_of (cpos c)) &&
                        forallb (fun v => v <? N.of_nat n) (bits_of (cneg c)).
Proof.
  exact (eq_refl (forallb (fun v => v <? N.of_nat n) (bits_of (cpos c)) &&
                  forallb (fun v => v <? N.of_nat n) (bits_of (cneg c)))).
Qed.

Lemma cube_vars_below_below n c : SopProofs.c32 c -> cube_vars_below n c = true -> cube_below n c.
Proof.
  intros [Hp Hq] H. rewrite cube_vars_below_eq in H.
  apply andb_true_iff in H. destruct H as [H1 H2].
  split; [exact (bits_below_lt (cpos c) n Hp H1)|exact (bits_below_lt (cneg c) n Hq H2)].
Qed.

Lemma sop_from_cubes_below n cs s : Forall SopProofs.c32 cs -> sop_from_cubes n cs = Ok s ->
  snv s = n /\ scubes s = cs /\ Forall (cube_below n) cs.
Proof.
  intros Hc. unfold sop_from_cubes. destruct (forallb (cube_vars_below n) cs) eqn:E; cbn [always bind]; [|discriminate].
  intros H. injection H as <-. split; [reflexivity|]. split; [reflexivity|].
  rewrite forallb_forall in E. rewrite Forall_forall in *. intros c Hin.
  apply cube_vars_below_below; [apply Hc|apply E]; exact Hin.
Qed.

(* D without the bound: the requested equivalence is FALSE beyond 32 variables.  For every table on n > 32 variables
   that is true at the assignment 2^32, the checker rejects the model's own result (the model truncates assignments
   to u32, the checker does not). *)
Lemma map_eq_pointwise {A B} (f g : A -> B) l : map f l = map g l -> forall x, In x l -> f x = g x.
Proof.
  induction l as [|a l IH]; intros E x Hx; [destruct Hx|]. cbn [map] in E. injection E as E1 E2.
  destruct Hx as [<-|Hx]; [exact E1|apply IH; assumption].
Qed.

Theorem chk_sop_from_lut_beyond_32 n t : (32 < n)%nat -> val t (2 ^ 32) = true ->
  chk_sop_from_lut n t (scubes (sop_from_lut n t)) = false.
Proof.
  intros Hn Hv. destruct (chk_sop_from_lut n t (scubes (sop_from_lut n t))) eqn:E; [|reflexivity]. exfalso.
  unfold chk_sop_from_lut in E. apply (list_eqb_iff cube_eqb cube_eqb_iff) in E.
  rewrite SopProofs.from_lut_cubes in E. change (assignments n) with (dom n) in E.
  change (fun m => val t m) with (val t) in E.
  assert (Hin : In (2 ^ 32) (filter (val t) (dom n))).
  { apply filter_In. split; [|exact Hv]. apply dom_In. apply N.pow_lt_mono_r; lia. }
  pose proof (map_eq_pointwise _ _ _ E _ Hin) as K. cbv beta in K.
  apply (f_equal cpos) in K. rewrite SopProofs.cube_minterm_eq in K. cbn [cpos] in K.
  change (wrap32 (2 ^ 32)) with 0 in K. rewrite N.land_0_l in K. discriminate K.
Qed.

(* ================================================================== assumptions *)
