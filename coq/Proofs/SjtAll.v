(* The adjacent-swap sequence generated at run time for P / NPN canonization (n >= 7), for EVERY n:
   generate_single_swap_permutations n (Steinhaus-Johnson-Trotter order) lists every permutation of 0..n-1 exactly
   once, cyclically consecutive permutations differ by one adjacent transposition, hence generate_swaps n true does
   not panic and the P-walk of Spec/Transform.v driven by its result is closed and visits every permutation.
   No computation on n (except the literal base case n = 2 and the generated table SWAPS for n <= 6). *)
From Coq Require Import List NArith Arith Bool Permutation Lia.
From V Require Import Base.Res Gen.Tables Model.Kernels Base.Bits Model.Canon Spec.Bfun Spec.Transform
  Proofs.Wf Proofs.Order Proofs.Coverage Proofs.ActGroup Proofs.CanonWalk Proofs.CanonOrbit.
Import ListNotations.
Open Scope N_scope.

(* ------------------------------------------------------------------ 0. chains: consecutive elements are related *)
Section Chain.
  Context {A : Type} (R : A -> A -> Prop).

  Fixpoint chain (l : list A) : Prop :=
    match l with
    | a :: ((b :: _) as r) => R a b /\ chain r
    | _ => True
    end.

  Lemma chain_cons a b r : chain (a :: b :: r) <-> R a b /\ chain (b :: r).
  Proof. reflexivity. Qed.

  Lemma chain_app l1 l2 d :
    chain l1 -> chain l2 -> (l1 <> [] -> l2 <> [] -> R (last l1 d) (hd d l2)) -> chain (l1 ++ l2).
  Proof.
    induction l1 as [|a l1 IH]; intros H1 H2 HJ; [exact H2|].
    destruct l1 as [|b l1].
    - cbn [app]. destruct l2 as [|c l2]; [exact I|].
      split; [|exact H2]. apply (HJ ltac:(discriminate) ltac:(discriminate)).
    - destruct H1 as [Hab H1]. change ((a :: b :: l1) ++ l2) with (a :: b :: (l1 ++ l2)).
      split; [exact Hab|]. apply IH; [exact H1|exact H2|].
      intros _ Hn. exact (HJ ltac:(discriminate) Hn).
  Qed.

  Lemma chain_nth l d : chain l -> forall k, (k + 1 < length l)%nat -> R (nth k l d) (nth (k + 1) l d).
  Proof.
    induction l as [|a l IH]; intros H k Hk; [cbn [length] in Hk; lia|].
    destruct l as [|b l]; [cbn [length] in Hk; lia|].
    destruct H as [Hab H]. destruct k as [|k].
    - exact Hab.
    - cbn [length] in Hk. change (R (nth k (b :: l) d) (nth (k + 1) (b :: l) d)).
      apply IH; [exact H|]. cbn [length]. lia.
  Qed.

  Lemma chain_map_seq (f : nat -> A) : forall len start,
    (forall j, (start <= j)%nat -> (S j < start + len)%nat -> R (f j) (f (S j))) ->
    chain (map f (seq start len)).
  Proof.
    induction len as [|len IH]; intros start H; [exact I|].
    destruct len as [|len]; [exact I|].
    change (R (f start) (f (S start)) /\ chain (map f (seq (S start) (S len)))). split.
    - apply H; lia.
    - apply IH. intros j H1 H2. apply H; lia.
  Qed.
End Chain.

Lemma chain_rev {A} (R : A -> A -> Prop) (l : list A) :
  (forall a b, R a b -> R b a) -> chain R l -> chain R (rev l).
Proof.
  intros Hsym. induction l as [|a l IH]; intros H; [exact I|].
  cbn [rev]. destruct l as [|b l]; [exact I|].
  destruct H as [Hab H]. apply (chain_app R _ _ a); [apply IH; exact H | exact I |].
  intros _ _. cbn [rev hd]. rewrite last_last. apply Hsym. exact Hab.
Qed.

Lemma chain_impl_Forall {A} (R R' : A -> A -> Prop) (P : A -> Prop) (l : list A) :
  (forall a b, P a -> R a b -> R' a b) -> Forall P l -> chain R l -> chain R' l.
Proof.
  intros Himp. induction l as [|a l IH]; intros HP H; [exact I|].
  destruct l as [|b l]; [exact I|].
  destruct H as [Hab H]. inversion HP as [|a' l' Pa HP']. subst a' l'.
  split; [exact (Himp a b Pa Hab) | exact (IH HP' H)].
Qed.

(* ------------------------------------------------------------------ 1. adjacent transpositions, structurally *)
Definition adj (p1 p2 : list N) : Prop :=
  exists l1 a b l2, p1 = l1 ++ a :: b :: l2 /\ p2 = l1 ++ b :: a :: l2.

Lemma adj_sym p1 p2 : adj p1 p2 -> adj p2 p1.
Proof. intros [l1 [a [b [l2 [E1 E2]]]]]. exists l1, b, a, l2. split; assumption. Qed.

Lemma adj_cons x p1 p2 : adj p1 p2 -> adj (x :: p1) (x :: p2).
Proof. intros [l1 [a [b [l2 [E1 E2]]]]]. exists (x :: l1), a, b, l2. subst p1 p2. split; reflexivity. Qed.

Lemma adj_snoc x p1 p2 : adj p1 p2 -> adj (p1 ++ [x]) (p2 ++ [x]).
Proof.
  intros [l1 [a [b [l2 [E1 E2]]]]]. exists l1, a, b, (l2 ++ [x]). subst p1 p2.
  rewrite <- !app_assoc. split; reflexivity.
Qed.

Lemma adj_length p1 p2 : adj p1 p2 -> length p2 = length p1.
Proof.
  intros [l1 [a [b [l2 [E1 E2]]]]]. subst p1 p2. rewrite !app_length. reflexivity.
Qed.

(* the link with swap_entries *)
Lemma swap_entries_struct l1 a b l2 :
  swap_entries (l1 ++ a :: b :: l2) (N.of_nat (length l1)) = l1 ++ b :: a :: l2.
Proof.
  unfold swap_entries. rewrite Nat2N.id. unfold nthN.
  induction l1 as [|x l1 IH].
  - reflexivity.
  - cbn [length app]. change (S (length l1) + 1)%nat with (S (length l1 + 1)).
    cbn [nth upd]. f_equal. exact IH.
Qed.

Definition adj_swap (n : nat) (p1 p2 : list N) : Prop :=
  exists i, (i + 1 < n)%nat /\ p2 = swap_entries p1 (N.of_nat i).

Lemma adj_adj_swap p1 p2 : adj p1 p2 -> adj_swap (length p1) p1 p2.
Proof.
  intros [l1 [a [b [l2 [E1 E2]]]]]. exists (length l1). subst p1 p2. split.
  - rewrite app_length. cbn [length]. lia.
  - symmetry. apply swap_entries_struct.
Qed.

(* ------------------------------------------------------------------ 2. insert_at *)
Lemma insert_at_0 {A} (x : A) l : insert_at 0 x l = x :: l.
Proof. destruct l; reflexivity. Qed.

Lemma insert_at_end {A} (x : A) l : insert_at (length l) x l = l ++ [x].
Proof. induction l as [|y l IH]; [reflexivity|]. cbn [length insert_at app]. f_equal. exact IH. Qed.

Lemma insert_at_length {A} (x : A) l : forall j, length (insert_at j x l) = S (length l).
Proof.
  induction l as [|y l IH]; intros [|j]; try reflexivity.
  cbn [insert_at length]. f_equal. apply IH.
Qed.

Lemma insert_at_split {A} (x : A) l : forall j, (j <= length l)%nat ->
  exists l1 l2, l = l1 ++ l2 /\ length l1 = j /\ insert_at j x l = l1 ++ x :: l2.
Proof.
  induction l as [|y l IH]; intros [|j] Hj.
  - exists [], []. repeat split.
  - cbn [length] in Hj. lia.
  - exists [], (y :: l). repeat split.
  - cbn [length] in Hj. destruct (IH j ltac:(lia)) as [l1 [l2 [E [Hl Ei]]]].
    exists (y :: l1), l2. cbn [insert_at app length]. rewrite Ei, Hl, <- E. repeat split.
Qed.

Lemma insert_at_app {A} (x : A) l1 l2 : insert_at (length l1) x (l1 ++ l2) = l1 ++ x :: l2.
Proof.
  induction l1 as [|y l1 IH]; [apply insert_at_0|]. cbn [length app insert_at]. f_equal. exact IH.
Qed.

Lemma insert_at_perm {A} (x : A) l : forall j, Permutation (insert_at j x l) (x :: l).
Proof.
  induction l as [|y l IH]; intros [|j]; try apply Permutation_refl.
  cbn [insert_at]. eapply Permutation_trans; [apply perm_skip; apply IH | apply Permutation.perm_swap].
Qed.

Lemma adj_insert_at k p : forall j, (j < length p)%nat -> adj (insert_at j k p) (insert_at (S j) k p).
Proof.
  induction p as [|y r IH]; intros j Hj; [cbn [length] in Hj; lia|].
  destruct j as [|j].
  - cbn [insert_at]. exists [], k, y, r. split; reflexivity.
  - cbn [length] in Hj. change (adj (y :: insert_at j k r) (y :: insert_at (S j) k r)).
    apply adj_cons. apply IH. lia.
Qed.

Lemma remove_insert_at k p : ~ In k p -> forall j, remove N.eq_dec k (insert_at j k p) = p.
Proof.
  induction p as [|y r IH]; intros Hk j.
  - destruct j as [|j]; cbn [insert_at remove]; destruct (N.eq_dec k k) as [_|C]; try reflexivity; contradiction.
  - destruct j as [|j].
    + cbn [insert_at]. rewrite remove_cons. apply notin_remove. exact Hk.
    + cbn [insert_at remove]. destruct (N.eq_dec k y) as [E|_].
      * exfalso. apply Hk. left. symmetry. exact E.
      * f_equal. apply IH. intros H. apply Hk. right. exact H.
Qed.

Lemma find_idx_insert_at k p : ~ In k p -> forall j, (j <= length p)%nat -> find_idx (insert_at j k p) k = j.
Proof.
  induction p as [|y r IH]; intros Hk j Hj.
  - cbn [length] in Hj. assert (j = 0%nat) by lia. subst j. cbn [insert_at find_idx]. rewrite N.eqb_refl. reflexivity.
  - destruct j as [|j].
    + cbn [insert_at find_idx]. rewrite N.eqb_refl. reflexivity.
    + cbn [length] in Hj. cbn [insert_at find_idx]. destruct (N.eqb_spec y k) as [E|_].
      * exfalso. apply Hk. left. exact E.
      * f_equal. apply IH; [|lia]. intros H. apply Hk. right. exact H.
Qed.

Lemma NoDup_app_intro {A} (l1 l2 : list A) :
  NoDup l1 -> NoDup l2 -> (forall x, In x l1 -> ~ In x l2) -> NoDup (l1 ++ l2).
Proof.
  induction l1 as [|a l1 IH]; intros H1 H2 HD; [exact H2|].
  inversion H1 as [|a' l' Ha H1']. subst a' l'. cbn [app]. constructor.
  - intros Hin. apply in_app_or in Hin. destruct Hin as [Hin|Hin]; [exact (Ha Hin)|].
    exact (HD a (or_introl eq_refl) Hin).
  - apply IH; [exact H1'|exact H2|]. intros x Hx. apply HD. right. exact Hx.
Qed.

(* ------------------------------------------------------------------ 3. one run of sjt_step *)
Definition run (e : bool) (k : N) (cur : list N) : list (list N) :=
  map (fun j => insert_at j k cur) (if e then seq 0 (length cur + 1) else rev (seq 0 (length cur + 1))).

Lemma sjt_step_cons e k cur rest : sjt_step e k (cur :: rest) = run e k cur ++ sjt_step (negb e) k rest.
Proof. reflexivity. Qed.

Lemma run_length e k cur : length (run e k cur) = S (length cur).
Proof.
  unfold run. rewrite map_length. destruct e; [|rewrite rev_length]; rewrite seq_length; lia.
Qed.

Lemma run_nonnil e k cur : run e k cur <> [].
Proof. intros E. pose proof (run_length e k cur) as H. rewrite E in H. discriminate. Qed.

Lemma run_In e k cur q : In q (run e k cur) <-> exists j, (j <= length cur)%nat /\ q = insert_at j k cur.
Proof.
  unfold run. rewrite in_map_iff. split.
  - intros [j [E Hj]]. exists j. split; [|symmetry; exact E].
    destruct e; [|apply in_rev in Hj]; apply in_seq in Hj; lia.
  - intros [j [Hj E]]. exists j. split; [symmetry; exact E|].
    destruct e; [|apply -> in_rev]; apply in_seq; lia.
Qed.

Lemma run_hd e k cur : hd [] (run e k cur) = insert_at (if e then 0%nat else length cur) k cur.
Proof.
  unfold run. rewrite Nat.add_1_r. destruct e.
  - reflexivity.
  - rewrite seq_S, rev_unit. reflexivity.
Qed.

Lemma run_last e k cur : last (run e k cur) [] = insert_at (if e then length cur else 0%nat) k cur.
Proof.
  unfold run. rewrite Nat.add_1_r. destruct e.
  - rewrite seq_S, map_app. cbn [map]. rewrite last_last. reflexivity.
  - cbn [seq rev]. rewrite map_app. cbn [map]. rewrite last_last. reflexivity.
Qed.

Lemma run_chain e k cur : chain adj (run e k cur).
Proof.
  assert (H : chain adj (map (fun j => insert_at j k cur) (seq 0 (length cur + 1)))).
  { apply chain_map_seq. intros j _ Hj. apply adj_insert_at. lia. }
  unfold run. destruct e; [exact H|].
  rewrite map_rev. apply chain_rev; [exact adj_sym | exact H].
Qed.

Lemma run_NoDup e k cur : ~ In k cur -> NoDup (run e k cur).
Proof.
  intros Hk. unfold run. apply NoDup_map_in.
  - intros x y Hx Hy E.
    assert (Hx' : (x <= length cur)%nat) by (destruct e; [|apply in_rev in Hx]; apply in_seq in Hx; lia).
    assert (Hy' : (y <= length cur)%nat) by (destruct e; [|apply in_rev in Hy]; apply in_seq in Hy; lia).
    rewrite <- (find_idx_insert_at k cur Hk x Hx'), <- (find_idx_insert_at k cur Hk y Hy'), E. reflexivity.
  - destruct e; [|apply NoDup_rev]; apply seq_NoDup.
Qed.

(* ------------------------------------------------------------------ 4. one level: sjt_step *)
Lemma sjt_In k perms : forall e q,
  In q (sjt_step e k perms) <-> exists p j, In p perms /\ (j <= length p)%nat /\ q = insert_at j k p.
Proof.
  induction perms as [|cur rest IH]; intros e q.
  - cbn [sjt_step]. split; [intros []|intros [p [j [[] _]]]].
  - rewrite sjt_step_cons, in_app_iff, run_In, IH. split.
    + intros [[j [Hj E]]|[p [j [Hp [Hj E]]]]].
      * exists cur, j. split; [left; reflexivity|]. split; assumption.
      * exists p, j. split; [right; exact Hp|]. split; assumption.
    + intros [p [j [[Hp|Hp] [Hj E]]]].
      * subst p. left. exists j. split; assumption.
      * right. exists p, j. split; [exact Hp|]. split; assumption.
Qed.

Lemma sjt_length k L perms : Forall (fun p => length p = L) perms ->
  forall e, length (sjt_step e k perms) = (length perms * S L)%nat.
Proof.
  induction perms as [|cur rest IH]; intros HL e; [reflexivity|].
  inversion HL as [|c r Hc HL']. subst c r.
  rewrite sjt_step_cons, app_length, run_length, (IH HL'), Hc. cbn [length]. lia.
Qed.

Lemma sjt_hd e k cur rest : hd [] (sjt_step e k (cur :: rest)) = insert_at (if e then 0%nat else length cur) k cur.
Proof.
  rewrite sjt_step_cons, <- run_hd. pose proof (run_nonnil e k cur) as Hn.
  destruct (run e k cur); [contradiction|reflexivity].
Qed.

Lemma sjt_nonnil e k perms : perms <> [] -> sjt_step e k perms <> [].
Proof.
  destruct perms as [|cur rest]; [contradiction|]. intros _ E. rewrite sjt_step_cons in E.
  apply app_eq_nil in E. exact (run_nonnil e k cur (proj1 E)).
Qed.

Lemma last_app_nonnil {A} (l1 l2 : list A) d : l2 <> [] -> last (l1 ++ l2) d = last l2 d.
Proof.
  intros H. destruct (exists_last H) as [l [a E]]. subst l2.
  rewrite app_assoc, !last_last. reflexivity.
Qed.

Lemma sjt_last k perms : forall e, perms <> [] ->
  last (sjt_step e k perms) [] =
  insert_at (if xorb e (Nat.even (length perms)) then length (last perms []) else 0%nat) k (last perms []).
Proof.
  induction perms as [|cur rest IH]; intros e Hn; [contradiction|].
  rewrite sjt_step_cons. destruct rest as [|nxt rest].
  - cbn [sjt_step]. rewrite app_nil_r, run_last. cbn [length last Nat.even]. rewrite xorb_false_r. reflexivity.
  - rewrite last_app_nonnil by (apply sjt_nonnil; discriminate).
    rewrite IH by discriminate.
    change (last (cur :: nxt :: rest) []) with (last (nxt :: rest) []).
    change (length (cur :: nxt :: rest)) with (S (length (nxt :: rest))).
    rewrite Nat.even_succ, <- Nat.negb_even.
    destruct e, (Nat.even (length (nxt :: rest))); reflexivity.
Qed.

Lemma sjt_chain k perms : chain adj perms -> forall e, chain adj (sjt_step e k perms).
Proof.
  induction perms as [|cur rest IH]; intros Hc e; [exact I|].
  rewrite sjt_step_cons. apply (chain_app adj _ _ []).
  - apply run_chain.
  - apply IH. destruct rest; [exact I|exact (proj2 Hc)].
  - intros _ Hne. destruct rest as [|nxt rest]; [contradiction|].
    destruct Hc as [Hadj _].
    rewrite run_last, sjt_hd. destruct e; cbn [negb].
    + rewrite !insert_at_end. apply adj_snoc. exact Hadj.
    + cbn [insert_at]. apply adj_cons. exact Hadj.
Qed.

(* ------------------------------------------------------------------ 5. permutations of 0..m and of 0..m+1 *)
Lemma identity_S m : identity (S m) = identity m ++ [N.of_nat m].
Proof. unfold identity. rewrite seq_S, map_app. reflexivity. Qed.

Lemma is_perm_S_cons m p : is_perm (S m) p <-> Permutation p (N.of_nat m :: identity m).
Proof.
  unfold is_perm. rewrite identity_S. split; intros H.
  - eapply Permutation_trans; [exact H|]. apply Permutation_sym, Permutation_cons_append.
  - eapply Permutation_trans; [exact H|]. apply Permutation_cons_append.
Qed.

Lemma is_perm_insert_at m p j : is_perm m p -> is_perm (S m) (insert_at j (N.of_nat m) p).
Proof.
  intros H. apply is_perm_S_cons. eapply Permutation_trans; [apply insert_at_perm|].
  apply perm_skip. exact H.
Qed.

Lemma is_perm_top_notin m p : is_perm m p -> ~ In (N.of_nat m) p.
Proof. intros H Hin. pose proof (cov_is_perm_entries m p _ H Hin) as Hlt. lia. Qed.

Lemma is_perm_S_split m q : is_perm (S m) q ->
  exists l1 l2, q = l1 ++ N.of_nat m :: l2 /\ is_perm m (l1 ++ l2).
Proof.
  intros H. assert (Hin : In (N.of_nat m) q) by (apply (perm_In (S m) q _ H); lia).
  apply in_split in Hin. destruct Hin as [l1 [l2 E]]. exists l1, l2. split; [exact E|]. subst q.
  apply is_perm_S_cons in H. apply Permutation_sym in H. apply Permutation_cons_app_inv in H.
  apply Permutation_sym. exact H.
Qed.

(* one level preserves "the list enumerates all permutations exactly once" *)
Definition enumerates (n : nat) (ps : list (list N)) : Prop :=
  (forall p, In p ps -> is_perm n p) /\ NoDup ps /\ (forall p, is_perm n p -> In p ps).

Lemma sjt_NoDup m perms : (forall p, In p perms -> is_perm m p) -> NoDup perms ->
  forall e, NoDup (sjt_step e (N.of_nat m) perms).
Proof.
  induction perms as [|cur rest IH]; intros Hp Hnd e; [constructor|].
  inversion Hnd as [|c r Hcur Hnd']. subst c r.
  assert (Hk : ~ In (N.of_nat m) cur) by (apply is_perm_top_notin; apply Hp; left; reflexivity).
  rewrite sjt_step_cons. apply NoDup_app_intro.
  - apply run_NoDup. exact Hk.
  - apply IH; [|exact Hnd']. intros p Hin. apply Hp. right. exact Hin.
  - intros q Hq Hq'. apply run_In in Hq. destruct Hq as [j [_ Ej]].
    apply sjt_In in Hq'. destruct Hq' as [p [j' [Hin [_ Ej']]]].
    assert (Hk' : ~ In (N.of_nat m) p) by (apply is_perm_top_notin; apply Hp; right; exact Hin).
    apply Hcur. replace cur with p; [exact Hin|].
    rewrite <- (remove_insert_at _ p Hk' j'), <- Ej', Ej. apply remove_insert_at. exact Hk.
Qed.

Lemma sjt_enumerates m perms e : enumerates m perms -> enumerates (S m) (sjt_step e (N.of_nat m) perms).
Proof.
  intros [Hp [Hnd Hall]]. split; [|split].
  - intros q Hq. apply sjt_In in Hq. destruct Hq as [p [j [Hin [_ E]]]]. subst q.
    apply is_perm_insert_at. apply Hp. exact Hin.
  - apply sjt_NoDup; assumption.
  - intros q Hq. destruct (is_perm_S_split m q Hq) as [l1 [l2 [E Hperm]]].
    apply sjt_In. exists (l1 ++ l2), (length l1). split; [apply Hall; exact Hperm|]. split.
    + rewrite app_length. lia.
    + rewrite insert_at_app. exact E.
Qed.

(* ------------------------------------------------------------------ 6. the generated list, every n *)
Notation gen := generate_single_swap_permutations.

Lemma gen_S m : (2 <= m)%nat -> gen (S m) = sjt_step true (N.of_nat m) (gen m).
Proof. intros H. destruct m as [|[|m]]; [lia|lia|reflexivity]. Qed.

Lemma is_perm_2_10 : is_perm 2 [1; 0].
Proof. apply Permutation.perm_swap. Qed.

Lemma gen_enumerates n : enumerates n (gen n).
Proof.
  induction n as [|n IH].
  - split; [|split].
    + intros p [E|[]]. subst p. apply cov_is_perm_identity.
    + constructor; [intros []|constructor].
    + intros p Hp. left. symmetry. apply Permutation_nil. apply Permutation_sym. exact Hp.
  - destruct n as [|[|n]].
    + split; [|split].
      * intros p [E|[]]. subst p. apply cov_is_perm_identity.
      * constructor; [intros []|constructor].
      * intros p Hp. left. symmetry. apply Permutation_sym in Hp. exact (Permutation_length_1_inv Hp).
    + split; [|split].
      * intros p [E|[E|[]]]; subst p; [exact is_perm_2_10 | apply cov_is_perm_identity].
      * constructor; [intros [E|[]]; discriminate|]. constructor; [intros []|constructor].
      * intros p Hp. apply Permutation_sym in Hp. apply Permutation_length_2_inv in Hp.
        destruct Hp as [E|E]; subst p; [right; left; reflexivity | left; reflexivity].
    + rewrite gen_S by lia. apply sjt_enumerates. exact IH.
Qed.

(* 1. the list of permutations *)
Lemma sjt_perms_all : forall n, let ps := generate_single_swap_permutations n in
  (forall p, In p ps -> is_perm n p) /\ NoDup ps /\ (forall p, is_perm n p -> In p ps).
Proof. exact gen_enumerates. Qed.

Lemma gen_Forall_length n : Forall (fun p => length p = n) (gen n).
Proof.
  apply Forall_forall. intros p Hp. apply cov_is_perm_length. exact (proj1 (gen_enumerates n) p Hp).
Qed.

Lemma gen_length n : length (gen n) = fact n.
Proof.
  induction n as [|n IH]; [reflexivity|].
  destruct n as [|[|n]]; [reflexivity|reflexivity|].
  rewrite gen_S by lia. rewrite (sjt_length _ (S (S n)) _ (gen_Forall_length _)), IH.
  change (fact (S (S (S n)))) with (S (S (S n)) * fact (S (S n)))%nat. lia.
Qed.

Lemma gen_nonnil n : gen n <> [].
Proof.
  intros E. pose proof (gen_length n) as H. rewrite E in H. pose proof (lt_O_fact n). cbn [length] in H. lia.
Qed.

Lemma gen_even n : (2 <= n)%nat -> Nat.even (length (gen n)) = true.
Proof.
  intros H. rewrite gen_length. destruct n as [|[|n]]; [lia|lia|].
  change (fact (S (S n))) with (S (S n) * fact (S n))%nat.
  change (fact (S n)) with (S n * fact n)%nat.
  rewrite !Nat.even_mul. rewrite (Nat.even_succ (S n)), <- Nat.negb_even.
  destruct (Nat.even (S n)); reflexivity.
Qed.

(* cyclic chain: consecutive elements, and last -> first *)
Lemma gen_cycle n : (2 <= n)%nat -> chain adj (gen n) /\ adj (last (gen n) []) (hd [] (gen n)).
Proof.
  intros H. induction n as [|n IH]; [lia|].
  destruct n as [|[|n]]; [lia| |].
  - cbn [generate_single_swap_permutations chain last hd]. split; [split; [|exact I]|].
    + exists [], 1, 0, []. split; reflexivity.
    + exists [], 0, 1, []. split; reflexivity.
  - destruct (IH ltac:(lia)) as [Hc Hw]. rewrite gen_S by lia. split.
    + apply sjt_chain. exact Hc.
    + rewrite sjt_last by apply gen_nonnil. rewrite gen_even by lia. cbn [xorb].
      pose proof (gen_nonnil (S (S n))) as Hn. destruct (gen (S (S n))) as [|cur rest] eqn:E; [contradiction|].
      rewrite sjt_hd. cbn [insert_at]. apply adj_cons. exact Hw.
Qed.

(* 2. consecutive permutations, and last -> first, differ by one adjacent transposition *)
Lemma sjt_adjacent : forall n, (2 <= n)%nat -> let ps := generate_single_swap_permutations n in
  (forall k, (k + 1 < length ps)%nat -> adj_swap n (nth k ps []) (nth (k + 1) ps [])) /\
  adj_swap n (last ps []) (hd [] ps).
Proof.
  intros n Hn ps. destruct (gen_cycle n Hn) as [Hc Hw]. fold ps in Hc, Hw.
  assert (Hlen : forall p, In p ps -> length p = n).
  { intros p Hp. apply cov_is_perm_length. exact (proj1 (gen_enumerates n) p Hp). }
  split.
  - intros k Hk. pose proof (chain_nth adj ps [] Hc k Hk) as Ha.
    apply adj_adj_swap in Ha. rewrite Hlen in Ha; [exact Ha|]. apply nth_In. lia.
  - apply adj_adj_swap in Hw. rewrite Hlen in Hw; [exact Hw|].
    pose proof (gen_nonnil n) as Hne. fold ps in Hne.
    destruct (exists_last Hne) as [l [a E]]. rewrite E, last_last. apply in_or_app. right. left. reflexivity.
Qed.

(* ------------------------------------------------------------------ 7. find_permutation_swap on adjacent lists *)
Definition adjd (p1 p2 : list N) : Prop :=
  exists l1 a b l2, a <> b /\ p1 = l1 ++ a :: b :: l2 /\ p2 = l1 ++ b :: a :: l2.

Lemma adj_adjd p1 p2 : NoDup p1 -> adj p1 p2 -> adjd p1 p2.
Proof.
  intros Hnd [l1 [a [b [l2 [E1 E2]]]]]. exists l1, a, b, l2. split; [|split; assumption].
  subst p1. apply NoDup_remove_2 in Hnd.
  intros E. apply Hnd. apply in_or_app. right. left. symmetry. exact E.
Qed.

Lemma nthN_app_plus (l1 r : list N) d : nthN (l1 ++ r) (length l1 + d) = nthN r d.
Proof. unfold nthN. apply app_nth2_plus. Qed.

Lemma nthN_app_low (l1 r r' : list N) i : (i < length l1)%nat -> nthN (l1 ++ r) i = nthN (l1 ++ r') i.
Proof. intros H. unfold nthN. rewrite !app_nth1 by exact H. reflexivity. Qed.

Lemma nthN_swapped_other l1 a b l2 i : i <> length l1 -> i <> (length l1 + 1)%nat ->
  nthN (l1 ++ a :: b :: l2) i = nthN (l1 ++ b :: a :: l2) i.
Proof.
  intros H0 H1. destruct (Nat.lt_ge_cases i (length l1)) as [Hlt|Hge].
  - apply nthN_app_low. exact Hlt.
  - replace i with (length l1 + S (S (i - length l1 - 2)))%nat by lia.
    rewrite !nthN_app_plus. reflexivity.
Qed.

Lemma find_first_diff_spec p1 p2 i0 : nthN p1 i0 <> nthN p2 i0 ->
  forall fuel j, (j <= i0)%nat -> (forall m, (j <= m < i0)%nat -> nthN p1 m = nthN p2 m) ->
  (i0 - j < fuel)%nat -> find_first_diff p1 p2 j fuel = Some i0.
Proof.
  intros Hd. induction fuel as [|f IH]; intros j Hj Heq Hf; [lia|].
  cbn [find_first_diff]. destruct (N.eqb_spec (nthN p1 j) (nthN p2 j)) as [E|E]; cbn [negb].
  - assert (j <> i0) by (intros ->; exact (Hd E)).
    apply IH; [lia | intros m Hm; apply Heq; lia | lia].
  - destruct (Nat.eq_dec j i0) as [->|Hne]; [reflexivity|].
    exfalso. apply E. apply Heq. lia.
Qed.

Lemma check_fold_ok p1 p2 ind l :
  (forall i, In i l -> i <> ind -> i <> (ind + 1)%nat -> nthN p1 i = nthN p2 i) ->
  fold_left (fun (acc : res unit) (i : nat) =>
               bind acc (fun _ => if negb (Nat.eqb i ind) && negb (Nat.eqb i (ind + 1))
                                  then always (nthN p1 i =? nthN p2 i) else Ok tt))
            l (Ok tt) = Ok tt.
Proof.
  induction l as [|x l IH]; intros H; [reflexivity|].
  cbn [fold_left bind].
  replace (if negb (Nat.eqb x ind) && negb (Nat.eqb x (ind + 1)) then always (nthN p1 x =? nthN p2 x) else Ok tt)
    with (@Ok unit tt).
  - apply IH. intros i Hi. apply H. right. exact Hi.
  - destruct (Nat.eqb_spec x ind) as [E0|E0]; [reflexivity|].
    destruct (Nat.eqb_spec x (ind + 1)) as [E1|E1]; [reflexivity|]. cbn [negb andb].
    rewrite (H x (or_introl eq_refl) E0 E1), N.eqb_refl. reflexivity.
Qed.

Lemma find_permutation_swap_struct l1 a b l2 : a <> b ->
  find_permutation_swap (l1 ++ a :: b :: l2) (l1 ++ b :: a :: l2) = Ok (N.of_nat (length l1)).
Proof.
  intros Hab.
  set (p1 := l1 ++ a :: b :: l2). set (p2 := l1 ++ b :: a :: l2).
  assert (Hlen : length p2 = length p1) by (unfold p1, p2; rewrite !app_length; reflexivity).
  assert (Hl1 : length p1 = (length l1 + 2 + length l2)%nat).
  { unfold p1. rewrite app_length. cbn [length]. lia. }
  assert (Ha1 : nthN p1 (length l1) = a).
  { unfold p1. rewrite <- (Nat.add_0_r (length l1)). rewrite nthN_app_plus. reflexivity. }
  assert (Ha2 : nthN p2 (length l1) = b).
  { unfold p2. rewrite <- (Nat.add_0_r (length l1)). rewrite nthN_app_plus. reflexivity. }
  assert (Hb1 : nthN p1 (length l1 + 1) = b) by (unfold p1; rewrite nthN_app_plus; reflexivity).
  assert (Hb2 : nthN p2 (length l1 + 1) = a) by (unfold p2; rewrite nthN_app_plus; reflexivity).
  unfold find_permutation_swap. rewrite Hlen, Nat.eqb_refl. cbn [always bind].
  rewrite (find_first_diff_spec p1 p2 (length l1)).
  - unfold check_permutation_swap. rewrite Hlen, Nat.eqb_refl. cbn [always bind].
    rewrite check_fold_ok.
    + cbn [bind]. replace (Nat.ltb (length l1 + 1) (length p1)) with true
        by (symmetry; apply Nat.ltb_lt; lia).
      cbn [always bind]. rewrite Ha1, Hb2, Hb1, Ha2, !N.eqb_refl. reflexivity.
    + intros i _ H0 H1. apply nthN_swapped_other; assumption.
  - rewrite Ha1, Ha2. exact Hab.
  - lia.
  - intros m Hm. apply nthN_app_low. lia.
  - lia.
Qed.

Lemma adjd_find p1 p2 : adjd p1 p2 ->
  exists i, (i + 1 < length p1)%nat /\ find_permutation_swap p1 p2 = Ok (N.of_nat i) /\
            swap_entries p1 (N.of_nat i) = p2.
Proof.
  intros [l1 [a [b [l2 [Hab [E1 E2]]]]]]. subst p1 p2. exists (length l1). split; [|split].
  - rewrite app_length. cbn [length]. lia.
  - apply find_permutation_swap_struct. exact Hab.
  - apply swap_entries_struct.
Qed.

(* ------------------------------------------------------------------ 8. swaps_between, generate_swaps *)
Lemma swaps_between_chain n perms : Forall (fun p => length p = n) perms -> chain adjd perms ->
  exists sw, swaps_between perms = Ok sw /\ length sw = (length perms - 1)%nat /\ swaps_valid n sw = true /\
             perms_after (hd [] perms) sw = tl perms.
Proof.
  induction perms as [|p1 rest IH]; intros HL Hc.
  - exists []. repeat split.
  - destruct rest as [|p2 rest].
    + exists []. repeat split.
    + destruct Hc as [Hadj Hc]. inversion HL as [|c r Hp1 HL']. subst c r.
      destruct (IH HL' Hc) as [sw [Esw [Hlen [Hval Hwalk]]]].
      destruct (adjd_find p1 p2 Hadj) as [i [Hi [Ef Es]]].
      exists (N.of_nat i :: sw). split; [|split; [|split]].
      * change (swaps_between (p1 :: p2 :: rest))
          with (bind (find_permutation_swap p1 p2)
                  (fun s => bind (swaps_between (p2 :: rest)) (fun r => Ok (s :: r)))).
        rewrite Ef, Esw. reflexivity.
      * cbn [length] in Hlen |- *. lia.
      * unfold swaps_valid in Hval |- *. cbn [forallb]. rewrite Hval, andb_true_r.
        apply N.ltb_lt. lia.
      * cbn [hd tl perms_after]. rewrite Es. f_equal. exact Hwalk.
Qed.

Lemma perms_after_app s1 : forall p s2,
  perms_after p (s1 ++ s2) = perms_after p s1 ++ perms_after (last (perms_after p s1) p) s2.
Proof.
  induction s1 as [|s s1 IH]; intros p s2; [reflexivity|].
  cbn [app perms_after]. rewrite IH. f_equal. f_equal. f_equal.
  symmetry. apply cw_last_cons.
Qed.

Lemma swaps_valid_app n s1 s2 : swaps_valid n (s1 ++ s2) = swaps_valid n s1 && swaps_valid n s2.
Proof. unfold swaps_valid. apply forallb_app. Qed.

Lemma gen_length_ge2 n : (2 <= n)%nat -> (2 <= length (gen n))%nat.
Proof.
  intros H. pose proof (gen_even n H) as He. pose proof (gen_nonnil n) as Hn.
  destruct (gen n) as [|a [|b l]]; [contradiction|discriminate|cbn [length]; lia].
Qed.

(* 3. the model's generator does not panic; its result drives a walk through the generated list, cyclically *)
Theorem generate_swaps_ok : forall n, (2 <= n)%nat ->
  let ps := generate_single_swap_permutations n in
  exists sw, generate_swaps n true = Ok sw /\ swaps_valid n sw = true /\ sw <> [] /\
             length sw = length ps /\ length ps = fact n /\
             perms_after (hd [] ps) sw = tl ps ++ [hd [] ps].
Proof.
  intros n Hn ps.
  destruct (gen_cycle n Hn) as [Hc Hw]. fold ps in Hc, Hw.
  pose proof (gen_Forall_length n) as HL. fold ps in HL.
  assert (Hnd : Forall (@NoDup N) ps).
  { apply Forall_forall. intros p Hp. apply (perm_NoDup n). exact (proj1 (gen_enumerates n) p Hp). }
  pose proof (gen_length_ge2 n Hn) as H2. fold ps in H2.
  assert (Hcd : chain adjd ps) by (apply (chain_impl_Forall adj adjd (@NoDup N)); [exact adj_adjd|exact Hnd|exact Hc]).
  destruct (swaps_between_chain n ps HL Hcd) as [sw [Esw [Hlen [Hval Hwalk]]]].
  destruct ps as [|q0 tlps] eqn:Eps; [cbn [length] in H2; lia|].
  assert (Hlast_in : In (last (q0 :: tlps) []) (q0 :: tlps)).
  { destruct (@exists_last _ (q0 :: tlps) ltac:(discriminate)) as [l [a E]].
    rewrite E, last_last. apply in_or_app. right. left. reflexivity. }
  assert (Hwd : adjd (last (q0 :: tlps) []) q0).
  { apply adj_adjd; [|exact Hw]. exact (proj1 (Forall_forall _ _) Hnd _ Hlast_in). }
  destruct (adjd_find _ _ Hwd) as [i [Hi [Ef Es]]].
  rewrite (proj1 (Forall_forall _ _) HL _ Hlast_in) in Hi.
  exists (sw ++ [N.of_nat i]). split; [|split; [|split; [|split; [|split]]]].
  - unfold generate_swaps. fold ps. rewrite Eps, Esw. cbn [bind andb].
    replace (Nat.eqb (length sw) 0) with false by (symmetry; apply Nat.eqb_neq; cbn [length] in H2, Hlen; lia).
    cbn [negb hd]. rewrite Ef. reflexivity.
  - rewrite swaps_valid_app, Hval. unfold swaps_valid. cbn [forallb andb]. rewrite andb_true_r.
    apply N.ltb_lt. lia.
  - intros E. apply app_eq_nil in E. destruct E as [_ E]. discriminate.
  - rewrite app_length, Hlen. cbn [length] in H2 |- *. lia.
  - rewrite <- Eps. apply gen_length.
  - cbn [hd tl] in Hwalk |- *. rewrite perms_after_app, Hwalk. f_equal.
    rewrite <- (cw_last_cons q0 tlps []). cbn [perms_after]. rewrite Es. reflexivity.
Qed.

(* ------------------------------------------------------------------ 9. relabelling the values commutes with swaps *)
Lemma upd_map {A B} (g : A -> B) (l : list A) : forall i x, upd (map g l) i (g x) = map g (upd l i x).
Proof.
  induction l as [|y l IH]; intros [|i] x; try reflexivity.
  cbn [map upd]. f_equal. apply IH.
Qed.

Lemma nthN_map_lt (g : N -> N) p i : (i < length p)%nat -> nthN (map g p) i = g (nthN p i).
Proof.
  intros H. unfold nthN. rewrite (nth_indep _ 0 (g 0)) by (rewrite map_length; exact H). apply map_nth.
Qed.

Lemma swap_entries_map g p s : (N.to_nat s + 1 < length p)%nat ->
  swap_entries (map g p) s = map g (swap_entries p s).
Proof.
  intros H. unfold swap_entries. rewrite !nthN_map_lt by lia. rewrite !upd_map. reflexivity.
Qed.

Lemma perms_after_map g sw : forall p, swaps_valid (length p) sw = true ->
  perms_after (map g p) sw = map (map g) (perms_after p sw).
Proof.
  unfold swaps_valid. induction sw as [|s sw IH]; intros p Hv; [reflexivity|].
  cbn [forallb] in Hv. apply andb_true_iff in Hv. destruct Hv as [Hs Hv]. apply N.ltb_lt in Hs.
  cbn [perms_after map]. rewrite swap_entries_map by lia. f_equal.
  apply IH. rewrite swap_entries_length. exact Hv.
Qed.

(* the relabelling that sends q0 to the identity, and its inverse *)
Definition lab (q0 : list N) (v : N) : N := N.of_nat (find_idx q0 v).
Definition unlab (q0 : list N) (v : N) : N := nthN q0 (N.to_nat v).

Lemma map_lab_self n q0 : is_perm n q0 -> map (lab q0) q0 = identity n.
Proof.
  intros Hq. pose proof (cov_is_perm_length n q0 Hq) as Hl.
  apply (nth_ext _ _ 0 0).
  - rewrite map_length, cov_identity_length. exact Hl.
  - intros i Hi. rewrite map_length, Hl in Hi.
    change (nthN (map (lab q0) q0) i = nthN (identity n) i).
    rewrite nthN_map_lt by lia. rewrite identity_nth by exact Hi.
    unfold lab. rewrite (find_idx_nth n q0 i Hq Hi). reflexivity.
Qed.

Lemma map_unlab_identity n q0 : length q0 = n -> map (unlab q0) (identity n) = q0.
Proof.
  intros Hl. apply (nth_ext _ _ 0 0).
  - rewrite map_length, cov_identity_length. symmetry. exact Hl.
  - intros i Hi. rewrite map_length, cov_identity_length in Hi.
    change (nthN (map (unlab q0) (identity n)) i = nthN q0 i).
    rewrite nthN_map_lt by (rewrite cov_identity_length; exact Hi).
    rewrite identity_nth by exact Hi. unfold unlab. rewrite Nat2N.id. reflexivity.
Qed.

Lemma lab_unlab n q0 v : is_perm n q0 -> v < N.of_nat n -> lab q0 (unlab q0 v) = v.
Proof.
  intros Hq Hv. unfold lab, unlab. rewrite (find_idx_nth n q0 _ Hq) by lia. apply N2Nat.id.
Qed.

Lemma list_N_eqb_refl l : list_N_eqb l l = true.
Proof. unfold list_N_eqb. destruct (list_eq_dec N.eq_dec l l) as [_|C]; [reflexivity|contradiction]. Qed.

(* 4. the walk from the identity is closed and visits every permutation *)
Theorem sjt_general : forall n, (2 <= n)%nat ->
  exists sw, generate_swaps n true = Ok sw /\ swaps_valid n sw = true /\ swaps_closed n sw = true /\ sw <> [] /\
             forall p, is_perm n p -> In p (perms_after (identity n) sw).
Proof.
  intros n Hn. destruct (generate_swaps_ok n Hn) as [sw [Egen [Hval [Hne [_ [_ Hwalk]]]]]].
  destruct (gen_enumerates n) as [Hperm [_ Hall]].
  pose proof (gen_nonnil n) as Hnn.
  destruct (gen n) as [|q0 tlps] eqn:Eps; [contradiction|]. cbn [hd tl] in Hwalk.
  assert (Hq0 : is_perm n q0) by (apply Hperm; left; reflexivity).
  pose proof (cov_is_perm_length n q0 Hq0) as Hl0.
  assert (Evis : perms_after (identity n) sw = map (map (lab q0)) (tlps ++ [q0])).
  { rewrite <- (map_lab_self n q0 Hq0), perms_after_map by (rewrite Hl0; exact Hval).
    rewrite Hwalk. reflexivity. }
  exists sw. split; [exact Egen|]. split; [exact Hval|]. split; [|split; [exact Hne|]].
  - unfold swaps_closed. rewrite Evis, map_app. cbn [map]. rewrite last_last, (map_lab_self n q0 Hq0).
    apply list_N_eqb_refl.
  - intros p Hp. rewrite Evis.
    assert (Hq : is_perm n (map (unlab q0) p)).
    { unfold is_perm. eapply Permutation_trans; [apply Permutation_map; exact Hp|].
      rewrite (map_unlab_identity n q0 Hl0). exact Hq0. }
    assert (Ep : map (lab q0) (map (unlab q0) p) = p).
    { rewrite map_map. rewrite <- (map_id p) at 2. apply map_ext_in. intros v Hv.
      apply (lab_unlab n q0 v Hq0). exact (cov_is_perm_entries n p v Hp Hv). }
    rewrite <- Ep. apply in_map. apply Hall in Hq. apply in_or_app.
    destruct Hq as [E|Hin]; [right; left; exact E | left; exact Hin].
Qed.

(* n <= 6 from the generated table SWAPS (computation of Proofs/Coverage.v), n >= 7 from sjt_general *)
Theorem coverage_P_general : forall n, (2 <= n)%nat ->
  exists sw, swaps_for n = Ok sw /\ swaps_valid n sw = true /\ swaps_closed n sw = true /\ sw <> [] /\
             forall p, is_perm n p -> In (p, 0) (p_certs n sw).
Proof.
  intros n Hn. destruct (Nat.leb_spec n 6) as [Hle|Hgt].
  - apply coverage_P. lia.
  - destruct (sjt_general n Hn) as [sw [Egen [Hval [Hcl [Hne Hcov]]]]].
    exists sw. split.
    + unfold swaps_for. destruct (Nat.leb_spec n 6) as [L|_]; [lia|exact Egen].
    + split; [exact Hval|]. split; [exact Hcl|]. split; [exact Hne|].
      intros p Hp. apply p_certs_in. apply Hcov. exact Hp.
Qed.

(* ------------------------------------------------------------------ 10. P canonization, every n below the usize bound *)
Theorem p_main_general : forall n t, N.of_nat n < 2 ^ 64 -> wf n t ->
  exists c perm, p_canonization n t = Ok (c, perm) /\ wf n c /\ cert_ok n (val t) (val c) perm 0 /\
    forall perm' c', is_perm n perm' -> wf n c' ->
      (forall y, y < 2 ^ N.of_nat n -> val c' y = act n perm' 0 (val t) y) -> big c <= big c'.
Proof.
  intros n t Hn64 Hwf. destruct (Nat.le_gt_cases n 1) as [Hs|Hb].
  - destruct (p_small n t Hs Hwf) as [E [Hc Hm]]. exists t, (identity n).
    split; [exact E|]. split; [exact Hwf|]. split; [exact Hc|exact Hm].
  - destruct (coverage_P_general n ltac:(lia)) as [sw [Hsw [Hv [Hc [Hne Hcov]]]]].
    destruct (p_generic n t sw ltac:(lia) Hn64 Hwf Hsw Hv Hc Hne) as [c [perm [E [Hwc [Hcert Hmin]]]]].
    exists c, perm. split; [exact E|]. split; [exact Hwc|]. split; [exact Hcert|].
    intros perm' c' Hp. apply Hmin. apply Hcov. exact Hp.
Qed.

Theorem p_cert_general : forall n t, N.of_nat n < 2 ^ 64 -> wf n t ->
  exists c perm, p_canonization n t = Ok (c, perm) /\ wf n c /\ cert_ok n (val t) (val c) perm 0.
Proof.
  intros n t Hn Hwf. destruct (p_main_general n t Hn Hwf) as [c [perm [E [Hwc [Hcert _]]]]].
  exists c, perm. split; [exact E|]. split; assumption.
Qed.

Theorem p_min_general : forall n t, N.of_nat n < 2 ^ 64 -> wf n t ->
  exists c perm, p_canonization n t = Ok (c, perm) /\
    forall perm' c', is_perm n perm' -> wf n c' ->
      (forall y, y < 2 ^ N.of_nat n -> val c' y = act n perm' 0 (val t) y) -> big c <= big c'.
Proof.
  intros n t Hn Hwf. destruct (p_main_general n t Hn Hwf) as [c [perm [E [_ [_ Hmin]]]]].
  exists c, perm. split; [exact E|exact Hmin].
Qed.

Theorem p_min_cmp_general : forall n t, N.of_nat n < 2 ^ 64 -> wf n t ->
  exists c perm, p_canonization n t = Ok (c, perm) /\
    forall perm' c', is_perm n perm' -> wf n c' ->
      (forall y, y < 2 ^ N.of_nat n -> val c' y = act n perm' 0 (val t) y) -> cmp c c' = Ok Lt \/ c = c'.
Proof.
  intros n t Hn Hwf. destruct (p_main_general n t Hn Hwf) as [c [perm [E [Hwc [_ Hmin]]]]].
  exists c, perm. split; [exact E|]. intros perm' c' Hp Hwc' Hval.
  apply (le_big_cmp n); [exact Hwc|exact Hwc'|]. exact (Hmin perm' c' Hp Hwc' Hval).
Qed.

Theorem p_already_canonical_general : forall n t perm, N.of_nat n < 2 ^ 64 -> wf n t ->
  p_canonization n t = Ok (t, perm) -> cert_ok n (val t) (val t) perm 0.
Proof.
  intros n t perm Hn Hwf E. destruct (p_cert_general n t Hn Hwf) as [c [perm' [E' [_ Hcert]]]].
  rewrite E in E'. injection E' as <- <-. exact Hcert.
Qed.

(* consequences of minimality and the group laws (the abstract argument of Proofs/CanonOrbit.v) *)
Lemma Kp_spec_general n : N.of_nat n < 2 ^ 64 -> forall t c, wf n t -> Kp n t c ->
  wf n c /\ equivP n (val t) (val c) /\ forall c', wf n c' -> equivP n (val t) (val c') -> big c <= big c'.
Proof.
  intros Hn t c Hwf [perm E].
  destruct (p_main_general n t Hn Hwf) as [c0 [perm0 [E0 [Hwc [[Hp [Hm Hv]] Hmin]]]]].
  rewrite E in E0. injection E0 as <- <-.
  split; [exact Hwc|]. split.
  - exists perm. split; [exact Hp|exact Hv].
  - intros c' Hwc' [p' [Hp' Hv']]. exact (Hmin p' c' Hp' Hwc' Hv').
Qed.

Theorem p_idempotent_general : forall n t, N.of_nat n < 2 ^ 64 -> wf n t ->
  exists c perm perm', p_canonization n t = Ok (c, perm) /\ p_canonization n c = Ok (c, perm').
Proof.
  intros n t Hn Hwf.
  destruct (p_main_general n t Hn Hwf) as [c [perm [E [Hwc _]]]].
  destruct (p_main_general n c Hn Hwc) as [c2 [perm' [E2 _]]].
  assert (Ec : c2 = c).
  { apply (orbit_idem n (equivP n) (equivP_sym n) (equivP_trans n) (Kp n)
             (Kp_spec_general n Hn) t c c2 Hwf).
    - exists perm. exact E.
    - exists perm'. exact E2. }
  subst c2. exists c, perm, perm'. split; assumption.
Qed.

Theorem p_same_rep_iff_general : forall n t1 t2, N.of_nat n < 2 ^ 64 -> wf n t1 -> wf n t2 ->
  exists c1 p1 c2 p2,
    p_canonization n t1 = Ok (c1, p1) /\ p_canonization n t2 = Ok (c2, p2) /\
    (c1 = c2 <-> equivP n (val t1) (val t2)).
Proof.
  intros n t1 t2 Hn H1 H2.
  destruct (p_main_general n t1 Hn H1) as [c1 [p1 [E1 _]]].
  destruct (p_main_general n t2 Hn H2) as [c2 [p2 [E2 _]]].
  exists c1, p1, c2, p2. split; [exact E1|]. split; [exact E2|].
  apply (orbit_same n (equivP n) (equivP_sym n) (equivP_trans n) (Kp n) (Kp_spec_general n Hn) t1 t2 c1 c2 H1 H2).
  - exists p1. exact E1.
  - exists p2. exact E2.
Qed.
