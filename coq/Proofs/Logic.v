(* C01: the word-wise logic kernels are exact pointwise operations, and the API forms forward to them. *)
From Coq Require Import List NArith Arith Bool Lia.
From V Require Import Base.Res Gen.Tables Model.Kernels Model.Api Base.Bits Spec.Bfun Proofs.Wf.
Import ListNotations.
Open Scope N_scope.

Section Binop.
  Variable f : N -> N -> N.
  Variable fb : bool -> bool -> bool.
  Hypothesis f_spec : forall x y p, N.testbit (f x y) p = fb (N.testbit x p) (N.testbit y p).
  Hypothesis fb_false : fb false false = false.

  Lemma f_zero : f 0 0 = 0.
  Proof. apply N.bits_inj_0. intro p. rewrite f_spec, !N.bits_0. exact fb_false. Qed.

  Lemma f_lt x y k : x < 2 ^ k -> y < 2 ^ k -> f x y < 2 ^ k.
  Proof.
    intros Hx Hy. apply lt_pow2_of_bits. intros p Hp. rewrite f_spec.
    rewrite (testbit_lt_pow2 x k p), (testbit_lt_pow2 y k p) by assumption. exact fb_false.
  Qed.

  Lemma binop_sem n a b :
    wf n a -> wf n b ->
    exists c, binop_inplace f a b = Ok c /\ wf n c /\ forall m, val c m = fb (val a m) (val b m).
  Proof.
    intros Ha Hb. exists (map2 f a b).
    assert (Hl : length a = length b) by (rewrite (wf_length n a Ha), (wf_length n b Hb); reflexivity).
    split; [|split].
    - unfold binop_inplace. rewrite Hl, Nat.eqb_refl. reflexivity.
    - split.
      + rewrite map2_length by exact Hl. apply (wf_length n a Ha).
      + destruct Ha as [_ Ha], Hb as [_ Hb]. rewrite Forall_forall in Ha, Hb.
        apply Forall_map2; [exact Hl|]. intros x y Hx Hy. apply f_lt; auto.
    - intro m. unfold val. rewrite nthN_map2 by (exact f_zero || exact Hl). apply f_spec.
  Qed.
End Binop.

Lemma and_sem n a b : wf n a -> wf n b ->
  exists c, and_inplace a b = Ok c /\ wf n c /\ forall m, val c m = val a m && val b m.
Proof. apply binop_sem; [apply N.land_spec|reflexivity]. Qed.

Lemma or_sem n a b : wf n a -> wf n b ->
  exists c, or_inplace a b = Ok c /\ wf n c /\ forall m, val c m = val a m || val b m.
Proof. apply binop_sem; [apply N.lor_spec|reflexivity]. Qed.

Lemma xor_sem n a b : wf n a -> wf n b ->
  exists c, xor_inplace a b = Ok c /\ wf n c /\ forall m, val c m = xorb (val a m) (val b m).
Proof. apply binop_sem; [apply N.lxor_spec|reflexivity]. Qed.

Lemma not_word_lt n w : N.land (num_vars_mask n) (not64 w) < 2 ^ word_bits n.
Proof. apply land_lt_l. apply nvmask_lt. Qed.

Lemma not_wf n a : wf n a -> wf n (not_inplace n a).
Proof.
  intros [Hl _]. split.
  - unfold not_inplace. rewrite map_length. exact Hl.
  - unfold not_inplace. apply Forall_forall. intros x Hx. apply in_map_iff in Hx.
    destruct Hx as [w [<- _]]. apply not_word_lt.
Qed.

Lemma not_sem n a : wf n a ->
  wf n (not_inplace n a) /\
  (forall m, m < 2 ^ N.of_nat n -> val (not_inplace n a) m = negb (val a m)) /\
  (forall m, 2 ^ N.of_nat n <= m -> val (not_inplace n a) m = false).
Proof.
  intros Ha. split; [apply not_wf; exact Ha|]. split.
  - intros m Hm. destruct (assignment_in_range n m Hm) as [Hk Hq].
    unfold val, not_inplace.
    set (k := N.to_nat (m / 64)) in *.
    assert (Hk' : (k < length a)%nat) by (rewrite (wf_length n a Ha); exact Hk).
    unfold nthN. rewrite (nth_indep _ 0 (N.land (num_vars_mask n) (not64 0))) by (rewrite map_length; exact Hk').
    rewrite (map_nth (fun w => N.land (num_vars_mask n) (not64 w))).
    rewrite N.land_spec, nvmask_testbit.
    assert (Hq64 : m mod 64 < 64) by (apply N.mod_lt; lia).
    rewrite not64_spec_low by exact Hq64.
    destruct (N.ltb_spec (m mod 64) (word_bits n)); [reflexivity|lia].
  - intros m Hm. apply (val_out_of_range n); [apply not_wf; exact Ha|exact Hm].
Qed.

(* ---- the API layer: every syntactic form of an operator is the same model function (the harness exercises each
        Rust form against it); the size guard is always on *)
Lemma D_and_sem a b : wf (nv a) (tbl a) -> wf (nv b) (tbl b) -> nv a = nv b ->
  exists c, D_and a b = Ok c /\ nv c = nv a /\ wf (nv c) (tbl c) /\
            forall m, val (tbl c) m = val (tbl a) m && val (tbl b) m.
Proof.
  intros Ha Hb E. rewrite <- E in Hb. destruct (and_sem _ _ _ Ha Hb) as [c [H1 [H2 H3]]].
  exists (mkLut (nv a) c). unfold D_and, check_lut. rewrite <- E, Nat.eqb_refl. simpl.
  unfold with_tbl. rewrite H1. simpl. auto.
Qed.

Lemma D_or_sem a b : wf (nv a) (tbl a) -> wf (nv b) (tbl b) -> nv a = nv b ->
  exists c, D_or a b = Ok c /\ nv c = nv a /\ wf (nv c) (tbl c) /\
            forall m, val (tbl c) m = val (tbl a) m || val (tbl b) m.
Proof.
  intros Ha Hb E. rewrite <- E in Hb. destruct (or_sem _ _ _ Ha Hb) as [c [H1 [H2 H3]]].
  exists (mkLut (nv a) c). unfold D_or, check_lut. rewrite <- E, Nat.eqb_refl. simpl.
  unfold with_tbl. rewrite H1. simpl. auto.
Qed.

Lemma D_xor_sem a b : wf (nv a) (tbl a) -> wf (nv b) (tbl b) -> nv a = nv b ->
  exists c, D_xor a b = Ok c /\ nv c = nv a /\ wf (nv c) (tbl c) /\
            forall m, val (tbl c) m = xorb (val (tbl a) m) (val (tbl b) m).
Proof.
  intros Ha Hb E. rewrite <- E in Hb. destruct (xor_sem _ _ _ Ha Hb) as [c [H1 [H2 H3]]].
  exists (mkLut (nv a) c). unfold D_xor, check_lut. rewrite <- E, Nat.eqb_refl. simpl.
  unfold with_tbl. rewrite H1. simpl. auto.
Qed.

Lemma D_not_sem a : wf (nv a) (tbl a) ->
  exists c, D_not a = Ok c /\ nv c = nv a /\ wf (nv c) (tbl c) /\
            forall m, m < 2 ^ N.of_nat (nv a) -> val (tbl c) m = negb (val (tbl a) m).
Proof.
  intros Ha. destruct (not_sem _ _ Ha) as [H1 [H2 _]].
  eexists. split; [reflexivity|]. simpl. auto.
Qed.

(* a size mismatch panics in every build profile, for every binary operator *)
Lemma D_binop_size_guard a b : nv a <> nv b ->
  D_and a b = PanicAlways /\ D_or a b = PanicAlways /\ D_xor a b = PanicAlways.
Proof.
  intros E. apply Nat.eqb_neq in E. unfold D_and, D_or, D_xor, check_lut. rewrite E. simpl. auto.
Qed.
