(* C10 (conversion part): LutN <-> Lut, from_blocks, the integer conversions of Lut3..Lut6, accessors,
   structural equality and hashing. *)
From Coq Require Import String List NArith Arith Bool Lia.
From V Require Import Base.Res Gen.Tables Gen.Surface Model.Kernels Model.Api Base.Bits Spec.Bfun
  Proofs.Wf Proofs.Order.
Import ListNotations.
Open Scope N_scope.

(* ------------------------------------------------------------------ the exported aliases (generated list) *)
(* LutN = StaticLut<N, T> with T = table_size N, for N = 0..12 in order *)
Lemma aliases_ok : forallb (fun '(name, n, t) => Nat.eqb t (table_size n)) aliases = true.
Proof. vm_compute. reflexivity. Qed.

Lemma aliases_vars : map (fun '(name, n, t) => n) aliases = seq 0 13.
Proof. vm_compute. reflexivity. Qed.

Lemma aliases_names :
  map (fun '(name, n, t) => name) aliases =
  ["Lut0"; "Lut1"; "Lut2"; "Lut3"; "Lut4"; "Lut5"; "Lut6"; "Lut7"; "Lut8"; "Lut9"; "Lut10"; "Lut11"; "Lut12"]%string.
Proof. vm_compute. reflexivity. Qed.

Lemma alias_size name n t : In (name, n, t) aliases -> t = table_size n /\ (n <= 12)%nat.
Proof.
  intros Hin. split.
  - pose proof aliases_ok as H. rewrite forallb_forall in H. specialize (H _ Hin). cbv beta iota in H.
    apply Nat.eqb_eq in H. exact H.
  - assert (Hn : In n (map (fun '(name, n, t) => n) aliases)).
    { apply in_map_iff. exists (name, n, t). split; [reflexivity|exact Hin]. }
    rewrite aliases_vars in Hn. apply in_seq in Hn. lia.
Qed.

Lemma record_eta (l : lut) : mkLut (nv l) (tbl l) = l.
Proof. destruct l; reflexivity. Qed.

(* ------------------------------------------------------------------ 3. from_blocks *)
Lemma D_from_blocks_ok n blocks : length blocks = table_size n -> D_from_blocks n blocks = Ok (mkLut n blocks).
Proof.
  intros H. unfold D_from_blocks. rewrite D_zero_eq. cbn [bind]. unfold num_blocks. cbn [nv].
  rewrite H, Nat.eqb_refl. reflexivity.
Qed.

Lemma D_from_blocks_panic n blocks : length blocks <> table_size n -> D_from_blocks n blocks = PanicAlways.
Proof.
  intros H. unfold D_from_blocks. rewrite D_zero_eq. cbn [bind]. unfold num_blocks. cbn [nv].
  apply Nat.eqb_neq in H. rewrite H. reflexivity.
Qed.

Lemma S_from_blocks_ok n blocks : length blocks = table_size n -> S_from_blocks n blocks = Ok (mkLut n blocks).
Proof. intros H. unfold S_from_blocks. rewrite H, Nat.eqb_refl. reflexivity. Qed.

Lemma S_from_blocks_panic n blocks : length blocks <> table_size n -> S_from_blocks n blocks = PanicAlways.
Proof. intros H. unfold S_from_blocks. apply Nat.eqb_neq in H. rewrite H. reflexivity. Qed.

Lemma from_blocks_wf n blocks : wf n blocks ->
  exists l, D_from_blocks n blocks = Ok l /\ S_from_blocks n blocks = Ok l /\
            nv l = n /\ tbl l = blocks /\ wf (nv l) (tbl l).
Proof.
  intros H. exists (mkLut n blocks). rewrite D_from_blocks_ok, S_from_blocks_ok by apply (wf_length n blocks H).
  cbn [nv tbl]. auto.
Qed.

(* ------------------------------------------------------------------ 1. LutN -> Lut *)
Lemma to_dyn_exact l :
  (length (tbl l) = table_size (nv l) -> D_from_static l = Ok l) /\
  (length (tbl l) <> table_size (nv l) -> D_from_static l = PanicAlways).
Proof.
  unfold D_from_static. split; intros H.
  - rewrite D_from_blocks_ok by exact H. rewrite record_eta. reflexivity.
  - apply D_from_blocks_panic. exact H.
Qed.

Lemma to_dyn l : wf (nv l) (tbl l) -> D_from_static l = Ok l.
Proof. intros H. apply to_dyn_exact. apply (wf_length _ _ H). Qed.

(* ------------------------------------------------------------------ 2. Lut -> LutN *)
Lemma try_from_none n l : S_try_from n l = Ok None <-> nv l <> n.
Proof.
  unfold S_try_from. destruct (Nat.eqb_spec (nv l) n) as [E|E]; cbn [negb].
  - split; [|intros H; contradiction]. intros H. exfalso.
    destruct (S_from_blocks n (tbl l)); cbn [bind] in H; discriminate H.
  - split; [intros _; exact E|reflexivity].
Qed.

Lemma try_from_some n l : nv l = n -> length (tbl l) = table_size n -> S_try_from n l = Ok (Some l).
Proof.
  intros E H. unfold S_try_from. rewrite E, Nat.eqb_refl. cbn [negb].
  rewrite S_from_blocks_ok by exact H. cbn [bind]. rewrite <- E, record_eta. reflexivity.
Qed.

Lemma try_from_panic n l : nv l = n -> length (tbl l) <> table_size n -> S_try_from n l = PanicAlways.
Proof.
  intros E H. unfold S_try_from. rewrite E, Nat.eqb_refl. cbn [negb].
  rewrite S_from_blocks_panic by exact H. reflexivity.
Qed.

(* LutN -> Lut -> LutN ; only the type invariant (table_size words) is needed *)
Lemma roundtrip_len l d : length (tbl l) = table_size (nv l) ->
  D_from_static l = Ok d -> S_try_from (nv l) d = Ok (Some l).
Proof.
  intros H E. rewrite (proj1 (to_dyn_exact l) H) in E. injection E as <-.
  apply try_from_some; [reflexivity|exact H].
Qed.

Lemma roundtrip l d : wf (nv l) (tbl l) -> D_from_static l = Ok d -> S_try_from (nv l) d = Ok (Some l).
Proof. intros H. apply roundtrip_len. apply (wf_length _ _ H). Qed.

(* Lut -> LutN -> Lut *)
Lemma roundtrip_back n d s : S_try_from n d = Ok (Some s) -> s = d /\ nv d = n /\ D_from_static s = Ok d.
Proof.
  intros H. unfold S_try_from in H. destruct (Nat.eqb_spec (nv d) n) as [E|E]; cbn [negb] in H; [|discriminate H].
  destruct (Nat.eq_dec (length (tbl d)) (table_size n)) as [L|L].
  - rewrite S_from_blocks_ok in H by exact L. cbn [bind] in H. injection H as <-.
    rewrite <- E, record_eta. split; [reflexivity|]. split; [reflexivity|].
    apply to_dyn_exact. rewrite E. exact L.
  - rewrite S_from_blocks_panic in H by exact L. discriminate H.
Qed.

(* ------------------------------------------------------------------ 4. integers *)
Definition int_pairs : list (nat * N) := [(3%nat, 8); (4%nat, 16); (5%nat, 32); (6%nat, 64)].

Lemma int_pairs_def : int_pairs = [(3%nat, 8); (4%nat, 16); (5%nat, 32); (6%nat, 64)].
Proof. reflexivity. Qed.

Lemma int_pairs_facts n w : In (n, w) int_pairs ->
  (n <= 6)%nat /\ w = 2 ^ N.of_nat n /\ word_bits n = w /\ table_size n = 1%nat /\ w <= 64 /\
  (Nat.eqb n 6 = false ->
   N.land (not64 (var_mask n)) (N.ones (N.shiftl 1 (N.of_nat n))) = N.ones w).
Proof.
  unfold int_pairs. intros [H|[H|[H|[H|[]]]]]; injection H as <- <-;
    (split; [lia|]); (split; [reflexivity|]); (split; [reflexivity|]); (split; [reflexivity|]);
    (split; [vm_compute; discriminate|]); intros H; try discriminate H; vm_compute; reflexivity.
Qed.

(* to_int is the low w bits of the word (the `as uN` truncation), whatever lies above *)
Lemma to_int_mod n w l : In (n, w) int_pairs -> hd 0 (tbl l) < 2 ^ 64 -> S_to_int n l = hd 0 (tbl l) mod 2 ^ w.
Proof.
  intros Hin Hx. destruct (int_pairs_facts n w Hin) as [_ [_ [_ [_ [_ Hmask]]]]].
  unfold S_to_int. destruct (Nat.eqb n 6) eqn:E.
  - apply Nat.eqb_eq in E. subst n.
    assert (w = 64) as ->.
    { unfold int_pairs in Hin. destruct Hin as [H|[H|[H|[H|[]]]]]; inversion H; reflexivity. }
    rewrite N.mod_small by exact Hx. reflexivity.
  - rewrite <- N.land_assoc, Hmask by reflexivity. apply N.land_ones.
Qed.

Lemma val_single x m : m < 64 -> val [x] m = N.testbit x m.
Proof. intros H. rewrite val_cons. destruct (N.ltb_spec m 64); [reflexivity|lia]. Qed.

Lemma from_int_sem n w v : In (n, w) int_pairs -> v < 2 ^ w ->
  exists l, S_from_int n v = Ok l /\ l = mkLut n [v] /\ wf n (tbl l) /\ S_to_int n l = v /\
            forall m, m < 2 ^ N.of_nat n -> val (tbl l) m = N.testbit v m.
Proof.
  intros Hin Hv. destruct (int_pairs_facts n w Hin) as [Hn [Hw [Hwb [Hts [Hw64 _]]]]].
  exists (mkLut n [v]). unfold S_from_int. rewrite S_from_blocks_ok by (rewrite Hts; reflexivity).
  split; [reflexivity|]. split; [reflexivity|]. cbn [tbl].
  assert (Hv64 : v < 2 ^ 64).
  { eapply N.lt_le_trans; [exact Hv|]. apply N.pow_le_mono_r; [lia|exact Hw64]. }
  split; [|split].
  - split; [rewrite Hts; reflexivity|]. constructor; [rewrite Hwb; exact Hv|constructor].
  - rewrite (to_int_mod n w) by (exact Hin || exact Hv64). cbn [tbl hd]. apply N.mod_small. exact Hv.
  - intros m Hm. apply val_single. rewrite <- Hw in Hm. lia.
Qed.

Lemma to_int_sem n w l : In (n, w) int_pairs -> wf n (tbl l) -> nv l = n ->
  S_to_int n l < 2 ^ w /\ S_from_int n (S_to_int n l) = Ok l /\
  forall m, m < 2 ^ N.of_nat n -> N.testbit (S_to_int n l) m = val (tbl l) m.
Proof.
  intros Hin Hwf Hnv. destruct (int_pairs_facts n w Hin) as [Hn [Hw [Hwb [Hts [Hw64 _]]]]].
  destruct l as [n' t]. cbn [nv tbl] in *. subst n'.
  destruct Hwf as [Hl Hf]. rewrite Hts in Hl.
  destruct t as [|x [|y r]]; try discriminate Hl.
  inversion Hf as [|x0 r0 Hx _]; subst x0 r0. rewrite Hwb in Hx.
  assert (Hx64 : x < 2 ^ 64).
  { eapply N.lt_le_trans; [exact Hx|]. apply N.pow_le_mono_r; [lia|exact Hw64]. }
  assert (E : S_to_int n (mkLut n [x]) = x).
  { rewrite (to_int_mod n w) by (exact Hin || exact Hx64). cbn [tbl hd]. apply N.mod_small. exact Hx. }
  rewrite E. split; [exact Hx|]. split.
  - unfold S_from_int. apply S_from_blocks_ok. rewrite Hts. reflexivity.
  - intros m Hm. cbn [tbl]. symmetry. apply val_single. rewrite <- Hw in Hm. lia.
Qed.

(* ------------------------------------------------------------------ 5. accessors *)
Lemma num_bits_pow l : num_bits l = 2 ^ N.of_nat (nv l).
Proof. unfold num_bits. apply N.shiftl_1_l. Qed.

Lemma table_size_closed n : table_size n = Nat.max 1 (2 ^ n / 64)%nat.
Proof.
  destruct (Nat.lt_ge_cases n 6) as [L|G].
  - do 6 (destruct n as [|n]; [reflexivity|]). lia.
  - unfold table_size. rewrite Nat.max_l by exact G.
    replace n with ((n - 6) + 6)%nat at 2 by lia. rewrite Nat.pow_add_r.
    change (2 ^ 6)%nat with 64%nat. rewrite Nat.div_mul by discriminate.
    symmetry. apply Nat.max_r.
    assert (2 ^ (n - 6) <> 0)%nat by (apply Nat.pow_nonzero; discriminate). lia.
Qed.

Lemma num_blocks_closed l : num_blocks l = table_size (nv l) /\ num_blocks l = Nat.max 1 (2 ^ nv l / 64)%nat.
Proof. split; [reflexivity|apply table_size_closed]. Qed.

(* ------------------------------------------------------------------ 6. equality and hashing are structural *)
Lemma D_eq_iff a b : D_eq a b = true <-> a = b.
Proof.
  rewrite D_eq_sem. destruct a as [na ta], b as [nb tb]. cbn [nv tbl]. split.
  - intros [-> ->]. reflexivity.
  - intros E. injection E as -> ->. split; reflexivity.
Qed.

Lemma D_hash_iff a b : D_hash_input a = D_hash_input b <-> a = b.
Proof.
  split; [|intros ->; reflexivity]. unfold D_hash_input. intros E.
  destruct a as [na ta], b as [nb tb]. cbn [nv tbl] in E. injection E as E1 _ E3.
  apply Nat2N.inj in E1. subst. reflexivity.
Qed.

Lemma S_hash_iff a b : S_hash_input a = S_hash_input b <-> tbl a = tbl b.
Proof.
  unfold S_hash_input. split.
  - intros E. injection E as _ E. exact E.
  - intros ->. reflexivity.
Qed.

Lemma D_eq_hash a b : D_eq a b = true -> D_hash_input a = D_hash_input b.
Proof. intros H. apply D_eq_iff in H. subst b. reflexivity. Qed.

Lemma D_eq_ext a b : wf (nv a) (tbl a) -> wf (nv b) (tbl b) -> nv a = nv b ->
  (D_eq a b = true <-> forall m, m < 2 ^ N.of_nat (nv a) -> val (tbl a) m = val (tbl b) m).
Proof.
  intros Ha Hb E. rewrite D_eq_sem. rewrite <- (D_ext a b Ha Hb E). split.
  - intros [_ H]. exact H.
  - intros H. split; assumption.
Qed.
