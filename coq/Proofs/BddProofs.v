(* C07: bdd_complexity counts the nodes of the shared complement-edge ROBDD (Spec/BddSpec.v). *)
From Coq Require Import List NArith Arith Bool Lia Permutation.
From V Require Import Base.Res Gen.Tables Model.Kernels Model.Bdd Model.Api Base.Bits Spec.Bfun Spec.BddSpec
  Proofs.Wf Proofs.Logic.
Import ListNotations.
Open Scope N_scope.

(* ================================================================== generic list facts *)

Lemma existsb_ext_in {A} (f g : A -> bool) l :
  (forall x, In x l -> f x = g x) -> existsb f l = existsb g l.
Proof.
  induction l as [|x l IH]; intros H; [reflexivity|]. cbn [existsb].
  rewrite (H x) by (left; reflexivity). rewrite IH; [reflexivity|]. intros y Hy. apply H. right. exact Hy.
Qed.

Lemma forallb_ext_in {A} (f g : A -> bool) l :
  (forall x, In x l -> f x = g x) -> forallb f l = forallb g l.
Proof.
  induction l as [|x l IH]; intros H; [reflexivity|]. cbn [forallb].
  rewrite (H x) by (left; reflexivity). rewrite IH; [reflexivity|]. intros y Hy. apply H. right. exact Hy.
Qed.

Lemma filter_ext_in' {A} (f g : A -> bool) l :
  (forall x, In x l -> f x = g x) -> filter f l = filter g l.
Proof.
  induction l as [|x l IH]; intros H; [reflexivity|]. cbn [filter].
  rewrite (H x) by (left; reflexivity). rewrite IH; [reflexivity|]. intros y Hy. apply H. right. exact Hy.
Qed.

(* two lists with the same elements have the same number of distinct elements *)
Lemma nodup_length_incl {A} (dec : forall x y : A, {x = y} + {x <> y}) l1 l2 :
  incl l1 l2 -> (length (nodup dec l1) <= length (nodup dec l2))%nat.
Proof.
  intros H. apply NoDup_incl_length; [apply NoDup_nodup|].
  intros x Hx. apply nodup_In. apply H. apply (nodup_In dec). exact Hx.
Qed.

Lemma nodup_length_same {A} (dec : forall x y : A, {x = y} + {x <> y}) l1 l2 :
  (forall x, In x l1 <-> In x l2) -> length (nodup dec l1) = length (nodup dec l2).
Proof.
  intros H. apply Nat.le_antisymm; apply nodup_length_incl; intros x Hx; apply H; exact Hx.
Qed.

(* an injective relabelling does not change the number of distinct elements *)
Lemma nodup_length_map_inj {A B} (decA : forall x y : A, {x = y} + {x <> y})
      (decB : forall x y : B, {x = y} + {x <> y}) (f : A -> B) l :
  (forall x y, In x l -> In y l -> f x = f y -> x = y) ->
  length (nodup decB (map f l)) = length (nodup decA l).
Proof.
  induction l as [|x l IH]; intros Hinj; [reflexivity|].
  assert (IH' : length (nodup decB (map f l)) = length (nodup decA l)).
  { apply IH. intros a b Ha Hb. apply Hinj; right; assumption. }
  cbn [map nodup].
  destruct (in_dec decA x l) as [Hx|Hx]; destruct (in_dec decB (f x) (map f l)) as [Hy|Hy].
  - exact IH'.
  - exfalso. apply Hy. apply in_map. exact Hx.
  - exfalso. apply Hx. apply in_map_iff in Hy. destruct Hy as [y [Hfy Hy]].
    rewrite (Hinj x y); [exact Hy|left; reflexivity|right; exact Hy|symmetry; exact Hfy].
  - cbn [length]. rewrite IH'. reflexivity.
Qed.

Lemma list_sum_map_ext_in {A} (f g : A -> nat) l :
  (forall x, In x l -> f x = g x) -> list_sum (map f l) = list_sum (map g l).
Proof. intros H. rewrite (map_ext_in f g l H). reflexivity. Qed.

(* ================================================================== powers of two *)

Lemma pow2_S (l : nat) : 2 ^ N.of_nat (l + 1) = 2 * 2 ^ N.of_nat l.
Proof. rewrite Nat2N.inj_add. change (N.of_nat 1) with 1. rewrite N.add_1_r. apply N.pow_succ_r'. Qed.

Lemma pow2_pos (k : N) : 0 < 2 ^ k.
Proof. apply N.neq_0_lt_0, N.pow_nonzero. lia. Qed.

Lemma pow2_nat (k : nat) : N.of_nat (2 ^ k) = 2 ^ N.of_nat k.
Proof. rewrite Nat2N.inj_pow. reflexivity. Qed.

(* ================================================================== assignments, ttnum *)

Lemma In_assignments k m : In m (assignments k) <-> m < 2 ^ N.of_nat k.
Proof.
  unfold assignments. rewrite in_map_iff. rewrite <- pow2_nat. split.
  - intros [i [<- Hi]]. apply in_seq in Hi. lia.
  - intros H. exists (N.to_nat m). split; [apply N2Nat.id|]. apply in_seq. lia.
Qed.

Lemma of_bits_spec bs p : N.testbit (of_bits bs) p = nth (N.to_nat p) bs false.
Proof.
  revert p. induction bs as [|b r IH]; intro p.
  - cbn [of_bits]. rewrite N.bits_0. destruct (N.to_nat p); reflexivity.
  - cbn [of_bits]. rewrite N.add_comm.
    destruct (N.eq_dec p 0) as [->|Hp].
    + rewrite N.testbit_0_r. reflexivity.
    + replace p with (N.succ (N.pred p)) at 1 by (apply N.succ_pred; exact Hp).
      rewrite N.testbit_succ_r. rewrite IH.
      replace (N.to_nat p) with (S (N.to_nat (N.pred p))) by lia. reflexivity.
Qed.

Lemma nth_map_seq (g : N -> bool) K s i :
  nth i (map g (map N.of_nat (seq s K))) false = if (i <? K)%nat then g (N.of_nat (s + i)) else false.
Proof.
  revert s i. induction K as [|K IH]; intros s i.
  - destruct i; reflexivity.
  - destruct i as [|i].
    + cbn [seq map nth]. rewrite Nat.add_0_r. reflexivity.
    + cbn [seq map nth]. rewrite IH. replace (S s + i)%nat with (s + S i)%nat by lia.
      change (S i <? S K)%nat with (i <? K)%nat. reflexivity.
Qed.

Lemma ttnum_spec k g p :
  N.testbit (ttnum k g) p = if p <? 2 ^ N.of_nat k then g p else false.
Proof.
  unfold ttnum, assignments. rewrite of_bits_spec, nth_map_seq. rewrite <- pow2_nat.
  destruct (Nat.ltb_spec (N.to_nat p) (2 ^ k)) as [H|H]; destruct (N.ltb_spec p (N.of_nat (2 ^ k))) as [H'|H'];
    try reflexivity; try lia.
  cbn [Nat.add]. rewrite N2Nat.id. reflexivity.
Qed.

Lemma ttnum_low k g p : p < 2 ^ N.of_nat k -> N.testbit (ttnum k g) p = g p.
Proof. intros H. rewrite ttnum_spec. destruct (N.ltb_spec p (2 ^ N.of_nat k)); [reflexivity|lia]. Qed.

Lemma ttnum_high k g p : 2 ^ N.of_nat k <= p -> N.testbit (ttnum k g) p = false.
Proof. intros H. rewrite ttnum_spec. destruct (N.ltb_spec p (2 ^ N.of_nat k)); [lia|reflexivity]. Qed.

Lemma ttnum_lt k g : ttnum k g < 2 ^ (2 ^ N.of_nat k).
Proof. apply lt_pow2_of_bits. intros p Hp. apply ttnum_high. exact Hp. Qed.

Lemma ttnum_ext k g g' : (forall m, m < 2 ^ N.of_nat k -> g m = g' m) -> ttnum k g = ttnum k g'.
Proof.
  intros H. apply N.bits_inj. intro p. rewrite !ttnum_spec.
  destruct (N.ltb_spec p (2 ^ N.of_nat k)); [apply H; assumption|reflexivity].
Qed.

Lemma ttnum_inj k g g' : ttnum k g = ttnum k g' -> forall m, m < 2 ^ N.of_nat k -> g m = g' m.
Proof. intros H m Hm. rewrite <- (ttnum_low k g m Hm), <- (ttnum_low k g' m Hm), H. reflexivity. Qed.

Lemma ttnum_zero k g : ttnum k g = 0 <-> forall m, m < 2 ^ N.of_nat k -> g m = false.
Proof.
  split.
  - intros H m Hm. rewrite <- (ttnum_low k g m Hm), H. apply N.bits_0.
  - intros H. apply N.bits_inj_0. intro p. rewrite ttnum_spec.
    destruct (N.ltb_spec p (2 ^ N.of_nat k)); [apply H; assumption|reflexivity].
Qed.

(* a number below 2^(2^k) is the truth-table number of its own bits *)
Lemma ttnum_testbit k x : x < 2 ^ (2 ^ N.of_nat k) -> ttnum k (N.testbit x) = x.
Proof.
  intros Hx. apply N.bits_inj. intro p. rewrite ttnum_spec.
  destruct (N.ltb_spec p (2 ^ N.of_nat k)); [reflexivity|].
  symmetry. apply (testbit_lt_pow2 x (2 ^ N.of_nat k)); assumption.
Qed.

(* ================================================================== norm, depends, is_literal *)

Lemma norm_spec g m : norm g m = xorb (g m) (g 0).
Proof. unfold norm. destruct (g 0); [rewrite xorb_true_r|rewrite xorb_false_r]; reflexivity. Qed.

Lemma norm_0 g : norm g 0 = false.
Proof. rewrite norm_spec. apply xorb_nilpotent. Qed.

Lemma norm_ext k g g' :
  (forall m, m < 2 ^ N.of_nat k -> g m = g' m) -> forall m, m < 2 ^ N.of_nat k -> norm g m = norm g' m.
Proof. intros H m Hm. rewrite !norm_spec. rewrite (H m Hm), (H 0 (pow2_pos _)). reflexivity. Qed.

Lemma norm_negb k g g' :
  (forall m, m < 2 ^ N.of_nat k -> g' m = negb (g m)) -> forall m, m < 2 ^ N.of_nat k -> norm g' m = norm g m.
Proof.
  intros H m Hm. rewrite !norm_spec. rewrite (H m Hm), (H 0 (pow2_pos _)).
  destruct (g m), (g 0); reflexivity.
Qed.

Lemma hi_in_range l m : m < 2 ^ N.of_nat l -> m + 2 ^ N.of_nat l < 2 ^ N.of_nat (l + 1).
Proof. intros H. rewrite pow2_S. lia. Qed.

Lemma lo_in_range l m : m < 2 ^ N.of_nat l -> m < 2 ^ N.of_nat (l + 1).
Proof. intros H. rewrite pow2_S. lia. Qed.

Lemma depends_ext l g g' :
  (forall m, m < 2 ^ N.of_nat (l + 1) -> g m = g' m) -> depends l g = depends l g'.
Proof.
  intros H. unfold depends. apply existsb_ext_in. intros m Hm. apply In_assignments in Hm.
  rewrite (H m (lo_in_range l m Hm)), (H _ (hi_in_range l m Hm)). reflexivity.
Qed.

Lemma is_literal_ext l g g' :
  (forall m, m < 2 ^ N.of_nat (l + 1) -> g m = g' m) -> is_literal l g = is_literal l g'.
Proof.
  intros H. unfold is_literal. f_equal; apply forallb_ext_in; intros m Hm; apply In_assignments in Hm;
    rewrite (H m (lo_in_range l m Hm)), (H _ (hi_in_range l m Hm)); reflexivity.
Qed.

Lemma depends_true l g :
  depends l g = true <-> exists m, m < 2 ^ N.of_nat l /\ g m <> g (m + 2 ^ N.of_nat l).
Proof.
  unfold depends. rewrite existsb_exists. split.
  - intros [m [Hm Hx]]. exists m. split; [apply In_assignments; exact Hm|].
    intro E. rewrite E, xorb_nilpotent in Hx. discriminate.
  - intros [m [Hm Hx]]. exists m. split; [apply In_assignments; exact Hm|].
    destruct (g m), (g (m + 2 ^ N.of_nat l)); try reflexivity; exfalso; apply Hx; reflexivity.
Qed.

Lemma depends_false l g :
  depends l g = false <-> forall m, m < 2 ^ N.of_nat l -> g m = g (m + 2 ^ N.of_nat l).
Proof.
  split.
  - intros H m Hm. destruct (bool_dec (g m) (g (m + 2 ^ N.of_nat l))) as [E|E]; [exact E|].
    assert (D : depends l g = true) by (apply depends_true; exists m; split; assumption).
    rewrite D in H. discriminate.
  - intros H. destruct (depends l g) eqn:D; [|reflexivity].
    apply depends_true in D. destruct D as [m [Hm Hx]]. exfalso. apply Hx. apply H. exact Hm.
Qed.

Lemma is_literal_true l g :
  is_literal l g = true <->
  (forall m, m < 2 ^ N.of_nat l -> g m = false /\ g (m + 2 ^ N.of_nat l) = true) \/
  (forall m, m < 2 ^ N.of_nat l -> g m = true /\ g (m + 2 ^ N.of_nat l) = false).
Proof.
  unfold is_literal. rewrite orb_true_iff, !forallb_forall. split.
  - intros [H|H]; [left|right]; intros m Hm; apply In_assignments in Hm; specialize (H m Hm);
      apply andb_true_iff in H; destruct H as [H1 H2].
    + split; [apply negb_true_iff; exact H1|exact H2].
    + split; [exact H1|apply negb_true_iff; exact H2].
  - intros [H|H]; [left|right]; intros m Hm; apply In_assignments in Hm; destruct (H m Hm) as [H1 H2];
      rewrite H1, H2; reflexivity.
Qed.

(* a function that depends on its top variable is not constant false *)
Lemma depends_nonzero l g : depends l g = true -> ttnum (l + 1) g <> 0.
Proof.
  intros D Z. apply depends_true in D. destruct D as [m [Hm Hx]]. apply Hx.
  rewrite (proj1 (ttnum_zero (l + 1) g) Z m (lo_in_range l m Hm)).
  rewrite (proj1 (ttnum_zero (l + 1) g) Z _ (hi_in_range l m Hm)). reflexivity.
Qed.

(* ================================================================== the node sets: spec-level facts *)

Definition keep (l : nat) (g : N -> bool) : bool := depends l g && negb (is_literal l g).

Lemma keep_ext l g g' : (forall m, m < 2 ^ N.of_nat (l + 1) -> g m = g' m) -> keep l g = keep l g'.
Proof. intros H. unfold keep. rewrite (depends_ext l g g' H), (is_literal_ext l g g' H). reflexivity. Qed.

Lemma level_nodes_In n ts l x :
  In x (level_nodes n ts l) <->
  exists t a, In t ts /\ a < 2 ^ N.of_nat (n - 1 - l) /\
              x = ttnum (l + 1) (norm (sub t l a)) /\ keep l (norm (sub t l a)) = true.
Proof.
  unfold level_nodes, level_subs. rewrite in_map_iff. split.
  - intros [g [Hx Hg]]. apply filter_In in Hg. destruct Hg as [Hg Hk].
    apply in_flat_map in Hg. destruct Hg as [t [Ht Hg]]. apply in_map_iff in Hg.
    destruct Hg as [a [Ha Hin]]. apply In_assignments in Hin. subst g.
    exists t, a. repeat split; auto.
  - intros [t [a [Ht [Ha [Hx Hk]]]]]. exists (norm (sub t l a)). split; [symmetry; exact Hx|].
    apply filter_In. split; [|exact Hk]. apply in_flat_map. exists t. split; [exact Ht|].
    apply in_map_iff. exists a. split; [reflexivity|apply In_assignments; exact Ha].
Qed.

(* the node set of a list is the union of the node sets of its elements *)
Lemma level_nodes_union n ts l x :
  In x (level_nodes n ts l) <-> exists t, In t ts /\ In x (level_nodes n [t] l).
Proof.
  rewrite level_nodes_In. split.
  - intros [t [a [Ht H]]]. exists t. split; [exact Ht|]. apply level_nodes_In. exists t, a.
    split; [left; reflexivity|exact H].
  - intros [t [Ht H]]. apply level_nodes_In in H. destruct H as [t' [a [[<-|[]] H]]]. exists t, a. auto.
Qed.

Lemma level_count_same n ts ts' l :
  (forall x, In x (level_nodes n ts l) <-> In x (level_nodes n ts' l)) -> level_count n ts l = level_count n ts' l.
Proof. intros H. unfold level_count. apply nodup_length_same. exact H. Qed.

(* bdd_nodes depends only on the SET of listed tables *)
Lemma bdd_nodes_same_set n ts ts' : (forall t, In t ts <-> In t ts') -> bdd_nodes n ts = bdd_nodes n ts'.
Proof.
  intros H. unfold bdd_nodes. apply list_sum_map_ext_in. intros l _. apply level_count_same. intro x.
  rewrite (level_nodes_union n ts), (level_nodes_union n ts'). split; intros [t [Ht Hx]]; exists t; split; auto;
    apply H; exact Ht.
Qed.

Lemma bdd_perm_invariant n ts ts' : Permutation ts ts' -> bdd_nodes n ts = bdd_nodes n ts'.
Proof.
  intros P. apply bdd_nodes_same_set. intro t. split; intro Ht.
  - apply (Permutation_in t P Ht).
  - apply (Permutation_in t (Permutation_sym P) Ht).
Qed.

Lemma bdd_dup_present n t ts : In t ts -> bdd_nodes n (t :: ts) = bdd_nodes n ts.
Proof.
  intros Ht. apply bdd_nodes_same_set. intro u. split; intro Hu.
  - destruct Hu as [<-|Hu]; assumption.
  - right. exact Hu.
Qed.

Lemma bdd_dup_invariant n t ts : bdd_nodes n (t :: t :: ts) = bdd_nodes n (t :: ts).
Proof. apply bdd_dup_present. left. reflexivity. Qed.

Lemma bdd_nodup_invariant n ts : bdd_nodes n (nodup (list_eq_dec N.eq_dec) ts) = bdd_nodes n ts.
Proof. apply bdd_nodes_same_set. intro t. apply nodup_In. Qed.

Lemma bdd_empty n : bdd_nodes n [] = 0%nat.
Proof.
  unfold bdd_nodes. generalize (seq 0 n). intro ls. induction ls as [|l ls IH]; [reflexivity|].
  cbn [map]. unfold list_sum in *. cbn [fold_right]. rewrite IH. reflexivity.
Qed.

(* level 0: a normalised function of one variable is constant false or the literal x_0 *)
Lemma keep_level0 g : keep 0 (norm g) = false.
Proof.
  unfold keep, depends, is_literal. change (assignments 0) with [0]. cbn [existsb forallb].
  change (0 + 2 ^ N.of_nat 0) with 1. rewrite norm_0.
  destruct (norm g 1); reflexivity.
Qed.

Lemma bdd_level0 n ts : level_nodes n ts 0 = [].
Proof.
  destruct (level_nodes n ts 0) as [|x r] eqn:E; [reflexivity|]. exfalso.
  assert (H : In x (level_nodes n ts 0)) by (rewrite E; left; reflexivity).
  apply level_nodes_In in H. destruct H as [t [a [_ [_ [_ Hk]]]]].
  rewrite keep_level0 in Hk. discriminate.
Qed.

Lemma bdd_level0_count n ts : level_count n ts 0 = 0%nat.
Proof. unfold level_count. rewrite bdd_level0. reflexivity. Qed.

(* complementing a listed function *)
Lemma sub_in_range n l a m :
  (l < n)%nat -> a < 2 ^ N.of_nat (n - 1 - l) -> m < 2 ^ N.of_nat (l + 1) ->
  m + a * 2 ^ N.of_nat (l + 1) < 2 ^ N.of_nat n.
Proof.
  intros Hl Ha Hm.
  replace (2 ^ N.of_nat n) with (2 ^ N.of_nat (n - 1 - l) * 2 ^ N.of_nat (l + 1))
    by (rewrite <- N.pow_add_r, <- Nat2N.inj_add; f_equal; f_equal; lia).
  assert (H : (a + 1) * 2 ^ N.of_nat (l + 1) <= 2 ^ N.of_nat (n - 1 - l) * 2 ^ N.of_nat (l + 1))
    by (apply N.mul_le_mono_r; lia).
  rewrite N.mul_add_distr_r in H. lia.
Qed.

Lemma level_nodes_complement n t l x :
  wf n t -> (l < n)%nat -> In x (level_nodes n [not_inplace n t] l) <-> In x (level_nodes n [t] l).
Proof.
  intros Hwf Hl.
  assert (E : forall a, a < 2 ^ N.of_nat (n - 1 - l) ->
                        forall m, m < 2 ^ N.of_nat (l + 1) ->
                                  norm (sub (not_inplace n t) l a) m = norm (sub t l a) m).
  { intros a Ha. apply norm_negb. intros m Hm. unfold sub.
    apply (proj1 (proj2 (not_sem n t Hwf))). apply sub_in_range; assumption. }
  rewrite !level_nodes_In. split; intros [t' [a [[<-|[]] [Ha [Hx Hk]]]]].
  - exists t, a. split; [left; reflexivity|]. split; [exact Ha|]. split.
    + rewrite Hx. apply ttnum_ext. apply E. exact Ha.
    + rewrite <- Hk. symmetry. apply keep_ext. apply E. exact Ha.
  - exists (not_inplace n t), a. split; [left; reflexivity|]. split; [exact Ha|]. split.
    + rewrite Hx. symmetry. apply ttnum_ext. apply E. exact Ha.
    + rewrite <- Hk. apply keep_ext. apply E. exact Ha.
Qed.

Lemma bdd_complement_invariant n t ts :
  wf n t -> bdd_nodes n (not_inplace n t :: ts) = bdd_nodes n (t :: ts).
Proof.
  intros Hwf. unfold bdd_nodes. apply list_sum_map_ext_in. intros l Hl. apply in_seq in Hl.
  apply level_count_same. intro x.
  rewrite (level_nodes_union n (_ :: ts)), (level_nodes_union n (t :: ts)).
  split; intros [u [[<-|Hu] Hx]].
  - exists t. split; [left; reflexivity|].
    apply (proj1 (level_nodes_complement n t l x Hwf (proj2 Hl))). exact Hx.
  - exists u. split; [right; exact Hu|exact Hx].
  - exists (not_inplace n t). split; [left; reflexivity|].
    apply (proj2 (level_nodes_complement n t l x Hwf (proj2 Hl))). exact Hx.
  - exists u. split; [right; exact Hu|exact Hx].
Qed.

(* ================================================================== model: levels 1..5 (inside one word) *)

Lemma low_mask_spec s p : s <= 64 -> N.testbit (low_mask s) p = (p <? s).
Proof.
  intros Hs. unfold low_mask. rewrite N.shiftr_spec', ones64_spec.
  destruct (N.ltb_spec (p + (64 - s)) 64), (N.ltb_spec p s); try reflexivity; lia.
Qed.

Lemma land1_testbit c : negb (N.land c 1 =? 0) = N.testbit c 0.
Proof.
  change (N.land c 1) with (N.land c (N.ones 1)). rewrite N.land_ones. change (2 ^ 1) with 2.
  rewrite <- N.bit0_mod. destruct (N.testbit c 0); reflexivity.
Qed.

(* one normalised window *)
Definition nw (mask c : N) : N := N.land (if N.testbit c 0 then not64 c else c) mask.

Lemma nw_spec s mask c p :
  s <= 64 -> (forall q, N.testbit mask q = (q <? s)) ->
  N.testbit (nw mask c) p = (p <? s) && xorb (N.testbit c p) (N.testbit c 0).
Proof.
  intros Hs Hmask. unfold nw. rewrite N.land_spec, Hmask, andb_comm.
  destruct (N.ltb_spec p s) as [Hp|Hp]; [|reflexivity]. cbn [andb].
  destruct (N.testbit c 0).
  - rewrite not64_spec_low by lia. rewrite xorb_true_r. reflexivity.
  - rewrite xorb_false_r. reflexivity.
Qed.

Lemma nw_ttnum k mask c :
  2 ^ N.of_nat k <= 64 -> (forall q, N.testbit mask q = (q <? 2 ^ N.of_nat k)) ->
  nw mask c = ttnum k (norm (N.testbit c)).
Proof.
  intros Hs Hmask. apply N.bits_inj. intro p.
  rewrite (nw_spec (2 ^ N.of_nat k)) by assumption. rewrite ttnum_spec, norm_spec.
  destruct (N.ltb_spec p (2 ^ N.of_nat k)); reflexivity.
Qed.

Lemma ww_step l s mask k c :
  word_windows l s mask (S k) c =
  if negb (nw mask c =? 0)
  then nw mask c :: word_windows l s mask k (if Nat.ltb l 5 then N.shiftr c s else c)
  else word_windows l s mask k (if Nat.ltb l 5 then N.shiftr c s else c).
Proof. cbn [word_windows]. unfold nw. rewrite land1_testbit. reflexivity. Qed.

Lemma ww_In_lt5 l s mask k c x :
  (l < 5)%nat ->
  In x (word_windows l s mask k c) <->
  x <> 0 /\ exists j, (j < k)%nat /\ x = nw mask (N.shiftr c (N.of_nat j * s)).
Proof.
  intros Hl. revert c. induction k as [|k IH]; intro c.
  - cbn [word_windows In]. split; [intros []|intros [_ [j [Hj _]]]; lia].
  - rewrite ww_step. destruct (Nat.ltb_spec l 5) as [_|Hl']; [|lia].
    assert (Hsh : forall j, N.shiftr (N.shiftr c s) (N.of_nat j * s) = N.shiftr c (N.of_nat (S j) * s)).
    { intro j. rewrite N.shiftr_shiftr. f_equal. lia. }
    assert (H0 : N.shiftr c (N.of_nat 0 * s) = c).
    { change (N.of_nat 0) with 0. rewrite N.mul_0_l. apply N.shiftr_0_r. }
    destruct (N.eqb_spec (nw mask c) 0) as [Z|NZ]; cbn [negb In]; rewrite IH.
    + split.
      * intros [Hx [j [Hj E]]]. split; [exact Hx|]. exists (S j). split; [lia|]. rewrite E, Hsh. reflexivity.
      * intros [Hx [j [Hj E]]]. split; [exact Hx|]. destruct j as [|j].
        { exfalso. rewrite H0 in E. congruence. }
        exists j. split; [lia|]. rewrite E, Hsh. reflexivity.
    + split.
      * intros [E|[Hx [j [Hj E]]]].
        { subst x. split; [exact NZ|]. exists 0%nat. split; [lia|]. rewrite H0. reflexivity. }
        split; [exact Hx|]. exists (S j). split; [lia|]. rewrite E, Hsh. reflexivity.
      * intros [Hx [j [Hj E]]]. destruct j as [|j].
        { left. rewrite E, H0. reflexivity. }
        right. split; [exact Hx|]. exists j. split; [lia|]. rewrite E, Hsh. reflexivity.
Qed.

Lemma ww_In_one l s mask c x :
  In x (word_windows l s mask 1 c) <->
  x <> 0 /\ exists j, (j < 1)%nat /\ x = nw mask (N.shiftr c (N.of_nat j * s)).
Proof.
  rewrite ww_step. cbn [word_windows].
  assert (H0 : N.shiftr c (N.of_nat 0 * s) = c).
  { change (N.of_nat 0) with 0. rewrite N.mul_0_l. apply N.shiftr_0_r. }
  destruct (N.eqb_spec (nw mask c) 0) as [Z|NZ]; cbn [negb In].
  - split; [intros []|]. intros [Hx [j [Hj E]]]. replace j with 0%nat in E by lia. rewrite H0 in E. congruence.
  - split.
    + intros [E|[]]. subst x. split; [exact NZ|]. exists 0%nat. split; [lia|]. rewrite H0. reflexivity.
    + intros [Hx [j [Hj E]]]. replace j with 0%nat in E by lia. rewrite H0 in E. left. symmetry. exact E.
Qed.

Lemma ww_In l s mask c x :
  (l <= 5)%nat ->
  In x (word_windows l s mask (2 ^ (5 - l)) c) <->
  x <> 0 /\ exists j, (j < 2 ^ (5 - l))%nat /\ x = nw mask (N.shiftr c (N.of_nat j * s)).
Proof.
  intros Hl. destruct (Nat.eq_dec l 5) as [->|Hne].
  - change (2 ^ (5 - 5))%nat with 1%nat. apply ww_In_one.
  - apply ww_In_lt5. lia.
Qed.

Lemma val_word t i r : r < 64 -> val t (64 * i + r) = N.testbit (nthN t (N.to_nat i)) r.
Proof.
  intros Hr. unfold val.
  rewrite <- (N.div_unique (64 * i + r) 64 i r Hr eq_refl).
  rewrite <- (N.mod_unique (64 * i + r) 64 i r Hr eq_refl). reflexivity.
Qed.

Lemma pow2_split (a b c : nat) : (a + b = c)%nat -> 2 ^ N.of_nat a * 2 ^ N.of_nat b = 2 ^ N.of_nat c.
Proof. intros <-. rewrite Nat2N.inj_add, N.pow_add_r. reflexivity. Qed.

Lemma window_sub t l i j p :
  (l <= 5)%nat -> j < 2 ^ N.of_nat (5 - l) -> p < 2 ^ N.of_nat (l + 1) ->
  sub t l (i * 2 ^ N.of_nat (5 - l) + j) p = N.testbit (nthN t (N.to_nat i)) (p + j * 2 ^ N.of_nat (l + 1)).
Proof.
  intros Hl Hj Hp. unfold sub.
  pose proof (pow2_split (5 - l) (l + 1) 6 ltac:(lia)) as HCS. change (2 ^ N.of_nat 6) with 64 in HCS.
  assert (Hr : p + j * 2 ^ N.of_nat (l + 1) < 64).
  { assert (H : (j + 1) * 2 ^ N.of_nat (l + 1) <= 2 ^ N.of_nat (5 - l) * 2 ^ N.of_nat (l + 1))
      by (apply N.mul_le_mono_r; lia).
    rewrite N.mul_add_distr_r in H. lia. }
  rewrite <- (val_word t i _ Hr). f_equal.
  rewrite N.mul_add_distr_r, <- N.mul_assoc, HCS. lia.
Qed.

(* window j of word i is the normalised sub-function number i * count + j *)
Lemma window_ttnum t l mask i j :
  (l <= 5)%nat -> (forall q, N.testbit mask q = (q <? 2 ^ N.of_nat (l + 1))) -> j < 2 ^ N.of_nat (5 - l) ->
  nw mask (N.shiftr (nthN t (N.to_nat i)) (j * 2 ^ N.of_nat (l + 1))) =
  ttnum (l + 1) (norm (sub t l (i * 2 ^ N.of_nat (5 - l) + j))).
Proof.
  intros Hl Hmask Hj.
  assert (H64 : 2 ^ N.of_nat (l + 1) <= 64).
  { change 64 with (2 ^ N.of_nat 6). apply N.pow_le_mono_r; lia. }
  rewrite (nw_ttnum (l + 1)) by assumption.
  apply ttnum_ext. apply norm_ext. intros p Hp. rewrite N.shiftr_spec'.
  symmetry. apply window_sub; assumption.
Qed.

Lemma In_nthN (t : list N) c : In c t <-> exists i, (i < length t)%nat /\ c = nthN t i.
Proof.
  split.
  - intros H. destruct (In_nth t c 0 H) as [i [Hi E]]. exists i. split; [exact Hi|symmetry; exact E].
  - intros [i [Hi ->]]. apply nthN_In. exact Hi.
Qed.

Lemma sub_out_of_range n t l a :
  wf n t -> (l < n)%nat -> 2 ^ N.of_nat (n - 1 - l) <= a -> ttnum (l + 1) (norm (sub t l a)) = 0.
Proof.
  intros Hwf Hl Ha. apply ttnum_zero. intros m Hm. rewrite norm_spec.
  assert (Z : forall p, sub t l a p = false).
  { intro p. unfold sub. apply (val_out_of_range n t _ Hwf).
    rewrite <- (pow2_split (n - 1 - l) (l + 1) n) by lia.
    assert (H : 2 ^ N.of_nat (n - 1 - l) * 2 ^ N.of_nat (l + 1) <= a * 2 ^ N.of_nat (l + 1))
      by (apply N.mul_le_mono_r; exact Ha).
    lia. }
  rewrite !Z. reflexivity.
Qed.

Lemma small_windows_In n t l x :
  wf n t -> (l <= 5)%nat -> (l < n)%nat ->
  In x (flat_map (word_windows l (N.shiftl 1 (N.of_nat (l + 1))) (low_mask (N.shiftl 1 (N.of_nat (l + 1))))
                               (2 ^ (5 - l))) t) <->
  x <> 0 /\ exists a, a < 2 ^ N.of_nat (n - 1 - l) /\ x = ttnum (l + 1) (norm (sub t l a)).
Proof.
  intros Hwf Hl Hln. rewrite N.shiftl_1_l.
  assert (H64 : 2 ^ N.of_nat (l + 1) <= 64).
  { change 64 with (2 ^ N.of_nat 6). apply N.pow_le_mono_r; lia. }
  assert (Hmask : forall q, N.testbit (low_mask (2 ^ N.of_nat (l + 1))) q = (q <? 2 ^ N.of_nat (l + 1))).
  { intro q. apply low_mask_spec. exact H64. }
  rewrite in_flat_map. split.
  - intros [c [Hc Hx]]. apply ww_In in Hx; [|exact Hl]. destruct Hx as [Hx0 [j [Hj Hx]]].
    apply In_nthN in Hc. destruct Hc as [i [Hi ->]].
    split; [exact Hx0|].
    assert (Hj' : N.of_nat j < 2 ^ N.of_nat (5 - l)) by (rewrite <- pow2_nat; lia).
    rewrite <- (Nat2N.id i) in Hx. rewrite (window_ttnum t l _ (N.of_nat i) (N.of_nat j) Hl Hmask Hj') in Hx.
    exists (N.of_nat i * 2 ^ N.of_nat (5 - l) + N.of_nat j). split; [|exact Hx].
    destruct (N.lt_ge_cases (N.of_nat i * 2 ^ N.of_nat (5 - l) + N.of_nat j) (2 ^ N.of_nat (n - 1 - l)))
      as [L|L]; [exact L|].
    exfalso. apply Hx0. rewrite Hx. apply (sub_out_of_range n); assumption.
  - intros [Hx0 [a [Ha Hx]]].
    set (C := 2 ^ N.of_nat (5 - l)) in *.
    assert (HC : C <> 0) by (apply N.pow_nonzero; lia).
    exists (nthN t (N.to_nat (a / C))). split.
    + apply nthN_In. rewrite (wf_length n t Hwf).
      assert (H : a / C < N.of_nat (table_size n)).
      { rewrite table_size_N. apply N.div_lt_upper_bound; [exact HC|]. unfold C.
        rewrite (pow2_split (5 - l) (Nat.max n 6 - 6) (Nat.max n 6 - 1 - l)) by lia.
        eapply N.lt_le_trans; [exact Ha|]. apply N.pow_le_mono_r; lia. }
      lia.
    + apply ww_In; [exact Hl|]. split; [exact Hx0|].
      assert (Hj : a mod C < C) by (apply N.mod_lt; exact HC).
      exists (N.to_nat (a mod C)). split.
      * assert (HCn : N.to_nat C = (2 ^ (5 - l))%nat) by (unfold C; rewrite <- pow2_nat; apply Nat2N.id).
        rewrite <- HCn. revert Hj. generalize (a mod C). intros j Hj. lia.
      * rewrite N2Nat.id. rewrite (window_ttnum t l _ (a / C) (a mod C) Hl Hmask Hj).
        rewrite Hx. f_equal. f_equal. f_equal. fold C. rewrite (N.div_mod a C HC) at 1. lia.
Qed.

(* the retain filter on sub-function numbers *)
Lemma eqb_bits K x y :
  x < 2 ^ K -> y < 2 ^ K -> ((x =? y) = true <-> forall p, p < K -> N.testbit x p = N.testbit y p).
Proof.
  intros Hx Hy. rewrite N.eqb_eq. split.
  - intros -> p _. reflexivity.
  - intros H. apply N.bits_inj. intro p. destruct (N.lt_ge_cases p K) as [L|L]; [apply H; exact L|].
    rewrite (testbit_lt_pow2 x K p), (testbit_lt_pow2 y K p) by assumption. reflexivity.
Qed.

Lemma keep_small_spec l g : (l <= 5)%nat -> keep_small l (ttnum (l + 1) g) = keep l g.
Proof.
  intros Hl. unfold keep_small. rewrite N.shiftl_1_l.
  set (x := ttnum (l + 1) g). set (M := 2 ^ N.of_nat l).
  assert (HM : M <= 64).
  { change 64 with (2 ^ N.of_nat 6). apply N.pow_le_mono_r; lia. }
  assert (H2M : 2 ^ N.of_nat (l + 1) = 2 * M) by apply pow2_S.
  set (h := N.shiftr x M). set (lo := N.land x (low_mask M)). set (nh := N.land (not64 h) (low_mask M)).
  assert (Hh : forall p, N.testbit h p = if p <? M then g (p + M) else false).
  { intro p. unfold h, x. rewrite N.shiftr_spec', ttnum_spec, H2M.
    destruct (N.ltb_spec (p + M) (2 * M)), (N.ltb_spec p M); try reflexivity; lia. }
  assert (Hlo : forall p, N.testbit lo p = if p <? M then g p else false).
  { intro p. unfold lo, x. rewrite N.land_spec, low_mask_spec, ttnum_spec, H2M by exact HM.
    destruct (N.ltb_spec p (2 * M)), (N.ltb_spec p M); try lia; try reflexivity;
      first [apply andb_true_r|apply andb_false_r]. }
  assert (Hnh : forall p, N.testbit nh p = if p <? M then negb (g (p + M)) else false).
  { intro p. unfold nh. rewrite N.land_spec, low_mask_spec by exact HM.
    destruct (N.ltb_spec p M) as [L|L]; [|apply andb_false_r].
    rewrite not64_spec_low by lia. rewrite Hh. destruct (N.ltb_spec p M); [|lia]. apply andb_true_r. }
  assert (Bh : h < 2 ^ M).
  { apply lt_pow2_of_bits. intros p Hp. rewrite Hh. destruct (N.ltb_spec p M); [lia|reflexivity]. }
  assert (Blo : lo < 2 ^ M).
  { apply lt_pow2_of_bits. intros p Hp. rewrite Hlo. destruct (N.ltb_spec p M); [lia|reflexivity]. }
  assert (Bnh : nh < 2 ^ M).
  { apply lt_pow2_of_bits. intros p Hp. rewrite Hnh. destruct (N.ltb_spec p M); [lia|reflexivity]. }
  assert (B0 : 0 < 2 ^ M) by apply pow2_pos.
  assert (T : forall p, p < M -> (p <? M) = true) by (intros p Hp; apply N.ltb_lt; exact Hp).
  assert (E1 : (lo =? h) = negb (depends l g)).
  { apply eq_true_iff_eq. rewrite (eqb_bits M) by assumption. rewrite negb_true_iff, depends_false. fold M.
    split; intros H p Hp; specialize (H p Hp); rewrite ?Hlo, ?Hh, ?(T p Hp) in *; exact H. }
  assert (E2 : (lo =? nh) && ((lo =? 0) || (h =? 0)) = is_literal l g).
  { apply eq_true_iff_eq. rewrite andb_true_iff, orb_true_iff, !(eqb_bits M) by assumption.
    rewrite is_literal_true. fold M. split.
    - intros [Hopp [Hz|Hz]]; [left|right]; intros p Hp; specialize (Hopp p Hp); specialize (Hz p Hp);
        rewrite ?Hlo, ?Hh, ?Hnh, ?N.bits_0, ?(T p Hp) in *.
      + split; [exact Hz|]. rewrite Hz in Hopp. destruct (g (p + M)); [reflexivity|discriminate].
      + split; [|exact Hz]. rewrite Hz in Hopp. exact Hopp.
    - intros [H|H].
      + split; [|left]; intros p Hp; destruct (H p Hp) as [H1 H2];
          rewrite ?Hlo, ?Hh, ?Hnh, ?N.bits_0, ?(T p Hp), ?H1, ?H2; reflexivity.
      + split; [|right]; intros p Hp; destruct (H p Hp) as [H1 H2];
          rewrite ?Hlo, ?Hh, ?Hnh, ?N.bits_0, ?(T p Hp), ?H1, ?H2; reflexivity. }
  fold nh. rewrite E1. unfold keep.
  destruct (depends l g); cbn [negb andb]; [|reflexivity].
  rewrite E2. destruct (is_literal l g); reflexivity.
Qed.

Lemma in_flat_map_concat {A B} (f : A -> list B) (ls : list (list A)) x :
  In x (flat_map f (concat ls)) <-> exists t, In t ls /\ In x (flat_map f t).
Proof.
  rewrite in_flat_map. split.
  - intros [c [Hc Hx]]. apply in_concat in Hc. destruct Hc as [t [Ht Hc]]. exists t. split; [exact Ht|].
    apply in_flat_map. exists c. split; assumption.
  - intros [t [Ht Hx]]. apply in_flat_map in Hx. destruct Hx as [c [Hc Hx]]. exists c. split; [|exact Hx].
    apply in_concat. exists t. split; assumption.
Qed.

(* (a) small levels: the retained windows are exactly the nodes of the level *)
Lemma small_level_nodes n ts l x :
  Forall (wf n) ts -> (l <= 5)%nat -> (l < n)%nat ->
  In x (filter (keep_small l)
          (flat_map (word_windows l (N.shiftl 1 (N.of_nat (l + 1))) (low_mask (N.shiftl 1 (N.of_nat (l + 1))))
                                  (2 ^ (5 - l))) (concat ts))) <->
  In x (level_nodes n ts l).
Proof.
  intros Hwf Hl Hln. rewrite Forall_forall in Hwf.
  rewrite filter_In, in_flat_map_concat, level_nodes_In. split.
  - intros [[t [Ht Hx]] Hk]. apply (small_windows_In n t l x (Hwf t Ht) Hl Hln) in Hx.
    destruct Hx as [_ [a [Ha Hx]]]. exists t, a. repeat split; try assumption.
    rewrite <- (keep_small_spec l _ Hl), <- Hx. exact Hk.
  - intros [t [a [Ht [Ha [Hx Hk]]]]]. split.
    + exists t. split; [exact Ht|]. apply (small_windows_In n t l x (Hwf t Ht) Hl Hln). split.
      * rewrite Hx. apply depends_nonzero. unfold keep in Hk. apply andb_true_iff in Hk. apply Hk.
      * exists a. split; assumption.
    + rewrite Hx, (keep_small_spec l _ Hl). exact Hk.
Qed.

Lemma level_complexity_spec n ts l :
  Forall (wf n) ts -> (1 <= l)%nat -> (l <= 5)%nat -> (l < n)%nat ->
  level_complexity (concat ts) l = Ok (level_count n ts l).
Proof.
  intros Hwf H1 H5 Hn. unfold level_complexity.
  destruct (Nat.ltb_spec l 6) as [_|H]; [|lia]. destruct (Nat.leb_spec 1 l) as [_|H]; [|lia].
  cbn [always bind]. f_equal. unfold distinct_count, level_count. apply nodup_length_same.
  intro x. apply small_level_nodes; assumption.
Qed.

(* ================================================================== model: levels >= 6 (groups of words) *)

Lemma skipn_skipn' {A} a b (l : list A) : skipn a (skipn b l) = skipn (b + a) l.
Proof.
  revert l. induction b as [|b IH]; intro l; [reflexivity|].
  destruct l as [|x l]; [destruct a; reflexivity|]. cbn [skipn Nat.add]. apply IH.
Qed.

Lemma nth_firstn_lt {A} k n (l : list A) d : (k < n)%nat -> nth k (firstn n l) d = nth k l d.
Proof.
  revert k l. induction n as [|n IH]; intros k l H; [lia|].
  destruct l as [|x l]; [reflexivity|]. destruct k as [|k]; [reflexivity|].
  cbn [firstn nth]. apply IH. lia.
Qed.

Lemma nth_skipn' {A} k s (l : list A) d : nth k (skipn s l) d = nth (s + k) l d.
Proof.
  revert l. induction s as [|s IH]; intro l; [reflexivity|].
  destruct l as [|x l]; [destruct k; reflexivity|]. cbn [skipn Nat.add nth]. apply IH.
Qed.

Lemma nth_map_lt {A B} (f : A -> B) l k d d' : (k < length l)%nat -> nth k (map f l) d' = f (nth k l d).
Proof.
  revert k. induction l as [|x l IH]; intros k H; cbn [length] in H; [lia|].
  destruct k as [|k]; [reflexivity|]. cbn [map nth]. apply IH. lia.
Qed.

Lemma In_firstn {A} n (l : list A) x : In x (firstn n l) -> In x l.
Proof. intros H. rewrite <- (firstn_skipn n l). apply in_or_app. left. exact H. Qed.

Lemma In_skipn {A} n (l : list A) x : In x (skipn n l) -> In x l.
Proof. intros H. rewrite <- (firstn_skipn n l). apply in_or_app. right. exact H. Qed.

Lemma groups_In nb q t c :
  In c (groups nb q t) <-> exists a, (a < q)%nat /\ c = firstn nb (skipn (a * nb) t).
Proof.
  revert t. induction q as [|q IH]; intro t.
  - cbn [groups In]. split; [intros []|intros [a [Ha _]]; lia].
  - cbn [groups In]. rewrite IH. split.
    + intros [E|[a [Ha E]]].
      * exists 0%nat. split; [lia|]. symmetry. exact E.
      * exists (S a). split; [lia|]. rewrite E, skipn_skipn'. reflexivity.
    + intros [a [Ha E]]. destruct a as [|a].
      * left. symmetry. exact E.
      * right. exists a. split; [lia|]. rewrite E, skipn_skipn'. reflexivity.
Qed.

Lemma groups_app nb q1 q2 (t1 t2 : list N) :
  length t1 = (q1 * nb)%nat -> groups nb (q1 + q2) (t1 ++ t2) = groups nb q1 t1 ++ groups nb q2 t2.
Proof.
  revert t1. induction q1 as [|q1 IH]; intros t1 H.
  - destruct t1; [reflexivity|discriminate].
  - change (S q1 * nb)%nat with (nb + q1 * nb)%nat in H.
    cbn [Nat.add groups app]. rewrite firstn_app, skipn_app.
    replace (nb - length t1)%nat with 0%nat by lia. cbn [firstn skipn]. rewrite app_nil_r. f_equal.
    apply IH. rewrite skipn_length, H. lia.
Qed.

Lemma groups_concat nb per (ts : list (list N)) :
  Forall (fun t => length t = (per * nb)%nat) ts ->
  groups nb (length ts * per) (concat ts) = flat_map (groups nb per) ts.
Proof.
  induction ts as [|t ts IH]; intros H; [reflexivity|].
  inversion H as [|t' ts' Ht Hts]; subst. cbn [length concat flat_map].
  change (S (length ts) * per)%nat with (per + length ts * per)%nat.
  rewrite groups_app by exact Ht. f_equal. apply IH. exact Hts.
Qed.

Lemma concat_length_const (P : nat) (ts : list (list N)) :
  Forall (fun t => length t = P) ts -> length (concat ts) = (length ts * P)%nat.
Proof.
  induction ts as [|t ts IH]; intros H; [reflexivity|].
  inversion H as [|t' ts' Ht Hts]; subst. cbn [concat length]. rewrite app_length, (IH Hts). lia.
Qed.

Definition w64 (c : list N) : Prop := Forall (fun w => w < 2 ^ 64) c.

Lemma w64_nth c k : w64 c -> nthN c k < 2 ^ 64.
Proof.
  intros H. unfold nthN. destruct (nth_in_or_default k c 0) as [Hin|E].
  - unfold w64 in H. rewrite Forall_forall in H. apply H. exact Hin.
  - rewrite E. apply pow2_pos.
Qed.

Lemma val_nth c k r : r < 64 -> val c (64 * N.of_nat k + r) = N.testbit (nthN c k) r.
Proof. intros Hr. rewrite val_word by exact Hr. rewrite Nat2N.id. reflexivity. Qed.

Lemma val_firstn nb c p : p < 64 * N.of_nat nb -> val (firstn nb c) p = val c p.
Proof.
  intros Hp. unfold val, nthN.
  assert (p / 64 < N.of_nat nb) by (apply N.div_lt_upper_bound; lia).
  rewrite nth_firstn_lt by lia. reflexivity.
Qed.

Lemma val_skipn s c p : val (skipn s c) p = val c (p + 64 * N.of_nat s).
Proof.
  unfold val, nthN. rewrite nth_skipn'. rewrite (N.mul_comm 64), N.div_add, N.mod_add by lia.
  f_equal. f_equal. lia.
Qed.

(* word-wise relations are bit-wise relations *)
Lemma words_bits (R : N -> N -> Prop) (Rb : bool -> bool -> Prop) u v m :
  (forall w w', w < 2 ^ 64 -> w' < 2 ^ 64 ->
                (R w w' <-> forall r, r < 64 -> Rb (N.testbit w r) (N.testbit w' r))) ->
  w64 u -> w64 v ->
  ((forall k, (k < m)%nat -> R (nthN u k) (nthN v k)) <->
   (forall p, p < 64 * N.of_nat m -> Rb (val u p) (val v p))).
Proof.
  intros HR Hu Hv. split.
  - intros H p Hp. unfold val.
    assert (Hk : (N.to_nat (p / 64) < m)%nat).
    { assert (p / 64 < N.of_nat m) by (apply N.div_lt_upper_bound; lia). lia. }
    apply (proj1 (HR _ _ (w64_nth u _ Hu) (w64_nth v _ Hv)) (H _ Hk)). apply N.mod_lt. lia.
  - intros H k Hk. apply (HR _ _ (w64_nth u k Hu) (w64_nth v k Hv)). intros r Hr.
    rewrite <- !val_nth by exact Hr. apply H. lia.
Qed.

Lemma word_eq_bits w w' :
  w < 2 ^ 64 -> w' < 2 ^ 64 -> (w = w' <-> forall r, r < 64 -> N.testbit w r = N.testbit w' r).
Proof. intros Hw Hw'. rewrite <- (eqb_bits 64) by assumption. symmetry. apply N.eqb_eq. Qed.

Lemma word_not_bits w w' :
  w < 2 ^ 64 -> w' < 2 ^ 64 -> (w = not64 w' <-> forall r, r < 64 -> N.testbit w r = negb (N.testbit w' r)).
Proof.
  intros Hw Hw'. rewrite (word_eq_bits w (not64 w') Hw (not64_lt w' Hw')).
  split; intros H r Hr; specialize (H r Hr); rewrite not64_spec_low in * by exact Hr; exact H.
Qed.

Lemma word_zero_bits w (w' : N) :
  w < 2 ^ 64 -> w' < 2 ^ 64 -> (w = 0 <-> forall r, r < 64 -> N.testbit w r = false).
Proof.
  intros Hw _. rewrite (word_eq_bits w 0 Hw (pow2_pos 64)).
  split; intros H r Hr; specialize (H r Hr); rewrite N.bits_0 in *; exact H.
Qed.

Lemma list_eq_nth (u v : list N) m :
  length u = m -> length v = m -> (u = v <-> forall k, (k < m)%nat -> nthN u k = nthN v k).
Proof.
  intros Lu Lv. split; [intros -> k _; reflexivity|].
  intros H. apply (nth_ext u v 0 0); [congruence|]. intros k Hk. apply H. lia.
Qed.

Lemma forallb_combine_nth (f : N * N -> bool) (u v : list N) m :
  length u = m -> length v = m ->
  (forallb f (combine u v) = true <-> forall k, (k < m)%nat -> f (nthN u k, nthN v k) = true).
Proof.
  revert v m. induction u as [|a u IH]; intros v m Lu Lv.
  - cbn [combine forallb]. cbn [length] in Lu. split; [intros _ k Hk; lia|reflexivity].
  - destruct v as [|b v]; cbn [length] in Lu, Lv; [lia|].
    cbn [combine forallb]. rewrite andb_true_iff. rewrite (IH v (length u) eq_refl ltac:(lia)). split.
    + intros [H0 H] k Hk. destruct k as [|k]; [exact H0|]. apply (H k). lia.
    + intros H. split; [apply (H 0%nat); lia|]. intros k Hk. apply (H (S k)). lia.
Qed.

Lemma forallb_nth (f : N -> bool) (u : list N) m :
  length u = m -> (forallb f u = true <-> forall k, (k < m)%nat -> f (nthN u k) = true).
Proof.
  intros Lu. rewrite forallb_forall. split.
  - intros H k Hk. apply H. apply nthN_In. lia.
  - intros H w Hw. apply In_nthN in Hw. destruct Hw as [k [Hk ->]]. apply H. lia.
Qed.

(* the retain filter on groups *)
Lemma keep_large_spec l c :
  (6 <= l)%nat -> length c = (2 ^ (l - 5))%nat -> w64 c -> keep_large (2 ^ (l - 6)) c = keep l (val c).
Proof.
  intros Hl Lc Wc. set (mid := (2 ^ (l - 6))%nat) in *.
  assert (Hnb : (2 ^ (l - 5) = 2 * mid)%nat).
  { unfold mid. replace (l - 5)%nat with (S (l - 6)) by lia. apply Nat.pow_succ_r'. }
  assert (HM : 64 * N.of_nat mid = 2 ^ N.of_nat l).
  { unfold mid. rewrite pow2_nat. change 64 with (2 ^ N.of_nat 6). apply pow2_split. lia. }
  unfold keep_large. set (lo := firstn mid c). set (h := skipn mid c).
  assert (Llo : length lo = mid) by (unfold lo; rewrite firstn_length; lia).
  assert (Lh : length h = mid) by (unfold h; rewrite skipn_length; lia).
  assert (Wlo : w64 lo).
  { apply Forall_forall. intros w Hw. unfold w64 in Wc. rewrite Forall_forall in Wc. apply Wc.
    apply (In_firstn mid). exact Hw. }
  assert (Wh : w64 h).
  { apply Forall_forall. intros w Hw. unfold w64 in Wc. rewrite Forall_forall in Wc. apply Wc.
    apply (In_skipn mid). exact Hw. }
  assert (Vlo : forall p, p < 2 ^ N.of_nat l -> val lo p = val c p).
  { intros p Hp. apply val_firstn. rewrite HM. exact Hp. }
  assert (Vh : forall p, val h p = val c (p + 2 ^ N.of_nat l)).
  { intro p. unfold h. rewrite val_skipn, HM. reflexivity. }
  assert (E1 : lo = h <-> depends l (val c) = false).
  { rewrite (list_eq_nth lo h mid Llo Lh).
    rewrite (words_bits eq eq lo h mid word_eq_bits Wlo Wh). rewrite HM, depends_false.
    split; intros H p Hp; specialize (H p Hp); rewrite ?Vlo, ?Vh in * by exact Hp; exact H. }
  assert (E2 : forallb (fun p => fst p =? not64 (snd p)) (combine lo h) &&
               (forallb (fun w => w =? 0) lo || forallb (fun w => w =? 0) h) = is_literal l (val c)).
  { apply eq_true_iff_eq. rewrite andb_true_iff, orb_true_iff.
    rewrite (forallb_combine_nth _ lo h mid Llo Lh), (forallb_nth _ lo mid Llo), (forallb_nth _ h mid Lh).
    assert (Hopp : (forall k, (k < mid)%nat -> (fst (nthN lo k, nthN h k) =? not64 (snd (nthN lo k, nthN h k))) = true)
                   <-> (forall p, p < 2 ^ N.of_nat l -> val c p = negb (val c (p + 2 ^ N.of_nat l)))).
    { cbn [fst snd]. transitivity (forall k, (k < mid)%nat -> nthN lo k = not64 (nthN h k)).
      { split; intros H k Hk; specialize (H k Hk); apply N.eqb_eq; exact H. }
      transitivity (forall p, p < 64 * N.of_nat mid -> val lo p = negb (val h p)).
      { apply (words_bits (fun w w' => w = not64 w') (fun b b' => b = negb b') lo h mid word_not_bits Wlo Wh). }
      rewrite HM. split; intros H p Hp; specialize (H p Hp); rewrite ?Vlo, ?Vh in * by exact Hp; exact H. }
    assert (Hlz : (forall k, (k < mid)%nat -> (nthN lo k =? 0) = true)
                  <-> (forall p, p < 2 ^ N.of_nat l -> val c p = false)).
    { transitivity (forall k, (k < mid)%nat -> nthN lo k = 0).
      { split; intros H k Hk; specialize (H k Hk); apply N.eqb_eq; exact H. }
      transitivity (forall p, p < 64 * N.of_nat mid -> val lo p = false).
      { apply (words_bits (fun w _ => w = 0) (fun b _ => b = false) lo lo mid word_zero_bits Wlo Wlo). }
      rewrite HM. split; intros H p Hp; specialize (H p Hp); rewrite ?Vlo in * by exact Hp; exact H. }
    assert (Hhz : (forall k, (k < mid)%nat -> (nthN h k =? 0) = true)
                  <-> (forall p, p < 2 ^ N.of_nat l -> val c (p + 2 ^ N.of_nat l) = false)).
    { transitivity (forall k, (k < mid)%nat -> nthN h k = 0).
      { split; intros H k Hk; specialize (H k Hk); apply N.eqb_eq; exact H. }
      transitivity (forall p, p < 64 * N.of_nat mid -> val h p = false).
      { apply (words_bits (fun w _ => w = 0) (fun b _ => b = false) h h mid word_zero_bits Wh Wh). }
      rewrite HM. split; intros H p Hp; specialize (H p Hp); rewrite ?Vh in *; exact H. }
    rewrite Hopp, Hlz, Hhz, is_literal_true. split.
    - intros [Ho [Hz|Hz]]; [left|right]; intros p Hp; specialize (Ho p Hp); specialize (Hz p Hp).
      + split; [exact Hz|]. rewrite Hz in Ho. destruct (val c (p + 2 ^ N.of_nat l)); [reflexivity|discriminate].
      + split; [|exact Hz]. rewrite Hz in Ho. exact Ho.
    - intros [H|H].
      + split; [|left]; intros p Hp; destruct (H p Hp) as [H1 H2]; rewrite ?H1, ?H2; reflexivity.
      + split; [|right]; intros p Hp; destruct (H p Hp) as [H1 H2]; rewrite ?H1, ?H2; reflexivity. }
  unfold keep. destruct (list_eq_dec N.eq_dec lo h) as [E|NE].
  - rewrite (proj1 E1 E). reflexivity.
  - destruct (depends l (val c)) eqn:D.
    + cbn [andb]. rewrite E2. destruct (is_literal l (val c)); reflexivity.
    + exfalso. apply NE. apply E1. reflexivity.
Qed.

Lemma hd_nthN (c : list N) : hd 0 c = nthN c 0.
Proof. destruct c; reflexivity. Qed.

Lemma val_0 c : val c 0 = N.testbit (nthN c 0) 0.
Proof. reflexivity. Qed.

Lemma normalize_length c : length (normalize_group c) = length c.
Proof. unfold normalize_group. destruct (negb (N.land (hd 0 c) 1 =? 0)); [apply map_length|reflexivity]. Qed.

Lemma normalize_w64 c : w64 c -> w64 (normalize_group c).
Proof.
  intros H. unfold normalize_group. destruct (negb (N.land (hd 0 c) 1 =? 0)); [|exact H].
  unfold w64 in *. rewrite Forall_forall in *. intros w Hw. apply in_map_iff in Hw.
  destruct Hw as [w' [<- Hw']]. apply not64_lt. apply H. exact Hw'.
Qed.

Lemma val_normalize c p : p < 64 * N.of_nat (length c) -> val (normalize_group c) p = norm (val c) p.
Proof.
  intros Hp. unfold normalize_group. rewrite land1_testbit, hd_nthN, <- val_0, norm_spec.
  destruct (val c 0); [|rewrite xorb_false_r; reflexivity].
  rewrite xorb_true_r. unfold val, nthN.
  assert (p / 64 < N.of_nat (length c)) by (apply N.div_lt_upper_bound; lia).
  rewrite (nth_map_lt not64 c _ 0 0) by lia. apply not64_spec_low. apply N.mod_lt. lia.
Qed.

Lemma nz_false c : existsb (fun w => negb (w =? 0)) c = false -> forall p, val c p = false.
Proof.
  intros H p. unfold val, nthN.
  destruct (nth_in_or_default (N.to_nat (p / 64)) c 0) as [Hin|E]; [|rewrite E; apply N.bits_0].
  destruct (N.eq_dec (nth (N.to_nat (p / 64)) c 0) 0) as [E|NE]; [rewrite E; apply N.bits_0|].
  exfalso. assert (T : existsb (fun w => negb (w =? 0)) c = true).
  { apply existsb_exists. eexists. split; [exact Hin|]. apply negb_true_iff, N.eqb_neq. exact NE. }
  rewrite T in H. discriminate.
Qed.

(* a group of 2^(l-5) words as a function of l+1 variables *)
Definition repr (l : nat) (c : list N) (g : N -> bool) : Prop :=
  length c = (2 ^ (l - 5))%nat /\ w64 c /\ forall p, p < 2 ^ N.of_nat (l + 1) -> val c p = g p.

Lemma nb_bits l : (5 <= l)%nat -> 64 * N.of_nat (2 ^ (l - 5)) = 2 ^ N.of_nat (l + 1).
Proof. intros Hl. rewrite pow2_nat. change 64 with (2 ^ N.of_nat 6). apply pow2_split. lia. Qed.

Lemma repr_inj l c c' g g' :
  (5 <= l)%nat -> repr l c g -> repr l c' g' -> ttnum (l + 1) g = ttnum (l + 1) g' -> c = c'.
Proof.
  intros Hl [Lc [Wc Vc]] [Lc' [Wc' Vc']] E.
  apply (list_eq_nth c c' _ Lc Lc'). apply (words_bits eq eq c c' _ word_eq_bits Wc Wc').
  rewrite (nb_bits l Hl). intros p Hp. rewrite (Vc p Hp), (Vc' p Hp). apply (ttnum_inj _ _ _ E p Hp).
Qed.

Lemma repr_normalize l c g : (5 <= l)%nat -> repr l c g -> repr l (normalize_group c) (norm g).
Proof.
  intros Hl [Lc [Wc Vc]]. split; [rewrite normalize_length; exact Lc|]. split; [apply normalize_w64; exact Wc|].
  intros p Hp. rewrite val_normalize by (rewrite Lc, (nb_bits l Hl); exact Hp).
  apply (norm_ext (l + 1)); assumption.
Qed.

Lemma repr_group n t l a :
  wf n t -> (6 <= l)%nat -> (l < n)%nat -> (a < 2 ^ (n - 1 - l))%nat ->
  repr l (firstn (2 ^ (l - 5)) (skipn (a * 2 ^ (l - 5)) t)) (sub t l (N.of_nat a)).
Proof.
  intros Hwf Hl Hn Ha. set (nb := (2 ^ (l - 5))%nat).
  assert (Lt : length t = (2 ^ (n - 1 - l) * nb)%nat).
  { rewrite (wf_length n t Hwf). unfold table_size, nb. rewrite Nat.max_l by lia.
    rewrite <- Nat.pow_add_r. f_equal. lia. }
  split; [|split].
  - rewrite firstn_length, skipn_length, Lt. nia.
  - apply Forall_forall. intros w Hw. apply In_firstn, In_skipn in Hw.
    pose proof (wf_Forall64 n t Hwf) as W. rewrite Forall_forall in W. apply W. exact Hw.
  - intros p Hp. rewrite val_firstn by (unfold nb; rewrite (nb_bits l); [exact Hp|lia]).
    rewrite val_skipn. unfold sub. f_equal. f_equal.
    rewrite Nat2N.inj_mul. unfold nb. rewrite <- (nb_bits l) by lia. lia.
Qed.

Lemma large_level_nodes n ts l x :
  Forall (wf n) ts -> (6 <= l)%nat -> (l < n)%nat ->
  In x (map (fun c => ttnum (l + 1) (val c))
          (filter (keep_large (2 ^ (l - 6)))
             (filter (fun c => existsb (fun w => negb (w =? 0)) c)
                (map normalize_group (flat_map (groups (2 ^ (l - 5)) (2 ^ (n - 1 - l))) ts))))) <->
  In x (level_nodes n ts l).
Proof.
  intros Hwf Hl Hn. rewrite Forall_forall in Hwf. rewrite in_map_iff, level_nodes_In. split.
  - intros [c [Hx Hc]]. apply filter_In in Hc. destruct Hc as [Hc Hk]. apply filter_In in Hc.
    destruct Hc as [Hc _]. apply in_map_iff in Hc. destruct Hc as [c0 [Hc0 Hc]].
    apply in_flat_map in Hc. destruct Hc as [t [Ht Hc]]. apply groups_In in Hc. destruct Hc as [a [Ha Hc]].
    pose proof (repr_group n t l a (Hwf t Ht) Hl Hn Ha) as R. rewrite <- Hc in R.
    apply (repr_normalize l) in R; [|lia]. rewrite Hc0 in R. destruct R as [Lc [Wc Vc]].
    exists t, (N.of_nat a). split; [exact Ht|]. split; [rewrite <- pow2_nat; lia|]. split.
    + rewrite <- Hx. apply ttnum_ext. exact Vc.
    + rewrite <- Hk. rewrite (keep_large_spec l c Hl Lc Wc). symmetry. apply keep_ext. exact Vc.
  - intros [t [a [Ht [Ha [Hx Hk]]]]].
    assert (Ha' : (N.to_nat a < 2 ^ (n - 1 - l))%nat) by (rewrite <- pow2_nat in Ha; lia).
    pose proof (repr_group n t l (N.to_nat a) (Hwf t Ht) Hl Hn Ha') as R. rewrite N2Nat.id in R.
    apply (repr_normalize l) in R; [|lia].
    set (c := normalize_group (firstn (2 ^ (l - 5)) (skipn (N.to_nat a * 2 ^ (l - 5)) t))) in *.
    destruct R as [Lc [Wc Vc]].
    assert (Hxc : ttnum (l + 1) (val c) = x) by (rewrite Hx; apply ttnum_ext; exact Vc).
    exists c. split; [exact Hxc|].
    apply filter_In. split; [apply filter_In; split|].
    + apply in_map. apply in_flat_map. exists t. split; [exact Ht|]. apply groups_In.
      exists (N.to_nat a). split; [exact Ha'|reflexivity].
    + destruct (existsb (fun w => negb (w =? 0)) c) eqn:NZ; [reflexivity|]. exfalso.
      assert (Z : x = 0).
      { rewrite <- Hxc. apply ttnum_zero. intros p _. apply nz_false. exact NZ. }
      revert Z. rewrite Hx. apply depends_nonzero. unfold keep in Hk. apply andb_true_iff in Hk. apply Hk.
    + rewrite (keep_large_spec l c Hl Lc Wc). rewrite <- Hk. apply keep_ext. exact Vc.
Qed.

Lemma large_level_inj n ts l c c' :
  Forall (wf n) ts -> (6 <= l)%nat -> (l < n)%nat ->
  In c (map normalize_group (flat_map (groups (2 ^ (l - 5)) (2 ^ (n - 1 - l))) ts)) ->
  In c' (map normalize_group (flat_map (groups (2 ^ (l - 5)) (2 ^ (n - 1 - l))) ts)) ->
  ttnum (l + 1) (val c) = ttnum (l + 1) (val c') -> c = c'.
Proof.
  intros Hwf Hl Hn Hc Hc' E. rewrite Forall_forall in Hwf.
  assert (R : forall d, In d (map normalize_group (flat_map (groups (2 ^ (l - 5)) (2 ^ (n - 1 - l))) ts)) ->
                        repr l d (val d)).
  { intros d Hd. apply in_map_iff in Hd. destruct Hd as [d0 [Hd0 Hd]].
    apply in_flat_map in Hd. destruct Hd as [t [Ht Hd]]. apply groups_In in Hd. destruct Hd as [a [Ha Hd]].
    pose proof (repr_group n t l a (Hwf t Ht) Hl Hn Ha) as R. rewrite <- Hd in R.
    apply (repr_normalize l) in R; [|lia]. rewrite Hd0 in R. destruct R as [Ld [Wd _]].
    split; [exact Ld|]. split; [exact Wd|]. intros p _. reflexivity. }
  apply (repr_inj l c c' (val c) (val c')); [lia|apply R; exact Hc|apply R; exact Hc'|exact E].
Qed.

Lemma large_level_complexity_spec n ts l :
  Forall (wf n) ts -> (6 <= l)%nat -> (l < n)%nat ->
  large_level_complexity (concat ts) l = Ok (level_count n ts l).
Proof.
  intros Hwf Hl Hn. unfold large_level_complexity.
  destruct (Nat.leb_spec 6 l) as [_|H]; [|lia]. cbn [always bind].
  set (nb := (2 ^ (l - 5))%nat). set (per := (2 ^ (n - 1 - l))%nat).
  assert (Hnb : nb <> 0%nat) by (apply Nat.pow_nonzero; lia).
  assert (Lts : Forall (fun t => length t = (per * nb)%nat) ts).
  { eapply Forall_impl; [|exact Hwf]. cbv beta. intros t Ht. rewrite (wf_length n t Ht).
    unfold table_size, per, nb. rewrite Nat.max_l by lia. rewrite <- Nat.pow_add_r. f_equal. lia. }
  assert (Len : length (concat ts) = (length ts * per * nb)%nat).
  { rewrite (concat_length_const (per * nb) ts Lts). lia. }
  rewrite Len. rewrite Nat.mod_mul by exact Hnb. cbn [Nat.eqb always bind].
  replace ((length ts * per * nb + nb - 1) / nb)%nat with (length ts * per)%nat.
  2:{ replace (length ts * per * nb + nb - 1)%nat with (length ts * per * nb + (nb - 1))%nat by lia.
      rewrite Nat.div_add_l by exact Hnb. rewrite Nat.div_small by lia. lia. }
  rewrite (groups_concat nb per ts Lts). f_equal. unfold distinct_count, level_count.
  rewrite <- (nodup_length_map_inj (list_eq_dec N.eq_dec) N.eq_dec (fun c => ttnum (l + 1) (val c))).
  - apply nodup_length_same. intro x. apply large_level_nodes; assumption.
  - intros c c' Hc Hc' E. apply filter_In in Hc, Hc'. destruct Hc as [Hc _], Hc' as [Hc' _].
    apply filter_In in Hc, Hc'. destruct Hc as [Hc _], Hc' as [Hc' _].
    apply (large_level_inj n ts l c c'); assumption.
Qed.

(* ================================================================== the sum over the levels *)

Lemma sumM_map (f : nat -> res nat) (g : nat -> nat) ls :
  (forall l, In l ls -> f l = Ok (g l)) -> sumM (map f ls) = Ok (list_sum (map g ls)).
Proof.
  induction ls as [|l ls IH]; intros H; [reflexivity|].
  cbn [map sumM]. rewrite (H l) by (left; reflexivity). rewrite IH by (intros k Hk; apply H; right; exact Hk).
  reflexivity.
Qed.

Lemma list_sum_app' a b : list_sum (a ++ b) = (list_sum a + list_sum b)%nat.
Proof. apply list_sum_app. Qed.

Lemma table_complexity_spec n ts :
  Forall (wf n) ts -> table_complexity n (concat ts) = Ok (bdd_nodes n ts).
Proof.
  intros Hwf. unfold table_complexity.
  rewrite (sumM_map _ (level_count n ts)).
  2:{ intros l Hl. apply in_seq in Hl. apply level_complexity_spec; [exact Hwf|lia|lia|lia]. }
  rewrite (sumM_map _ (level_count n ts)).
  2:{ intros l Hl. apply in_seq in Hl. apply large_level_complexity_spec; [exact Hwf|lia|lia]. }
  cbn [bind]. f_equal. unfold bdd_nodes. rewrite <- list_sum_app, <- map_app.
  destruct n as [|n]; [reflexivity|].
  change (seq 0 (S n)) with (0%nat :: seq 1 n). cbn [map]. 
  change (list_sum (level_count (S n) ts 0 :: map (level_count (S n) ts) (seq 1 n)))
    with (level_count (S n) ts 0 + list_sum (map (level_count (S n) ts) (seq 1 n)))%nat.
  rewrite bdd_level0_count. cbn [Nat.add]. f_equal. f_equal.
  destruct (Nat.le_gt_cases (S n) 6) as [L|L].
  - rewrite Nat.min_l by exact L. replace (S n - 6)%nat with 0%nat by lia. cbn [seq].
    rewrite app_nil_r. f_equal. lia.
  - rewrite Nat.min_r by lia. change (6 - 1)%nat with 5%nat.
    replace (seq 1 n) with (seq 1 (5 + (S n - 6))) by (f_equal; lia). rewrite seq_app. reflexivity.
Qed.

(* ================================================================== API forms *)

Lemma flat_map_tbl luts : flat_map tbl luts = concat (map tbl luts).
Proof. apply flat_map_concat_map. Qed.

Lemma S_bdd_complexity_spec n luts :
  Forall (fun l => wf n (tbl l)) luts -> S_bdd_complexity n luts = Ok (bdd_nodes n (map tbl luts)).
Proof.
  intros H. unfold S_bdd_complexity. rewrite flat_map_tbl. apply table_complexity_spec.
  apply Forall_forall. intros t Ht. apply in_map_iff in Ht. destruct Ht as [l [<- Hl]].
  rewrite Forall_forall in H. apply H. exact Hl.
Qed.

Lemma D_bdd_complexity_spec l0 luts :
  Forall (fun l => nv l = nv l0 /\ wf (nv l) (tbl l)) (l0 :: luts) ->
  D_bdd_complexity (l0 :: luts) = Ok (bdd_nodes (nv l0) (map tbl (l0 :: luts))).
Proof.
  intros H. unfold D_bdd_complexity.
  assert (G : forallb (fun l => Nat.eqb (nv l) (nv l0)) (l0 :: luts) = true).
  { apply forallb_forall. intros l Hl. rewrite Forall_forall in H. apply Nat.eqb_eq. apply (H l Hl). }
  rewrite G. cbn [always bind]. rewrite flat_map_tbl. apply table_complexity_spec.
  apply Forall_forall. intros t Ht. apply in_map_iff in Ht. destruct Ht as [l [<- Hl]].
  rewrite Forall_forall in H. destruct (H l Hl) as [E W]. rewrite <- E. exact W.
Qed.

Lemma D_bdd_complexity_empty : D_bdd_complexity [] = Ok 0%nat.
Proof. reflexivity. Qed.

Lemma D_bdd_complexity_size_guard l0 luts :
  (exists l, In l luts /\ nv l <> nv l0) -> D_bdd_complexity (l0 :: luts) = PanicAlways.
Proof.
  intros [l [Hl Hne]]. unfold D_bdd_complexity.
  assert (G : forallb (fun l => Nat.eqb (nv l) (nv l0)) (l0 :: luts) = false).
  { destruct (forallb (fun l => Nat.eqb (nv l) (nv l0)) (l0 :: luts)) eqn:E; [|reflexivity].
    rewrite forallb_forall in E. specialize (E l (or_intror Hl)). apply Nat.eqb_eq in E. contradiction. }
  rewrite G. reflexivity.
Qed.

(* ================================================================== consequences for the code itself *)

Lemma bdd_complement_any n t ts1 ts2 :
  wf n t -> bdd_nodes n (ts1 ++ not_inplace n t :: ts2) = bdd_nodes n (ts1 ++ t :: ts2).
Proof.
  intros Hwf.
  rewrite <- (bdd_perm_invariant n _ _ (Permutation_middle ts1 ts2 (not_inplace n t))).
  rewrite <- (bdd_perm_invariant n _ _ (Permutation_middle ts1 ts2 t)).
  apply bdd_complement_invariant. exact Hwf.
Qed.

Lemma table_complexity_perm n ts ts' :
  Forall (wf n) ts -> Permutation ts ts' ->
  table_complexity n (concat ts') = table_complexity n (concat ts).
Proof.
  intros Hwf P. rewrite (table_complexity_spec n ts Hwf).
  rewrite (table_complexity_spec n ts' (Permutation_Forall P Hwf)).
  f_equal. symmetry. apply bdd_perm_invariant. exact P.
Qed.

Lemma table_complexity_dup n t ts :
  Forall (wf n) ts -> In t ts ->
  table_complexity n (concat (t :: ts)) = table_complexity n (concat ts).
Proof.
  intros Hwf Ht. rewrite (table_complexity_spec n ts Hwf).
  assert (Hwf' : Forall (wf n) (t :: ts)).
  { constructor; [|exact Hwf]. rewrite Forall_forall in Hwf. apply Hwf. exact Ht. }
  rewrite (table_complexity_spec n (t :: ts) Hwf'). f_equal. apply bdd_dup_present. exact Ht.
Qed.

Lemma table_complexity_complement n t ts1 ts2 :
  Forall (wf n) (ts1 ++ t :: ts2) ->
  table_complexity n (concat (ts1 ++ not_inplace n t :: ts2)) = table_complexity n (concat (ts1 ++ t :: ts2)).
Proof.
  intros Hwf. rewrite (table_complexity_spec n _ Hwf).
  assert (Ht : wf n t).
  { rewrite Forall_forall in Hwf. apply Hwf. apply in_or_app. right. left. reflexivity. }
  assert (Hwf' : Forall (wf n) (ts1 ++ not_inplace n t :: ts2)).
  { rewrite Forall_forall in *. intros u Hu. apply in_app_or in Hu. destruct Hu as [Hu|[<-|Hu]].
    - apply Hwf. apply in_or_app. left. exact Hu.
    - apply not_wf. exact Ht.
    - apply Hwf. apply in_or_app. right. right. exact Hu. }
  rewrite (table_complexity_spec n _ Hwf'). f_equal. apply bdd_complement_any. exact Ht.
Qed.

(* two sub-functions have the same number iff they are the same function on their domain *)
Lemma ttnum_eq_iff k g g' : ttnum k g = ttnum k g' <-> forall m, m < 2 ^ N.of_nat k -> g m = g' m.
Proof. split; [apply ttnum_inj|apply ttnum_ext]. Qed.
