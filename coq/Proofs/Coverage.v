(* C04, coverage side conditions: for every n <= 8 the swap / flip sequences used by the canonization walks exist,
   are valid and closed, and the certificate lists of Spec/Transform.v (p_certs, n_certs, npn_certs) contain every
   element of the respective group (all permutations, all input/output complementation masks, their product).

   Finite facts are decided by one boolean check per n (check_sw n, check_fl n), evaluated by the VM on the generated
   tables (n <= 6) and on the Gallina mirror of the runtime generators (n = 7, 8); the quantification over
   permutations is closed by the general lemma all_perms_complete. *)
From Coq Require Import List NArith Arith Bool Permutation Lia MSetPositive.
From V Require Import Base.Res Gen.Tables Model.Kernels Base.Bits Model.Canon Spec.Transform.
Import ListNotations.
Open Scope N_scope.

(* ------------------------------------------------------------------ 2. enumeration of all permutations *)
Section Perms.
  Context {A : Type}.

  (* x inserted at every position of l *)
  Fixpoint inserts (x : A) (l : list A) : list (list A) :=
    match l with
    | [] => [[x]]
    | y :: r => (x :: l) :: map (cons y) (inserts x r)
    end.

  Fixpoint perms (l : list A) : list (list A) :=
    match l with
    | [] => [[]]
    | x :: r => flat_map (inserts x) (perms r)
    end.

  Lemma inserts_in x l1 l2 : In (l1 ++ x :: l2) (inserts x (l1 ++ l2)).
  Proof.
    induction l1 as [|y l1 IH]; cbn [app inserts].
    - destruct l2 as [|z l2]; cbn [inserts]; left; reflexivity.
    - right. apply in_map. exact IH.
  Qed.

  Lemma perms_complete l : forall l', Permutation l l' -> In l' (perms l).
  Proof.
    induction l as [|x r IH]; intros l' H.
    - apply Permutation_nil in H. subst l'. left; reflexivity.
    - assert (Hin : In x l') by (eapply Permutation_in; [exact H | left; reflexivity]).
      apply in_split in Hin. destruct Hin as [l1 [l2 E]]. subst l'.
      apply Permutation_cons_app_inv in H.
      cbn [perms]. apply in_flat_map. exists (l1 ++ l2). split; [apply IH; exact H | apply inserts_in].
  Qed.
End Perms.

Definition all_perms (n : nat) : list (list N) := perms (identity n).

Lemma all_perms_complete : forall n p, is_perm n p -> In p (all_perms n).
Proof. intros n p H. apply perms_complete. apply Permutation_sym. exact H. Qed.

(* ------------------------------------------------------------------ 6. what the walks visit are certificates *)
Lemma cov_identity_length n : length (identity n) = n.
Proof. unfold identity. rewrite map_length, seq_length. reflexivity. Qed.

Lemma cov_is_perm_length n p : is_perm n p -> length p = n.
Proof. intros H. rewrite (Permutation_length H). apply cov_identity_length. Qed.

Lemma cov_is_perm_identity n : is_perm n (identity n).
Proof. apply Permutation_refl. Qed.

Lemma cov_is_perm_entries n p x : is_perm n p -> In x p -> x < N.of_nat n.
Proof.
  intros H Hx. apply (Permutation_in _ H) in Hx. unfold identity in Hx.
  apply in_map_iff in Hx. destruct Hx as [i [Ei Hi]]. apply in_seq in Hi. lia.
Qed.

Lemma cov_swap_adj_perm (p : list N) : forall i, (i + 1 < length p)%nat ->
  Permutation (upd (upd p i (nthN p (i + 1))) (i + 1) (nthN p i)) p.
Proof.
  unfold nthN. induction p as [|a r IH]; intros i H.
  - cbn [length] in H. lia.
  - destruct i as [|i].
    + destruct r as [|b r]; [cbn [length] in H; lia|].
      cbn [Nat.add upd nth]. apply Permutation.perm_swap.
    + cbn [length] in H. cbn [Nat.add upd nth]. apply perm_skip. apply IH. lia.
Qed.

Lemma swap_entries_is_perm n p s : is_perm n p -> s + 1 < N.of_nat n -> is_perm n (swap_entries p s).
Proof.
  intros H Hs. unfold is_perm, swap_entries.
  eapply Permutation_trans; [apply cov_swap_adj_perm | exact H].
  rewrite (cov_is_perm_length _ _ H). lia.
Qed.

Lemma perms_after_is_perm n sw : swaps_valid n sw = true ->
  forall p, is_perm n p -> forall q, In q (perms_after p sw) -> is_perm n q.
Proof.
  unfold swaps_valid. induction sw as [|s r IH]; intros Hv p Hp q Hq.
  - destruct Hq.
  - cbn [forallb] in Hv. apply andb_true_iff in Hv. destruct Hv as [Hs Hr]. apply N.ltb_lt in Hs.
    cbn [perms_after] in Hq. destruct Hq as [Hq|Hq].
    + subst q. apply swap_entries_is_perm; assumption.
    + apply (IH Hr (swap_entries p s)); [apply swap_entries_is_perm; assumption | exact Hq].
Qed.

Lemma cov_pow2_lt_succ k f : f <= k -> 2 ^ f < 2 ^ (k + 1).
Proof. intros H. apply N.pow_lt_mono_r; lia. Qed.

Lemma masks_after_lt n fl : flips_valid n fl = true ->
  forall cur, cur < 2 ^ (N.of_nat n + 1) ->
  forall m, In m (masks_after n cur fl) -> m < 2 ^ (N.of_nat n + 1).
Proof.
  unfold flips_valid. induction fl as [|f r IH]; intros Hv cur Hc m Hm.
  - destruct Hm.
  - cbn [forallb] in Hv. apply andb_true_iff in Hv. destruct Hv as [Hf Hr]. apply N.ltb_lt in Hf.
    assert (H1 : N.lxor (N.lxor cur (2 ^ f)) (2 ^ N.of_nat n) < 2 ^ (N.of_nat n + 1)).
    { apply lxor_lt; [apply lxor_lt; [exact Hc|]|]; apply cov_pow2_lt_succ; lia. }
    assert (H2 : N.lxor (N.lxor (N.lxor cur (2 ^ f)) (2 ^ N.of_nat n)) (2 ^ N.of_nat n) < 2 ^ (N.of_nat n + 1)).
    { apply lxor_lt; [exact H1|]. apply cov_pow2_lt_succ; lia. }
    cbn [masks_after] in Hm. destruct Hm as [Hm|[Hm|Hm]].
    + subst m. exact H1.
    + subst m. exact H2.
    + exact (IH Hr _ H2 m Hm).
Qed.

Lemma cov_pow2_pos k : 0 < 2 ^ k.
Proof. apply N.neq_0_lt_0. apply N.pow_nonzero. discriminate. Qed.

Lemma p_certs_sound n sw e : swaps_valid n sw = true -> In e (p_certs n sw) ->
  is_perm n (fst e) /\ snd e < 2 ^ (N.of_nat n + 1).
Proof.
  intros Hv He. unfold p_certs in He. apply in_map_iff in He. destruct He as [q [E Hq]]. subst e.
  cbn [fst snd]. split; [|apply cov_pow2_pos].
  exact (perms_after_is_perm n sw Hv _ (cov_is_perm_identity n) q Hq).
Qed.

Lemma n_certs_sound n fl e : flips_valid n fl = true -> In e (n_certs n fl) ->
  is_perm n (fst e) /\ snd e < 2 ^ (N.of_nat n + 1).
Proof.
  intros Hv He. unfold n_certs in He. apply in_map_iff in He. destruct He as [m [E Hm]]. subst e.
  cbn [fst snd]. split; [apply cov_is_perm_identity|].
  exact (masks_after_lt n fl Hv 0 (cov_pow2_pos _) m Hm).
Qed.

Lemma npn_certs_sound n sw fl e : swaps_valid n sw = true -> flips_valid n fl = true -> In e (npn_certs n sw fl) ->
  is_perm n (fst e) /\ snd e < 2 ^ (N.of_nat n + 1).
Proof.
  intros Hs Hf He. unfold npn_certs in He. apply in_flat_map in He. destruct He as [q [Hq He]].
  apply in_map_iff in He. destruct He as [m [E Hm]]. subst e. cbn [fst snd]. split.
  - exact (perms_after_is_perm n sw Hs _ (cov_is_perm_identity n) q Hq).
  - exact (masks_after_lt n fl Hf 0 (cov_pow2_pos _) m Hm).
Qed.

(* ------------------------------------------------------------------ 5. NPN: product of the two walks *)
Lemma npn_certs_in n sw fl p m :
  In p (perms_after (identity n) sw) -> In m (masks_after n 0 fl) -> In (p, m) (npn_certs n sw fl).
Proof.
  intros Hp Hm. unfold npn_certs. apply in_flat_map. exists p. split; [exact Hp|].
  apply (in_map (fun m => (p, m))). exact Hm.
Qed.

Lemma p_certs_in n sw p : In p (perms_after (identity n) sw) -> In (p, 0) (p_certs n sw).
Proof. intros H. unfold p_certs. apply (in_map (fun p => (p, 0))). exact H. Qed.

Lemma n_certs_in n fl m : In m (masks_after n 0 fl) -> In (identity n, m) (n_certs n fl).
Proof. intros H. unfold n_certs. apply (in_map (fun m => (identity n, m))). exact H. Qed.

(* ------------------------------------------------------------------ 3. P coverage: an executable check *)
(* a list of entries < 16 as a number in base 16 with a leading 1; visited permutations go into a PositiveSet *)
Definition perm_enc (l : list N) : N := fold_right (fun x acc => x + 16 * acc) 1 l.
Definition perm_key (l : list N) : positive := N.succ_pos (perm_enc l).
Definition perm_small (l : list N) : bool := forallb (fun x => x <? 16) l.

Lemma perm_enc_cons x l : perm_enc (x :: l) = x + 16 * perm_enc l.
Proof. reflexivity. Qed.

Lemma perm_enc_pos l : 1 <= perm_enc l.
Proof. induction l as [|x l IH]; [cbn; lia | rewrite perm_enc_cons; lia]. Qed.

Lemma perm_enc_inj l1 : forall l2, perm_small l1 = true -> perm_small l2 = true ->
  perm_enc l1 = perm_enc l2 -> l1 = l2.
Proof.
  unfold perm_small. induction l1 as [|x l1 IH]; intros [|y l2] H1 H2 E.
  - reflexivity.
  - rewrite perm_enc_cons in E. pose proof (perm_enc_pos l2) as Hp. change (perm_enc []) with 1 in E. lia.
  - rewrite perm_enc_cons in E. pose proof (perm_enc_pos l1) as Hp. change (perm_enc []) with 1 in E. lia.
  - cbn [forallb] in H1, H2. apply andb_true_iff in H1, H2.
    destruct H1 as [Hx H1], H2 as [Hy H2]. apply N.ltb_lt in Hx, Hy.
    rewrite !perm_enc_cons in E.
    assert (Exy : x = y /\ perm_enc l1 = perm_enc l2) by lia.
    destruct Exy as [Exy E']. subst y. f_equal. exact (IH l2 H1 H2 E').
Qed.

Lemma perm_key_inj l1 l2 : perm_small l1 = true -> perm_small l2 = true -> perm_key l1 = perm_key l2 -> l1 = l2.
Proof.
  intros H1 H2 E. apply perm_enc_inj; [assumption|assumption|]. unfold perm_key in E.
  assert (E' : N.pos (N.succ_pos (perm_enc l1)) = N.pos (N.succ_pos (perm_enc l2))) by (rewrite E; reflexivity).
  rewrite !N.succ_pos_spec in E'. lia.
Qed.

Definition perm_set_add (s : PositiveSet.t) (q : list N) : PositiveSet.t := PositiveSet.add (perm_key q) s.
Definition perm_set (ls : list (list N)) : PositiveSet.t := fold_left perm_set_add ls PositiveSet.empty.

Lemma perm_set_mem ls : forall s k, PositiveSet.mem k (fold_left perm_set_add ls s) = true ->
  PositiveSet.mem k s = true \/ exists q, In q ls /\ perm_key q = k.
Proof.
  induction ls as [|a ls IH]; intros s k H; cbn [fold_left] in H.
  - left. exact H.
  - apply IH in H. destruct H as [H|[q [Hq Hk]]].
    + unfold perm_set_add in H. apply PositiveSet.mem_spec in H. apply PositiveSet.add_spec in H.
      destruct H as [H|H].
      * right. exists a. split; [left; reflexivity | symmetry; exact H].
      * left. apply PositiveSet.mem_spec. exact H.
    + right. exists q. split; [right; exact Hq | exact Hk].
Qed.

Definition cover_check (n : nat) (sw : list N) : bool :=
  let vis := perms_after (identity n) sw in
  let s := perm_set vis in
  forallb perm_small vis && forallb (fun p => PositiveSet.mem (perm_key p) s) (all_perms n).

Lemma is_perm_small n p : (n <= 16)%nat -> is_perm n p -> perm_small p = true.
Proof.
  intros Hn H. unfold perm_small. apply forallb_forall. intros x Hx.
  pose proof (cov_is_perm_entries n p x H Hx) as Hlt. apply N.ltb_lt. lia.
Qed.

Lemma cover_check_sound n sw : (n <= 16)%nat -> cover_check n sw = true ->
  forall p, is_perm n p -> In p (perms_after (identity n) sw).
Proof.
  intros Hn Hc p Hp. unfold cover_check in Hc. cbv zeta in Hc.
  apply andb_true_iff in Hc. destruct Hc as [Hsm Hall].
  rewrite forallb_forall in Hsm, Hall.
  specialize (Hall p (all_perms_complete n p Hp)). cbv beta in Hall.
  unfold perm_set in Hall. apply perm_set_mem in Hall. destruct Hall as [Hall|[q [Hq Hk]]].
  - unfold PositiveSet.empty in Hall. rewrite PositiveSet.mem_Leaf in Hall. discriminate.
  - assert (E : q = p).
    { apply perm_key_inj; [apply Hsm; exact Hq | exact (is_perm_small n p Hn Hp) | exact Hk]. }
    subst q. exact Hq.
Qed.

(* ------------------------------------------------------------------ 4. N coverage: an executable check *)
Definition mask_check (n : nat) (fl : list N) : bool :=
  let ms := masks_after n 0 fl in
  forallb (fun m => existsb (N.eqb m) ms) (map N.of_nat (seq 0 (Nat.pow 2 (n + 1)))).

Lemma cov_below_in k m : m < N.of_nat k -> In m (map N.of_nat (seq 0 k)).
Proof.
  intros H. apply in_map_iff. exists (N.to_nat m). split; [apply N2Nat.id|]. apply in_seq. lia.
Qed.

Lemma cov_pow2_nat n : 2 ^ (N.of_nat n + 1) = N.of_nat (Nat.pow 2 (n + 1)).
Proof.
  rewrite Nat2N.inj_pow. change (N.of_nat 2) with 2. f_equal. lia.
Qed.

Lemma mask_check_sound n fl : mask_check n fl = true ->
  forall m, m < 2 ^ (N.of_nat n + 1) -> In m (masks_after n 0 fl).
Proof.
  intros Hc m Hm. unfold mask_check in Hc. cbv zeta in Hc. rewrite forallb_forall in Hc.
  rewrite cov_pow2_nat in Hm. specialize (Hc m (cov_below_in _ m Hm)). cbv beta in Hc.
  apply existsb_exists in Hc. destruct Hc as [x [Hx E]]. apply N.eqb_eq in E. subst x. exact Hx.
Qed.

(* ------------------------------------------------------------------ 1. one boolean check per n *)
Definition is_nil {A} (l : list A) : bool := match l with [] => true | _ :: _ => false end.

Lemma is_nil_false {A} (l : list A) : negb (is_nil l) = true -> l <> [].
Proof. destruct l; [discriminate | intros _; discriminate]. Qed.

Definition check_sw (n : nat) : bool :=
  match swaps_for n with
  | Ok sw => swaps_valid n sw && swaps_closed n sw &&
             ((n <? 2)%nat || (negb (is_nil sw) && cover_check n sw))
  | _ => false
  end.

Definition check_fl (n : nat) : bool :=
  match flips_for n with
  | Ok fl => flips_valid n fl && flips_closed n fl &&
             ((n <? 1)%nat || (negb (is_nil fl) && mask_check n fl))
  | _ => false
  end.

Lemma check_sw_sound n : (n <= 16)%nat -> check_sw n = true ->
  exists sw, swaps_for n = Ok sw /\ swaps_valid n sw = true /\ swaps_closed n sw = true /\
             ((2 <= n)%nat -> sw <> [] /\ forall p, is_perm n p -> In p (perms_after (identity n) sw)).
Proof.
  intros Hn H. unfold check_sw in H. destruct (swaps_for n) as [sw| |]; [|discriminate|discriminate].
  apply andb_true_iff in H. destruct H as [H H3]. apply andb_true_iff in H. destruct H as [H1 H2].
  exists sw. split; [reflexivity|]. split; [exact H1|]. split; [exact H2|].
  intros H2n. apply orb_true_iff in H3. destruct H3 as [H3|H3].
  - apply Nat.ltb_lt in H3. lia.
  - apply andb_true_iff in H3. destruct H3 as [H3 H4].
    split; [apply is_nil_false; exact H3 | exact (cover_check_sound n sw Hn H4)].
Qed.

Lemma check_fl_sound n : check_fl n = true ->
  exists fl, flips_for n = Ok fl /\ flips_valid n fl = true /\ flips_closed n fl = true /\
             ((1 <= n)%nat -> fl <> [] /\ forall m, m < 2 ^ (N.of_nat n + 1) -> In m (masks_after n 0 fl)).
Proof.
  intros H. unfold check_fl in H. destruct (flips_for n) as [fl| |]; [|discriminate|discriminate].
  apply andb_true_iff in H. destruct H as [H H3]. apply andb_true_iff in H. destruct H as [H1 H2].
  exists fl. split; [reflexivity|]. split; [exact H1|]. split; [exact H2|].
  intros H1n. apply orb_true_iff in H3. destruct H3 as [H3|H3].
  - apply Nat.ltb_lt in H3. lia.
  - apply andb_true_iff in H3. destruct H3 as [H3 H4].
    split; [apply is_nil_false; exact H3 | exact (mask_check_sound n fl H4)].
Qed.

(* the finite part: generated tables for n <= 6, the Gallina generators for n = 7, 8 *)
Lemma check_sw_0 : check_sw 0 = true. Proof. vm_compute; reflexivity. Qed.
Lemma check_sw_1 : check_sw 1 = true. Proof. vm_compute; reflexivity. Qed.
Lemma check_sw_2 : check_sw 2 = true. Proof. vm_compute; reflexivity. Qed.
Lemma check_sw_3 : check_sw 3 = true. Proof. vm_compute; reflexivity. Qed.
Lemma check_sw_4 : check_sw 4 = true. Proof. vm_compute; reflexivity. Qed.
Lemma check_sw_5 : check_sw 5 = true. Proof. vm_compute; reflexivity. Qed.
Lemma check_sw_6 : check_sw 6 = true. Proof. vm_compute; reflexivity. Qed.
Lemma check_sw_7 : check_sw 7 = true. Proof. vm_compute; reflexivity. Qed.
Lemma check_sw_8 : check_sw 8 = true. Proof. vm_compute; reflexivity. Qed.

Lemma check_fl_0 : check_fl 0 = true. Proof. vm_compute; reflexivity. Qed.
Lemma check_fl_1 : check_fl 1 = true. Proof. vm_compute; reflexivity. Qed.
Lemma check_fl_2 : check_fl 2 = true. Proof. vm_compute; reflexivity. Qed.
Lemma check_fl_3 : check_fl 3 = true. Proof. vm_compute; reflexivity. Qed.
Lemma check_fl_4 : check_fl 4 = true. Proof. vm_compute; reflexivity. Qed.
Lemma check_fl_5 : check_fl 5 = true. Proof. vm_compute; reflexivity. Qed.
Lemma check_fl_6 : check_fl 6 = true. Proof. vm_compute; reflexivity. Qed.
Lemma check_fl_7 : check_fl 7 = true. Proof. vm_compute; reflexivity. Qed.
Lemma check_fl_8 : check_fl 8 = true. Proof. vm_compute; reflexivity. Qed.

Lemma check_sw_le8 n : (n <= 8)%nat -> check_sw n = true.
Proof.
  intros H. destruct n as [|[|[|[|[|[|[|[|[|n]]]]]]]]].
  - exact check_sw_0.
  - exact check_sw_1.
  - exact check_sw_2.
  - exact check_sw_3.
  - exact check_sw_4.
  - exact check_sw_5.
  - exact check_sw_6.
  - exact check_sw_7.
  - exact check_sw_8.
  - lia.
Qed.

Lemma check_fl_le8 n : (n <= 8)%nat -> check_fl n = true.
Proof.
  intros H. destruct n as [|[|[|[|[|[|[|[|[|n]]]]]]]]].
  - exact check_fl_0.
  - exact check_fl_1.
  - exact check_fl_2.
  - exact check_fl_3.
  - exact check_fl_4.
  - exact check_fl_5.
  - exact check_fl_6.
  - exact check_fl_7.
  - exact check_fl_8.
  - lia.
Qed.

(* ------------------------------------------------------------------ statements *)
(* 1. the sequences exist and are valid closed walks *)
Lemma swaps_for_valid : forall n, (n <= 8)%nat ->
  exists sw, swaps_for n = Ok sw /\ swaps_valid n sw = true /\ swaps_closed n sw = true /\
             ((2 <= n)%nat -> sw <> []).
Proof.
  intros n Hn. destruct (check_sw_sound n ltac:(lia) (check_sw_le8 n Hn)) as [sw [H1 [H2 [H3 H4]]]].
  exists sw. split; [exact H1|]. split; [exact H2|]. split; [exact H3|].
  intros H. exact (proj1 (H4 H)).
Qed.

Lemma flips_for_valid : forall n, (n <= 8)%nat ->
  exists fl, flips_for n = Ok fl /\ flips_valid n fl = true /\ flips_closed n fl = true /\
             ((1 <= n)%nat -> fl <> []).
Proof.
  intros n Hn. destruct (check_fl_sound n (check_fl_le8 n Hn)) as [fl [H1 [H2 [H3 H4]]]].
  exists fl. split; [exact H1|]. split; [exact H2|]. split; [exact H3|].
  intros H. exact (proj1 (H4 H)).
Qed.

(* 7. packaged statements *)
Theorem coverage_P : forall n, (2 <= n <= 8)%nat ->
  exists sw, swaps_for n = Ok sw /\ swaps_valid n sw = true /\ swaps_closed n sw = true /\ sw <> [] /\
             forall p, is_perm n p -> In (p, 0) (p_certs n sw).
Proof.
  intros n Hn. destruct (check_sw_sound n ltac:(lia) (check_sw_le8 n ltac:(lia))) as [sw [H1 [H2 [H3 H4]]]].
  destruct (H4 ltac:(lia)) as [H5 H6].
  exists sw. split; [exact H1|]. split; [exact H2|]. split; [exact H3|]. split; [exact H5|].
  intros p Hp. apply p_certs_in. exact (H6 p Hp).
Qed.

Theorem coverage_N : forall n, (1 <= n <= 8)%nat ->
  exists fl, flips_for n = Ok fl /\ flips_valid n fl = true /\ flips_closed n fl = true /\ fl <> [] /\
             forall mask, mask < 2 ^ (N.of_nat n + 1) -> In (identity n, mask) (n_certs n fl).
Proof.
  intros n Hn. destruct (check_fl_sound n (check_fl_le8 n ltac:(lia))) as [fl [H1 [H2 [H3 H4]]]].
  destruct (H4 ltac:(lia)) as [H5 H6].
  exists fl. split; [exact H1|]. split; [exact H2|]. split; [exact H3|]. split; [exact H5|].
  intros m Hm. apply n_certs_in. exact (H6 m Hm).
Qed.

Theorem coverage_NPN : forall n, (2 <= n <= 8)%nat ->
  exists sw fl,
    swaps_for n = Ok sw /\ swaps_valid n sw = true /\ swaps_closed n sw = true /\ sw <> [] /\
    flips_for n = Ok fl /\ flips_valid n fl = true /\ flips_closed n fl = true /\ fl <> [] /\
    forall p mask, is_perm n p -> mask < 2 ^ (N.of_nat n + 1) -> In (p, mask) (npn_certs n sw fl).
Proof.
  intros n Hn. destruct (check_sw_sound n ltac:(lia) (check_sw_le8 n ltac:(lia))) as [sw [H1 [H2 [H3 H4]]]].
  destruct (H4 ltac:(lia)) as [H5 H6].
  destruct (check_fl_sound n (check_fl_le8 n ltac:(lia))) as [fl [G1 [G2 [G3 G4]]]].
  destruct (G4 ltac:(lia)) as [G5 G6].
  exists sw, fl.
  split; [exact H1|]. split; [exact H2|]. split; [exact H3|]. split; [exact H5|].
  split; [exact G1|]. split; [exact G2|]. split; [exact G3|]. split; [exact G5|].
  intros p m Hp Hm. apply npn_certs_in; [exact (H6 p Hp) | exact (G6 m Hm)].
Qed.

(* 6. every visited certificate is a certificate of the group (any n, any valid sequences) *)
Theorem coverage_certs_sound : forall n sw fl, swaps_valid n sw = true -> flips_valid n fl = true ->
  (forall e, In e (p_certs n sw) -> is_perm n (fst e) /\ snd e < 2 ^ (N.of_nat n + 1)) /\
  (forall e, In e (n_certs n fl) -> is_perm n (fst e) /\ snd e < 2 ^ (N.of_nat n + 1)) /\
  (forall e, In e (npn_certs n sw fl) -> is_perm n (fst e) /\ snd e < 2 ^ (N.of_nat n + 1)).
Proof.
  intros n sw fl Hs Hf. split; [|split]; intros e He.
  - exact (p_certs_sound n sw e Hs He).
  - exact (n_certs_sound n fl e Hf He).
  - exact (npn_certs_sound n sw fl e Hs Hf He).
Qed.
