(* Facts about well-formed tables and assignments. *)
From Coq Require Import List NArith Arith Bool Lia.
From V Require Import Gen.Tables Model.Kernels Model.TwoLevel Base.Bits Spec.Bfun.
Import ListNotations.
Open Scope N_scope.

Lemma min6_cases (n : nat) :
  ((Nat.min n 6 = 0 /\ n = 0) \/ (Nat.min n 6 = 1 /\ n = 1) \/ (Nat.min n 6 = 2 /\ n = 2) \/
   (Nat.min n 6 = 3 /\ n = 3) \/ (Nat.min n 6 = 4 /\ n = 4) \/ (Nat.min n 6 = 5 /\ n = 5) \/
   (Nat.min n 6 = 6 /\ 6 <= n))%nat.
Proof.
  do 6 (destruct n as [|n]; [simpl; auto 10|]). do 6 right. split; [apply Nat.min_r; lia|lia].
Qed.

Ltac min6 n := destruct (min6_cases n) as [[? ?]|[[? ?]|[[? ?]|[[? ?]|[[? ?]|[[? ?]|[? ?]]]]]]].

(* generated table NUM_VARS_MASK: entry min(n,6) is the mask of the low 2^min(n,6) bits *)
Lemma nvmask_spec n : num_vars_mask n = N.ones (word_bits n).
Proof.
  unfold num_vars_mask, word_bits.
  min6 n; match goal with E : Nat.min n 6 = _ |- _ => rewrite E end; reflexivity.
Qed.

Lemma word_bits_le n : word_bits n <= 64.
Proof.
  unfold word_bits.
  min6 n; match goal with E : Nat.min n 6 = _ |- _ => rewrite E end; vm_compute; discriminate.
Qed.

Lemma nvmask_testbit n p : N.testbit (num_vars_mask n) p = (p <? word_bits n).
Proof.
  rewrite nvmask_spec. destruct (N.ltb_spec p (word_bits n)).
  - apply N.ones_spec_low; assumption.
  - apply N.ones_spec_high; assumption.
Qed.

Lemma nvmask_lt n : num_vars_mask n < 2 ^ word_bits n.
Proof.
  apply lt_pow2_of_bits. intros p Hp. rewrite nvmask_testbit. apply N.ltb_ge. exact Hp.
Qed.

Lemma pow2_word_bits_le n : 2 ^ word_bits n <= 2 ^ 64.
Proof. apply N.pow_le_mono_r; [lia|apply word_bits_le]. Qed.

Lemma wf_length n t : wf n t -> length t = table_size n.
Proof. intros [H _]; exact H. Qed.

Lemma wf_word_lt n t k : wf n t -> nthN t k < 2 ^ word_bits n.
Proof.
  intros [_ H]. destruct (Nat.lt_ge_cases k (length t)) as [L|L].
  - rewrite Forall_forall in H. apply H. apply nthN_In. exact L.
  - rewrite nthN_overflow by exact L. apply N.neq_0_lt_0, N.pow_nonzero. lia.
Qed.

Lemma wf_word_lt64 n t k : wf n t -> nthN t k < 2 ^ 64.
Proof. intros H. eapply N.lt_le_trans; [apply (wf_word_lt n t k H)|apply pow2_word_bits_le]. Qed.

Lemma wf_Forall64 n t : wf n t -> Forall (fun w => w < 2 ^ 64) t.
Proof.
  intros [_ H]. eapply Forall_impl; [|exact H]. cbv beta. intros w Hw.
  eapply N.lt_le_trans; [exact Hw|apply pow2_word_bits_le].
Qed.

Lemma wfb_wf n t : wfb n t = true <-> wf n t.
Proof.
  unfold wfb, wf. rewrite andb_true_iff, Nat.eqb_eq, forallb_forall, Forall_forall.
  split; intros [H1 H2]; split; auto; intros x Hx; specialize (H2 x Hx); apply N.ltb_lt; exact H2.
Qed.

Lemma table_size_N n : N.of_nat (table_size n) = 2 ^ N.of_nat (Nat.max n 6 - 6).
Proof. unfold table_size. rewrite Nat2N.inj_pow. reflexivity. Qed.

Lemma table_size_pos n : (0 < table_size n)%nat.
Proof. unfold table_size. apply Nat.neq_0_lt_0, Nat.pow_nonzero. lia. Qed.

(* an assignment below 2^n addresses a word of the table and a meaningful bit of that word *)
Lemma assignment_in_range n m :
  m < 2 ^ N.of_nat n -> (N.to_nat (m / 64) < table_size n)%nat /\ m mod 64 < word_bits n.
Proof.
  intros Hm. destruct (Nat.le_gt_cases n 6) as [L|L].
  - assert (Hm64 : m < 64).
    { eapply N.lt_le_trans; [exact Hm|]. change 64 with (2 ^ 6). apply N.pow_le_mono_r; lia. }
    rewrite N.div_small, N.mod_small by exact Hm64. split.
    + apply table_size_pos.
    + unfold word_bits. rewrite Nat.min_l by exact L. exact Hm.
  - split.
    + assert (H : m / 64 < N.of_nat (table_size n)).
      { rewrite table_size_N. rewrite Nat.max_l by lia.
        apply N.div_lt_upper_bound; [lia|]. change 64 with (2 ^ 6). rewrite <- N.pow_add_r.
        replace (6 + N.of_nat (n - 6)) with (N.of_nat n) by lia. exact Hm. }
      lia.
    + unfold word_bits. rewrite Nat.min_r by lia. change (2 ^ N.of_nat 6) with 64.
      apply N.mod_lt. lia.
Qed.

(* beyond 2^n a well-formed table reads as false *)
Lemma val_out_of_range n t m : wf n t -> 2 ^ N.of_nat n <= m -> val t m = false.
Proof.
  intros Hwf Hm. unfold val. destruct (Nat.le_gt_cases n 6) as [L|L].
  - destruct (N.lt_ge_cases m 64) as [Hm64|Hm64].
    + rewrite N.div_small, N.mod_small by exact Hm64.
      apply (testbit_lt_pow2 _ (word_bits n)); [apply (wf_word_lt n t _ Hwf)|].
      unfold word_bits. rewrite Nat.min_l by exact L. exact Hm.
    + rewrite nthN_overflow; [apply N.bits_0|].
      rewrite (wf_length n t Hwf). unfold table_size. rewrite Nat.max_r by exact L. simpl.
      assert (1 <= m / 64) by (apply N.div_le_lower_bound; lia). lia.
  - rewrite nthN_overflow; [apply N.bits_0|].
    rewrite (wf_length n t Hwf).
    assert (H : N.of_nat (table_size n) <= m / 64).
    { rewrite table_size_N. rewrite Nat.max_l by lia.
      apply N.div_le_lower_bound; [lia|]. change 64 with (2 ^ 6). rewrite <- N.pow_add_r.
      replace (6 + N.of_nat (n - 6)) with (N.of_nat n) by lia. exact Hm. }
    lia.
Qed.

(* the guard-free table lookup used by the two-level models is [val] *)
Lemma tget_val t m : Model.TwoLevel.tget t m = val t m.
Proof.
  unfold Model.TwoLevel.tget, val. rewrite N.shiftr_div_pow2. change (2 ^ 6) with 64.
  change 63 with (N.ones 6). rewrite N.land_ones. reflexivity.
Qed.
