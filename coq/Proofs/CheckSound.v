(* Soundness of the executable specification-level checkers of Checkers/Check.v, part 1:
   chk_table and the pointwise specifications of C01 / C03 / C11, the order checkers of C08.
   Each checker decides exactly the statement that the corresponding property theorem proves about the model. *)
From Coq Require Import List NArith ZArith Arith Bool Lia.
From V Require Import Base.Res Gen.Tables Model.Kernels Model.Api Base.Bits Spec.Bfun Spec.TwoLevelCost
  Proofs.Wf Proofs.Logic Proofs.Transforms Proofs.ApiTransforms Proofs.Order Proofs.Constructors Checkers.Check.
Import ListNotations.
Open Scope N_scope.

(* ------------------------------------------------------------------ the domain *)
Lemma dom_In n m : In m (dom n) <-> m < 2 ^ N.of_nat n.
Proof.
  unfold dom. rewrite in_map_iff. split.
  - intros [k [<- Hk]]. apply in_seq in Hk.
    replace (2 ^ N.of_nat n) with (N.of_nat (Nat.pow 2 n)) by (rewrite Nat2N.inj_pow; reflexivity). lia.
  - intros H. exists (N.to_nat m). split; [apply N2Nat.id|]. apply in_seq.
    replace (2 ^ N.of_nat n) with (N.of_nat (Nat.pow 2 n)) in H by (rewrite Nat2N.inj_pow; reflexivity). lia.
Qed.

Lemma forallb_dom n (p : N -> bool) : forallb p (dom n) = true <-> forall m, m < 2 ^ N.of_nat n -> p m = true.
Proof.
  rewrite forallb_forall. split; intros H m Hm; apply H; apply dom_In; exact Hm.
Qed.

Lemma forallb_dom_eqb n (f g : N -> bool) :
  forallb (fun m => Bool.eqb (f m) (g m)) (dom n) = true <-> forall m, m < 2 ^ N.of_nat n -> f m = g m.
Proof.
  rewrite forallb_dom. split; intros H m Hm; [apply eqb_prop|apply eqb_true_iff]; apply H; exact Hm.
Qed.

Lemma dom_length n : length (dom n) = Nat.pow 2 n.
Proof. unfold dom. rewrite map_length, seq_length. reflexivity. Qed.

(* ------------------------------------------------------------------ 1. chk_table *)
Theorem chk_table_iff n t f :
  chk_table n t f = true <-> wf n t /\ forall m, m < 2 ^ N.of_nat n -> val t m = f m.
Proof. unfold chk_table. rewrite andb_true_iff, wfb_wf, forallb_dom_eqb. reflexivity. Qed.

(* a false answer is a genuine violation *)
Corollary chk_table_false n t f :
  chk_table n t f = false <-> ~ (wf n t /\ forall m, m < 2 ^ N.of_nat n -> val t m = f m).
Proof. rewrite <- chk_table_iff. destruct (chk_table n t f); split; congruence. Qed.

(* uniqueness: any table that passes is the table that passes *)
Theorem chk_table_unique n t t' f : chk_table n t f = true -> chk_table n t' f = true -> t' = t.
Proof.
  rewrite !chk_table_iff. intros [Hw H] [Hw' H']. apply (wf_ext n); try assumption.
  intros m Hm. rewrite H, H' by exact Hm. reflexivity.
Qed.

(* the checker depends on f only through its values on the domain *)
Lemma chk_table_ext n t f g : (forall m, m < 2 ^ N.of_nat n -> f m = g m) -> chk_table n t f = chk_table n t g.
Proof.
  intros E. apply eq_true_iff_eq. rewrite !chk_table_iff.
  split; intros [Hw H]; (split; [exact Hw|]); intros m Hm; rewrite H by exact Hm; [|symmetry]; apply E; exact Hm.
Qed.

Lemma chk_table_intro n n' t f : n' = n -> wf n' t -> (forall m, m < 2 ^ N.of_nat n -> val t m = f m) ->
  chk_table n t f = true.
Proof. intros -> Hw Hv. apply chk_table_iff. split; assumption. Qed.

(* ---- C01: the model's results pass *)
Theorem chk_and_model a b r : wf (nv a) (tbl a) -> wf (nv b) (tbl b) -> nv a = nv b -> D_and a b = Ok r ->
  nv r = nv a /\ chk_table (nv a) (tbl r) (spec_and (tbl a) (tbl b)) = true.
Proof.
  intros Ha Hb E Hr. destruct (D_and_sem a b Ha Hb E) as [c [Hc [Hn [Hw Hv]]]].
  rewrite Hr in Hc. injection Hc as <-. split; [exact Hn|]. apply (chk_table_intro _ _ _ _ Hn Hw). intros m _. apply Hv.
Qed.

Theorem chk_or_model a b r : wf (nv a) (tbl a) -> wf (nv b) (tbl b) -> nv a = nv b -> D_or a b = Ok r ->
  nv r = nv a /\ chk_table (nv a) (tbl r) (spec_or (tbl a) (tbl b)) = true.
Proof.
  intros Ha Hb E Hr. destruct (D_or_sem a b Ha Hb E) as [c [Hc [Hn [Hw Hv]]]].
  rewrite Hr in Hc. injection Hc as <-. split; [exact Hn|]. apply (chk_table_intro _ _ _ _ Hn Hw). intros m _. apply Hv.
Qed.

Theorem chk_xor_model a b r : wf (nv a) (tbl a) -> wf (nv b) (tbl b) -> nv a = nv b -> D_xor a b = Ok r ->
  nv r = nv a /\ chk_table (nv a) (tbl r) (spec_xor (tbl a) (tbl b)) = true.
Proof.
  intros Ha Hb E Hr. destruct (D_xor_sem a b Ha Hb E) as [c [Hc [Hn [Hw Hv]]]].
  rewrite Hr in Hc. injection Hc as <-. split; [exact Hn|]. apply (chk_table_intro _ _ _ _ Hn Hw). intros m _. apply Hv.
Qed.

Theorem chk_not_model a r : wf (nv a) (tbl a) -> D_not a = Ok r ->
  nv r = nv a /\ chk_table (nv a) (tbl r) (spec_not (tbl a)) = true.
Proof.
  intros Ha Hr. destruct (D_not_sem a Ha) as [c [Hc [Hn [Hw Hv]]]].
  rewrite Hr in Hc. injection Hc as <-. split; [exact Hn|]. apply (chk_table_intro _ _ _ _ Hn Hw). exact Hv.
Qed.

(* kernel level, every n *)
Theorem chk_and_kernel n a b c : wf n a -> wf n b -> and_inplace a b = Ok c -> chk_table n c (spec_and a b) = true.
Proof.
  intros Ha Hb Hc. destruct (and_sem n a b Ha Hb) as [c' [Hc' [Hw Hv]]]. rewrite Hc in Hc'. injection Hc' as <-.
  apply chk_table_iff. split; [exact Hw|]. intros m _. apply Hv.
Qed.
Theorem chk_or_kernel n a b c : wf n a -> wf n b -> or_inplace a b = Ok c -> chk_table n c (spec_or a b) = true.
Proof.
  intros Ha Hb Hc. destruct (or_sem n a b Ha Hb) as [c' [Hc' [Hw Hv]]]. rewrite Hc in Hc'. injection Hc' as <-.
  apply chk_table_iff. split; [exact Hw|]. intros m _. apply Hv.
Qed.
Theorem chk_xor_kernel n a b c : wf n a -> wf n b -> xor_inplace a b = Ok c -> chk_table n c (spec_xor a b) = true.
Proof.
  intros Ha Hb Hc. destruct (xor_sem n a b Ha Hb) as [c' [Hc' [Hw Hv]]]. rewrite Hc in Hc'. injection Hc' as <-.
  apply chk_table_iff. split; [exact Hw|]. intros m _. apply Hv.
Qed.
Theorem chk_not_kernel n a : wf n a -> chk_table n (not_inplace n a) (spec_not a) = true.
Proof.
  intros Ha. destruct (not_sem n a Ha) as [Hw [Hv _]]. apply chk_table_iff. split; assumption.
Qed.

(* ---- C03 *)
Theorem chk_flip_model l i r : lwf l -> i < N.of_nat (nv l) -> D_flip l i = Ok r ->
  nv r = nv l /\ chk_table (nv l) (tbl r) (spec_flip (tbl l) i) = true.
Proof.
  intros Hl Hi Hr. destruct (D_flip_sem l i Hl Hi) as [c [Hc [Hn [Hw Hv]]]].
  rewrite Hr in Hc. injection Hc as <-. split; [exact Hn|]. apply (chk_table_intro _ _ _ _ Hn Hw). exact Hv.
Qed.

Theorem chk_swap_model l i j r : lwf l -> i < N.of_nat (nv l) -> j < N.of_nat (nv l) -> D_swap l i j = Ok r ->
  nv r = nv l /\ chk_table (nv l) (tbl r) (spec_swap (tbl l) i j) = true.
Proof.
  intros Hl Hi Hj Hr. destruct (D_swap_sem l i j Hl Hi Hj) as [c [Hc [Hn [Hw Hv]]]].
  rewrite Hr in Hc. injection Hc as <-. split; [exact Hn|]. apply (chk_table_intro _ _ _ _ Hn Hw). exact Hv.
Qed.

Theorem chk_swap_adjacent_model l i r : N.of_nat (nv l) < 2 ^ 64 -> lwf l -> i + 1 < N.of_nat (nv l) ->
  D_swap_adjacent l i = Ok r ->
  nv r = nv l /\ chk_table (nv l) (tbl r) (spec_swap (tbl l) i (i + 1)) = true.
Proof.
  intros Hn64 Hl Hi Hr. destruct (D_swap_adjacent_sem l i Hn64 Hl Hi) as [c [Hc [Hn [Hw Hv]]]].
  rewrite Hr in Hc. injection Hc as <-. split; [exact Hn|]. apply (chk_table_intro _ _ _ _ Hn Hw). exact Hv.
Qed.

Theorem chk_cofactors_model l i c0 c1 : lwf l -> i < N.of_nat (nv l) -> D_cofactors l i = Ok (c0, c1) ->
  nv c0 = nv l /\ nv c1 = nv l /\
  chk_table (nv l) (tbl c0) (spec_cof0 (tbl l) i) = true /\ chk_table (nv l) (tbl c1) (spec_cof1 (tbl l) i) = true.
Proof.
  intros Hl Hi Hr. destruct (D_cofactors_sem l i Hl Hi) as [d0 [d1 [Hc [Hn0 [Hn1 [Hw0 [Hw1 [Hv0 [Hv1 _]]]]]]]]].
  rewrite Hr in Hc. injection Hc as <- <-. split; [exact Hn0|]. split; [exact Hn1|]. unfold lwf in Hw0, Hw1.
  split; [apply (chk_table_intro _ _ _ _ Hn0 Hw0); exact Hv0|apply (chk_table_intro _ _ _ _ Hn1 Hw1); exact Hv1].
Qed.

Theorem chk_from_cofactors_model c0 c1 i r : lwf c0 -> lwf c1 -> nv c0 = nv c1 -> i < N.of_nat (nv c0) ->
  D_from_cofactors c0 c1 i = Ok r ->
  nv r = nv c0 /\ chk_table (nv c0) (tbl r) (spec_from_cof (tbl c0) (tbl c1) i) = true.
Proof.
  intros H0 H1 E Hi Hr. destruct (D_from_cofactors_sem c0 c1 i H0 H1 E Hi) as [c [Hc [Hn [Hw Hv]]]].
  rewrite Hr in Hc. injection Hc as <-. split; [exact Hn|]. apply (chk_table_intro _ _ _ _ Hn Hw). exact Hv.
Qed.

Theorem chk_from_cofactors_static_model c0 c1 i r : lwf c0 -> lwf c1 -> nv c0 = nv c1 -> i < N.of_nat (nv c0) ->
  S_from_cofactors c0 c1 i = Ok r ->
  nv r = nv c0 /\ chk_table (nv c0) (tbl r) (spec_from_cof (tbl c0) (tbl c1) i) = true.
Proof.
  intros H0 H1 E Hi Hr. destruct (S_from_cofactors_sem c0 c1 i H0 H1 E Hi) as [c [Hc [Hn [Hw Hv]]]].
  rewrite Hr in Hc. injection Hc as <-. split; [exact Hn|]. apply (chk_table_intro _ _ _ _ Hn Hw). exact Hv.
Qed.

(* kernels *)
Theorem chk_flip_kernel n t i t' : wf n t -> i < N.of_nat n -> flip_inplace n t i = Ok t' ->
  chk_table n t' (spec_flip t i) = true.
Proof.
  intros Ht Hi Hr. destruct (flip_sem n t i Ht Hi) as [c [Hc [Hw Hv]]]. rewrite Hr in Hc. injection Hc as <-.
  apply chk_table_iff. split; assumption.
Qed.
Theorem chk_swap_kernel n t i j t' : wf n t -> i < N.of_nat n -> j < N.of_nat n -> swap_inplace n t i j = Ok t' ->
  chk_table n t' (spec_swap t i j) = true.
Proof.
  intros Ht Hi Hj Hr. destruct (swap_sem n t i j Ht Hi Hj) as [c [Hc [Hw Hv]]]. rewrite Hr in Hc. injection Hc as <-.
  apply chk_table_iff. split; assumption.
Qed.
Theorem chk_cofactor0_kernel n t i t' : wf n t -> i < N.of_nat n -> cofactor0_inplace n t i = Ok t' ->
  chk_table n t' (spec_cof0 t i) = true.
Proof.
  intros Ht Hi Hr. destruct (cofactor0_sem n t i Ht Hi) as [c [Hc [Hw Hv]]]. rewrite Hr in Hc. injection Hc as <-.
  apply chk_table_iff. split; assumption.
Qed.
Theorem chk_cofactor1_kernel n t i t' : wf n t -> i < N.of_nat n -> cofactor1_inplace n t i = Ok t' ->
  chk_table n t' (spec_cof1 t i) = true.
Proof.
  intros Ht Hi Hr. destruct (cofactor1_sem n t i Ht Hi) as [c [Hc [Hw Hv]]]. rewrite Hr in Hc. injection Hc as <-.
  apply chk_table_iff. split; assumption.
Qed.
Theorem chk_from_cofactors_kernel n t t0 t1 i t' : wf n t -> wf n t0 -> wf n t1 -> i < N.of_nat n ->
  from_cofactors_inplace n t t0 t1 i = Ok t' -> chk_table n t' (spec_from_cof t0 t1 i) = true.
Proof.
  intros Ht H0 H1 Hi Hr. destruct (from_cofactors_sem n t t0 t1 i Ht H0 H1 Hi) as [c [Hc [Hw Hv]]].
  rewrite Hr in Hc. injection Hc as <-. apply chk_table_iff. split; assumption.
Qed.

(* ---- C11 *)
Ltac c11 H Hr :=
  let c := fresh "c" in let Hc := fresh "Hc" in let Hn := fresh "Hn" in let Hw := fresh "Hw" in let Hv := fresh "Hv" in
  destruct H as [c [Hc [Hn [Hw Hv]]]]; rewrite Hr in Hc; injection Hc as <-;
  split; [exact Hn|]; apply chk_table_iff; split; [exact Hw|]; try exact Hv; intros m _; apply Hv.

Theorem chk_zero_model n r : D_zero n = Ok r -> nv r = n /\ chk_table n (tbl r) spec_zero = true.
Proof. intros Hr. c11 (zero_sem n) Hr. Qed.
Theorem chk_one_model n r : D_one n = Ok r -> nv r = n /\ chk_table n (tbl r) spec_one = true.
Proof. intros Hr. c11 (one_sem n) Hr. Qed.
Theorem chk_nth_var_model n v r : v < N.of_nat n -> D_nth_var n v = Ok r ->
  nv r = n /\ chk_table n (tbl r) (spec_nth_var v) = true.
Proof. intros Hv Hr. c11 (nth_var_sem n v Hv) Hr. Qed.
Theorem chk_symmetric_model n cv r : (n < 64)%nat -> cv < 2 ^ 64 -> D_symmetric n cv = Ok r ->
  nv r = n /\ chk_table n (tbl r) (spec_symmetric cv) = true.
Proof. intros Hn Hcv Hr. c11 (symmetric_sem n cv Hn Hcv) Hr. Qed.
Theorem chk_equals_model n k r : (n < 64)%nat -> D_equals n k = Ok r ->
  nv r = n /\ chk_table n (tbl r) (spec_equals k) = true.
Proof. intros Hn Hr. c11 (equals_sem n k Hn) Hr. Qed.
Theorem chk_threshold_model n k r : (n < 64)%nat -> D_threshold n k = Ok r ->
  nv r = n /\ chk_table n (tbl r) (spec_threshold k) = true.
Proof. intros Hn Hr. c11 (threshold_sem n k Hn) Hr. Qed.
Theorem chk_parity_model n r : (n < 64)%nat -> D_parity n = Ok r ->
  nv r = n /\ chk_table n (tbl r) spec_parity = true.
Proof. intros Hn Hr. c11 (parity_sem n Hn) Hr. Qed.
Theorem chk_majority_model n r : (n < 64)%nat -> D_majority n = Ok r ->
  nv r = n /\ chk_table n (tbl r) (spec_majority n) = true.
Proof. intros Hn Hr. c11 (majority_sem n Hn) Hr. Qed.
Theorem chk_set_model l m0 v r : wf (nv l) (tbl l) -> m0 < 2 ^ N.of_nat (nv l) -> D_set_value l m0 v = Ok r ->
  nv r = nv l /\ chk_table (nv l) (tbl r) (spec_set (tbl l) m0 v) = true.
Proof.
  intros Hl Hm Hr. destruct (D_set_value_sem l m0 v Hl Hm) as [c [Hc [Hn [Hw Hv]]]].
  rewrite Hr in Hc. injection Hc as <-. split; [exact Hn|]. apply (chk_table_intro _ _ _ _ Hn Hw). intros m _. apply Hv.
Qed.
Theorem chk_set_bit_model l m0 r : wf (nv l) (tbl l) -> m0 < 2 ^ N.of_nat (nv l) -> D_set_bit l m0 = Ok r ->
  nv r = nv l /\ chk_table (nv l) (tbl r) (spec_set (tbl l) m0 true) = true.
Proof. apply (chk_set_model l m0 true). Qed.
Theorem chk_unset_bit_model l m0 r : wf (nv l) (tbl l) -> m0 < 2 ^ N.of_nat (nv l) -> D_unset_bit l m0 = Ok r ->
  nv r = nv l /\ chk_table (nv l) (tbl r) (spec_set (tbl l) m0 false) = true.
Proof. apply (chk_set_model l m0 false). Qed.

(* ------------------------------------------------------------------ 2. C08: order, successor, equality *)
Lemma bigN_big t : bigN t = big t.
Proof. induction t as [|w r IH]; [reflexivity|]. cbn [bigN big]. rewrite IH. reflexivity. Qed.

Theorem chk_cmp_sound na a nb b c : wf na a -> wf nb b ->
  (chk_cmp na a nb b c = true <-> D_cmp (mkLut na a) (mkLut nb b) = Ok c).
Proof.
  intros Ha Hb. unfold chk_cmp. rewrite (bigN_big a), (bigN_big b).
  destruct (D_cmp_sem (mkLut na a) (mkLut nb b) Ha Hb) as [H1 H2]. cbn [nv tbl] in H1, H2.
  destruct (Nat.eqb_spec na nb) as [E|E].
  - rewrite (H2 E). destruct (big a ?= big b), c; split; intros H; try reflexivity; discriminate H.
  - rewrite (H1 E). destruct (Nat.compare na nb), c; split; intros H; try reflexivity; discriminate H.
Qed.

(* the statement of C08_next_sem, decided *)
Theorem chk_next_iff n a a' ok :
  chk_next n a a' ok = true <->
  wf n a' /\ big a' = (big a + 1) mod 2 ^ (2 ^ N.of_nat n) /\ ok = negb (big a' =? 0).
Proof.
  unfold chk_next. rewrite !andb_true_iff, wfb_wf, N.eqb_eq, eqb_true_iff, (bigN_big a), (bigN_big a'). tauto.
Qed.

Theorem chk_next_sound n a a' ok : wf n a ->
  (chk_next n a a' ok = true <-> next_inplace n a = Ok (a', ok)).
Proof.
  intros Ha. rewrite chk_next_iff. destruct (next_sem n a Ha) as [t' [ok' [Hr [Hw [Hb Hok]]]]]. rewrite Hr. split.
  - intros [Hw' [Hb' Hok']]. assert (a' = t') as -> by (apply (wf_big_inj n); congruence). congruence.
  - intros E. injection E as <- <-. auto.
Qed.

Theorem chk_eq_iff na a nb b r :
  chk_eq na a nb b r = true <-> (r = true <-> na = nb /\ forall m, m < 2 ^ N.of_nat na -> val a m = val b m).
Proof.
  unfold chk_eq. rewrite eqb_true_iff. rewrite <- forallb_dom_eqb, <- Nat.eqb_eq, <- andb_true_iff.
  destruct r, (_ && _); split; try congruence; intros H; try reflexivity.
  - symmetry. apply H. reflexivity.
  - apply H. reflexivity.
Qed.

Theorem chk_eq_sound na a nb b r : wf na a -> wf nb b ->
  (chk_eq na a nb b r = true <-> D_eq (mkLut na a) (mkLut nb b) = r).
Proof.
  intros Ha Hb. rewrite chk_eq_iff. pose proof (D_eq_sem (mkLut na a) (mkLut nb b)) as H. cbn [nv tbl] in H.
  assert (E : (na = nb /\ a = b) <-> (na = nb /\ forall m, m < 2 ^ N.of_nat na -> val a m = val b m)).
  { split; intros [E1 E2]; (split; [exact E1|]).
    - subst b. reflexivity.
    - subst nb. apply (wf_ext na); assumption. }
  rewrite <- E, <- H. clear E H.
  destruct (D_eq _ _), r; split; intros H1; try reflexivity; try (split; intros H2; congruence);
    try discriminate H1; destruct H1 as [H1 H2]; first [discriminate (H1 eq_refl)|discriminate (H2 eq_refl)].
Qed.


(* the checkers discriminate: right results pass, wrong ones (a wrong bit, a stray bit beyond 2^n, a wrong order,
   a wrong carry flag, a size mismatch) are reported *)
Example chk_examples :
  chk_table 3 [0x88] (spec_and [0xaa] [0xcc]) = true /\ chk_table 3 [0x89] (spec_and [0xaa] [0xcc]) = false /\
  chk_table 3 [0x188] (spec_and [0xaa] [0xcc]) = false /\
  chk_cmp 7 [5; 1] 7 [0; 2] Lt = true /\ chk_cmp 7 [5; 1] 7 [0; 2] Gt = false /\ chk_cmp 7 [5; 1] 3 [0xe8] Gt = true /\
  chk_next 3 [0xff] [0] false = true /\ chk_next 3 [0xff] [0] true = false /\
  chk_next 7 [0xffffffffffffffff; 0] [0; 1] true = true /\
  chk_eq 3 [0xe8] 3 [0xe8] true = true /\ chk_eq 3 [0xe8] 4 [0xe8] true = false.
Proof. repeat split; vm_compute; reflexivity. Qed.
