(* Soundness of the executable specification-level checkers of Checkers/Check.v, part 3 (C09, text forms):
   spec_to_hex / spec_to_bin / spec_fmt are the model's to_hex / to_bin / fmt_wrap, and chk_from_hex decides the result
   of from_hex_string. *)
From Coq Require Import List NArith ZArith Arith Bool Lia.
From V Require Import Base.Res Gen.Tables Model.Kernels Model.Api Base.Bits Spec.Bfun Spec.Transform Spec.TwoLevelCost
  Proofs.Wf Proofs.Order Proofs.Text Checkers.Check Proofs.CheckSound.
Import ListNotations.
Open Scope N_scope.

(* Proofs/Text.v and Proofs/Order.v each define the table as one number; they coincide *)
Lemma text_big_eq t : Text.big t = Order.big t.
Proof. induction t as [|w r IH]; [reflexivity|]. rewrite Text.big_cons. cbn [Order.big]. rewrite IH. reflexivity. Qed.

Lemma bigN_text_big t : bigN t = Text.big t.
Proof. rewrite text_big_eq. apply bigN_big. Qed.

(* ------------------------------------------------------------------ list helpers *)
Lemma nth_map_lt {A B} (f : A -> B) l k d d' : (k < length l)%nat -> nth k (map f l) d' = f (nth k l d).
Proof. intros H. rewrite (nth_indep _ d' (f d)) by (rewrite map_length; exact H). apply map_nth. Qed.

Lemma nth_rev_seq W k : (k < W)%nat -> nth k (rev (seq 0 W)) 0%nat = (W - 1 - k)%nat.
Proof.
  intros H. rewrite rev_nth by (rewrite seq_length; exact H). rewrite seq_length.
  rewrite seq_nth by lia. lia.
Qed.

Lemma list_eqb_iff {A} (eqb : A -> A -> bool) (a : list A) : (forall x y, eqb x y = true <-> x = y) ->
  forall b, list_eqb eqb a b = true <-> a = b.
Proof.
  intros He. induction a as [|x a IH]; intros [|y b]; cbn [list_eqb]; split; try congruence; try reflexivity.
  - intros H. apply andb_true_iff in H. destruct H as [H1 H2]. apply He in H1. apply IH in H2. congruence.
  - intros H. injection H as -> ->. apply andb_true_iff. split; [apply He; reflexivity|apply IH; reflexivity].
Qed.

Theorem bytes_eqb_iff a b : bytes_eqb a b = true <-> a = b.
Proof. apply list_eqb_iff. apply N.eqb_eq. Qed.

(* ------------------------------------------------------------------ to_hex *)
Lemma spec_digit_char_eq d : spec_digit_char d = digit_char d.
Proof. reflexivity. Qed.

Lemma spec_hex_width_eq n : spec_hex_width n = total_hex_width n.
Proof. rewrite total_hex_width_eq. reflexivity. Qed.

Lemma spec_nibble_eq t k : spec_nibble t k = nibble t (N.of_nat k).
Proof.
  unfold spec_nibble, nibble. change (seq 0 4) with [0; 1; 2; 3]%nat. cbn [fold_left].
  replace (N.of_nat (4 * k + 0)) with (4 * N.of_nat k) by lia.
  replace (N.of_nat (4 * k + 1)) with (4 * N.of_nat k + 1) by lia.
  replace (N.of_nat (4 * k + 2)) with (4 * N.of_nat k + 2) by lia.
  replace (N.of_nat (4 * k + 3)) with (4 * N.of_nat k + 3) by lia.
  destruct (val t (4 * N.of_nat k)), (val t (4 * N.of_nat k + 1)), (val t (4 * N.of_nat k + 2)),
    (val t (4 * N.of_nat k + 3)); reflexivity.
Qed.

Theorem spec_to_hex_eq n t : wf n t -> spec_to_hex n t = to_hex n t.
Proof.
  intros Hw. apply (nth_ext _ _ 0 0).
  - unfold spec_to_hex. rewrite map_length, rev_length, seq_length, (to_hex_width n t Hw). apply spec_hex_width_eq.
  - unfold spec_to_hex at 1. rewrite map_length, rev_length, seq_length. intros k Hk.
    unfold spec_to_hex. rewrite (nth_map_lt _ _ _ 0%nat) by (rewrite rev_length, seq_length; exact Hk).
    rewrite nth_rev_seq by exact Hk. rewrite spec_hex_width_eq in *.
    rewrite (to_hex_digits n t k Hw Hk). rewrite spec_nibble_eq. reflexivity.
Qed.

(* ------------------------------------------------------------------ to_bin *)
Theorem spec_to_bin_eq n t : wf n t -> spec_to_bin n t = to_bin n t.
Proof.
  intros Hw. apply (nth_ext _ _ 0 0).
  - unfold spec_to_bin. rewrite map_length, rev_length, seq_length, (to_bin_width n t Hw). reflexivity.
  - unfold spec_to_bin at 1. rewrite map_length, rev_length, seq_length. intros k Hk.
    unfold spec_to_bin. rewrite (nth_map_lt _ _ _ 0%nat) by (rewrite rev_length, seq_length; exact Hk).
    rewrite nth_rev_seq by exact Hk. rewrite (to_bin_bits n t k Hw Hk).
    destruct (val t (N.of_nat (2 ^ n - 1 - k))); reflexivity.
Qed.

(* ------------------------------------------------------------------ Display / LowerHex / Binary *)
Lemma spec_dec_sweep :
  forallb (fun n => list_N_eqb (spec_dec n) (map digit_char (digits 10 (N.of_nat n)))) (seq 0 100) = true.
Proof. vm_compute. reflexivity. Qed.

Lemma spec_dec_eq n : (n < 100)%nat -> spec_dec n = map digit_char (digits 10 (N.of_nat n)).
Proof.
  intros Hn. pose proof spec_dec_sweep as H. rewrite forallb_forall in H.
  specialize (H n). unfold list_N_eqb in H.
  destruct (list_eq_dec N.eq_dec (spec_dec n) (map digit_char (digits 10 (N.of_nat n)))) as [E|E]; [exact E|].
  assert (Hin : In n (seq 0 100)) by (apply in_seq; lia). specialize (H Hin). discriminate H.
Qed.

Theorem spec_fmt_eq n body : (n < 100)%nat -> spec_fmt n body = fmt_wrap n body.
Proof. intros Hn. unfold spec_fmt, fmt_wrap. rewrite spec_dec_eq by exact Hn. reflexivity. Qed.

(* the bound is needed: spec_dec prints two characters at most *)
Example spec_fmt_100 : spec_fmt 100 [] <> fmt_wrap 100 [].
Proof. vm_compute. discriminate. Qed.

Corollary spec_display_eq l : (nv l < 100)%nat -> wf (nv l) (tbl l) ->
  spec_fmt (nv l) (spec_to_hex (nv l) (tbl l)) = D_display l /\
  spec_fmt (nv l) (spec_to_hex (nv l) (tbl l)) = D_lowerhex l /\
  spec_fmt (nv l) (spec_to_bin (nv l) (tbl l)) = D_binary l /\
  spec_to_hex (nv l) (tbl l) = D_to_hex_string l /\
  spec_to_bin (nv l) (tbl l) = D_to_bin_string l.
Proof.
  intros Hn Hw. rewrite (spec_to_hex_eq _ _ Hw), (spec_to_bin_eq _ _ Hw), !spec_fmt_eq by exact Hn.
  repeat split; reflexivity.
Qed.

(* ------------------------------------------------------------------ from_hex_string *)
Lemma spec_fold_none s :
  fold_left (fun (acc : option N) b => match acc, spec_hexval b with
                                       | Some a, Some d => Some (16 * a + d)
                                       | _, _ => None end) s None = None.
Proof. induction s as [|b s IH]; [reflexivity|]. cbn [fold_left]. exact IH. Qed.

Lemma spec_fold_parse s : forall a,
  fold_left (fun (acc : option N) b => match acc, spec_hexval b with
                                       | Some a, Some d => Some (16 * a + d)
                                       | _, _ => None end) s (Some a) = parse_hex s a.
Proof.
  induction s as [|b s IH]; intros a; [reflexivity|]. cbn [fold_left parse_hex].
  change (spec_hexval b) with (hexval b). destruct (hexval b) as [d|].
  - rewrite IH. rewrite (N.mul_comm 16 a). reflexivity.
  - apply spec_fold_none.
Qed.

(* the specification parser, in the vocabulary of Proofs/Text.v *)
Lemma spec_parse_hex_eq n s :
  spec_parse_hex n s =
  if negb (Nat.eqb (length s) (total_hex_width n)) then None
  else match hexnum s with
       | Some v => if v <? 2 ^ (2 ^ N.of_nat n) then Some v else None
       | None => None
       end.
Proof. unfold spec_parse_hex. rewrite spec_fold_parse, spec_hex_width_eq. reflexivity. Qed.

Lemma parse_hex_digits s : forall a v, parse_hex s a = Some v -> Forall (fun b => is_hex_digit b = true) s.
Proof.
  induction s as [|b s IH]; intros a v H; [constructor|]. cbn [parse_hex] in H.
  destruct (hexval b) as [d|] eqn:E; [|discriminate]. constructor.
  - unfold is_hex_digit. rewrite E. reflexivity.
  - exact (IH _ _ H).
Qed.

(* accepted exactly when the specification parser returns a number, and that number is the table's *)
Theorem spec_parse_hex_some n s v :
  spec_parse_hex n s = Some v <-> exists l, D_from_hex_string n s = Ok (Some l) /\ Order.big (tbl l) = v.
Proof.
  rewrite spec_parse_hex_eq. split.
  - destruct (Nat.eqb_spec (length s) (total_hex_width n)) as [Hl|Hl]; cbn [negb]; [|discriminate].
    destruct (hexnum s) as [x|] eqn:Hx; [|discriminate].
    destruct (N.ltb_spec x (2 ^ (2 ^ N.of_nat n))) as [L|L]; [|discriminate]. intros E. injection E as <-.
    assert (Hacc : exists l, D_from_hex_string n s = Ok (Some l)).
    { destruct (Nat.le_gt_cases 2 n) as [Hn|Hn].
      - apply from_hex_accepts_large; [exact Hn|]. split; [exact Hl|]. exact (parse_hex_digits s 0 x Hx).
      - apply from_hex_accepts_small; [exact Hn|].
        assert (Hw : total_hex_width n = 1%nat).
        { unfold total_hex_width. destruct (hex_width_bits_small n Hn) as [-> _].
          rewrite table_size_small by lia. reflexivity. }
        rewrite Hw in Hl. destruct s as [|b [|b' s]]; cbn [length] in Hl; try discriminate.
        unfold hexnum in Hx. cbn [parse_hex] in Hx. destruct (hexval b) as [d|] eqn:Hb; [|discriminate].
        injection Hx as <-. exists b, d. split; [reflexivity|]. split; [exact Hb|].
        rewrite N.mul_0_l, N.add_0_l in L. exact L. }
    destruct Hacc as [l Hlut]. exists l. split; [exact Hlut|].
    pose proof (from_hex_big n s l Hlut) as Hb. rewrite Hx in Hb. injection Hb as ->. symmetry. apply text_big_eq.
  - intros [l [Hlut <-]]. destruct (from_hex_accepted n s l Hlut) as [[Hl _] [_ [Hw _]]].
    rewrite Hl, Nat.eqb_refl. cbn [negb]. rewrite (from_hex_big n s l Hlut), text_big_eq.
    pose proof (big_lt n (tbl l) Hw) as L. apply N.ltb_lt in L. rewrite L. reflexivity.
Qed.

Theorem spec_parse_hex_none n s : spec_parse_hex n s = None <-> D_from_hex_string n s = Ok None.
Proof.
  destruct (from_hex_total n s) as [[l|] Hr]; rewrite Hr.
  - split; [|discriminate]. intros H.
    assert (E : spec_parse_hex n s = Some (Order.big (tbl l))) by (apply spec_parse_hex_some; exists l; auto).
    congruence.
  - split; [reflexivity|]. intros _. destruct (spec_parse_hex n s) as [v|] eqn:E; [|reflexivity].
    apply spec_parse_hex_some in E. destruct E as [l [E _]]. congruence.
Qed.

Theorem chk_from_hex_sound n s res :
  chk_from_hex n s res = true <-> D_from_hex_string n s = Ok (option_map (mkLut n) res).
Proof.
  unfold chk_from_hex. destruct (spec_parse_hex n s) as [v|] eqn:E.
  - apply spec_parse_hex_some in E. destruct E as [l [Hr Hv]]. rewrite Hr.
    destruct (from_hex_accepted n s l Hr) as [_ [Hn [Hw _]]].
    destruct res as [t|]; cbn [option_map]; [|split; discriminate].
    rewrite andb_true_iff, wfb_wf, N.eqb_eq, bigN_big. split.
    + intros [Hwt Hb]. assert (t = tbl l) as -> by (apply (wf_big_inj n); congruence).
      destruct l as [n' t']. cbn [nv tbl] in *. subst n'. reflexivity.
    + intros H. injection H as ->. cbn [tbl nv] in *. auto.
  - apply spec_parse_hex_none in E. rewrite E. destruct res as [t|]; cbn [option_map]; split; congruence.
Qed.

(* a false answer of the checker is a genuine disagreement with the statement of C09 *)
Corollary chk_from_hex_false n s res :
  chk_from_hex n s res = false <-> D_from_hex_string n s <> Ok (option_map (mkLut n) res).
Proof. rewrite <- chk_from_hex_sound. destruct (chk_from_hex n s res); split; congruence. Qed.

(* the same via the well-formedness predicate of Proofs/Text.v *)
Corollary chk_from_hex_wellformed n s :
  (chk_from_hex n s None = true <-> ~ hex_wellformed n s) /\
  (forall t, chk_from_hex n s (Some t) = true -> hex_wellformed n s /\ wf n t /\ hexnum s = Some (Text.big t)).
Proof.
  split.
  - rewrite chk_from_hex_sound. cbn [option_map]. apply from_hex_rejects.
  - intros t H. apply chk_from_hex_sound in H. cbn [option_map] in H.
    destruct (from_hex_accepted n s _ H) as [Hwf [_ [Hw _]]]. split; [exact Hwf|]. split; [exact Hw|].
    exact (from_hex_big n s _ H).
Qed.

(* printing then parsing: the checker accepts the model's own round trip *)
Corollary chk_from_hex_roundtrip n t : wf n t -> chk_from_hex n (spec_to_hex n t) (Some t) = true.
Proof.
  intros Hw. apply chk_from_hex_sound. rewrite (spec_to_hex_eq n t Hw). cbn [option_map]. apply from_hex_to_hex. exact Hw.
Qed.


(* the checkers discriminate: "e8" and "E8" denote 0xe8, "+8" and the Lut1 string "f" must be rejected *)
Example chk_text_examples :
  chk_from_hex 3 [101; 56] (Some [0xe8]) = true /\ chk_from_hex 3 [69; 56] (Some [0xe8]) = true /\
  chk_from_hex 3 [101; 56] (Some [0xe9]) = false /\ chk_from_hex 3 [43; 56] None = true /\
  chk_from_hex 1 [102] None = true /\ chk_from_hex 1 [102] (Some [15]) = false /\ chk_from_hex 1 [51] (Some [3]) = true /\
  spec_to_hex 3 [0xe8] = [101; 56] /\ spec_to_bin 2 [6] = [48; 49; 49; 48] /\
  spec_fmt 3 (spec_to_hex 3 [0xe8]) = [76; 117; 116; 51; 40; 101; 56; 41].
Proof. repeat split; vm_compute; reflexivity. Qed.
