(* C17, part B - the MODEL: for every API call that takes a variable index, an assignment, a second table, a list of
   tables or a block slice
     (1) an invalid argument gives PanicAlways (an assert! / slice check: fires in every build profile),
     (2) no argument whatsoever gives PanicDebug (a debug_assert! / overflow / over-wide shift: the only outcomes on
         which a dev build and a release build differ), so the two profiles agree on every call,
     (3) a valid argument gives Ok.
   Most (1) and (3) facts exist already (Proofs/ApiTransforms, Constructors, Logic, ConvProofs, DecompProofs,
   BddProofs, Order); this file collects them, adds the missing no-PanicDebug facts and the summary theorem.
   Indices are arbitrary N in the model (a Rust usize is < 2^64); the only place where the usize range matters is
   `ind + 1` in swap_adjacent, which needs num_vars < 2^64. *)
From Coq Require Import List NArith Arith Bool Lia.
From V Require Import Base.Res Gen.Tables Model.Kernels Model.Decomp Model.Bdd Model.Api Base.Bits Spec.Bfun
  Proofs.Wf Proofs.Transforms Proofs.Order Proofs.Constructors Proofs.Logic Proofs.ApiTransforms Proofs.ConvProofs
  Proofs.DecompProofs Proofs.BddProofs.
Import ListNotations.
Open Scope N_scope.

Lemma ok_not_debug {A} (x : res A) r : x = Ok r -> x <> PanicDebug.
Proof. intros ->. discriminate. Qed.
Lemma always_not_debug {A} (x : res A) : x = PanicAlways -> x <> PanicDebug.
Proof. intros ->. discriminate. Qed.

(* ================================================================== single-bit access: value/get_bit, set_bit,
   unset_bit, set_value.  No well-formedness needed for (1) and (2): once check_bit passed, the kernel's
   debug_assert! tests the same condition and the word access is a slice index (always-on). *)
Lemma word_at_cases t m : (exists w, word_at t m = Ok w) \/ word_at t m = PanicAlways.
Proof. unfold word_at. destruct (nth_error t (N.to_nat (N.shiftr m 6))); eauto. Qed.

Lemma get_bit_invalid l m : 2 ^ N.of_nat (nv l) <= m -> D_get_bit l m = PanicAlways.
Proof. intros H. exact (proj1 (D_bit_guard l m true H)). Qed.
Lemma value_invalid l m : 2 ^ N.of_nat (nv l) <= m -> D_value l m = PanicAlways.
Proof. exact (get_bit_invalid l m). Qed.
Lemma get_bit_valid l m : lwf l -> m < 2 ^ N.of_nat (nv l) -> exists r, D_get_bit l m = Ok r.
Proof. intros W H. eexists. apply D_get_bit_sem; assumption. Qed.
Lemma get_bit_no_debug l m : D_get_bit l m <> PanicDebug.
Proof.
  unfold D_get_bit, check_bit, get_bit, chk_bit, num_bits.
  destruct (m <? N.shiftl 1 (N.of_nat (nv l))); cbn [always dbg bind]; [|discriminate].
  destruct (word_at_cases (tbl l) m) as [[w ->]| ->]; cbn [bind]; discriminate.
Qed.

Lemma set_bit_invalid l m : 2 ^ N.of_nat (nv l) <= m -> D_set_bit l m = PanicAlways.
Proof. intros H. exact (proj1 (proj2 (D_bit_guard l m true H))). Qed.
Lemma set_bit_valid l m : lwf l -> m < 2 ^ N.of_nat (nv l) -> exists r, D_set_bit l m = Ok r.
Proof. intros W H. destruct (D_set_bit_sem l m W H) as [r [E _]]. eauto. Qed.
Lemma set_bit_no_debug l m : D_set_bit l m <> PanicDebug.
Proof.
  unfold D_set_bit, check_bit, with_tbl, set_bit, chk_bit, num_bits.
  destruct (m <? N.shiftl 1 (N.of_nat (nv l))); cbn [always dbg bind]; [|discriminate].
  destruct (word_at_cases (tbl l) m) as [[w ->]| ->]; cbn [bind]; discriminate.
Qed.

Lemma unset_bit_invalid l m : 2 ^ N.of_nat (nv l) <= m -> D_unset_bit l m = PanicAlways.
Proof. intros H. exact (proj1 (proj2 (proj2 (D_bit_guard l m true H)))). Qed.
Lemma unset_bit_valid l m : lwf l -> m < 2 ^ N.of_nat (nv l) -> exists r, D_unset_bit l m = Ok r.
Proof. intros W H. destruct (D_unset_bit_sem l m W H) as [r [E _]]. eauto. Qed.
Lemma unset_bit_no_debug l m : D_unset_bit l m <> PanicDebug.
Proof.
  unfold D_unset_bit, check_bit, with_tbl, unset_bit, chk_bit, num_bits.
  destruct (m <? N.shiftl 1 (N.of_nat (nv l))); cbn [always dbg bind]; [|discriminate].
  destruct (word_at_cases (tbl l) m) as [[w ->]| ->]; cbn [bind]; discriminate.
Qed.

Lemma set_value_invalid l m v : 2 ^ N.of_nat (nv l) <= m -> D_set_value l m v = PanicAlways.
Proof. intros H. exact (proj2 (proj2 (proj2 (D_bit_guard l m v H)))). Qed.
Lemma set_value_valid l m v : lwf l -> m < 2 ^ N.of_nat (nv l) -> exists r, D_set_value l m v = Ok r.
Proof. intros W H. destruct (D_set_value_sem l m v W H) as [r [E _]]. eauto. Qed.
Lemma set_value_no_debug l m v : D_set_value l m v <> PanicDebug.
Proof. unfold D_set_value. destruct v; [apply set_bit_no_debug|apply unset_bit_no_debug]. Qed.

(* ================================================================== variable transforms *)
Lemma flip_invalid l ind : N.of_nat (nv l) <= ind -> D_flip l ind = PanicAlways.
Proof. exact (D_flip_guard l ind). Qed.
Lemma flip_valid l ind : lwf l -> ind < N.of_nat (nv l) -> exists r, D_flip l ind = Ok r.
Proof. intros W H. destruct (D_flip_sem l ind W H) as [r [E _]]. eauto. Qed.
Lemma flip_no_debug l ind : lwf l -> D_flip l ind <> PanicDebug.
Proof.
  intros W. destruct (N.lt_ge_cases ind (N.of_nat (nv l))) as [H|H].
  - destruct (flip_valid l ind W H) as [r E]. exact (ok_not_debug _ _ E).
  - exact (always_not_debug _ (flip_invalid l ind H)).
Qed.

Lemma swap_invalid l i j : N.of_nat (nv l) <= i \/ N.of_nat (nv l) <= j -> D_swap l i j = PanicAlways.
Proof. exact (D_swap_guard l i j). Qed.
Lemma swap_valid l i j : lwf l -> i < N.of_nat (nv l) -> j < N.of_nat (nv l) -> exists r, D_swap l i j = Ok r.
Proof. intros W Hi Hj. destruct (D_swap_sem l i j W Hi Hj) as [r [E _]]. eauto. Qed.
Lemma swap_no_debug l i j : lwf l -> D_swap l i j <> PanicDebug.
Proof.
  intros W. destruct (N.lt_ge_cases i (N.of_nat (nv l))) as [Hi|Hi];
    [destruct (N.lt_ge_cases j (N.of_nat (nv l))) as [Hj|Hj]|].
  - destruct (swap_valid l i j W Hi Hj) as [r E]. exact (ok_not_debug _ _ E).
  - exact (always_not_debug _ (swap_invalid l i j (or_intror Hj))).
  - exact (always_not_debug _ (swap_invalid l i j (or_introl Hi))).
Qed.

(* swap_adjacent: the index pair is (ind, ind + 1).  check_var(ind) fires before `ind + 1` is evaluated, so
   ind = usize::MAX is PanicAlways, not an overflow, as long as num_vars itself fits a usize *)
Lemma swap_adjacent_invalid l ind : N.of_nat (nv l) <= ind + 1 -> D_swap_adjacent l ind = PanicAlways.
Proof. exact (D_swap_adjacent_guard l ind). Qed.
Lemma swap_adjacent_valid l ind : N.of_nat (nv l) < 2 ^ 64 -> lwf l -> ind + 1 < N.of_nat (nv l) ->
  exists r, D_swap_adjacent l ind = Ok r.
Proof. intros Hn W H. destruct (D_swap_adjacent_sem l ind Hn W H) as [r [E _]]. eauto. Qed.
Lemma swap_adjacent_no_debug l ind : N.of_nat (nv l) < 2 ^ 64 -> lwf l -> D_swap_adjacent l ind <> PanicDebug.
Proof.
  intros Hn W. destruct (N.lt_ge_cases (ind + 1) (N.of_nat (nv l))) as [H|H].
  - destruct (swap_adjacent_valid l ind Hn W H) as [r E]. exact (ok_not_debug _ _ E).
  - exact (always_not_debug _ (swap_adjacent_invalid l ind H)).
Qed.
Lemma swap_adjacent_usize_max l : D_swap_adjacent l ones64 = PanicAlways \/ 2 ^ 64 <= N.of_nat (nv l).
Proof.
  destruct (N.lt_ge_cases (N.of_nat (nv l)) (2 ^ 64)) as [H|H]; [left|right; exact H].
  apply swap_adjacent_invalid. unfold ones64. change (2 ^ 64) with 18446744073709551616 in H. lia.
Qed.

Lemma cofactors_invalid l ind : N.of_nat (nv l) <= ind -> D_cofactors l ind = PanicAlways.
Proof. exact (D_cofactors_guard l ind). Qed.
Lemma cofactors_valid l ind : lwf l -> ind < N.of_nat (nv l) -> exists r, D_cofactors l ind = Ok r.
Proof. intros W H. destruct (D_cofactors_sem l ind W H) as [c0 [c1 [E _]]]. eauto. Qed.
Lemma cofactors_no_debug l ind : lwf l -> D_cofactors l ind <> PanicDebug.
Proof.
  intros W. destruct (N.lt_ge_cases ind (N.of_nat (nv l))) as [H|H].
  - destruct (cofactors_valid l ind W H) as [r E]. exact (ok_not_debug _ _ E).
  - exact (always_not_debug _ (cofactors_invalid l ind H)).
Qed.

Lemma from_cofactors_invalid c0 c1 ind : nv c0 <> nv c1 \/ N.of_nat (nv c0) <= ind ->
  D_from_cofactors c0 c1 ind = PanicAlways.
Proof. exact (D_from_cofactors_guard c0 c1 ind). Qed.
Lemma from_cofactors_valid c0 c1 ind : lwf c0 -> lwf c1 -> nv c0 = nv c1 -> ind < N.of_nat (nv c0) ->
  exists r, D_from_cofactors c0 c1 ind = Ok r.
Proof. intros W0 W1 En H. destruct (D_from_cofactors_sem c0 c1 ind W0 W1 En H) as [r [E _]]. eauto. Qed.
Lemma from_cofactors_no_debug c0 c1 ind : lwf c0 -> lwf c1 -> D_from_cofactors c0 c1 ind <> PanicDebug.
Proof.
  intros W0 W1. destruct (Nat.eq_dec (nv c0) (nv c1)) as [En|En];
    [destruct (N.lt_ge_cases ind (N.of_nat (nv c0))) as [H|H]|].
  - destruct (from_cofactors_valid c0 c1 ind W0 W1 En H) as [r E]. exact (ok_not_debug _ _ E).
  - exact (always_not_debug _ (from_cofactors_invalid c0 c1 ind (or_intror H))).
  - exact (always_not_debug _ (from_cofactors_invalid c0 c1 ind (or_introl En))).
Qed.

(* LutN: c0 and c1 have the same N by typing (hypothesis nv c0 = nv c1) *)
Lemma S_from_cofactors_invalid c0 c1 ind : N.of_nat (nv c0) <= ind -> S_from_cofactors c0 c1 ind = PanicAlways.
Proof. exact (S_from_cofactors_guard c0 c1 ind). Qed.
Lemma S_from_cofactors_valid c0 c1 ind : lwf c0 -> lwf c1 -> nv c0 = nv c1 -> ind < N.of_nat (nv c0) ->
  exists r, S_from_cofactors c0 c1 ind = Ok r.
Proof. intros W0 W1 En H. destruct (S_from_cofactors_sem c0 c1 ind W0 W1 En H) as [r [E _]]. eauto. Qed.
Lemma S_from_cofactors_no_debug c0 c1 ind : lwf c0 -> lwf c1 -> nv c0 = nv c1 ->
  S_from_cofactors c0 c1 ind <> PanicDebug.
Proof.
  intros W0 W1 En. destruct (N.lt_ge_cases ind (N.of_nat (nv c0))) as [H|H].
  - destruct (S_from_cofactors_valid c0 c1 ind W0 W1 En H) as [r E]. exact (ok_not_debug _ _ E).
  - exact (always_not_debug _ (S_from_cofactors_invalid c0 c1 ind H)).
Qed.

(* ================================================================== binary operators: a second table *)
Lemma and_invalid a b : nv a <> nv b -> D_and a b = PanicAlways.
Proof. intros H. exact (proj1 (D_binop_size_guard a b H)). Qed.
Lemma or_invalid a b : nv a <> nv b -> D_or a b = PanicAlways.
Proof. intros H. exact (proj1 (proj2 (D_binop_size_guard a b H))). Qed.
Lemma xor_invalid a b : nv a <> nv b -> D_xor a b = PanicAlways.
Proof. intros H. exact (proj2 (proj2 (D_binop_size_guard a b H))). Qed.
Lemma and_valid a b : lwf a -> lwf b -> nv a = nv b -> exists r, D_and a b = Ok r.
Proof. intros Wa Wb E. destruct (D_and_sem a b Wa Wb E) as [r [H _]]. eauto. Qed.
Lemma or_valid a b : lwf a -> lwf b -> nv a = nv b -> exists r, D_or a b = Ok r.
Proof. intros Wa Wb E. destruct (D_or_sem a b Wa Wb E) as [r [H _]]. eauto. Qed.
Lemma xor_valid a b : lwf a -> lwf b -> nv a = nv b -> exists r, D_xor a b = Ok r.
Proof. intros Wa Wb E. destruct (D_xor_sem a b Wa Wb E) as [r [H _]]. eauto. Qed.
Lemma and_no_debug a b : lwf a -> lwf b -> D_and a b <> PanicDebug.
Proof.
  intros Wa Wb. destruct (Nat.eq_dec (nv a) (nv b)) as [E|E].
  - destruct (and_valid a b Wa Wb E) as [r H]. exact (ok_not_debug _ _ H).
  - exact (always_not_debug _ (and_invalid a b E)).
Qed.
Lemma or_no_debug a b : lwf a -> lwf b -> D_or a b <> PanicDebug.
Proof.
  intros Wa Wb. destruct (Nat.eq_dec (nv a) (nv b)) as [E|E].
  - destruct (or_valid a b Wa Wb E) as [r H]. exact (ok_not_debug _ _ H).
  - exact (always_not_debug _ (or_invalid a b E)).
Qed.
Lemma xor_no_debug a b : lwf a -> lwf b -> D_xor a b <> PanicDebug.
Proof.
  intros Wa Wb. destruct (Nat.eq_dec (nv a) (nv b)) as [E|E].
  - destruct (xor_valid a b Wa Wb E) as [r H]. exact (ok_not_debug _ _ H).
  - exact (always_not_debug _ (xor_invalid a b E)).
Qed.

(* ================================================================== from_blocks: a block slice *)
Lemma from_blocks_invalid n blocks : length blocks <> table_size n -> D_from_blocks n blocks = PanicAlways.
Proof. exact (D_from_blocks_panic n blocks). Qed.
Lemma from_blocks_valid n blocks : length blocks = table_size n -> exists r, D_from_blocks n blocks = Ok r.
Proof. intros H. eexists. apply D_from_blocks_ok. exact H. Qed.
Lemma from_blocks_no_debug n blocks : D_from_blocks n blocks <> PanicDebug.
Proof.
  destruct (Nat.eq_dec (length blocks) (table_size n)) as [E|E].
  - rewrite (D_from_blocks_ok n blocks E). discriminate.
  - rewrite (D_from_blocks_panic n blocks E). discriminate.
Qed.
Lemma S_from_blocks_invalid n blocks : length blocks <> table_size n -> S_from_blocks n blocks = PanicAlways.
Proof. exact (S_from_blocks_panic n blocks). Qed.
Lemma S_from_blocks_valid n blocks : length blocks = table_size n -> exists r, S_from_blocks n blocks = Ok r.
Proof. intros H. eexists. apply S_from_blocks_ok. exact H. Qed.
Lemma S_from_blocks_no_debug n blocks : S_from_blocks n blocks <> PanicDebug.
Proof.
  destruct (Nat.eq_dec (length blocks) (table_size n)) as [E|E].
  - rewrite (S_from_blocks_ok n blocks E). discriminate.
  - rewrite (S_from_blocks_panic n blocks E). discriminate.
Qed.

(* ================================================================== nth_var *)
Lemma nth_var_invalid n v : N.of_nat n <= v -> D_nth_var n v = PanicAlways.
Proof. exact (nth_var_guard n v). Qed.
Lemma nth_var_valid n v : v < N.of_nat n -> exists r, D_nth_var n v = Ok r.
Proof. intros H. destruct (nth_var_sem n v H) as [r [E _]]. eauto. Qed.
Lemma nth_var_no_debug n v : D_nth_var n v <> PanicDebug.
Proof.
  destruct (N.lt_ge_cases v (N.of_nat n)) as [H|H].
  - destruct (nth_var_valid n v H) as [r E]. exact (ok_not_debug _ _ E).
  - exact (always_not_debug _ (nth_var_invalid n v H)).
Qed.

(* ================================================================== top_decomposition, is_pos_unate, is_neg_unate:
   both guards of input_property_helper are assert!, and nothing else in it can panic: no PanicDebug for ANY table *)
Lemma helper_cases n t v op :
  (exists b, input_property_helper n t v op = Ok b) \/ input_property_helper n t v op = PanicAlways.
Proof.
  unfold input_property_helper.
  destruct (Nat.eqb (length t) (table_size n)); cbn [always bind]; [|right; reflexivity].
  destruct (v <? N.of_nat n); cbn [always bind]; [|right; reflexivity].
  destruct (Nat.leb (N.to_nat v) 5); left; eexists; reflexivity.
Qed.

Lemma helper_no_debug n t v op : input_property_helper n t v op <> PanicDebug.
Proof. destruct (helper_cases n t v op) as [[b E]|E]; rewrite E; discriminate. Qed.

Lemma top_no_debug n t v : top_decomposition n t v <> PanicDebug.
Proof.
  unfold top_decomposition, input_independent, input_and, input_or, input_nand, input_nor, input_xor.
  destruct (helper_cases n t v op_independent) as [[b1 E]|E]; rewrite E; cbn [bind]; [|discriminate]. clear E.
  destruct (helper_cases n t v op_and) as [[b2 E]|E]; rewrite E; cbn [bind]; [|discriminate]. clear E.
  destruct (helper_cases n t v op_or) as [[b3 E]|E]; rewrite E; cbn [bind]; [|discriminate]. clear E.
  destruct (helper_cases n t v op_nand) as [[b4 E]|E]; rewrite E; cbn [bind]; [|discriminate]. clear E.
  destruct (helper_cases n t v op_nor) as [[b5 E]|E]; rewrite E; cbn [bind]; [|discriminate]. clear E.
  destruct (helper_cases n t v op_xor) as [[b6 E]|E]; rewrite E; cbn [bind]; discriminate.
Qed.

Lemma top_decomposition_invalid l v : N.of_nat (nv l) <= v -> D_top_decomposition l v = PanicAlways.
Proof. intros H. exact (proj1 (D_decomp_ind_guard l v H)). Qed.
Lemma top_decomposition_valid l v : lwf l -> v < N.of_nat (nv l) -> exists r, D_top_decomposition l v = Ok r.
Proof. intros W H. destruct (D_top_decomposition_sem l v W H) as [r [E _]]. eauto. Qed.
Lemma top_decomposition_no_debug l v : D_top_decomposition l v <> PanicDebug.
Proof. apply top_no_debug. Qed.

Lemma is_pos_unate_invalid l v : N.of_nat (nv l) <= v -> D_is_pos_unate l v = PanicAlways.
Proof. intros H. exact (proj1 (proj2 (D_decomp_ind_guard l v H))). Qed.
Lemma is_pos_unate_valid l v : lwf l -> v < N.of_nat (nv l) -> exists r, D_is_pos_unate l v = Ok r.
Proof. intros W H. destruct (D_is_pos_unate_sem l v W H) as [r [E _]]. eauto. Qed.
Lemma is_pos_unate_no_debug l v : D_is_pos_unate l v <> PanicDebug.
Proof. apply helper_no_debug. Qed.

Lemma is_neg_unate_invalid l v : N.of_nat (nv l) <= v -> D_is_neg_unate l v = PanicAlways.
Proof. intros H. exact (proj2 (proj2 (D_decomp_ind_guard l v H))). Qed.
Lemma is_neg_unate_valid l v : lwf l -> v < N.of_nat (nv l) -> exists r, D_is_neg_unate l v = Ok r.
Proof. intros W H. destruct (D_is_neg_unate_sem l v W H) as [r [E _]]. eauto. Qed.
Lemma is_neg_unate_no_debug l v : D_is_neg_unate l v <> PanicDebug.
Proof. apply helper_no_debug. Qed.

(* ================================================================== bdd_complexity: a list of tables.
   src/bdd.rs contains assert! and slice indexing only: no PanicDebug for ANY list of tables *)
Lemma sumM_no_debug l : Forall (fun x : res nat => x <> PanicDebug) l -> sumM l <> PanicDebug.
Proof.
  induction 1 as [|x r Hx _ IH]; cbn [sumM]; [discriminate|].
  destruct x as [a| |]; cbn [bind]; [|discriminate|exfalso; apply Hx; reflexivity].
  destruct (sumM r) as [b| |]; cbn [bind]; [discriminate|discriminate|exact IH].
Qed.

Lemma level_complexity_no_debug t level : level_complexity t level <> PanicDebug.
Proof.
  unfold level_complexity.
  destruct (Nat.ltb level 6); cbn [always bind]; [|discriminate].
  destruct (Nat.leb 1 level); cbn [always bind]; discriminate.
Qed.

Lemma large_level_complexity_no_debug t level : large_level_complexity t level <> PanicDebug.
Proof.
  unfold large_level_complexity.
  destruct (Nat.leb 6 level); cbn [always bind]; [|discriminate].
  destruct (Nat.eqb (length t mod Nat.pow 2 (level - 5)) 0); cbn [always bind]; discriminate.
Qed.

Lemma table_complexity_no_debug n t : table_complexity n t <> PanicDebug.
Proof.
  unfold table_complexity.
  assert (A : sumM (map (level_complexity t) (seq 1 (Nat.min n 6 - 1))) <> PanicDebug).
  { apply sumM_no_debug, Forall_forall. intros x Hx. apply in_map_iff in Hx. destruct Hx as [k [<- _]].
    apply level_complexity_no_debug. }
  assert (B : sumM (map (large_level_complexity t) (seq 6 (n - 6))) <> PanicDebug).
  { apply sumM_no_debug, Forall_forall. intros x Hx. apply in_map_iff in Hx. destruct Hx as [k [<- _]].
    apply large_level_complexity_no_debug. }
  destruct (sumM (map (level_complexity t) (seq 1 (Nat.min n 6 - 1)))) as [a| |]; cbn [bind];
    [|discriminate|exact A].
  destruct (sumM (map (large_level_complexity t) (seq 6 (n - 6)))) as [b| |]; cbn [bind];
    [discriminate|discriminate|exact B].
Qed.

Definition same_nv (luts : list lut) : Prop :=
  match luts with [] => True | l0 :: r => Forall (fun l => nv l = nv l0) r end.

Lemma bdd_complexity_invalid luts : ~ same_nv luts -> D_bdd_complexity luts = PanicAlways.
Proof.
  destruct luts as [|l0 r]; cbn [same_nv]; intros H; [exfalso; apply H; exact I|].
  unfold D_bdd_complexity.
  destruct (forallb (fun l => Nat.eqb (nv l) (nv l0)) (l0 :: r)) eqn:E; [|reflexivity].
  exfalso. apply H. apply Forall_forall. intros l Hl. rewrite forallb_forall in E.
  apply Nat.eqb_eq. apply E. right. exact Hl.
Qed.
Lemma bdd_complexity_valid luts : Forall lwf luts -> same_nv luts -> exists r, D_bdd_complexity luts = Ok r.
Proof.
  destruct luts as [|l0 r]; cbn [same_nv]; intros W H; [eexists; reflexivity|].
  eexists. apply D_bdd_complexity_spec. apply Forall_forall. intros l Hl.
  rewrite Forall_forall in W, H. split; [|apply (W l Hl)].
  destruct Hl as [<-|Hl]; [reflexivity|apply (H l Hl)].
Qed.
Lemma bdd_complexity_no_debug luts : D_bdd_complexity luts <> PanicDebug.
Proof.
  destruct luts as [|l0 r]; [discriminate|]. unfold D_bdd_complexity.
  destruct (forallb (fun l => Nat.eqb (nv l) (nv l0)) (l0 :: r)); cbn [always bind]; [|discriminate].
  apply table_complexity_no_debug.
Qed.
Lemma S_bdd_complexity_no_debug n luts : S_bdd_complexity n luts <> PanicDebug.
Proof. apply table_complexity_no_debug. Qed.

(* ================================================================== cmp: tables of different sizes compare by
   size - a value, not a panic *)
Lemma cmp_different_nv a b : nv a <> nv b -> D_cmp a b = Ok (Nat.compare (nv a) (nv b)).
Proof. intros H. unfold D_cmp. apply Nat.eqb_neq in H. rewrite H. reflexivity. Qed.
Lemma cmp_valid a b : lwf a -> lwf b -> exists r, D_cmp a b = Ok r.
Proof. exact (D_cmp_total a b). Qed.
Lemma cmp_no_debug a b : lwf a -> lwf b -> D_cmp a b <> PanicDebug.
Proof. intros Wa Wb. destruct (cmp_valid a b Wa Wb) as [r E]. exact (ok_not_debug _ _ E). Qed.

(* ================================================================== count arguments (k, count_values): every value
   is valid; successor / iterator never panic on a well-formed table *)
Lemma threshold_ok n k : (n < 64)%nat -> exists r, D_threshold n k = Ok r.
Proof. intros H. destruct (threshold_sem n k H) as [r [E _]]. eauto. Qed.
Lemma equals_ok n k : (n < 64)%nat -> exists r, D_equals n k = Ok r.
Proof. intros H. destruct (equals_sem n k H) as [r [E _]]. eauto. Qed.
Lemma symmetric_ok n cv : (n < 64)%nat -> cv < 2 ^ 64 -> exists r, D_symmetric n cv = Ok r.
Proof. intros H Hc. destruct (symmetric_sem n cv H Hc) as [r [E _]]. eauto. Qed.
Lemma next_inplace_ok n t : wf n t -> exists r, next_inplace n t = Ok r.
Proof. intros W. destruct (next_sem n t W) as [t' [ok [E _]]]. eauto. Qed.
Lemma iter_next_ok l ok : lwf l -> exists r, iter_next (l, ok) = Ok r.
Proof.
  intros W. unfold iter_next. destruct ok; cbn [negb]; [|eexists; reflexivity].
  destruct (next_sem (nv l) (tbl l) W) as [t' [ok' [E _]]]. rewrite E. cbn [bind]. eexists. reflexivity.
Qed.

(* ================================================================== summary over the index-taking API calls *)
Inductive icall :=
| IGetBit (l : lut) (m : N)
| ISetBit (l : lut) (m : N)
| IUnsetBit (l : lut) (m : N)
| ISetValue (l : lut) (m : N) (v : bool)
| IFlip (l : lut) (i : N)
| ISwap (l : lut) (i j : N)
| ISwapAdjacent (l : lut) (i : N)
| ICofactors (l : lut) (i : N)
| IFromCofactors (c0 c1 : lut) (i : N)
| ISFromCofactors (c0 c1 : lut) (i : N)
| IAnd (a b : lut)
| IOr (a b : lut)
| IXor (a b : lut)
| IFromBlocks (n : nat) (blocks : list N)
| ISFromBlocks (n : nat) (blocks : list N)
| INthVar (n : nat) (v : N)
| ITopDecomposition (l : lut) (i : N)
| IIsPosUnate (l : lut) (i : N)
| IIsNegUnate (l : lut) (i : N)
| IBddComplexity (luts : list lut)
| ICmp (a b : lut).

(* run the call, forget the value *)
Definition forget {A} (r : res A) : res unit :=
  match r with Ok _ => Ok tt | PanicAlways => PanicAlways | PanicDebug => PanicDebug end.

Definition irun (c : icall) : res unit :=
  match c with
  | IGetBit l m => forget (D_get_bit l m)
  | ISetBit l m => forget (D_set_bit l m)
  | IUnsetBit l m => forget (D_unset_bit l m)
  | ISetValue l m v => forget (D_set_value l m v)
  | IFlip l i => forget (D_flip l i)
  | ISwap l i j => forget (D_swap l i j)
  | ISwapAdjacent l i => forget (D_swap_adjacent l i)
  | ICofactors l i => forget (D_cofactors l i)
  | IFromCofactors c0 c1 i => forget (D_from_cofactors c0 c1 i)
  | ISFromCofactors c0 c1 i => forget (S_from_cofactors c0 c1 i)
  | IAnd a b => forget (D_and a b)
  | IOr a b => forget (D_or a b)
  | IXor a b => forget (D_xor a b)
  | IFromBlocks n blocks => forget (D_from_blocks n blocks)
  | ISFromBlocks n blocks => forget (S_from_blocks n blocks)
  | INthVar n v => forget (D_nth_var n v)
  | ITopDecomposition l i => forget (D_top_decomposition l i)
  | IIsPosUnate l i => forget (D_is_pos_unate l i)
  | IIsNegUnate l i => forget (D_is_neg_unate l i)
  | IBddComplexity luts => forget (D_bdd_complexity luts)
  | ICmp a b => forget (D_cmp a b)
  end.

(* index < num_vars, assignment < 2^num_vars, same num_vars, right length *)
Definition ivalid (c : icall) : Prop :=
  match c with
  | IGetBit l m | ISetBit l m | IUnsetBit l m | ISetValue l m _ => m < 2 ^ N.of_nat (nv l)
  | IFlip l i | ICofactors l i | ITopDecomposition l i | IIsPosUnate l i | IIsNegUnate l i => i < N.of_nat (nv l)
  | ISwap l i j => i < N.of_nat (nv l) /\ j < N.of_nat (nv l)
  | ISwapAdjacent l i => i + 1 < N.of_nat (nv l)
  | IFromCofactors c0 c1 i => nv c0 = nv c1 /\ i < N.of_nat (nv c0)
  | ISFromCofactors c0 c1 i => i < N.of_nat (nv c0)
  | IAnd a b | IOr a b | IXor a b => nv a = nv b
  | IFromBlocks n blocks | ISFromBlocks n blocks => length blocks = table_size n
  | INthVar n v => v < N.of_nat n
  | IBddComplexity luts => same_nv luts
  | ICmp _ _ => True
  end.

(* the invariants of the Rust types: every Lut operand is well formed; num_vars fits a usize where `ind + 1` is
   computed; the two operands of LutN::from_cofactors have the same N (typing) *)
Definition iwf (c : icall) : Prop :=
  match c with
  | IGetBit l _ | ISetBit l _ | IUnsetBit l _ | ISetValue l _ _ | IFlip l _ | ISwap l _ _ | ICofactors l _
  | ITopDecomposition l _ | IIsPosUnate l _ | IIsNegUnate l _ => lwf l
  | ISwapAdjacent l _ => lwf l /\ N.of_nat (nv l) < 2 ^ 64
  | IFromCofactors c0 c1 _ => lwf c0 /\ lwf c1
  | ISFromCofactors c0 c1 _ => lwf c0 /\ lwf c1 /\ nv c0 = nv c1
  | IAnd a b | IOr a b | IXor a b | ICmp a b => lwf a /\ lwf b
  | IFromBlocks _ _ | ISFromBlocks _ _ | INthVar _ _ => True
  | IBddComplexity luts => Forall lwf luts
  end.

Lemma forget_ok {A} (x : res A) : (exists r, x = Ok r) -> forget x = Ok tt.
Proof. intros [r ->]. reflexivity. Qed.
Lemma forget_always {A} (x : res A) : x = PanicAlways -> forget x = PanicAlways.
Proof. intros ->. reflexivity. Qed.
Lemma forget_no_debug {A} (x : res A) : x <> PanicDebug -> forget x <> PanicDebug.
Proof. destruct x; cbn [forget]; intros H; [discriminate|discriminate|exfalso; apply H; reflexivity]. Qed.

Theorem profile_independent c : iwf c -> irun c <> PanicDebug.
Proof.
  destruct c as [l m|l m|l m|l m v|l i|l i j|l i|l i|c0 c1 i|c0 c1 i|a b|a b|a b|n blocks|n blocks|n v|l i|l i|l i|luts|a b]; cbn [iwf irun]; intros W; apply forget_no_debug.
  - apply get_bit_no_debug.
  - apply set_bit_no_debug.
  - apply unset_bit_no_debug.
  - apply set_value_no_debug.
  - apply flip_no_debug; exact W.
  - apply swap_no_debug; exact W.
  - destruct W as [W Hn]. apply swap_adjacent_no_debug; assumption.
  - apply cofactors_no_debug; exact W.
  - destruct W as [W0 W1]. apply from_cofactors_no_debug; assumption.
  - destruct W as [W0 [W1 En]]. apply S_from_cofactors_no_debug; assumption.
  - destruct W as [Wa Wb]. apply and_no_debug; assumption.
  - destruct W as [Wa Wb]. apply or_no_debug; assumption.
  - destruct W as [Wa Wb]. apply xor_no_debug; assumption.
  - apply from_blocks_no_debug.
  - apply S_from_blocks_no_debug.
  - apply nth_var_no_debug.
  - apply top_decomposition_no_debug.
  - apply is_pos_unate_no_debug.
  - apply is_neg_unate_no_debug.
  - apply bdd_complexity_no_debug.
  - destruct W as [Wa Wb]. apply cmp_no_debug; assumption.
Qed.

Theorem invalid_panics c : iwf c -> ~ ivalid c -> irun c = PanicAlways.
Proof.
  destruct c as [l m|l m|l m|l m v|l i|l i j|l i|l i|c0 c1 i|c0 c1 i|a b|a b|a b|n blocks|n blocks|n v|l i|l i|l i|luts|a b]; cbn [iwf ivalid irun]; intros W H; apply forget_always.
  - apply get_bit_invalid. lia.
  - apply set_bit_invalid. lia.
  - apply unset_bit_invalid. lia.
  - apply set_value_invalid. lia.
  - apply flip_invalid. lia.
  - apply swap_invalid. lia.
  - apply swap_adjacent_invalid. lia.
  - apply cofactors_invalid. lia.
  - apply from_cofactors_invalid. destruct (Nat.eq_dec (nv c0) (nv c1)) as [E|E]; [right; lia|left; exact E].
  - apply S_from_cofactors_invalid. lia.
  - apply and_invalid. exact H.
  - apply or_invalid. exact H.
  - apply xor_invalid. exact H.
  - apply from_blocks_invalid. exact H.
  - apply S_from_blocks_invalid. exact H.
  - apply nth_var_invalid. lia.
  - apply top_decomposition_invalid. lia.
  - apply is_pos_unate_invalid. lia.
  - apply is_neg_unate_invalid. lia.
  - apply bdd_complexity_invalid. exact H.
  - exfalso. apply H. exact I.
Qed.

Theorem valid_ok c : iwf c -> ivalid c -> irun c = Ok tt.
Proof.
  destruct c as [l m|l m|l m|l m v|l i|l i j|l i|l i|c0 c1 i|c0 c1 i|a b|a b|a b|n blocks|n blocks|n v|l i|l i|l i|luts|a b]; cbn [iwf ivalid irun]; intros W H; apply forget_ok.
  - apply get_bit_valid; assumption.
  - apply set_bit_valid; assumption.
  - apply unset_bit_valid; assumption.
  - apply set_value_valid; assumption.
  - apply flip_valid; assumption.
  - destruct H as [Hi Hj]. apply swap_valid; assumption.
  - destruct W as [W Hn]. apply swap_adjacent_valid; assumption.
  - apply cofactors_valid; assumption.
  - destruct W as [W0 W1], H as [En Hi]. apply from_cofactors_valid; assumption.
  - destruct W as [W0 [W1 En]]. apply S_from_cofactors_valid; assumption.
  - destruct W as [Wa Wb]. apply and_valid; assumption.
  - destruct W as [Wa Wb]. apply or_valid; assumption.
  - destruct W as [Wa Wb]. apply xor_valid; assumption.
  - apply from_blocks_valid; assumption.
  - apply S_from_blocks_valid; assumption.
  - apply nth_var_valid; assumption.
  - apply top_decomposition_valid; assumption.
  - apply is_pos_unate_valid; assumption.
  - apply is_neg_unate_valid; assumption.
  - apply bdd_complexity_valid; assumption.
  - destruct W as [Wa Wb]. apply cmp_valid; assumption.
Qed.

(* the three outcomes in one statement: on the invariants of the types, the result of a call is decided by the
   validity of its arguments alone - the same in every build profile *)
Lemma ivalid_dec c : ivalid c \/ ~ ivalid c.
Proof.
  destruct c as [l m|l m|l m|l m v|l i|l i j|l i|l i|c0 c1 i|c0 c1 i|a b|a b|a b|n blocks|n blocks|n v|l i|l i|l i|luts|a b]; cbn [ivalid].
  - lia.
  - lia.
  - lia.
  - lia.
  - lia.
  - lia.
  - lia.
  - lia.
  - destruct (Nat.eq_dec (nv c0) (nv c1)) as [E|E]; [|right; intros [E' _]; contradiction].
    destruct (N.lt_ge_cases i (N.of_nat (nv c0))) as [L|G]; [left; split; assumption|right; intros [_ L]; lia].
  - lia.
  - destruct (Nat.eq_dec (nv a) (nv b)) as [E|E]; [left; exact E|right; exact E].
  - destruct (Nat.eq_dec (nv a) (nv b)) as [E|E]; [left; exact E|right; exact E].
  - destruct (Nat.eq_dec (nv a) (nv b)) as [E|E]; [left; exact E|right; exact E].
  - destruct (Nat.eq_dec (length blocks) (table_size n)) as [E|E]; [left; exact E|right; exact E].
  - destruct (Nat.eq_dec (length blocks) (table_size n)) as [E|E]; [left; exact E|right; exact E].
  - lia.
  - lia.
  - lia.
  - lia.
  - destruct luts as [|l0 r]; cbn [same_nv]; [left; exact I|].
    destruct (Forall_dec (fun l => nv l = nv l0) (fun l => Nat.eq_dec (nv l) (nv l0)) r) as [F|F];
      [left; exact F|right; exact F].
  - left. exact I.
Qed.

Theorem outcome c : iwf c -> (ivalid c /\ irun c = Ok tt) \/ (~ ivalid c /\ irun c = PanicAlways).
Proof.
  intros W. destruct (ivalid_dec c) as [V|V]; [left|right]; split; try exact V.
  - apply valid_ok; assumption.
  - apply invalid_panics; assumption.
Qed.
