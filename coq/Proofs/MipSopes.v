(* C18, SOPES: the 0-1 programme built by optimize_sopes_mip (Model/Mip.v, xor_cost >= 1): two families of
   candidates (cubes, exclusive cubes with at least two literals). *)
From Coq Require Import List NArith ZArith QArith Arith Bool Lia Lqa Permutation Sorting.
From V Require Import Base.Res Model.Kernels Model.TwoLevel Model.Api Model.Mip Base.Bits Spec.Bfun Spec.TwoLevelCost.
From V Require Import Proofs.Wf Proofs.Tabulate Proofs.Order Proofs.Constructors Proofs.MipBase Proofs.MipCore Proofs.MipGen Proofs.MipSop.
From V Require Proofs.CubeProofs Proofs.SopProofs Proofs.EcubeProofs.
Import ListNotations.
Open Scope nat_scope.

(* ------------------------------------------------------------------ A. exclusive-cube candidates *)
Lemma ecube_eqb_iff a b : ecube_eqb a b = true <-> a = b.
Proof.
  unfold ecube_eqb. rewrite andb_true_iff, N.eqb_eq, eqb_true_iff. split.
  - intros [H1 H2]. destruct a, b; cbn in *; congruence.
  - intros ->. auto.
Qed.

Definition ekey (e : ecube) : N := (2 * evars e + N.b2n (exnor e))%N.

Lemma ekey_inj a b : ekey a = ekey b -> a = b.
Proof.
  unfold ekey. intros H. apply EcubeProofs.ecube_ext; destruct (exnor a), (exnor b); cbn [N.b2n] in H; lia.
Qed.

Lemma ecube_cmp_key a b : ecube_cmp a b = (ekey a ?= ekey b)%N.
Proof.
  unfold ecube_cmp, ekey. destruct (N.compare_spec (evars a) (evars b)) as [E|L|L].
  - rewrite E. destruct (exnor a), (exnor b); cbn [bool_cmp N.b2n]; symmetry;
      [apply N.compare_eq_iff|apply N.compare_gt_iff|apply N.compare_lt_iff|apply N.compare_eq_iff]; lia.
  - symmetry. apply N.compare_lt_iff. destruct (exnor a), (exnor b); cbn [N.b2n]; lia.
  - symmetry. apply N.compare_gt_iff. destruct (exnor a), (exnor b); cbn [N.b2n]; lia.
Qed.

Definition eleR (a b : ecube) : Prop := (ekey a <= ekey b)%N.
Definition eltR (a b : ecube) : Prop := (ekey a < ekey b)%N.

Lemma In_ecube_insert e l x : In x (ecube_insert e l) <-> x = e \/ In x l.
Proof.
  induction l as [|y r IH]; cbn [ecube_insert].
  - cbn [In]. intuition.
  - destruct (ecube_cmp e y); cbn [In]; try rewrite IH; intuition.
Qed.

Lemma In_ecube_sort l x : In x (ecube_sort l) <-> In x l.
Proof.
  unfold ecube_sort. induction l as [|y r IH]; cbn [fold_right]; [reflexivity|].
  rewrite In_ecube_insert, IH. cbn [In]. intuition.
Qed.

Lemma ecube_insert_sorted e l : StronglySorted eleR l -> StronglySorted eleR (ecube_insert e l).
Proof.
  induction l as [|y r IH]; intros Hs; cbn [ecube_insert].
  - constructor; constructor.
  - apply StronglySorted_inv in Hs. destruct Hs as [Hr Hy].
    assert (Hle : (ekey e <= ekey y)%N -> StronglySorted eleR (e :: y :: r)).
    { intros L. constructor; [constructor; assumption|]. constructor; [exact L|].
      eapply Forall_impl; [|exact Hy]. intros z Hz. unfold eleR in *. lia. }
    rewrite ecube_cmp_key. destruct (N.compare_spec (ekey e) (ekey y)) as [E|L|L].
    + apply Hle. lia.
    + apply Hle. lia.
    + constructor; [apply IH; exact Hr|]. apply Forall_forall. intros z Hz.
      apply In_ecube_insert in Hz. destruct Hz as [->|Hz].
      * unfold eleR. lia.
      * rewrite Forall_forall in Hy. apply Hy. exact Hz.
Qed.

Lemma ecube_sort_sorted l : StronglySorted eleR (ecube_sort l).
Proof.
  unfold ecube_sort. induction l as [|y r IH]; cbn [fold_right]; [constructor|].
  apply ecube_insert_sorted. exact IH.
Qed.

Lemma ecube_dedup_cons2 x y r :
  ecube_dedup (x :: y :: r) = if ecube_eqb x y then ecube_dedup (y :: r) else x :: ecube_dedup (y :: r).
Proof. reflexivity. Qed.

Lemma In_ecube_dedup l x : In x (ecube_dedup l) <-> In x l.
Proof.
  induction l as [|a r IH]; [reflexivity|].
  destruct r as [|b r']; [reflexivity|].
  rewrite ecube_dedup_cons2. destruct (ecube_eqb a b) eqn:E.
  - apply ecube_eqb_iff in E. subst b. rewrite IH. cbn [In]. intuition.
  - change (In x (a :: ecube_dedup (b :: r'))) with (a = x \/ In x (ecube_dedup (b :: r'))).
    rewrite IH. cbn [In]. intuition.
Qed.

Lemma ecube_dedup_sorted l : StronglySorted eleR l -> StronglySorted eltR (ecube_dedup l).
Proof.
  induction l as [|a r IH]; intros Hs; [constructor|].
  destruct r as [|b r']; [constructor; constructor|].
  apply StronglySorted_inv in Hs. destruct Hs as [Hr Ha].
  rewrite ecube_dedup_cons2. destruct (ecube_eqb a b) eqn:E; [apply IH; exact Hr|].
  constructor; [apply IH; exact Hr|].
  apply Forall_forall. intros z Hz. apply (proj1 (In_ecube_dedup _ _)) in Hz. cbn [In] in Hz.
  assert (Hab : eltR a b).
  { rewrite Forall_forall in Ha. specialize (Ha b (or_introl eq_refl)). unfold eleR, eltR in *.
    destruct (N.eq_dec (ekey a) (ekey b)) as [K|K]; [|lia]. apply ekey_inj in K. subst b.
    rewrite (proj2 (ecube_eqb_iff a a) eq_refl) in E. discriminate. }
  destruct Hz as [<-|Hz]; [exact Hab|].
  apply StronglySorted_inv in Hr. destruct Hr as [_ Hb]. rewrite Forall_forall in Hb.
  specialize (Hb z Hz). unfold eleR, eltR in *. lia.
Qed.

Lemma eltR_sorted_NoDup l : StronglySorted eltR l -> NoDup l.
Proof.
  induction l as [|a r IH]; intros Hs; [constructor|].
  apply StronglySorted_inv in Hs. destruct Hs as [Hr Ha]. constructor; [|apply IH; exact Hr].
  intros Hin. rewrite Forall_forall in Ha. specialize (Ha a Hin). unfold eltR in Ha. lia.
Qed.

Lemma ecube_good_iff n e : ecube_good n e = true <-> (evars e < 2 ^ N.of_nat n)%N.
Proof. unfold ecube_good. apply N.ltb_lt. Qed.

Lemma ecube_all_inv v l : ecube_all v = Ok l -> (v <= 31)%N.
Proof.
  unfold ecube_all, bit32. intros H. apply bind_ok in H. destruct H as [mx [H _]].
  apply bind_ok in H. destruct H as [u [H _]]. destruct u. apply dbg_ok in H. apply N.ltb_lt in H. lia.
Qed.

Lemma ecube_all_good n l : ecube_all (N.of_nat n) = Ok l -> forall e, In e l <-> ecube_good n e = true.
Proof.
  intros H. destruct (EcubeProofs.ecube_all_complete (N.of_nat n) (ecube_all_inv _ _ H)) as [l' [E [_ [_ Hc]]]].
  rewrite H in E. inversion E; subst l'. intros e. rewrite Hc, ecube_good_iff. reflexivity.
Qed.

Lemma ecube_all_ok n : n <= 31 -> exists l, ecube_all (N.of_nat n) = Ok l.
Proof. intros H. destruct (EcubeProofs.ecube_all_complete (N.of_nat n) ltac:(lia)) as [l [E _]]. eauto. Qed.

Lemma eimplies_lut_sem e n t :
  ecube_implies_lut e n t = true <->
  forall m, (m < 2 ^ N.of_nat n)%N -> ecube_value e m = true -> val t m = true.
Proof.
  unfold ecube_implies_lut. rewrite forallb_forall. split.
  - intros H m Hm V. specialize (H m (proj2 (In_assignments n m) Hm)).
    rewrite V, tget_val in H. destruct (val t m); [reflexivity|discriminate].
  - intros H m Hm. apply In_assignments in Hm. rewrite tget_val.
    destruct (ecube_value e m) eqn:V; [|reflexivity]. rewrite (H m Hm V). reflexivity.
Qed.

Definition is_ecandidates (n : nat) (fs : list lut) (ecs : list ecube) : Prop :=
  NoDup ecs /\
  forall e, In e ecs <->
            (ecube_good n e = true /\ (2 <= ecube_num_lits e)%N /\
             exists f, In f fs /\ ecube_implies_lut e n (tbl f) = true).

Lemma ecandidates_char n fs ecs : Forall (fun f => nv f = n) fs ->
  enumerate_valid_ecubes_multi fs = Ok ecs -> is_ecandidates n fs ecs.
Proof.
  intros Hn H. unfold enumerate_valid_ecubes_multi in H. apply bind_ok in H. destruct H as [es [Hes H]].
  inversion H; subst ecs. clear H. split.
  - apply eltR_sorted_NoDup. apply ecube_dedup_sorted. apply ecube_sort_sorted.
  - intros e. rewrite In_ecube_dedup, In_ecube_sort, filter_In, N.leb_le.
    rewrite (concatM_map_inv enumerate_valid_ecubes fs es Hes e). rewrite Forall_forall in Hn. split.
    + intros [[f [rf [Hf [He Hc]]]] Hl]. unfold enumerate_valid_ecubes in He.
      apply bind_ok in He. destruct He as [all [Hall He]]. inversion He; subst rf.
      apply filter_In in Hc. destruct Hc as [Hc Hi]. rewrite (Hn f Hf) in *.
      split; [apply (ecube_all_good n all Hall); exact Hc|]. split; [exact Hl|]. exists f. auto.
    + intros [Hg [Hl [f [Hf Hi]]]]. split; [|exact Hl].
      assert (Hex : exists rf, enumerate_valid_ecubes f = Ok rf).
      { clear -Hes Hf. revert es Hes. induction fs as [|a l IH]; intros es Hes; [contradiction|].
        cbn [map concatM] in Hes. apply bind_ok in Hes. destruct Hes as [ra [Ha Hes]].
        apply bind_ok in Hes. destruct Hes as [rb [Hb _]]. destruct Hf as [->|Hf]; [eauto|].
        eapply IH; eassumption. }
      destruct Hex as [rf He]. exists f, rf. split; [exact Hf|]. split; [exact He|].
      unfold enumerate_valid_ecubes in He. apply bind_ok in He. destruct He as [all [Hall He]].
      inversion He; subst rf. rewrite (Hn f Hf) in *. apply filter_In. split; [|exact Hi].
      apply (ecube_all_good n all Hall). exact Hg.
Qed.

Lemma ecandidates_ok n fs : n <= 31 -> Forall (fun f => nv f = n) fs ->
  exists ecs, enumerate_valid_ecubes_multi fs = Ok ecs.
Proof.
  intros Hn Hf. destruct (ecube_all_ok n Hn) as [all Hall]. rewrite Forall_forall in Hf.
  unfold enumerate_valid_ecubes_multi.
  rewrite (concatM_map_ok enumerate_valid_ecubes (fun f => filter (fun e => ecube_implies_lut e (nv f) (tbl f)) all)).
  - cbn [bind]. eauto.
  - intros f Hin. unfold enumerate_valid_ecubes. rewrite (Hf f Hin), Hall. reflexivity.
Qed.

(* ------------------------------------------------------------------ B. objective, checks, the programme *)
Definition egz (ecs : list ecube) (i : nat) : Z := Z.of_N (ecube_num_gates (nth i ecs ecube_zero)).

Lemma egates_nonneg e : (0 <= Z.of_N (ecube_num_gates e))%Z.
Proof. lia. Qed.

Lemma egates_bound n e : ecube_good n e = true -> (Z.of_N (ecube_num_gates e) <= Z.of_nat n)%Z.
Proof.
  intros H. apply ecube_good_iff in H. pose proof (popcount_bound _ _ H) as B.
  unfold ecube_num_gates, ecube_num_lits. lia.
Qed.

Definition sopes_obj (fs : list lut) (ac xc oc : Z) (cubes : list cube) (ecs : list ecube) : lin :=
  mkLin (map (fun i => (Z2 (gz cubes i * ac), v_cu i)) (seq 0 (length cubes)) ++
         map (fun i => (Z2 (egz ecs i * xc), v_ecu cubes i)) (seq 0 (length ecs)) ++
         map (fun j => (Z2 oc, v_or fs cubes ecs j)) (seq 0 (length fs))) 0.

Definition sopes_prog (fs : list lut) (ac xc oc : Z) (cubes : list cube) (ecs : list ecube) : program :=
  mkProgram (sop_kinds fs cubes ecs) (sop_constraints fs cubes ecs) (sopes_obj fs ac xc oc cubes ecs).

Lemma sopes_objective_ok fs ac xc oc cubes ecs n :
  (forall c, In c cubes -> cube_good n c = true) -> (forall e, In e ecs -> ecube_good n e = true) ->
  (0 <= ac)%Z -> (0 <= xc)%Z -> (2 * Z.of_nat n * ac <= i32_max)%Z -> (Z.of_nat n * xc <= i32_max)%Z ->
  sop_objective fs ac xc oc cubes ecs = Ok (sopes_obj fs ac xc oc cubes ecs).
Proof.
  intros Hg He Hac Hxc Hb Hb'. unfold sop_objective.
  rewrite (mapM_ok_map _ (fun i => (Z2 (gz cubes i * ac), v_cu i))).
  2:{ intros i Hi. apply in_seq in Hi. fold (cb cubes i). fold (gz cubes i).
      pose proof (gates_bound n (cb cubes i) (Hg _ (cb_In cubes i ltac:(lia)))) as B.
      fold (gz cubes i) in B. pose proof (gz_nonneg cubes i) as B0.
      rewrite mul_i32_ok; [reflexivity|assumption|assumption|nia]. }
  cbn [bind].
  rewrite (mapM_ok_map _ (fun i => (Z2 (egz ecs i * xc), v_ecu cubes i))).
  2:{ intros i Hi. apply in_seq in Hi. fold (egz ecs i).
      pose proof (egates_bound n (nth i ecs ecube_zero) (He _ (@nth_In _ i ecs ecube_zero ltac:(lia)))) as B.
      fold (egz ecs i) in B. assert (B0 : (0 <= egz ecs i)%Z) by (unfold egz; lia).
      rewrite mul_i32_ok; [reflexivity|assumption|assumption|nia]. }
  reflexivity.
Qed.

Lemma sopes_objective_inv fs ac xc oc cubes ecs obj :
  sop_objective fs ac xc oc cubes ecs = Ok obj -> obj = sopes_obj fs ac xc oc cubes ecs.
Proof.
  unfold sop_objective. intros H. apply bind_ok in H. destruct H as [cc [Hcc H]].
  apply cc_inv in Hcc. subst cc. apply bind_ok in H. destruct H as [ec [Hec H]].
  apply (mapM_inv_map _ (fun i => (Z2 (egz ecs i * xc), v_ecu cubes i)) (fun _ => True)) in Hec.
  2:{ intros i b _ Hb. apply bind_ok in Hb. destruct Hb as [c [Hc Hb]]. apply mul_i32_inv in Hc. subst c.
      inversion Hb. split; [reflexivity|exact I]. }
  destruct Hec as [-> _]. inversion H. reflexivity.
Qed.

Definition sopes_instance (n : nat) (fs : list lut) (ac xc oc : Z) : Prop :=
  n <= 31 /\ Forall (fun f => nv f = n) fs /\ (1 <= ac)%Z /\ (1 <= xc)%Z /\ (1 <= oc)%Z /\
  (2 * Z.of_nat n * ac <= i32_max)%Z /\ (Z.of_nat n * xc <= i32_max)%Z.

Theorem sopes_program_ok n fs ac xc oc : sopes_instance n fs ac xc oc ->
  exists cubes ecs, sop_program fs ac xc oc = Ok (sopes_prog fs ac xc oc cubes ecs, cubes, ecs) /\
                    is_candidates n fs cubes /\ is_ecandidates n fs ecs.
Proof.
  intros [Hn [Hf [Hac [Hxc [Hoc [Hb Hb']]]]]]. destruct (candidates_ok n fs Hn Hf) as [cubes Hc].
  destruct (ecandidates_ok n fs Hn Hf) as [ecs He].
  pose proof (candidates_char n fs cubes Hf Hc) as Hchar. pose proof (ecandidates_char n fs ecs Hf He) as Hechar.
  exists cubes, ecs. split; [|split; assumption].
  unfold sop_program, sop_candidates. rewrite Hc. cbn [bind].
  rewrite (proj2 (Z.leb_le 0 xc) ltac:(lia)), He. cbn [bind]. unfold sop_check.
  rewrite (same_vars_ok n fs Hf). cbn [always bind].
  rewrite (proj2 (Z.leb_le 1 ac) Hac), (proj2 (Z.leb_le 1 oc) Hoc), (proj2 (Z.leb_le 1 xc) Hxc), orb_true_r.
  cbn [always bind].
  rewrite (sopes_objective_ok fs ac xc oc cubes ecs n); [reflexivity| | |lia|lia|exact Hb|exact Hb'].
  - intros c Hin. apply (proj1 (proj2 Hchar c) Hin).
  - intros e Hin. apply (proj1 (proj2 Hechar e) Hin).
Qed.

Lemma sopes_program_shape n fs ac xc oc p cubes ecs : Forall (fun f => nv f = n) fs -> (1 <= xc)%Z ->
  sop_program fs ac xc oc = Ok (p, cubes, ecs) ->
  p = sopes_prog fs ac xc oc cubes ecs /\ is_candidates n fs cubes /\ is_ecandidates n fs ecs /\
  (1 <= ac)%Z /\ (1 <= oc)%Z.
Proof.
  intros Hn Hxc H. unfold sop_program, sop_candidates in H.
  apply bind_ok in H. destruct H as [[cs es] [H1 H2]].
  apply bind_ok in H1. destruct H1 as [cs' [Hc H1]]. rewrite (proj2 (Z.leb_le 0 xc) ltac:(lia)) in H1.
  apply bind_ok in H1. destruct H1 as [es' [He H1]]. inversion H1; subst cs' es'. clear H1.
  apply bind_ok in H2. destruct H2 as [u [Hk H2]]. apply bind_ok in H2. destruct H2 as [obj [Ho H2]].
  inversion H2; subst p cubes ecs. clear H2. apply sopes_objective_inv in Ho. subst obj.
  split; [reflexivity|]. split; [apply candidates_char; assumption|]. split; [apply ecandidates_char; assumption|].
  unfold sop_check in Hk. apply bind_ok in Hk. destruct Hk as [u1 [_ Hk]].
  apply bind_ok in Hk. destruct Hk as [u2 [Ha Hk]]. destruct u2. apply always_ok in Ha.
  apply bind_ok in Hk. destruct Hk as [u3 [Hb _]]. destruct u3. apply always_ok in Hb.
  apply Z.leb_le in Ha. apply Z.leb_le in Hb. auto.
Qed.

(* ------------------------------------------------------------------ C. the programme, constraint family by constraint family *)
Definition cgate (c : cube) : Z := Z.of_N (cube_num_gates c).
Definition egate (e : ecube) : Z := Z.of_N (ecube_num_gates e).
Lemma cgate_nonneg c : (0 <= cgate c)%Z. Proof. unfold cgate. lia. Qed.
Lemma egate_nonneg e : (0 <= egate e)%Z. Proof. unfold egate. lia. Qed.

Lemma sum_gates_cgate l : sum_gates l = zsum (map cgate l).
Proof. apply sum_gates_zsum. Qed.
Lemma sum_egates_egate l : sum_egates l = zsum (map egate l).
Proof. induction l as [|c l IH]; cbn [sum_egates fold_right map zsum]; [reflexivity|]. fold (sum_egates l). rewrite IH. reflexivity. Qed.

Lemma bits_In_s f b : In b (seq 0 (num_bits_nat f)) <-> (N.of_nat b < 2 ^ N.of_nat (nv f))%N.
Proof. exact (num_bits_In [] [] f b). Qed.

Section SopesBridge.
  Variable fs : list lut.
  Variable cubes : list cube.
  Variable ecs : list ecube.
  Let nf := length fs.
  Let nc := length cubes.
  Let ne := length ecs.
  Definition nbin : nat := nc + ne + nc * nf + ne * nf.

  Notation vcuf := (v_cuf fs cubes ecs).
  Notation vecuf := (v_ecuf fs cubes ecs).
  Notation vecu := (v_ecu cubes).
  Notation vor := (v_or fs cubes ecs).
  Definition cdec (x : nat -> Q) (j : nat) : list cube := fdec cube cube_zero cubes vcuf x j.
  Definition edec (x : nat -> Q) (j : nat) : list ecube := fdec ecube ecube_zero ecs vecuf x j.
  Definition ccover (j : nat) : list constr := fcover cube cubes v_cu vcuf j.
  Definition ecover (j : nat) : list constr := fcover ecube ecs vecu vecuf j.

  Lemma vcu_lt i : i < nc -> v_cu i < nbin.
  Proof. unfold v_cu, nbin. lia. Qed.
  Lemma vecu_lt i : i < ne -> vecu i < nbin.
  Proof. unfold v_ecu, nbin. fold nc. lia. Qed.
  Lemma vcuf_lt i j : i < nc -> j < nf -> vcuf i j < nbin.
  Proof. unfold v_cuf, nbin. fold nc ne nf. intros Hi Hj. assert (i * nf + nf <= nc * nf) by nia. lia. Qed.
  Lemma vecuf_lt i j : i < ne -> j < nf -> vecuf i j < nbin.
  Proof. unfold v_ecuf, nbin. fold nc ne nf. intros Hi Hj. assert (i * nf + nf <= ne * nf) by nia. lia. Qed.
  Lemma vor_eq j : vor j = nbin + j.
  Proof. reflexivity. Qed.

  Lemma decode_eq x j : sop_decode_fn fs cubes ecs x j = (cdec x j, edec x j).
  Proof. reflexivity. Qed.
  Lemma cover_eq j : c_cover fs cubes ecs j = ccover j ++ ecover j.
  Proof. reflexivity. Qed.

  Lemma skinds_sound x :
    (forall i k, nth_error (sop_kinds fs cubes ecs) i = Some k -> kind_ok k (x i)) ->
    (forall v, v < nbin -> (x v == 0 \/ x v == 1)%Q) /\ (forall j, j < nf -> (0 <= x (vor j))%Q).
  Proof.
    intros H. unfold sop_kinds in H. split.
    - intros v Hv. apply (H v VBinary). unfold nbin, nc, ne, nf in Hv.
      rewrite nth_error_app1 by (rewrite repeat_length; exact Hv).
      apply nth_error_repeat. exact Hv.
    - intros j Hj. apply (H (vor j) VNonNeg). rewrite vor_eq. unfold nbin, nc, ne, nf in *.
      rewrite nth_error_app2 by (rewrite repeat_length; lia). rewrite repeat_length.
      apply nth_error_repeat. lia.
  Qed.

  Lemma skinds_enc x :
    (forall v, v < nbin -> (x v == 0 \/ x v == 1)%Q) ->
    (forall v, nbin <= v -> v < nbin + nf -> (0 <= x v)%Q) ->
    forall i k, nth_error (sop_kinds fs cubes ecs) i = Some k -> kind_ok k (x i).
  Proof.
    intros Hb Hn i k H. unfold sop_kinds in H. unfold nbin, nc, ne, nf in *.
    apply nth_error_app_inv in H. rewrite repeat_length in H. destruct H as [[L H]|[L H]].
    - apply nth_error_repeat_inv in H. destruct H as [-> _]. apply Hb. exact L.
    - apply nth_error_repeat_inv in H. destruct H as [-> L']. apply Hn; [exact L|]. lia.
  Qed.

  Lemma sconstraints_split x :
    Forall (constr_ok x) (sop_constraints fs cubes ecs) <->
    (forall j, j < nf -> constr_ok x (c_num_or fs cubes ecs j)) /\
    (forall j, j < nf -> Forall (constr_ok x) (ccover j) /\ Forall (constr_ok x) (ecover j)) /\
    (forall j f, nth_error fs j = Some f -> Forall (constr_ok x) (c_off fs cubes ecs j f)) /\
    (forall j f, nth_error fs j = Some f -> Forall (constr_ok x) (c_on fs cubes ecs j f)).
  Proof.
    unfold sop_constraints. rewrite !Forall_app, Forall_map, !Forall_flat_map, !Forall_forall. fold nf.
    split.
    - intros [H1 [H2 [H3 H4]]]. split; [|split; [|split]].
      + intros j Hj. apply H1. apply in_seq. lia.
      + intros j Hj. rewrite <- Forall_app, <- cover_eq. apply H2. apply in_seq. lia.
      + intros j f Hf. apply (H3 (j, f)). apply In_indexed. exact Hf.
      + intros j f Hf. apply (H4 (j, f)). apply In_indexed. exact Hf.
    - intros [H1 [H2 [H3 H4]]]. split; [|split; [|split]].
      + intros j Hj. apply in_seq in Hj. apply H1. lia.
      + intros j Hj. apply in_seq in Hj. rewrite cover_eq, Forall_app. apply H2. lia.
      + intros [j f] Hin. apply In_indexed in Hin. apply H3. exact Hin.
      + intros [j f] Hin. apply In_indexed in Hin. apply H4. exact Hin.
  Qed.

  Definition ci (i : nat) : cube := nth i cubes cube_zero.
  Definition ei (i : nat) : ecube := nth i ecs ecube_zero.

  Lemma s_off_eq j f :
    c_off fs cubes ecs j f =
    map (fun i => mkConstr (mkLin [(Z2 1, vcuf i j)] 0) RLe)
        (filter (fun i => negb (cube_implies_lut (ci i) (nv f) (tbl f))) (seq 0 nc)) ++
    map (fun i => mkConstr (mkLin [(Z2 1, vecuf i j)] 0) RLe)
        (filter (fun i => negb (ecube_implies_lut (ei i) (nv f) (tbl f))) (seq 0 ne)).
  Proof.
    unfold c_off. f_equal.
    - rewrite <- (flat_map_if (fun i => negb (cube_implies_lut (ci i) (nv f) (tbl f)))).
      apply flat_map_ext. intros i. fold (ci i). destruct (cube_implies_lut (ci i) (nv f) (tbl f)); reflexivity.
    - rewrite <- (flat_map_if (fun i => negb (ecube_implies_lut (ei i) (nv f) (tbl f)))).
      apply flat_map_ext. intros i. fold (ei i). destruct (ecube_implies_lut (ei i) (nv f) (tbl f)); reflexivity.
  Qed.

  Definition s_on_lin (j : nat) (b : nat) : lin :=
    mkLin (map (fun i => (Z2 (-1), vcuf i j)) (filter (fun i => cube_value (ci i) (N.of_nat b)) (seq 0 nc)) ++
           map (fun i => (Z2 (-1), vecuf i j)) (filter (fun i => ecube_value (ei i) (N.of_nat b)) (seq 0 ne)))
          (Z2 1).

  Lemma s_on_eq j f :
    c_on fs cubes ecs j f =
    map (fun b => mkConstr (s_on_lin j b) RLe) (filter (fun b => tget (tbl f) (N.of_nat b)) (seq 0 (num_bits_nat f))).
  Proof.
    unfold c_on. rewrite <- (flat_map_if (fun b => tget (tbl f) (N.of_nat b))).
    apply flat_map_ext. intros b. cbv zeta. destruct (tget (tbl f) (N.of_nat b)); [|reflexivity].
    unfold s_on_lin.
    rewrite <- (flat_map_if (fun i => cube_value (ci i) (N.of_nat b))).
    rewrite <- (flat_map_if (fun i => ecube_value (ei i) (N.of_nat b))). reflexivity.
  Qed.

  (* ---- any feasible point *)
  Section Sound.
    Variable x : nat -> Q.
    Hypothesis Hbin : forall v, v < nbin -> (x v == 0 \/ x v == 1)%Q.
    Let z (v : nat) : Z := b2z (used x v).

    Lemma s_num_sound j : j < nf -> constr_ok x (c_num_or fs cubes ecs j) ->
      (inject_Z (Z.of_nat (length (cdec x j) + length (edec x j)) - 1) <= x (vor j))%Q.
    Proof.
      intros Hj H. unfold constr_ok, c_num_or in H. cbn [crel cexpr] in H. rewrite eval2_cons in H.
      rewrite (bin_evalG x nbin _ _ Hbin) in H.
      2:{ intros cv Hcv. apply in_app_or in Hcv. destruct Hcv as [Hcv|Hcv]; apply in_map_iff in Hcv;
            destruct Hcv as [i [<- Hi]]; apply in_seq in Hi; cbn [snd]; [apply vcuf_lt|apply vecuf_lt]; lia || exact Hj. }
      rewrite evalZ_app in H.
      rewrite (evalZ_map _ (fun _ => Z2 1) (fun i => vcuf i j)) in H.
      rewrite (evalZ_map _ (fun _ => Z2 1) (fun i => vecuf i j)) in H.
      rewrite (fcount_sound cube cube_zero cubes vcuf x j (Z2 1)) in H.
      rewrite (fcount_sound ecube ecube_zero ecs vecuf x j (Z2 1)) in H.
      fold (cdec x j) (edec x j) in H. cbn [fst snd] in H.
      apply num_le_aux. rewrite Nat2Z.inj_add.
      replace (Z2 1 * (Z.of_nat (length (cdec x j)) + Z.of_nat (length (edec x j))) + Z2 (-1))%Z
        with (Z2 1 * Z.of_nat (length (cdec x j)) + 0 + (Z2 1 * Z.of_nat (length (edec x j)) + Z2 (-1)))%Z by ring.
      exact H.
    Qed.

    Lemma s_off_sound j f : j < nf -> Forall (constr_ok x) (c_off fs cubes ecs j f) ->
      (forall i, i < nc -> cube_implies_lut (ci i) (nv f) (tbl f) = false -> used x (vcuf i j) = false) /\
      (forall i, i < ne -> ecube_implies_lut (ei i) (nv f) (tbl f) = false -> used x (vecuf i j) = false).
    Proof.
      intros Hj H. rewrite s_off_eq, Forall_app, !Forall_map, !Forall_forall in H. destruct H as [H1 H2]. split.
      - intros i Hi Himp. specialize (H1 i). rewrite filter_In, in_seq, Himp in H1.
        specialize (H1 ltac:(split; [lia|reflexivity])).
        unfold constr_ok in H1. cbn [crel cexpr] in H1. rewrite (bin_evalG x nbin _ _ Hbin) in H1.
        2:{ intros cv [<-|[]]. cbn [snd]. apply vcuf_lt; assumption. }
        change 0%Q with (inject_Z 0) in H1. rewrite <- Zle_Qle in H1.
        unfold evalZ in H1. cbn [lcoef lconst fold_right fst snd] in H1.
        destruct (used x (vcuf i j)); [|reflexivity]. exfalso. revert H1. unfold Z2. cbn [b2z]. lia.
      - intros i Hi Himp. specialize (H2 i). rewrite filter_In, in_seq, Himp in H2.
        specialize (H2 ltac:(split; [lia|reflexivity])).
        unfold constr_ok in H2. cbn [crel cexpr] in H2. rewrite (bin_evalG x nbin _ _ Hbin) in H2.
        2:{ intros cv [<-|[]]. cbn [snd]. apply vecuf_lt; assumption. }
        change 0%Q with (inject_Z 0) in H2. rewrite <- Zle_Qle in H2.
        unfold evalZ in H2. cbn [lcoef lconst fold_right fst snd] in H2.
        destruct (used x (vecuf i j)); [|reflexivity]. exfalso. revert H2. unfold Z2. cbn [b2z]. lia.
    Qed.

    Lemma s_on_sound j f : j < nf -> Forall (constr_ok x) (c_on fs cubes ecs j f) ->
      forall b, (N.of_nat b < 2 ^ N.of_nat (nv f))%N -> tget (tbl f) (N.of_nat b) = true ->
      (exists i, i < nc /\ cube_value (ci i) (N.of_nat b) = true /\ used x (vcuf i j) = true) \/
      (exists i, i < ne /\ ecube_value (ei i) (N.of_nat b) = true /\ used x (vecuf i j) = true).
    Proof.
      intros Hj H b Hb Ht. rewrite s_on_eq, Forall_map, Forall_forall in H.
      specialize (H b). rewrite filter_In, bits_In_s in H. specialize (H (conj Hb Ht)).
      unfold constr_ok, s_on_lin in H. cbn [crel cexpr] in H.
      rewrite (bin_evalG x nbin _ _ Hbin) in H.
      2:{ intros cv Hcv. apply in_app_or in Hcv. destruct Hcv as [Hcv|Hcv]; apply in_map_iff in Hcv;
            destruct Hcv as [i [<- Hi]]; apply filter_In in Hi; destruct Hi as [Hi _]; apply in_seq in Hi;
            cbn [snd]; [apply vcuf_lt|apply vecuf_lt]; lia || exact Hj. }
      change 0%Q with (inject_Z 0) in H. rewrite <- Zle_Qle in H. rewrite evalZ_app in H.
      rewrite (evalZ_map _ (fun _ => Z2 (-1)) (fun i => vcuf i j)) in H.
      rewrite (evalZ_map _ (fun _ => Z2 (-1)) (fun i => vecuf i j)) in H.
      rewrite (zsum_count (fun i => used x (vcuf i j))) in H.
      rewrite (zsum_count (fun i => used x (vecuf i j))) in H.
      set (l1 := filter _ (filter _ (seq 0 nc))) in H. set (l2 := filter _ (filter _ (seq 0 ne))) in H.
      destruct l1 as [|i l1'] eqn:E1.
      - destruct l2 as [|i l2'] eqn:E2; [exfalso; revert H; unfold Z2; cbn [length]; lia|]. right.
        assert (Hi : In i l2) by (rewrite E2; left; reflexivity).
        unfold l2 in Hi. apply filter_In in Hi. destruct Hi as [Hi U]. apply filter_In in Hi. destruct Hi as [Hi V].
        apply in_seq in Hi. exists i. split; [lia|auto].
      - left. assert (Hi : In i l1) by (rewrite E1; left; reflexivity).
        unfold l1 in Hi. apply filter_In in Hi. destruct Hi as [Hi U]. apply filter_In in Hi. destruct Hi as [Hi V].
        apply in_seq in Hi. exists i. split; [lia|auto].
    Qed.
  End Sound.
End SopesBridge.

(* ------------------------------------------------------------------ D. decoding a feasible point *)
Lemma sopes_solution_ok_iff n (fs : list lut) sol :
  sopes_solution_ok n (map tbl fs) sol = true <->
  length sol = length fs /\
  forall j f cs es, nth_error fs j = Some f -> nth_error sol j = Some (cs, es) ->
    (forall c, In c cs -> cube_good n c = true) /\ NoDup cs /\
    (forall e, In e es -> ecube_good n e = true) /\ NoDup es /\
    forall m, (m < 2 ^ N.of_nat n)%N -> sem_or cs m || sem_soes es m = val (tbl f) m.
Proof.
  unfold sopes_solution_ok. rewrite andb_true_iff, Nat.eqb_eq, map_length, forallb_forall. split.
  - intros [Hl H]. split; [exact Hl|]. intros j f cs es Hf HC.
    assert (Hin : In (tbl f, (cs, es)) (combine (map tbl fs) sol)).
    { apply (combine_nth_In _ _ j); [apply map_nth_error; exact Hf|exact HC]. }
    specialize (H _ Hin). cbv beta iota in H. rewrite !andb_true_iff in H. destruct H as [[[[H1 H2] H3] H4] H5].
    rewrite forallb_forall in H1, H3, H5. split; [exact H1|]. split; [apply nodupb_iff; exact H2|].
    split; [exact H3|]. split; [apply (nodupb_iffG ecube ecube_eqb ecube_eqb_iff); exact H4|].
    intros m Hm. apply eqb_prop. apply H5. apply In_dom. exact Hm.
  - intros [Hl H]. split; [exact Hl|]. intros [t [cs es]] Hin.
    apply In_combine_nth in Hin. destruct Hin as [j [Ht HC]].
    rewrite nth_error_map in Ht. destruct (nth_error fs j) as [f|] eqn:Hf; [|discriminate].
    cbn in Ht. inversion Ht; subst t. destruct (H j f cs es Hf HC) as [H1 [H2 [H3 [H4 H5]]]].
    rewrite !andb_true_iff, !forallb_forall. split; [split; [split; [split|]|]|].
    + exact H1.
    + apply nodupb_iff. exact H2.
    + exact H3.
    + apply (nodupb_iffG ecube ecube_eqb ecube_eqb_iff). exact H4.
    + intros m Hm. apply eqb_true_iff. apply H5. apply In_dom. exact Hm.
Qed.

Definition sopes_decoded (fs : list lut) (cubes : list cube) (ecs : list ecube) (x : nat -> Q)
  : list (list cube * list ecube) := map (sop_decode_fn fs cubes ecs x) (seq 0 (length fs)).

Lemma sopes_cost_alt ac xc oc sol :
  sopes_cost ac xc oc sol =
  (ac * zsum (map cgate (dedupb cube_eqb (concat (map fst sol)))) +
   xc * zsum (map egate (dedupb ecube_eqb (concat (map snd sol)))) +
   oc * zsum (map (fun ce => extra (length (fst ce) + length (snd ce))) sol))%Z.
Proof.
  unfold sopes_cost. rewrite sum_gates_cgate, sum_egates_egate. f_equal.
  f_equal. induction sol as [|ce r IH]; cbn [fold_right map zsum]; [reflexivity|]. rewrite IH. reflexivity.
Qed.

Theorem sopes_decode_sound n fs ac xc oc cubes ecs x :
  Forall (fun f => nv f = n) fs -> is_candidates n fs cubes -> is_ecandidates n fs ecs ->
  (0 <= ac)%Z -> (0 <= xc)%Z -> (0 <= oc)%Z ->
  feasible (sopes_prog fs ac xc oc cubes ecs) x ->
  sopes_solution_ok n (map tbl fs) (sopes_decoded fs cubes ecs x) = true /\
  (inject_Z (2 * sopes_cost ac xc oc (sopes_decoded fs cubes ecs x)) <=
   eval2 x (pobj (sopes_prog fs ac xc oc cubes ecs)))%Q.
Proof.
  intros Hn [Hnd Hcand] [Hend Hecand] Hac Hxc Hoc [Hk Hc]. cbn [sopes_prog pkinds pconstrs pobj] in *.
  apply skinds_sound in Hk. destruct Hk as [Hbin Hor].
  apply sconstraints_split in Hc. destruct Hc as [Hnum [Hcov [Hoff Hon]]].
  rewrite Forall_forall in Hn. set (nf := length fs) in *.
  assert (Hd : sopes_decoded fs cubes ecs x = map (fun j => (cdec fs cubes ecs x j, edec fs cubes ecs x j)) (seq 0 nf))
    by reflexivity.
  rewrite Hd. split.
  - apply sopes_solution_ok_iff. split; [rewrite map_length, seq_length; reflexivity|].
    intros j f cs es Hf HC. pose proof (nth_error_lt _ _ _ Hf) as Hj. fold nf in Hj.
    rewrite nth_error_map_seq in HC by exact Hj. inversion HC; subst cs es. clear HC.
    pose proof (Hn f (nth_error_In _ _ Hf)) as Hnf.
    destruct (s_off_sound fs cubes ecs x Hbin j f Hj (Hoff j f Hf)) as [Hoc' Hoe'].
    split; [|split; [|split; [|split]]].
    + intros c Hin. apply fdec_incl in Hin. apply Hcand in Hin. tauto.
    + apply fdec_NoDup. exact Hnd.
    + intros e Hin. apply fdec_incl in Hin. apply Hecand in Hin. tauto.
    + apply fdec_NoDup. exact Hend.
    + intros m Hm. apply CubeProofs.bool_eq_iff. rewrite orb_true_iff. unfold sem_or, sem_soes.
      rewrite !existsb_exists. split.
      * intros [[c [Hin V]]|[e [Hin V]]].
        -- apply In_fdec in Hin. destruct Hin as [i [Hi [E U]]]. subst c.
           destruct (cube_implies_lut (it cube cube_zero cubes i) (nv f) (tbl f)) eqn:Himp.
           ++ rewrite Hnf in Himp. exact (proj1 (CubeProofs.implies_lut_sem _ _ _) Himp m Hm V).
           ++ rewrite (Hoc' i Hi Himp) in U. discriminate.
        -- apply In_fdec in Hin. destruct Hin as [i [Hi [E U]]]. subst e.
           destruct (ecube_implies_lut (it ecube ecube_zero ecs i) (nv f) (tbl f)) eqn:Himp.
           ++ rewrite Hnf in Himp. exact (proj1 (eimplies_lut_sem _ _ _) Himp m Hm V).
           ++ rewrite (Hoe' i Hi Himp) in U. discriminate.
      * intros Hv. rewrite <- tget_val in Hv. rewrite <- (N2Nat.id m) in Hv, Hm. rewrite <- Hnf in Hm.
        destruct (s_on_sound fs cubes ecs x Hbin j f Hj (Hon j f Hf) (N.to_nat m) Hm Hv)
          as [[i [Hi [V U]]]|[i [Hi [V U]]]]; rewrite N2Nat.id in V.
        -- left. exists (ci cubes i). split; [|exact V]. apply In_fdec. exists i. auto.
        -- right. exists (ei ecs i). split; [|exact V]. apply In_fdec. exists i. auto.
  - rewrite sopes_cost_alt, !map_map. cbn [fst snd]. unfold sopes_obj.
    rewrite eval2_app, eval2_app.
    rewrite (bin_evalG x (nbin fs cubes ecs) _ _ Hbin).
    2:{ intros cv Hcv. apply in_map_iff in Hcv. destruct Hcv as [i [<- Hi]]. apply in_seq in Hi. cbn [snd].
        apply vcu_lt. lia. }
    rewrite (bin_evalG x (nbin fs cubes ecs) _ _ Hbin).
    2:{ intros cv Hcv. apply in_map_iff in Hcv. destruct Hcv as [i [<- Hi]]. apply in_seq in Hi. cbn [snd].
        apply vecu_lt. lia. }
    set (z := fun v => b2z (used x v)).
    rewrite (evalZ_map z (fun i => Z2 (gz cubes i * ac)) (fun i => v_cu i)).
    rewrite (evalZ_map z (fun i => Z2 (egz ecs i * xc)) (fun i => v_ecu cubes i)).
    assert (Hex : forall j, In j (seq 0 nf) ->
              (inject_Z (extra (length (cdec fs cubes ecs x j) + length (edec fs cubes ecs x j))) <=
               x (v_or fs cubes ecs j))%Q).
    { intros j Hj. apply in_seq in Hj. rewrite extra_spec.
      pose proof (s_num_sound fs cubes ecs x Hbin j ltac:(lia) (Hnum j ltac:(lia))) as H1.
      pose proof (Hor j ltac:(lia)) as H2.
      set (L := Z.of_nat (length (cdec fs cubes ecs x j) + length (edec fs cubes ecs x j))) in *.
      destruct (Z.max_spec (L - 1) 0) as [[_ ->]|[_ ->]]; assumption. }
    pose proof (eval2_map_ge x (Z2 oc) (v_or fs cubes ecs)
                  (fun j => extra (length (cdec fs cubes ecs x j) + length (edec fs cubes ecs x j))) (seq 0 nf)
                  ltac:(unfold Z2; lia) Hex) as H2.
    eapply Qle_trans; [|apply Qplus_le_compat; [apply Qle_refl|apply Qplus_le_compat; [apply Qle_refl|exact H2]]].
    rewrite <- !inject_Z_plus. rewrite <- Zle_Qle.
    pose proof (fgates_le cube cube_eqb cube_eqb_iff cgate cgate_nonneg cube_zero cubes nf v_cu
                  (v_cuf fs cubes ecs) (nbin fs cubes ecs) (vcu_lt fs cubes ecs) (vcuf_lt fs cubes ecs) Hnd x Hbin
                  (fun j Hj => proj1 (Hcov j Hj))) as G1.
    pose proof (fgates_le ecube ecube_eqb ecube_eqb_iff egate egate_nonneg ecube_zero ecs nf (v_ecu cubes)
                  (v_ecuf fs cubes ecs) (nbin fs cubes ecs) (vecu_lt fs cubes ecs) (vecuf_lt fs cubes ecs) Hend x Hbin
                  (fun j Hj => proj2 (Hcov j Hj))) as G2.
    fold (cdec fs cubes ecs x) in G1. fold (edec fs cubes ecs x) in G2.
    rewrite (zsum_ext (fun i => (Z2 (gz cubes i * ac) * z (v_cu i))%Z)
                      (fun i => (2 * ac * (cgate (it cube cube_zero cubes i) * b2z (used x (v_cu i))))%Z))
      by (intros i _; unfold Z2, gz, cgate, it, cb, z; ring).
    rewrite (zsum_ext (fun i => (Z2 (egz ecs i * xc) * z (v_ecu cubes i))%Z)
                      (fun i => (2 * xc * (egate (it ecube ecube_zero ecs i) * b2z (used x (v_ecu cubes i))))%Z))
      by (intros i _; unfold Z2, egz, egate, it, z; ring).
    rewrite !zsum_scale.
    set (S1 := zsum (map cgate _)) in *. set (S1' := zsum (map (fun i => (cgate _ * _)%Z) _)) in *.
    set (S2 := zsum (map egate _)) in *. set (S2' := zsum (map (fun i => (egate _ * _)%Z) _)) in *.
    set (E := zsum (map (fun j => extra _) _)).
    assert (ac * S1 <= ac * S1')%Z by (apply Z.mul_le_mono_nonneg_l; assumption).
    assert (xc * S2 <= xc * S2')%Z by (apply Z.mul_le_mono_nonneg_l; assumption).
    unfold Z2. lia.
Qed.

(* ------------------------------------------------------------------ E. the run: what an Ok result is *)
Definition spair (fs : list lut) (cubes : list cube) (ecs : list ecube) (x : nat -> Q) (jf : nat * lut) : sop * soes :=
  (mkSop (nv (snd jf)) (cdec fs cubes ecs x (fst jf)), mkSoes (nv (snd jf)) (edec fs cubes ecs x (fst jf))).

Lemma sopes_run_inv solver fs ac xc oc r : sop_run solver fs ac xc oc = Ok r ->
  exists p cubes ecs x, sop_program fs ac xc oc = Ok (p, cubes, ecs) /\ solver p = Some x /\
    r = map (spair fs cubes ecs x) (indexed fs) /\
    forall j f, nth_error fs j = Some f -> sop_final_ok (spair fs cubes ecs x (j, f)) f = true.
Proof.
  unfold sop_run. intros H. apply bind_ok in H. destruct H as [[[p cubes] ecs] [Hp H]].
  destruct (solver p) as [x|] eqn:Hs; [|discriminate]. exists p, cubes, ecs, x. split; [exact Hp|]. split; [exact Hs|].
  apply bind_ok in H. destruct H as [ret [Hret H]].
  apply (mapM_inv_map _ (spair fs cubes ecs x) (fun _ => True)) in Hret.
  2:{ intros [j f] b _ Hb. split; [|exact I]. rewrite decode_eq in Hb. unfold sop_from_cubes, soes_from_cubes in Hb.
      apply bind_ok in Hb. destruct Hb as [s [Hs' Hb]]. apply bind_ok in Hs'. destruct Hs' as [u [_ Hs']].
      inversion Hs'; subst s. apply bind_ok in Hb. destruct Hb as [o [Ho Hb]].
      apply bind_ok in Ho. destruct Ho as [u' [_ Ho]]. inversion Ho; subst o.
      apply bind_ok in Hb. destruct Hb as [u'' [_ Hb]]. inversion Hb. reflexivity. }
  destruct Hret as [-> _].
  apply (mapM_inv_map _ fst (fun rf : (sop * soes) * lut => sop_final_ok (fst rf) (snd rf) = true)) in H.
  2:{ intros [[s o] f] b _ Hb. apply bind_ok in Hb. destruct Hb as [u [Hd Hb]]. destruct u.
      apply always_ok in Hd. inversion Hb. split; [reflexivity|exact Hd]. }
  destruct H as [-> HF]. split.
  - apply map_fst_combine. rewrite map_length. apply indexed_length.
  - intros j f Hf. rewrite Forall_forall in HF.
    apply (HF (spair fs cubes ecs x (j, f), f)).
    apply (combine_nth_In _ _ j); [|exact Hf]. rewrite nth_error_map, (nth_error_indexed fs j f Hf). reflexivity.
Qed.

Lemma soes_value_sem_soes n es m : soes_value (mkSoes n es) m = sem_soes es m.
Proof. apply EcubeProofs.soes_value_sem. Qed.

Lemma sfinal_ok_sem fs cubes ecs x j f : sop_final_ok (spair fs cubes ecs x (j, f)) f = true ->
  forall m, (m < 2 ^ N.of_nat (nv f))%N ->
            sem_or (cdec fs cubes ecs x j) m || sem_soes (edec fs cubes ecs x j) m = val (tbl f) m.
Proof.
  unfold sop_final_ok, spair. cbn [fst snd snv]. intros H m Hm. apply D_eq_sem in H. cbn [nv tbl] in H.
  destruct H as [_ H]. rewrite <- H. unfold sop_to_lut, soes_to_lut. cbn [snv onv].
  rewrite val_or_tables by exact Hm. rewrite sop_value_sem_or, soes_value_sem_soes. reflexivity.
Qed.

Lemma sfinal_ok_of_sem fs cubes ecs x j f : wf (nv f) (tbl f) ->
  (forall m, (m < 2 ^ N.of_nat (nv f))%N ->
             sem_or (cdec fs cubes ecs x j) m || sem_soes (edec fs cubes ecs x j) m = val (tbl f) m) ->
  sop_final_ok (spair fs cubes ecs x (j, f)) f = true.
Proof.
  intros W H. unfold sop_final_ok, spair. cbn [fst snd snv]. apply D_eq_sem. cbn [nv tbl]. split; [reflexivity|].
  unfold sop_to_lut, soes_to_lut. cbn [snv onv].
  apply (proj2 (wf_ext (nv f) _ _ (wf_or_tables _ _ _) W)). intros m Hm.
  rewrite val_or_tables by exact Hm. rewrite sop_value_sem_or, soes_value_sem_soes. apply H. exact Hm.
Qed.

Definition forms (r : list (sop * soes)) : list (list cube * list ecube) :=
  map (fun so => (scubes (fst so), ocubes (snd so))) r.

Lemma forms_spair fs cubes ecs x :
  forms (map (spair fs cubes ecs x) (indexed fs)) =
  map (fun j => (cdec fs cubes ecs x j, edec fs cubes ecs x j)) (seq 0 (length fs)).
Proof.
  unfold forms. rewrite !map_map. rewrite <- map_fst_indexed, map_map. apply map_ext. intros [j f]. reflexivity.
Qed.

Theorem sopes_valid solver fs ac xc oc r : (1 <= xc)%Z -> optimize_sopes_mip solver fs ac xc oc = Ok r ->
  forall n, Forall (fun f => nv f = n) fs ->
  sopes_solution_ok n (map tbl fs) (forms r) = true /\
  Forall2 (fun so f => snv (fst so) = nv f /\ onv (snd so) = nv f) r fs.
Proof.
  intros Hxc H n Hn. unfold optimize_sopes_mip in H.
  apply sopes_run_inv in H. destruct H as [p [cubes [ecs [x [Hp [_ [-> Hfin]]]]]]].
  destruct (sopes_program_shape n fs ac xc oc p cubes ecs Hn Hxc Hp) as [_ [[Hnd Hcand] [[Hend Hecand] _]]].
  rewrite Forall_forall in Hn. split.
  - rewrite forms_spair. apply sopes_solution_ok_iff.
    split; [rewrite map_length, seq_length; reflexivity|].
    intros j f cs es Hf HC. pose proof (nth_error_lt _ _ _ Hf) as Hj.
    rewrite nth_error_map_seq in HC by exact Hj. inversion HC; subst cs es. clear HC.
    split; [|split; [|split; [|split]]].
    + intros c Hin. apply fdec_incl in Hin. apply Hcand in Hin. tauto.
    + apply fdec_NoDup. exact Hnd.
    + intros e Hin. apply fdec_incl in Hin. apply Hecand in Hin. tauto.
    + apply fdec_NoDup. exact Hend.
    + intros m Hm. apply (sfinal_ok_sem _ _ _ _ _ _ (Hfin j f Hf)). rewrite (Hn f (nth_error_In _ _ Hf)). exact Hm.
  - unfold indexed.
    assert (G : forall s (l : list lut), Forall2 (fun so f => snv (fst so) = nv f /\ onv (snd so) = nv f)
                  (map (spair fs cubes ecs x) (combine (seq s (length l)) l)) l).
    { intros s l. revert s. induction l as [|f l IH]; intros s; cbn [length seq combine map]; constructor;
        [split; reflexivity|apply IH]. }
    apply G.
Qed.

(* ------------------------------------------------------------------ F. encoding a solution made of candidates *)
Section SopesEnc.
  Variable fs : list lut.
  Variable cubes : list cube.
  Variable ecs : list ecube.
  Variable solC : list (list cube).
  Variable solE : list (list ecube).
  Let nf := length fs.
  Let nc := length cubes.
  Let ne := length ecs.
  Let nb := nbin fs cubes ecs.
  Hypothesis HlC : length solC = nf.
  Hypothesis HlE : length solE = nf.
  Hypothesis HsolC : forall j, j < nf -> NoDup (nth j solC []) /\ incl (nth j solC []) cubes.
  Hypothesis HsolE : forall j, j < nf -> NoDup (nth j solE []) /\ incl (nth j solE []) ecs.
  Hypothesis Hnd : NoDup cubes.
  Hypothesis Hend : NoDup ecs.

  Definition sz (v : nat) : Z :=
    if v <? nc then b2z (existsb (cube_eqb (ci cubes v)) (concat solC))
    else if v <? nc + ne then b2z (existsb (ecube_eqb (ei ecs (v - nc))) (concat solE))
    else if v <? nc + ne + nc * nf then
      b2z (existsb (cube_eqb (ci cubes ((v - nc - ne) / nf))) (nth ((v - nc - ne) mod nf) solC []))
    else if v <? nc + ne + nc * nf + ne * nf then
      b2z (existsb (ecube_eqb (ei ecs ((v - nc - ne - nc * nf) / nf))) (nth ((v - nc - ne - nc * nf) mod nf) solE []))
    else extra (length (nth (v - (nc + ne + nc * nf + ne * nf)) solC []) +
                length (nth (v - (nc + ne + nc * nf + ne * nf)) solE [])).
  Definition sq (v : nat) : Q := inject_Z (sz v).

  Lemma sz_cu i : i < nc -> sz (v_cu i) = b2z (existsb (cube_eqb (ci cubes i)) (concat solC)).
  Proof. intros H. unfold sz, v_cu. destruct (Nat.ltb_spec i nc); [reflexivity|lia]. Qed.

  Lemma sz_ecu i : i < ne -> sz (v_ecu cubes i) = b2z (existsb (ecube_eqb (ei ecs i)) (concat solE)).
  Proof.
    intros H. unfold sz, v_ecu. fold nc. destruct (Nat.ltb_spec (nc + i) nc); [lia|].
    destruct (Nat.ltb_spec (nc + i) (nc + ne)); [|lia]. replace (nc + i - nc) with i by lia. reflexivity.
  Qed.

  Lemma sz_cuf i j : i < nc -> j < nf ->
    sz (v_cuf fs cubes ecs i j) = b2z (existsb (cube_eqb (ci cubes i)) (nth j solC [])).
  Proof.
    intros Hi Hj. unfold sz, v_cuf. fold nc ne nf. assert (i * nf + nf <= nc * nf) by nia.
    destruct (Nat.ltb_spec (nc + ne + i * nf + j) nc); [lia|].
    destruct (Nat.ltb_spec (nc + ne + i * nf + j) (nc + ne)); [lia|].
    destruct (Nat.ltb_spec (nc + ne + i * nf + j) (nc + ne + nc * nf)); [|lia].
    replace (nc + ne + i * nf + j - nc - ne) with (j + i * nf) by lia.
    rewrite Nat.div_add by lia. rewrite Nat.mod_add by lia.
    rewrite Nat.div_small, Nat.mod_small by exact Hj. reflexivity.
  Qed.

  Lemma sz_ecuf i j : i < ne -> j < nf ->
    sz (v_ecuf fs cubes ecs i j) = b2z (existsb (ecube_eqb (ei ecs i)) (nth j solE [])).
  Proof.
    intros Hi Hj. unfold sz, v_ecuf. fold nc ne nf. assert (i * nf + nf <= ne * nf) by nia.
    destruct (Nat.ltb_spec (nc + ne + nc * nf + i * nf + j) nc); [lia|].
    destruct (Nat.ltb_spec (nc + ne + nc * nf + i * nf + j) (nc + ne)); [lia|].
    destruct (Nat.ltb_spec (nc + ne + nc * nf + i * nf + j) (nc + ne + nc * nf)); [lia|].
    destruct (Nat.ltb_spec (nc + ne + nc * nf + i * nf + j) (nc + ne + nc * nf + ne * nf)); [|lia].
    replace (nc + ne + nc * nf + i * nf + j - nc - ne - nc * nf) with (j + i * nf) by lia.
    rewrite Nat.div_add by lia. rewrite Nat.mod_add by lia.
    rewrite Nat.div_small, Nat.mod_small by exact Hj. reflexivity.
  Qed.

  Lemma sz_or j : j < nf ->
    sz (v_or fs cubes ecs j) = extra (length (nth j solC []) + length (nth j solE [])).
  Proof.
    intros Hj. unfold sz, v_or. fold nc ne nf.
    destruct (Nat.ltb_spec (nc + ne + nc * nf + ne * nf + j) nc); [lia|].
    destruct (Nat.ltb_spec (nc + ne + nc * nf + ne * nf + j) (nc + ne)); [lia|].
    destruct (Nat.ltb_spec (nc + ne + nc * nf + ne * nf + j) (nc + ne + nc * nf)); [lia|].
    destruct (Nat.ltb_spec (nc + ne + nc * nf + ne * nf + j) (nc + ne + nc * nf + ne * nf)); [lia|].
    replace (nc + ne + nc * nf + ne * nf + j - (nc + ne + nc * nf + ne * nf)) with j by lia. reflexivity.
  Qed.

  Lemma sq_binary v : v < nb -> (sq v == 0 \/ sq v == 1)%Q.
  Proof.
    intros H. unfold nb, nbin in H. fold nc ne nf in H. unfold sq, sz.
    destruct (Nat.ltb_spec v nc); [destruct (existsb _ _); [right|left]; reflexivity|].
    destruct (Nat.ltb_spec v (nc + ne)); [destruct (existsb _ _); [right|left]; reflexivity|].
    destruct (Nat.ltb_spec v (nc + ne + nc * nf)); [destruct (existsb _ _); [right|left]; reflexivity|].
    destruct (Nat.ltb_spec v (nc + ne + nc * nf + ne * nf)); [destruct (existsb _ _); [right|left]; reflexivity|lia].
  Qed.

  Lemma sq_nonneg v : nb <= v -> (0 <= sq v)%Q.
  Proof.
    intros H. unfold nb, nbin in H. fold nc ne nf in H. unfold sq, sz.
    destruct (Nat.ltb_spec v nc); [lia|]. destruct (Nat.ltb_spec v (nc + ne)); [lia|].
    destruct (Nat.ltb_spec v (nc + ne + nc * nf)); [lia|].
    destruct (Nat.ltb_spec v (nc + ne + nc * nf + ne * nf)); [lia|].
    change 0%Q with (inject_Z 0). rewrite <- Zle_Qle. unfold extra. lia.
  Qed.

  Lemma sq_eval l : (eval2 sq l == inject_Z (evalZ sz l))%Q.
  Proof. destruct l as [cs k]. apply eval2_int. intros cv _. reflexivity. Qed.

  Lemma s_num_enc j : j < nf -> constr_ok sq (c_num_or fs cubes ecs j).
  Proof.
    intros Hj. unfold constr_ok, c_num_or. cbn [crel cexpr]. rewrite sq_eval.
    change 0%Q with (inject_Z 0). rewrite <- Zle_Qle.
    rewrite evalZ_cons. cbn [fst snd]. rewrite evalZ_app.
    rewrite (evalZ_map sz (fun _ => Z2 1) (fun i => v_cuf fs cubes ecs i j)).
    rewrite (evalZ_map sz (fun _ => Z2 1) (fun i => v_ecuf fs cubes ecs i j)).
    rewrite (fcount_enc cube cube_eqb cube_eqb_iff cube_zero cubes nf (v_cuf fs cubes ecs) Hnd solC sz HlC HsolC
               sz_cuf j (Z2 1) Hj).
    rewrite (fcount_enc ecube ecube_eqb ecube_eqb_iff ecube_zero ecs nf (v_ecuf fs cubes ecs) Hend solE sz HlE HsolE
               sz_ecuf j (Z2 1) Hj).
    rewrite sz_or by exact Hj. unfold extra, Z2. lia.
  Qed.

  Lemma s_cover_enc j : j < nf ->
    Forall (constr_ok sq) (ccover fs cubes ecs j) /\ Forall (constr_ok sq) (ecover fs cubes ecs j).
  Proof.
    intros Hj. split.
    - exact (fcover_enc cube cube_eqb cube_eqb_iff cube_zero cubes nf v_cu (v_cuf fs cubes ecs) solC sz HlC
               sz_cu sz_cuf j Hj).
    - exact (fcover_enc ecube ecube_eqb ecube_eqb_iff ecube_zero ecs nf (v_ecu cubes) (v_ecuf fs cubes ecs) solE sz HlE
               sz_ecu sz_ecuf j Hj).
  Qed.

  Lemma s_off_enc j f : j < nf ->
    (forall c, In c (nth j solC []) -> cube_implies_lut c (nv f) (tbl f) = true) ->
    (forall e, In e (nth j solE []) -> ecube_implies_lut e (nv f) (tbl f) = true) ->
    Forall (constr_ok sq) (c_off fs cubes ecs j f).
  Proof.
    intros Hj HC HE. rewrite s_off_eq, Forall_app, !Forall_map, !Forall_forall. split.
    - intros i Hi. apply filter_In in Hi. destruct Hi as [Hi Hn]. apply in_seq in Hi.
      unfold constr_ok. cbn [crel cexpr]. rewrite sq_eval. change 0%Q with (inject_Z 0). rewrite <- Zle_Qle.
      unfold evalZ. cbn [lcoef lconst fold_right fst snd]. rewrite sz_cuf by (lia || assumption).
      destruct (existsb (cube_eqb (ci cubes i)) (nth j solC [])) eqn:E; [|unfold Z2; cbn [b2z]; lia].
      apply mem_iff in E. rewrite (HC _ E) in Hn. discriminate.
    - intros i Hi. apply filter_In in Hi. destruct Hi as [Hi Hn]. apply in_seq in Hi.
      unfold constr_ok. cbn [crel cexpr]. rewrite sq_eval. change 0%Q with (inject_Z 0). rewrite <- Zle_Qle.
      unfold evalZ. cbn [lcoef lconst fold_right fst snd]. rewrite sz_ecuf by (lia || assumption).
      destruct (existsb (ecube_eqb (ei ecs i)) (nth j solE [])) eqn:E; [|unfold Z2; cbn [b2z]; lia].
      apply (memG ecube ecube_eqb ecube_eqb_iff) in E. rewrite (HE _ E) in Hn. discriminate.
  Qed.

  Lemma s_on_enc j f : j < nf ->
    (forall b, (N.of_nat b < 2 ^ N.of_nat (nv f))%N -> tget (tbl f) (N.of_nat b) = true ->
       (exists c, In c (nth j solC []) /\ cube_value c (N.of_nat b) = true) \/
       (exists e, In e (nth j solE []) /\ ecube_value e (N.of_nat b) = true)) ->
    Forall (constr_ok sq) (c_on fs cubes ecs j f).
  Proof.
    intros Hj H. rewrite s_on_eq, Forall_map, Forall_forall. intros b Hb.
    apply filter_In in Hb. destruct Hb as [Hb Ht]. apply bits_In_s in Hb.
    unfold constr_ok, s_on_lin. cbn [crel cexpr]. rewrite sq_eval. change 0%Q with (inject_Z 0). rewrite <- Zle_Qle.
    rewrite evalZ_app.
    rewrite (evalZ_map _ (fun _ => Z2 (-1)) (fun i => v_cuf fs cubes ecs i j)).
    rewrite (evalZ_map _ (fun _ => Z2 (-1)) (fun i => v_ecuf fs cubes ecs i j)).
    set (l1 := filter _ (seq 0 (length cubes))). set (l2 := filter _ (seq 0 (length ecs))).
    assert (N1 : forall a, In a l1 -> (Z2 (-1) * sz (v_cuf fs cubes ecs a j) <= 0)%Z).
    { intros a Ha. unfold l1 in Ha. apply filter_In in Ha. destruct Ha as [Ha _]. apply in_seq in Ha.
      rewrite sz_cuf by (unfold nc; lia || assumption). destruct (existsb _ _); unfold Z2; cbn [b2z]; lia. }
    assert (N2 : forall a, In a l2 -> (Z2 (-1) * sz (v_ecuf fs cubes ecs a j) <= 0)%Z).
    { intros a Ha. unfold l2 in Ha. apply filter_In in Ha. destruct Ha as [Ha _]. apply in_seq in Ha.
      rewrite sz_ecuf by (unfold ne; lia || assumption). destruct (existsb _ _); unfold Z2; cbn [b2z]; lia. }
    assert (S1 : (zsum (map (fun i => Z2 (-1) * sz (v_cuf fs cubes ecs i j)) l1) <= 0)%Z).
    { clear -N1. induction l1 as [|a l IH]; cbn [map zsum]; [lia|].
      pose proof (N1 a (or_introl eq_refl)). pose proof (IH (fun b Hb => N1 b (or_intror Hb))). lia. }
    assert (S2 : (zsum (map (fun i => Z2 (-1) * sz (v_ecuf fs cubes ecs i j)) l2) <= 0)%Z).
    { clear -N2. induction l2 as [|a l IH]; cbn [map zsum]; [lia|].
      pose proof (N2 a (or_introl eq_refl)). pose proof (IH (fun b Hb => N2 b (or_intror Hb))). lia. }
    destruct (H b Hb Ht) as [[c [Hin V]]|[e [Hin V]]].
    - destruct (In_it cube cube_zero cubes c (proj2 (HsolC j Hj) c Hin)) as [i [Hi E]].
      assert (Hil : In i l1) by (unfold l1; apply filter_In; split; [apply in_seq; lia|]; fold (ci cubes i);
                                 change (ci cubes i) with (it cube cube_zero cubes i); rewrite E; exact V).
      pose proof (zsum_le_one (fun i => (Z2 (-1) * sz (v_cuf fs cubes ecs i j))%Z) l1 i N1 Hil) as B.
      cbv beta in B. rewrite (sz_cuf i j Hi Hj) in B.
      change (ci cubes i) with (it cube cube_zero cubes i) in B. rewrite E in B.
      rewrite (proj2 (mem_iff c _) Hin) in B. revert B S2. unfold Z2. cbn [b2z]. lia.
    - destruct (In_it ecube ecube_zero ecs e (proj2 (HsolE j Hj) e Hin)) as [i [Hi E]].
      assert (Hil : In i l2) by (unfold l2; apply filter_In; split; [apply in_seq; lia|]; fold (ei ecs i);
                                 change (ei ecs i) with (it ecube ecube_zero ecs i); rewrite E; exact V).
      pose proof (zsum_le_one (fun i => (Z2 (-1) * sz (v_ecuf fs cubes ecs i j))%Z) l2 i N2 Hil) as B.
      cbv beta in B. rewrite (sz_ecuf i j Hi Hj) in B.
      change (ei ecs i) with (it ecube ecube_zero ecs i) in B. rewrite E in B.
      rewrite (proj2 (memG ecube ecube_eqb ecube_eqb_iff e _) Hin) in B. revert B S1. unfold Z2. cbn [b2z]. lia.
  Qed.

  Lemma s_obj_enc ac xc oc :
    evalZ sz (sopes_obj fs ac xc oc cubes ecs) =
    (2 * (ac * zsum (map cgate (dedupb cube_eqb (concat solC))) +
          xc * zsum (map egate (dedupb ecube_eqb (concat solE))) +
          oc * zsum (map (fun j => extra (length (nth j solC []) + length (nth j solE []))) (seq 0 nf))))%Z.
  Proof.
    unfold sopes_obj. rewrite !evalZ_app.
    rewrite (evalZ_map sz (fun i => Z2 (gz cubes i * ac)) (fun i => v_cu i)).
    rewrite (evalZ_map sz (fun i => Z2 (egz ecs i * xc)) (fun i => v_ecu cubes i)).
    rewrite (evalZ_map sz (fun _ => Z2 oc) (v_or fs cubes ecs)).
    pose proof (fobj_enc cube cube_eqb cube_eqb_iff cgate cube_zero cubes nf v_cu Hnd solC sz HlC HsolC sz_cu ac) as G1.
    pose proof (fobj_enc ecube ecube_eqb ecube_eqb_iff egate ecube_zero ecs nf (v_ecu cubes) Hend solE sz HlE HsolE
                  sz_ecu xc) as G2.
    change (fun i => (Z2 (cgate (it cube cube_zero cubes i) * ac) * sz (v_cu i))%Z)
      with (fun i => (Z2 (gz cubes i * ac) * sz (v_cu i))%Z) in G1.
    change (fun i => (Z2 (egate (it ecube ecube_zero ecs i) * xc) * sz (v_ecu cubes i))%Z)
      with (fun i => (Z2 (egz ecs i * xc) * sz (v_ecu cubes i))%Z) in G2.
    rewrite G1, G2.
    rewrite (zsum_ext (fun j => (Z2 oc * sz (v_or fs cubes ecs j))%Z)
               (fun j => (2 * oc * extra (length (nth j solC []) + length (nth j solE [])))%Z)).
    2:{ intros j Hj. apply in_seq in Hj. rewrite sz_or by (unfold nf; lia). unfold Z2. ring. }
    rewrite zsum_scale. fold nf. ring.
  Qed.
End SopesEnc.

Lemma nth_map_fst (sol : list (list cube * list ecube)) j : nth j (map fst sol) [] = fst (nth j sol ([], [])).
Proof. exact (map_nth fst sol ([], []) j). Qed.
Lemma nth_map_snd (sol : list (list cube * list ecube)) j : nth j (map snd sol) [] = snd (nth j sol ([], [])).
Proof. exact (map_nth snd sol ([], []) j). Qed.

Theorem sopes_encode_cand n fs ac xc oc cubes ecs sol :
  Forall (fun f => nv f = n) fs -> is_candidates n fs cubes -> is_ecandidates n fs ecs ->
  sopes_solution_ok n (map tbl fs) sol = true ->
  (forall ce e, In ce sol -> In e (snd ce) -> (2 <= ecube_num_lits e)%N) ->
  exists x, feasible (sopes_prog fs ac xc oc cubes ecs) x /\
            (eval2 x (pobj (sopes_prog fs ac xc oc cubes ecs)) == inject_Z (2 * sopes_cost ac xc oc sol))%Q.
Proof.
  intros Hn [Hnd Hcand] [Hend Hecand] Hok H2. apply sopes_solution_ok_iff in Hok. destruct Hok as [Hl Hok].
  rewrite Forall_forall in Hn. set (nf := length fs) in *.
  set (solC := map fst sol). set (solE := map snd sol).
  assert (HlC : length solC = nf) by (unfold solC; rewrite map_length; exact Hl).
  assert (HlE : length solE = nf) by (unfold solE; rewrite map_length; exact Hl).
  assert (Hnth : forall j, j < nf -> nth_error sol j = Some (nth j solC [], nth j solE [])).
  { intros j Hj. unfold solC, solE. rewrite nth_map_fst, nth_map_snd, <- surjective_pairing.
    apply nth_error_nth'. lia. }
  assert (Hper : forall j f, nth_error fs j = Some f ->
            (forall c, In c (nth j solC []) -> cube_good n c = true) /\ NoDup (nth j solC []) /\
            (forall e, In e (nth j solE []) -> ecube_good n e = true) /\ NoDup (nth j solE []) /\
            (forall m, (m < 2 ^ N.of_nat n)%N ->
                       sem_or (nth j solC []) m || sem_soes (nth j solE []) m = val (tbl f) m) /\
            (forall e, In e (nth j solE []) -> (2 <= ecube_num_lits e)%N)).
  { intros j f Hf. pose proof (nth_error_lt _ _ _ Hf) as Hj. fold nf in Hj.
    destruct (Hok j f _ _ Hf (Hnth j Hj)) as [A [B [C [D E]]]]. repeat split; try assumption.
    intros e He. apply (H2 (nth j solC [], nth j solE [])); [|exact He]. apply (nth_error_In _ _ (Hnth j Hj)). }
  assert (HimpC : forall j f, nth_error fs j = Some f -> forall c, In c (nth j solC []) ->
                    cube_implies_lut c n (tbl f) = true).
  { intros j f Hf c Hc. destruct (Hper j f Hf) as [_ [_ [_ [_ [Hs _]]]]].
    apply CubeProofs.implies_lut_sem. intros m Hm V. rewrite <- (Hs m Hm). apply orb_true_iff. left.
    unfold sem_or. apply existsb_exists. exists c. auto. }
  assert (HimpE : forall j f, nth_error fs j = Some f -> forall e, In e (nth j solE []) ->
                    ecube_implies_lut e n (tbl f) = true).
  { intros j f Hf e He. destruct (Hper j f Hf) as [_ [_ [_ [_ [Hs _]]]]].
    apply eimplies_lut_sem. intros m Hm V. rewrite <- (Hs m Hm). apply orb_true_iff. right.
    unfold sem_soes. apply existsb_exists. exists e. auto. }
  assert (HsolC : forall j, j < nf -> NoDup (nth j solC []) /\ incl (nth j solC []) cubes).
  { intros j Hj. destruct (nth_error fs j) as [f|] eqn:Hf; [|apply nth_error_None in Hf; fold nf in Hf; lia].
    destruct (Hper j f Hf) as [A [B _]]. split; [exact B|]. intros c Hc. apply Hcand. split; [apply A; exact Hc|].
    exists f. split; [apply (nth_error_In _ _ Hf)|apply (HimpC j f Hf c Hc)]. }
  assert (HsolE : forall j, j < nf -> NoDup (nth j solE []) /\ incl (nth j solE []) ecs).
  { intros j Hj. destruct (nth_error fs j) as [f|] eqn:Hf; [|apply nth_error_None in Hf; fold nf in Hf; lia].
    destruct (Hper j f Hf) as [_ [_ [C [D [_ E]]]]]. split; [exact D|]. intros e He. apply Hecand.
    split; [apply C; exact He|]. split; [apply E; exact He|].
    exists f. split; [apply (nth_error_In _ _ Hf)|apply (HimpE j f Hf e He)]. }
  exists (sq fs cubes ecs solC solE). split.
  - split; cbn [sopes_prog pkinds pconstrs].
    + apply skinds_enc.
      * intros v Hv. apply sq_binary; assumption.
      * intros v H1 _. apply sq_nonneg; assumption.
    + apply sconstraints_split. split; [|split; [|split]].
      * intros j Hj. apply s_num_enc; assumption.
      * intros j Hj. apply s_cover_enc; assumption.
      * intros j f Hf. pose proof (nth_error_lt _ _ _ Hf) as Hj. pose proof (Hn f (nth_error_In _ _ Hf)) as Hnf.
        apply s_off_enc; try assumption; rewrite Hnf.
        -- apply (HimpC j f Hf).
        -- apply (HimpE j f Hf).
      * intros j f Hf. pose proof (nth_error_lt _ _ _ Hf) as Hj. pose proof (Hn f (nth_error_In _ _ Hf)) as Hnf.
        apply s_on_enc; try assumption.
        intros b Hb Ht. destruct (Hper j f Hf) as [_ [_ [_ [_ [Hs _]]]]]. rewrite Hnf in Hb.
        rewrite tget_val, <- (Hs _ Hb) in Ht. apply orb_true_iff in Ht. unfold sem_or, sem_soes in Ht.
        rewrite !existsb_exists in Ht. exact Ht.
  - cbn [sopes_prog pobj]. rewrite sq_eval.
    rewrite (s_obj_enc fs cubes ecs solC solE HlC HlE HsolC HsolE Hnd Hend).
    rewrite sopes_cost_alt. fold solC solE. fold nf.
    assert (E : zsum (map (fun ce : list cube * list ecube => extra (length (fst ce) + length (snd ce))) sol) =
                zsum (map (fun j => extra (length (nth j solC []) + length (nth j solE []))) (seq 0 nf))).
    { rewrite <- (map_nth_seq sol ([], [])) at 1. rewrite Hl, map_map. apply zsum_ext. intros j _.
      unfold solC, solE. rewrite nth_map_fst, nth_map_snd. reflexivity. }
    rewrite E. reflexivity.
Qed.

(* ------------------------------------------------------------------ G. exclusive cubes with fewer than two literals
   are cubes of no greater cost: every valid solution can be rewritten over the candidates *)
Lemma pop_pos_pos p : (1 <= pop_pos p)%N.
Proof. induction p as [q IH|q IH|]; cbn [pop_pos]; lia. Qed.

Lemma pop_pos_one p : pop_pos p = 1%N -> exists v, N.pos p = (2 ^ v)%N.
Proof.
  induction p as [q IH|q IH|]; cbn [pop_pos]; intros H.
  - pose proof (pop_pos_pos q). lia.
  - destruct (IH H) as [v Hv]. exists (N.succ v). rewrite N.pow_succ_r', <- Hv. reflexivity.
  - exists 0%N. reflexivity.
Qed.

Lemma popcount_small x : (popcount x < 2)%N -> x = 0%N \/ exists v, x = (2 ^ v)%N.
Proof.
  destruct x as [|p]; [left; reflexivity|]. cbn [popcount]. intros H. right. apply pop_pos_one.
  pose proof (pop_pos_pos p). lia.
Qed.

Definition conv (e : ecube) : list cube :=
  if (2 <=? ecube_num_lits e)%N then []
  else if (evars e =? 0)%N then (if exnor e then [cube_one] else [])
  else if exnor e then [mkCube 0 (evars e)] else [mkCube (evars e) 0].

Lemma conv_big e : (2 <= ecube_num_lits e)%N -> conv e = [].
Proof. intros H. unfold conv. rewrite (proj2 (N.leb_le _ _) H). reflexivity. Qed.

Lemma conv_sem n e m : n <= 31 -> ecube_good n e = true -> (ecube_num_lits e < 2)%N ->
  existsb (fun c => cube_value c m) (conv e) = ecube_value e m.
Proof.
  intros Hn Hg Hl. apply ecube_good_iff in Hg. unfold conv.
  rewrite (proj2 (N.leb_gt _ _) Hl). unfold ecube_num_lits in Hl.
  destruct (popcount_small _ Hl) as [E|[v E]].
  - rewrite E, N.eqb_refl. unfold ecube_value. cbv zeta. rewrite E, N.land_0_l. cbn [popcount N.odd xorb].
    destruct (exnor e); cbn [existsb]; [rewrite CubeProofs.value_one|]; reflexivity.
  - assert (Hv : (v < 32)%N).
    { rewrite E in Hg. apply N.pow_lt_mono_r_iff in Hg; lia. }
    assert (Hz : (evars e =? 0)%N = false) by (apply N.eqb_neq; rewrite E; apply N.pow_nonzero; lia).
    rewrite Hz. unfold ecube_value. cbv zeta. rewrite E, N.land_comm, EcubeProofs.land_pow2.
    rewrite CubeProofs.wrap32_spec, (proj2 (N.ltb_lt _ _) Hv), andb_true_r.
    destruct (exnor e); cbn [existsb]; rewrite orb_false_r.
    + rewrite CubeProofs.lit_neg_value by exact Hv.
      destruct (N.testbit m v); [rewrite EcubeProofs.popcount_pow2|]; reflexivity.
    + rewrite CubeProofs.lit_pos_value by exact Hv.
      destruct (N.testbit m v); [rewrite EcubeProofs.popcount_pow2|]; reflexivity.
Qed.

Lemma conv_good n e c : ecube_good n e = true -> In c (conv e) -> cube_good n c = true.
Proof.
  intros Hg Hin. apply ecube_good_iff in Hg. unfold conv in Hin.
  assert (P : (0 < 2 ^ N.of_nat n)%N) by (apply N.neq_0_lt_0, N.pow_nonzero; lia).
  destruct (2 <=? ecube_num_lits e)%N; [contradiction|].
  destruct (evars e =? 0)%N; destruct (exnor e); cbn [In] in Hin; try contradiction;
    destruct Hin as [<-|[]]; apply cube_good_iff; cbn [cpos cneg cube_one];
    rewrite ?N.land_0_l, ?N.land_0_r; auto.
Qed.

Lemma conv_gate e c : In c (conv e) -> cgate c = 0%Z.
Proof.
  unfold conv. destruct (N.leb_spec 2 (ecube_num_lits e)) as [L|L]; [contradiction|].
  unfold ecube_num_lits in L.
  destruct (evars e =? 0)%N; destruct (exnor e); cbn [In]; try contradiction; intros [<-|[]];
    unfold cgate, cube_num_gates, cube_num_lits; cbn [cpos cneg cube_one];
    destruct (cube_is_zero _); cbn [popcount]; lia.
Qed.

Lemma conv_length es :
  length (flat_map conv es) + length (filter (fun e => (2 <=? ecube_num_lits e)%N) es) <= length es.
Proof.
  induction es as [|e es IH]; cbn [flat_map filter length]; [lia|]. rewrite app_length. unfold conv at 1.
  destruct (2 <=? ecube_num_lits e)%N; cbn [length]; [lia|].
  destruct (evars e =? 0)%N; destruct (exnor e); cbn [length]; lia.
Qed.

Definition trans1 (ce : list cube * list ecube) : list cube * list ecube :=
  (dedupb cube_eqb (fst ce ++ flat_map conv (snd ce)), filter (fun e => (2 <=? ecube_num_lits e)%N) (snd ce)).
Definition trans (sol : list (list cube * list ecube)) : list (list cube * list ecube) := map trans1 sol.

Lemma existsb_dedupb (f : cube -> bool) L : existsb f (dedupb cube_eqb L) = existsb f L.
Proof.
  apply CubeProofs.bool_eq_iff. rewrite !existsb_exists. split; intros [c [Hc V]]; exists c; split; auto;
    apply In_dedupb; exact Hc.
Qed.

Lemma trans_sem n cs es m : n <= 31 -> (forall e, In e es -> ecube_good n e = true) ->
  sem_or (fst (trans1 (cs, es))) m || sem_soes (snd (trans1 (cs, es))) m = sem_or cs m || sem_soes es m.
Proof.
  intros Hn Hg. unfold trans1, sem_or, sem_soes. cbn [fst snd]. rewrite existsb_dedupb, existsb_app.
  rewrite <- orb_assoc. f_equal.
  induction es as [|e es IH]; cbn [flat_map filter existsb]; [reflexivity|].
  rewrite existsb_app. specialize (IH (fun e' H => Hg e' (or_intror H))).
  destruct (N.leb_spec 2 (ecube_num_lits e)) as [L|L].
  - rewrite (conv_big e L). cbn [existsb]. rewrite <- IH.
    destruct (ecube_value e m), (existsb (fun c => cube_value c m) (flat_map conv es)); reflexivity.
  - rewrite (conv_sem n e m Hn (Hg e (or_introl eq_refl)) L). rewrite <- IH.
    destruct (ecube_value e m), (existsb (fun c => cube_value c m) (flat_map conv es)); reflexivity.
Qed.

Lemma trans_valid n fs sol : n <= 31 -> sopes_solution_ok n (map tbl fs) sol = true ->
  sopes_solution_ok n (map tbl fs) (trans sol) = true.
Proof.
  intros Hn H. apply sopes_solution_ok_iff in H. destruct H as [Hl H]. apply sopes_solution_ok_iff.
  split; [unfold trans; rewrite map_length; exact Hl|].
  intros j f cs' es' Hf HC. unfold trans in HC. rewrite nth_error_map in HC.
  destruct (nth_error sol j) as [[cs es]|] eqn:Hs; [|discriminate]. cbn [option_map] in HC.
  destruct (H j f cs es Hf Hs) as [A [B [C [D E]]]].
  assert (E1 : cs' = fst (trans1 (cs, es))) by (inversion HC; reflexivity).
  assert (E2 : es' = snd (trans1 (cs, es))) by (inversion HC; reflexivity).
  split; [|split; [|split; [|split]]].
  - intros c Hc. rewrite E1 in Hc. unfold trans1 in Hc. cbn [fst snd] in Hc. apply (proj1 (In_dedupb _ _)) in Hc.
    apply in_app_or in Hc. destruct Hc as [Hc|Hc]; [apply A; exact Hc|].
    apply in_flat_map in Hc. destruct Hc as [e [He Hc]]. apply (conv_good n e c (C e He) Hc).
  - rewrite E1. apply NoDup_dedupb.
  - intros e He. rewrite E2 in He. unfold trans1 in He. cbn [snd] in He. apply filter_In in He. apply C. tauto.
  - rewrite E2. apply NoDup_filter. exact D.
  - intros m Hm. rewrite E1, E2, (trans_sem n cs es m Hn C). apply E. exact Hm.
Qed.

Lemma trans_lits sol ce e : In ce (trans sol) -> In e (snd ce) -> (2 <= ecube_num_lits e)%N.
Proof.
  intros H He. unfold trans in H. apply in_map_iff in H. destruct H as [ce0 [<- _]].
  unfold trans1 in He. cbn [snd] in He. apply filter_In in He. destruct He as [_ He]. apply N.leb_le. exact He.
Qed.

Lemma gsum_split {A} (g : A -> Z) (P : A -> bool) l :
  zsum (map g l) = (zsum (map g (filter P l)) + zsum (map g (filter (fun a => negb (P a)) l)))%Z.
Proof. induction l as [|a l IH]; cbn [filter map zsum]; [reflexivity|]. destruct (P a); cbn [negb map zsum]; lia. Qed.

Lemma gsum_zero {A} (g : A -> Z) l : (forall a, In a l -> g a = 0%Z) -> zsum (map g l) = 0%Z.
Proof.
  induction l as [|a l IH]; intros H; cbn [map zsum]; [reflexivity|].
  rewrite (H a (or_introl eq_refl)), IH; [reflexivity|]. intros b Hb. apply H. right. exact Hb.
Qed.

Lemma trans_cost ac xc oc sol : (0 <= ac)%Z -> (0 <= xc)%Z -> (0 <= oc)%Z ->
  (sopes_cost ac xc oc (trans sol) <= sopes_cost ac xc oc sol)%Z.
Proof.
  intros Hac Hxc Hoc. rewrite !sopes_cost_alt.
  assert (A : (zsum (map cgate (dedupb cube_eqb (concat (map fst (trans sol))))) <=
               zsum (map cgate (dedupb cube_eqb (concat (map fst sol)))))%Z).
  { set (D' := dedupb cube_eqb (concat (map fst (trans sol)))). set (X := concat (map fst sol)).
    rewrite (gsum_split cgate (fun c => existsb (cube_eqb c) X) D').
    rewrite (gsum_zero cgate (filter (fun a => negb (existsb (cube_eqb a) X)) D')).
    - rewrite Z.add_0_r. apply (gsum_incl_le cube cgate cgate_nonneg).
      + apply NoDup_filter. apply NoDup_dedupb.
      + intros c Hc. apply filter_In in Hc. destruct Hc as [_ Hc]. apply (proj1 (mem_iff _ _)) in Hc. apply In_dedupb. exact Hc.
    - intros c Hc. apply filter_In in Hc. destruct Hc as [Hc Hn]. unfold D' in Hc. apply (proj1 (In_dedupb _ _)) in Hc.
      apply in_concat in Hc. destruct Hc as [l [Hl Hc]]. apply in_map_iff in Hl. destruct Hl as [ce' [<- Hce']].
      unfold trans in Hce'. apply in_map_iff in Hce'. destruct Hce' as [ce [<- Hce]].
      unfold trans1 in Hc. cbn [fst] in Hc. apply (proj1 (In_dedupb _ _)) in Hc. apply in_app_or in Hc. destruct Hc as [Hc|Hc].
      + exfalso. apply negb_true_iff in Hn. assert (Hx : In c X).
        { unfold X. apply in_concat. exists (fst ce). split; [apply in_map; exact Hce|exact Hc]. }
        apply (proj2 (mem_iff _ _)) in Hx. congruence.
      + apply in_flat_map in Hc. destruct Hc as [e [_ Hc]]. apply (conv_gate e c Hc). }
  assert (B : (zsum (map egate (dedupb ecube_eqb (concat (map snd (trans sol))))) <=
               zsum (map egate (dedupb ecube_eqb (concat (map snd sol)))))%Z).
  { apply (gsum_incl_le ecube egate egate_nonneg).
    - apply (NoDup_dedupbG ecube ecube_eqb ecube_eqb_iff).
    - intros e He. apply (proj1 (In_dedupbG ecube ecube_eqb ecube_eqb_iff _ _)) in He.
      apply (In_dedupbG ecube ecube_eqb ecube_eqb_iff).
      apply in_concat in He. destruct He as [l [Hl He]]. apply in_map_iff in Hl. destruct Hl as [ce' [<- Hce']].
      unfold trans in Hce'. apply in_map_iff in Hce'. destruct Hce' as [ce [<- Hce]].
      unfold trans1 in He. cbn [snd] in He. apply filter_In in He. destruct He as [He _].
      apply in_concat. exists (snd ce). split; [apply in_map; exact Hce|exact He]. }
  assert (C : (zsum (map (fun ce => extra (length (fst ce) + length (snd ce))) (trans sol)) <=
               zsum (map (fun ce => extra (length (fst ce) + length (snd ce))) sol))%Z).
  { unfold trans. rewrite map_map. apply zsum_le. intros ce _. unfold trans1. cbn [fst snd].
    pose proof (dedupb_length (fst ce ++ flat_map conv (snd ce))) as L1. rewrite app_length in L1.
    pose proof (conv_length (snd ce)) as L2. unfold extra. lia. }
  assert (ac * zsum (map cgate (dedupb cube_eqb (concat (map fst (trans sol))))) <=
          ac * zsum (map cgate (dedupb cube_eqb (concat (map fst sol)))))%Z by (apply Z.mul_le_mono_nonneg_l; assumption).
  assert (xc * zsum (map egate (dedupb ecube_eqb (concat (map snd (trans sol))))) <=
          xc * zsum (map egate (dedupb ecube_eqb (concat (map snd sol)))))%Z by (apply Z.mul_le_mono_nonneg_l; assumption).
  assert (oc * zsum (map (fun ce => extra (length (fst ce) + length (snd ce))) (trans sol)) <=
          oc * zsum (map (fun ce => extra (length (fst ce) + length (snd ce))) sol))%Z by (apply Z.mul_le_mono_nonneg_l; assumption).
  lia.
Qed.

Theorem sopes_encode n fs ac xc oc cubes ecs sol : n <= 31 ->
  Forall (fun f => nv f = n) fs -> is_candidates n fs cubes -> is_ecandidates n fs ecs ->
  (0 <= ac)%Z -> (0 <= xc)%Z -> (0 <= oc)%Z ->
  sopes_solution_ok n (map tbl fs) sol = true ->
  exists x, feasible (sopes_prog fs ac xc oc cubes ecs) x /\
            (eval2 x (pobj (sopes_prog fs ac xc oc cubes ecs)) <= inject_Z (2 * sopes_cost ac xc oc sol))%Q.
Proof.
  intros Hn Hf Hc He Hac Hxc Hoc Hok.
  destruct (sopes_encode_cand n fs ac xc oc cubes ecs (trans sol) Hf Hc He (trans_valid n fs sol Hn Hok)
              (trans_lits sol)) as [x [Hx Hobj]].
  exists x. split; [exact Hx|]. rewrite Hobj. rewrite <- Zle_Qle.
  pose proof (trans_cost ac xc oc sol Hac Hxc Hoc). lia.
Qed.

(* ------------------------------------------------------------------ H. optimality *)
Lemma egood_vars_below n e : ecube_good n e = true ->
  forallb (fun v => (v <? N.of_nat n)%N) (ecube_vars e) = true.
Proof.
  intros H. apply ecube_good_iff in H. unfold ecube_vars. apply forallb_forall. intros v Hv.
  apply CubeProofs.In_bits_of in Hv. destruct Hv as [_ Hv]. apply N.ltb_lt.
  destruct (N.lt_ge_cases v (N.of_nat n)) as [L|L]; [exact L|].
  rewrite (testbit_lt_pow2 _ _ _ H L) in Hv. discriminate.
Qed.

Lemma sopes_run_ok solver fs ac xc oc p cubes ecs x : (1 <= xc)%Z ->
  sop_program fs ac xc oc = Ok (p, cubes, ecs) -> solver p = Some x ->
  (forall j f, nth_error fs j = Some f ->
     forallb (cube_vars_below (nv f)) (cdec fs cubes ecs x j) = true /\
     forallb (fun e => forallb (fun v => (v <? N.of_nat (nv f))%N) (ecube_vars e)) (edec fs cubes ecs x j) = true /\
     sop_final_ok (spair fs cubes ecs x (j, f)) f = true) ->
  optimize_sopes_mip solver fs ac xc oc = Ok (map (spair fs cubes ecs x) (indexed fs)).
Proof.
  intros Hxc Hp Hs H. unfold optimize_sopes_mip, sop_run. rewrite Hp. cbn [bind]. rewrite Hs.
  rewrite (mapM_ok_map _ (spair fs cubes ecs x)).
  2:{ intros [j f] Hin. apply In_indexed in Hin. destruct (H j f Hin) as [Hv [Hv' _]].
      rewrite decode_eq. unfold sop_from_cubes, soes_from_cubes. rewrite Hv. cbn [always bind]. rewrite Hv'.
      cbn [always bind]. rewrite (proj2 (Z.ltb_ge xc 0) ltac:(lia)). reflexivity. }
  cbn [bind].
  rewrite (mapM_ok_map _ fst).
  2:{ intros [[s o] f] Hin. apply In_combine_nth in Hin. destruct Hin as [j [H1 H2]].
      rewrite nth_error_map, (nth_error_indexed fs j f H2) in H1. cbn [option_map] in H1.
      assert (E : spair fs cubes ecs x (j, f) = (s, o)) by congruence.
      destruct (H j f H2) as [_ [_ Hd]]. unfold sop_final_ok in Hd. rewrite E in Hd. cbn [fst snd] in Hd.
      rewrite Hd. reflexivity. }
  rewrite map_fst_combine by (rewrite map_length; apply indexed_length). reflexivity.
Qed.

Lemma sop_as_sopes n fs sol : sop_solution_ok n (map tbl fs) sol = true ->
  sopes_solution_ok n (map tbl fs) (map (fun cs => (cs, [])) sol) = true.
Proof.
  intros H. rewrite sop_solution_ok_gen in H. apply gen_solution_ok_iff in H. destruct H as [Hl H].
  apply sopes_solution_ok_iff. split; [rewrite map_length; exact Hl|].
  intros j f cs es Hf HC. rewrite nth_error_map in HC. destruct (nth_error sol j) as [C|] eqn:Hs; [|discriminate].
  cbn [option_map] in HC. inversion HC; subst cs es. destruct (H j f C Hf Hs) as [A [B E]].
  split; [exact A|]. split; [exact B|]. split; [intros e []|]. split; [constructor|].
  intros m Hm. cbn [sem_soes existsb]. rewrite orb_false_r. apply E. exact Hm.
Qed.

Theorem sopes_optimal solver n fs ac xc oc :
  sopes_instance n fs ac xc oc -> Forall (fun f => wf n (tbl f)) fs ->
  exists p cubes ecs, sop_program fs ac xc oc = Ok (p, cubes, ecs) /\
  (solver_optimal_on solver p ->
   exists r, optimize_sopes_mip solver fs ac xc oc = Ok r /\
             sopes_solution_ok n (map tbl fs) (forms r) = true /\
             forall sol, sopes_solution_ok n (map tbl fs) sol = true ->
                         (sopes_cost ac xc oc (forms r) <= sopes_cost ac xc oc sol)%Z).
Proof.
  intros Hinst Hwf. destruct (sopes_program_ok n fs ac xc oc Hinst) as [cubes [ecs [Hp [Hcand Hecand]]]].
  destruct Hinst as [Hn [Hf [Hac [Hxc [Hoc [Hb Hb']]]]]].
  exists (sopes_prog fs ac xc oc cubes ecs), cubes, ecs. split; [exact Hp|].
  set (p := sopes_prog fs ac xc oc cubes ecs) in *. intros [Hsome Hnone].
  destruct (sopes_encode n fs ac xc oc cubes ecs _ Hn Hf Hcand Hecand ltac:(lia) ltac:(lia) ltac:(lia)
              (sop_as_sopes n fs _ (all_implicants_ok n fs cubes Hn Hcand))) as [x0 [Hx0 _]].
  destruct (solver p) as [x|] eqn:Hs; [|exfalso; exact (Hnone eq_refl x0 Hx0)].
  destruct (Hsome x eq_refl) as [Hx Hmin].
  destruct (sopes_decode_sound n fs ac xc oc cubes ecs x Hf Hcand Hecand ltac:(lia) ltac:(lia) ltac:(lia) Hx)
    as [Hok Hcost].
  assert (Hd : sopes_decoded fs cubes ecs x =
               map (fun j => (cdec fs cubes ecs x j, edec fs cubes ecs x j)) (seq 0 (length fs))) by reflexivity.
  rewrite Hd in Hok, Hcost.
  pose proof Hok as Hok'. apply sopes_solution_ok_iff in Hok'. destruct Hok' as [_ Hsem].
  rewrite Forall_forall in Hf, Hwf.
  eexists. split; [|split].
  - apply (sopes_run_ok solver fs ac xc oc p cubes ecs x Hxc Hp Hs). intros j f Hfj.
    pose proof (nth_error_lt _ _ _ Hfj) as Hj. pose proof (Hf f (nth_error_In _ _ Hfj)) as Hnf.
    destruct (Hsem j f _ _ Hfj (nth_error_map_seq _ _ _ Hj)) as [Hg [_ [Hge [_ Hs']]]]. split; [|split].
    + apply forallb_forall. intros c Hin. rewrite Hnf. apply good_vars_below. apply Hg. exact Hin.
    + apply forallb_forall. intros e Hin. rewrite Hnf. apply egood_vars_below. apply Hge. exact Hin.
    + apply sfinal_ok_of_sem.
      * rewrite Hnf. apply Hwf. apply (nth_error_In _ _ Hfj).
      * rewrite Hnf. exact Hs'.
  - rewrite forms_spair. exact Hok.
  - intros sol Hsol. rewrite forms_spair.
    destruct (sopes_encode n fs ac xc oc cubes ecs sol Hn ltac:(apply Forall_forall; exact Hf) Hcand Hecand
                ltac:(lia) ltac:(lia) ltac:(lia) Hsol) as [y [Hy Hobj]].
    pose proof (Hmin y Hy) as Hle. fold p in Hcost, Hobj.
    pose proof (Qle_trans _ _ _ Hcost (Qle_trans _ _ _ Hle Hobj)) as Hfin. rewrite <- Zle_Qle in Hfin. lia.
Qed.

(* ------------------------------------------------------------------ I. final forms *)
Theorem sopes_program_ok_final n fs ac xc oc :
  n <= 31 -> Forall (fun f => nv f = n) fs -> (1 <= ac)%Z -> (1 <= xc)%Z -> (1 <= oc)%Z ->
  (2 * Z.of_nat n * ac <= i32_max)%Z -> (Z.of_nat n * xc <= i32_max)%Z ->
  exists p cubes ecs, sop_program fs ac xc oc = Ok (p, cubes, ecs) /\
    (NoDup cubes /\
     forall c, In c cubes <-> (cube_good n c = true /\ exists f, In f fs /\ cube_implies_lut c n (tbl f) = true)) /\
    (NoDup ecs /\
     forall e, In e ecs <-> (ecube_good n e = true /\ (2 <= ecube_num_lits e)%N /\
                             exists f, In f fs /\ ecube_implies_lut e n (tbl f) = true)).
Proof.
  intros H1 H2 H3 H4 H5 H6 H7.
  destruct (sopes_program_ok n fs ac xc oc (conj H1 (conj H2 (conj H3 (conj H4 (conj H5 (conj H6 H7)))))))
    as [cubes [ecs [Hp [Hc He]]]].
  exists (sopes_prog fs ac xc oc cubes ecs), cubes, ecs. auto.
Qed.

Theorem sopes_decode_sound_final n fs ac xc oc p cubes ecs x :
  Forall (fun f => nv f = n) fs -> (1 <= xc)%Z -> sop_program fs ac xc oc = Ok (p, cubes, ecs) -> feasible p x ->
  let sol := map (sop_decode_fn fs cubes ecs x) (seq 0 (length fs)) in
  sopes_solution_ok n (map tbl fs) sol = true /\
  (inject_Z (2 * sopes_cost ac xc oc sol) <= eval2 x (pobj p))%Q.
Proof.
  intros Hn Hxc Hp Hx. destruct (sopes_program_shape n fs ac xc oc p cubes ecs Hn Hxc Hp) as [-> [Hc [He [Ha Hb]]]].
  apply (sopes_decode_sound n fs ac xc oc cubes ecs x Hn Hc He); [lia|lia|lia|exact Hx].
Qed.

Theorem sopes_encode_final n fs ac xc oc p cubes ecs sol : n <= 31 ->
  Forall (fun f => nv f = n) fs -> (1 <= xc)%Z -> sop_program fs ac xc oc = Ok (p, cubes, ecs) ->
  sopes_solution_ok n (map tbl fs) sol = true ->
  exists x, feasible p x /\ (eval2 x (pobj p) <= inject_Z (2 * sopes_cost ac xc oc sol))%Q.
Proof.
  intros H31 Hn Hxc Hp Hs. destruct (sopes_program_shape n fs ac xc oc p cubes ecs Hn Hxc Hp) as [-> [Hc [He [Ha Hb]]]].
  apply (sopes_encode n fs ac xc oc cubes ecs sol H31 Hn Hc He); [lia|lia|lia|exact Hs].
Qed.

Theorem sopes_optimal_final solver n fs ac xc oc :
  n <= 31 -> Forall (fun f => nv f = n /\ wf n (tbl f)) fs -> (1 <= ac)%Z -> (1 <= xc)%Z -> (1 <= oc)%Z ->
  (2 * Z.of_nat n * ac <= i32_max)%Z -> (Z.of_nat n * xc <= i32_max)%Z ->
  exists p cubes ecs, sop_program fs ac xc oc = Ok (p, cubes, ecs) /\
  (solver_optimal_on solver p ->
   exists r, optimize_sopes_mip solver fs ac xc oc = Ok r /\
             sopes_solution_ok n (map tbl fs) (map (fun so => (scubes (fst so), ocubes (snd so))) r) = true /\
             forall sol, sopes_solution_ok n (map tbl fs) sol = true ->
                         (sopes_cost ac xc oc (map (fun so => (scubes (fst so), ocubes (snd so))) r) <=
                          sopes_cost ac xc oc sol)%Z).
Proof.
  intros H1 H2 H3 H4 H5 H6 H7. apply sopes_optimal.
  - split; [exact H1|]. split; [|auto 10]. apply Forall_forall. rewrite Forall_forall in H2. intros f Hf. apply (H2 f Hf).
  - apply Forall_forall. rewrite Forall_forall in H2. intros f Hf. apply (H2 f Hf).
Qed.

Theorem sopes_valid_final solver fs ac xc oc r : (1 <= xc)%Z -> optimize_sopes_mip solver fs ac xc oc = Ok r ->
  forall n, Forall (fun f => nv f = n) fs ->
  sopes_solution_ok n (map tbl fs) (map (fun so => (scubes (fst so), ocubes (snd so))) r) = true /\
  Forall2 (fun so f => snv (fst so) = nv f /\ onv (snd so) = nv f) r fs.
Proof. exact (sopes_valid solver fs ac xc oc r). Qed.
