(* C04 / C05: the P, N and NPN canonization walks of Model/Canon.v.
   - the certificate returned by the *_res functions is the entry of p_certs / n_certs / npn_certs at best_ind
   - the table kept in `best` is the transform of the argument by that certificate
   - `best` is minimal (numeric order on `big`, i.e. the library order cmp) among all visited tables, and by the
     coverage theorems of Proofs/Coverage.v the visited tables are the whole orbit (n <= 8).
   Everything up to the last section is generic in n and in the swap / flip sequences. *)
From Coq Require Import List NArith Arith Bool Permutation Lia FinFun.
From V Require Import Base.Res Gen.Tables Model.Kernels Base.Bits Model.Canon Spec.Bfun Spec.Transform
  Proofs.Wf Proofs.Positions Proofs.Logic Proofs.Transforms Proofs.Order Proofs.Coverage.
Import ListNotations.
Open Scope N_scope.

(* ------------------------------------------------------------------ 0. list helpers *)
Lemma cw_upd_length {A} (l : list A) i x : length (upd l i x) = length l.
Proof. revert i. induction l as [|y l IH]; intros [|i]; simpl; auto. Qed.

Lemma cw_nthN_upd_same l i x : (i < length l)%nat -> nthN (upd l i x) i = x.
Proof.
  unfold nthN. revert i. induction l as [|y l IH]; intros [|i] H; simpl in *; try lia; auto.
  apply IH. lia.
Qed.

Lemma cw_nthN_upd_other l i x j : j <> i -> nthN (upd l i x) j = nthN l j.
Proof.
  unfold nthN. revert i j. induction l as [|y l IH]; intros [|i] [|j] H; simpl; auto; try congruence.
Qed.

Lemma cw_last_cons {A} (a : A) l d : last (a :: l) d = last l a.
Proof.
  revert a d. induction l as [|b l IH]; intros a d; [reflexivity|].
  change (last (a :: b :: l) d) with (last (b :: l) d). rewrite (IH b d). symmetry. apply IH.
Qed.

Lemma cw_last_nth {A} (l : list A) d : nth (length l - 1) l d = last l d.
Proof.
  induction l as [|a l IH]; [reflexivity|].
  destruct l as [|b l]; [reflexivity|].
  change (last (a :: b :: l) d) with (last (b :: l) d). rewrite <- IH.
  cbn [length]. replace (S (S (length l)) - 1)%nat with (S (length l)) by lia.
  cbn [nth]. replace (S (length l) - 1)%nat with (length l) by lia. reflexivity.
Qed.

Lemma cw_last_app {A} (l1 l2 : list A) d : l2 <> [] -> last (l1 ++ l2) d = last l2 d.
Proof.
  intros H. induction l1 as [|a l1 IH]; [reflexivity|].
  cbn [app]. destruct (l1 ++ l2) eqn:E.
  - destruct l1; [cbn [app] in E; contradiction | discriminate].
  - rewrite <- E in *. change (last (a :: l1 ++ l2) d) with (match l1 ++ l2 with [] => a | _ :: _ => last (l1 ++ l2) d end).
    rewrite E. rewrite <- E. exact IH.
Qed.

Lemma cw_last_map {A B} (g : A -> B) l d : last (map g l) (g d) = g (last l d).
Proof.
  induction l as [|a l IH]; [reflexivity|].
  destruct l as [|b l]; [reflexivity|]. exact IH.
Qed.

Lemma cw_last_flat_map {A B} (g : A -> list B) (l : list A) x0 d :
  (forall x, g x <> []) -> l <> [] -> last (flat_map g l) d = last (g (last l x0)) d.
Proof.
  intros Hg. induction l as [|a l IH]; intros Hl; [contradiction|].
  cbn [flat_map]. destruct l as [|b l].
  - cbn [flat_map]. rewrite app_nil_r. reflexivity.
  - rewrite cw_last_app.
    + rewrite IH by discriminate. reflexivity.
    + cbn [flat_map]. intros E. apply app_eq_nil in E. destruct E as [E _]. exact (Hg b E).
Qed.

Lemma cw_nth_map {A B} (g : A -> B) l k d d' : (k < length l)%nat -> nth k (map g l) d' = g (nth k l d).
Proof.
  intros H. rewrite (nth_indep _ d' (g d)) by (rewrite map_length; exact H). apply map_nth.
Qed.

Lemma cw_fold_left_ext_in {A B} (f g : A -> B -> A) l :
  (forall a b, In b l -> f a b = g a b) -> forall a, fold_left f l a = fold_left g l a.
Proof.
  induction l as [|b l IH]; intros H a; [reflexivity|].
  cbn [fold_left]. rewrite (H a b (or_introl eq_refl)). apply IH. intros a' b' Hb. apply H. right. exact Hb.
Qed.

(* ------------------------------------------------------------------ 1. xin *)
Lemma xin_fold_testbit perm mask y l : forall acc b,
  N.testbit (fold_left (fun x i => if xorb (N.testbit y (N.of_nat i)) (N.testbit mask (N.of_nat i))
                                   then setbit x (nthN perm i) else x) l acc) b =
  N.testbit acc b ||
  existsb (fun i => xorb (N.testbit y (N.of_nat i)) (N.testbit mask (N.of_nat i)) && (nthN perm i =? b)) l.
Proof.
  induction l as [|i l IH]; intros acc b.
  - cbn [fold_left existsb]. symmetry. apply orb_false_r.
  - cbn [fold_left existsb]. rewrite IH.
    destruct (xorb (N.testbit y (N.of_nat i)) (N.testbit mask (N.of_nat i))).
    + rewrite setbit_testbit. cbn [andb]. rewrite orb_assoc. reflexivity.
    + cbn [andb orb]. reflexivity.
Qed.

Lemma cw_xin_bits n perm mask y b :
  N.testbit (xin n perm mask y) b =
  existsb (fun i => xorb (N.testbit y (N.of_nat i)) (N.testbit mask (N.of_nat i)) && (nthN perm i =? b)) (seq 0 n).
Proof. unfold xin. rewrite xin_fold_testbit. rewrite N.bits_0. reflexivity. Qed.

Lemma is_perm_NoDup n p : is_perm n p -> NoDup p.
Proof.
  intros H. apply (Permutation_NoDup (Permutation_sym H)). unfold identity.
  apply Injective_map_NoDup; [|apply seq_NoDup]. intros a b E. lia.
Qed.

Lemma is_perm_nth_lt n p i : is_perm n p -> (i < n)%nat -> nthN p i < N.of_nat n.
Proof.
  intros H Hi. apply (cov_is_perm_entries n p); [exact H|]. apply nthN_In. rewrite (cov_is_perm_length n p H). exact Hi.
Qed.

Lemma is_perm_nth_inj n p i j : is_perm n p -> (i < n)%nat -> (j < n)%nat -> nthN p i = nthN p j -> i = j.
Proof.
  intros H Hi Hj E. pose proof (cov_is_perm_length n p H) as Hl.
  apply (proj1 (NoDup_nth p 0) (is_perm_NoDup n p H)); [lia|lia|exact E].
Qed.

Lemma is_perm_surj n p b : is_perm n p -> b < N.of_nat n -> exists i, (i < n)%nat /\ nthN p i = b.
Proof.
  intros H Hb. assert (Hin : In b p).
  { apply (Permutation_in _ (Permutation_sym H)). unfold identity. apply in_map_iff.
    exists (N.to_nat b). split; [lia|]. apply in_seq. lia. }
  destruct (In_nth p b 0 Hin) as [i [Hi E]]. exists i. split; [|exact E].
  rewrite <- (cov_is_perm_length n p H). exact Hi.
Qed.

(* x[perm[i]] = y[i] xor mask[i] *)
Lemma cw_xin_at n p mask y i : is_perm n p -> (i < n)%nat ->
  N.testbit (xin n p mask y) (nthN p i) = xorb (N.testbit y (N.of_nat i)) (N.testbit mask (N.of_nat i)).
Proof.
  intros H Hi. rewrite cw_xin_bits.
  destruct (xorb (N.testbit y (N.of_nat i)) (N.testbit mask (N.of_nat i))) eqn:Ez.
  - apply existsb_exists. exists i. split; [apply in_seq; lia|]. rewrite Ez, N.eqb_refl. reflexivity.
  - destruct (existsb _ (seq 0 n)) eqn:Ee; [|reflexivity].
    apply existsb_exists in Ee. destruct Ee as [j [Hj Hb]]. apply in_seq in Hj.
    apply andb_true_iff in Hb. destruct Hb as [Hz He]. apply N.eqb_eq in He.
    assert (j = i) by (apply (is_perm_nth_inj n p); [exact H|lia|exact Hi|exact He]). subst j.
    rewrite Ez in Hz. discriminate.
Qed.

Lemma cw_xin_high n p mask y b : is_perm n p -> N.of_nat n <= b -> N.testbit (xin n p mask y) b = false.
Proof.
  intros H Hb. rewrite cw_xin_bits. destruct (existsb _ (seq 0 n)) eqn:Ee; [|reflexivity].
  apply existsb_exists in Ee. destruct Ee as [j [Hj Hx]]. apply in_seq in Hj.
  apply andb_true_iff in Hx. destruct Hx as [_ He]. apply N.eqb_eq in He.
  pose proof (is_perm_nth_lt n p j H ltac:(lia)) as Hlt. lia.
Qed.

Lemma cw_xin_lt n p mask y : is_perm n p -> xin n p mask y < 2 ^ N.of_nat n.
Proof. intros H. apply lt_pow2_of_bits. intros b Hb. apply cw_xin_high; assumption. Qed.

(* xin depends only on y xor mask at the positions below n *)
Lemma cw_xin_ext n p mask y mask' y' :
  (forall i, (i < n)%nat -> xorb (N.testbit y (N.of_nat i)) (N.testbit mask (N.of_nat i)) =
                            xorb (N.testbit y' (N.of_nat i)) (N.testbit mask' (N.of_nat i))) ->
  xin n p mask y = xin n p mask' y'.
Proof.
  intros H. unfold xin. apply cw_fold_left_ext_in. intros a i Hi. apply in_seq in Hi.
  rewrite (H i) by lia. reflexivity.
Qed.

Lemma cw_identity_nth n i : (i < n)%nat -> nthN (identity n) i = N.of_nat i.
Proof. intros H. unfold identity. apply nthN_map_seq. exact H. Qed.

Lemma cw_xin_identity n y : y < 2 ^ N.of_nat n -> xin n (identity n) 0 y = y.
Proof.
  intros Hy. apply N.bits_inj. intro b.
  destruct (N.lt_ge_cases b (N.of_nat n)) as [L|L].
  - replace b with (nthN (identity n) (N.to_nat b)) at 1 by (rewrite cw_identity_nth by lia; lia).
    rewrite cw_xin_at by (apply cov_is_perm_identity || lia).
    rewrite N.bits_0, xorb_false_r. f_equal. lia.
  - rewrite cw_xin_high by (apply cov_is_perm_identity || exact L).
    symmetry. apply (testbit_lt_pow2 y (N.of_nat n)); assumption.
Qed.

Lemma cw_act_identity n f y : y < 2 ^ N.of_nat n -> act n (identity n) 0 f y = f y.
Proof. intros Hy. unfold act. rewrite cw_xin_identity by exact Hy. rewrite N.bits_0. apply xorb_false_r. Qed.

(* ------------------------------------------------------------------ 2. the three elementary moves on act *)
Lemma swap_entries_length p s : length (swap_entries p s) = length p.
Proof. unfold swap_entries. rewrite !cw_upd_length. reflexivity. Qed.

Lemma swap_entries_nth p s i : (N.to_nat s + 1 < length p)%nat ->
  nthN (swap_entries p s) i =
  if Nat.eqb i (N.to_nat s) then nthN p (N.to_nat s + 1)
  else if Nat.eqb i (N.to_nat s + 1) then nthN p (N.to_nat s) else nthN p i.
Proof.
  intros H. unfold swap_entries. set (k := N.to_nat s) in *.
  destruct (Nat.eqb_spec i k) as [->|Hk].
  - rewrite cw_nthN_upd_other by lia. apply cw_nthN_upd_same. lia.
  - destruct (Nat.eqb_spec i (k + 1)) as [->|Hk1].
    + apply cw_nthN_upd_same. rewrite cw_upd_length. exact H.
    + rewrite !cw_nthN_upd_other by lia. reflexivity.
Qed.

Lemma act_swap n p mask f s y : is_perm n p -> s + 1 < N.of_nat n ->
  N.testbit mask s = N.testbit mask (s + 1) ->
  act n p mask f (swapbits y s (s + 1)) = act n (swap_entries p s) mask f y.
Proof.
  intros Hp Hs Hm. unfold act. f_equal. f_equal.
  pose proof (swap_entries_is_perm n p s Hp Hs) as Hp'.
  pose proof (cov_is_perm_length n p Hp) as Hl.
  apply N.bits_inj. intro b.
  destruct (N.lt_ge_cases b (N.of_nat n)) as [L|L].
  - destruct (is_perm_surj n _ b Hp' L) as [i [Hi Ei]]. subst b.
    rewrite (cw_xin_at n _ mask y i Hp' Hi).
    rewrite swap_entries_nth by lia.
    destruct (Nat.eqb_spec i (N.to_nat s)) as [E|Ne].
    + rewrite cw_xin_at by (exact Hp || lia). rewrite swapbits_testbit.
      replace (N.of_nat (N.to_nat s + 1)) with (s + 1) by lia.
      replace (N.of_nat i) with s by lia.
      destruct (N.eqb_spec (s + 1) s) as [E1|_]; [lia|]. rewrite N.eqb_refl. rewrite Hm. reflexivity.
    + destruct (Nat.eqb_spec i (N.to_nat s + 1)) as [E|Ne1].
      * rewrite cw_xin_at by (exact Hp || lia). rewrite swapbits_testbit.
        replace (N.of_nat (N.to_nat s)) with s by lia.
        replace (N.of_nat i) with (s + 1) by lia.
        rewrite N.eqb_refl. rewrite Hm. reflexivity.
      * rewrite cw_xin_at by (exact Hp || lia). rewrite swapbits_testbit.
        destruct (N.eqb_spec (N.of_nat i) s) as [E1|_]; [lia|].
        destruct (N.eqb_spec (N.of_nat i) (s + 1)) as [E1|_]; [lia|]. reflexivity.
  - rewrite !cw_xin_high by assumption. reflexivity.
Qed.

Lemma act_flip n p mask f v y : v < N.of_nat n ->
  act n p mask f (flipbit y v) = act n p (N.lxor mask (2 ^ v)) f y.
Proof.
  intros Hv. unfold act. f_equal.
  - f_equal. apply cw_xin_ext. intros i Hi. rewrite flipbit_testbit, N.lxor_spec, pow2_testbit.
    destruct (N.testbit y (N.of_nat i)), (N.testbit mask (N.of_nat i)), (v =? N.of_nat i); reflexivity.
  - rewrite N.lxor_spec, pow2_testbit. destruct (N.eqb_spec v (N.of_nat n)) as [E|_]; [lia|].
    symmetry. apply xorb_false_r.
Qed.

Lemma act_not n p mask f y : negb (act n p mask f y) = act n p (N.lxor mask (2 ^ N.of_nat n)) f y.
Proof.
  unfold act. rewrite N.lxor_spec, pow2_testbit, N.eqb_refl.
  replace (xin n p (N.lxor mask (2 ^ N.of_nat n)) y) with (xin n p mask y).
  - destruct (f (xin n p mask y)), (N.testbit mask (N.of_nat n)); reflexivity.
  - apply cw_xin_ext. intros i Hi. rewrite N.lxor_spec, pow2_testbit.
    destruct (N.eqb_spec (N.of_nat n) (N.of_nat i)) as [E|_]; [lia|]. rewrite xorb_false_r. reflexivity.
Qed.

(* ------------------------------------------------------------------ 3. walk invariant *)
Definition dflt_cert : list N * N := ([], 0).

Section Walk.
  Variable n : nat.
  Variable f : N -> bool.                       (* the function being canonized *)
  Variable full : list (list N * N).            (* the complete list of certificates of the walk *)
  Hypothesis Hn64 : N.of_nat n < 2 ^ 64.

  (* table t stores the transform of f by certificate c *)
  Definition denotes (c : list N * N) (t : list N) : Prop :=
    wf n t /\ forall y, y < 2 ^ N.of_nat n -> val t y = act n (fst c) (snd c) f y.

  Definition lower (best : list N) (c : list N * N) : Prop :=
    exists v, denotes c v /\ big best <= big v.

  (* pre: the certificates visited so far *)
  Definition BestInv (pre : list (list N * N)) (best : list N) (bi ind : N) : Prop :=
    ind = N.of_nat (length pre) /\ wf n best /\ Forall (lower best) pre /\
    (N.to_nat bi < length full)%nat /\ denotes (nth (N.to_nat bi) full dflt_cert) best.

  Lemma try_best_inv pre best bi ind c t' :
    BestInv pre best bi ind -> denotes c t' -> nth_error full (length pre) = Some c ->
    exists best' bi', try_best (t', best, bi, ind) = Ok (t', best', bi', ind + 1) /\
                      BestInv (pre ++ [c]) best' bi' (ind + 1).
  Proof.
    intros [Hind [Hwb [Hlow [Hbi Hden]]]] Hc Hnth.
    pose proof Hc as [Hwt _].
    unfold try_best. rewrite cmp_big.
    2:{ rewrite (wf_length n t' Hwt), (wf_length n best Hwb). reflexivity. }
    2:{ apply (wf_Forall64 n). exact Hwt. }
    2:{ apply (wf_Forall64 n). exact Hwb. }
    cbn [bind].
    assert (Hlen : ind + 1 = N.of_nat (length (pre ++ [c]))).
    { rewrite app_length. cbn [length]. lia. }
    assert (Hkeep : big best <= big t' -> BestInv (pre ++ [c]) best bi (ind + 1)).
    { intros Hle. split; [exact Hlen|]. split; [exact Hwb|]. split; [|split; assumption].
      apply Forall_app. split; [exact Hlow|]. constructor; [|constructor].
      exists t'. split; [exact Hc | exact Hle]. }
    destruct (N.compare_spec (big t') (big best)) as [E|L|G].
    - exists best, bi. split; [reflexivity|]. apply Hkeep. lia.
    - exists t', ind. split; [reflexivity|].
      split; [exact Hlen|]. split; [exact Hwt|]. split.
      + apply Forall_app. split.
        * eapply Forall_impl; [|exact Hlow]. intros c0 [v [Hv Hle]]. exists v. split; [exact Hv|lia].
        * constructor; [|constructor]. exists t'. split; [exact Hc | lia].
      + assert (Ei : N.to_nat ind = length pre) by lia. rewrite Ei. split.
        * apply nth_error_Some. rewrite Hnth. discriminate.
        * rewrite (nth_error_nth full (length pre) dflt_cert Hnth). exact Hc.
    - exists best, bi. split; [reflexivity|]. apply Hkeep. lia.
  Qed.

  Lemma nth_error_mid (pre : list (list N * N)) c r post :
    nth_error (pre ++ (c :: r) ++ post) (length pre) = Some c.
  Proof. rewrite nth_error_app2 by lia. rewrite Nat.sub_diag. reflexivity. Qed.

  (* ---- the elementary moves on tables *)
  Lemma denotes_swap p t s : is_perm n p -> s + 1 < N.of_nat n -> denotes (p, 0) t ->
    exists t', swap_adjacent_inplace n t s = Ok t' /\ denotes (swap_entries p s, 0) t'.
  Proof.
    intros Hp Hs [Hwf Hv].
    destruct (swap_adjacent_sem n t s Hn64 Hwf Hs) as [t' [E [Hwf' Hv']]].
    exists t'. split; [exact E|]. split; [exact Hwf'|]. intros y Hy. cbn [fst snd] in *.
    rewrite (Hv' y Hy). rewrite Hv by (apply swapbits_lt; lia || exact Hy).
    apply act_swap; [exact Hp|exact Hs|]. rewrite !N.bits_0. reflexivity.
  Qed.

  Lemma denotes_flip p m t v : v < N.of_nat n -> denotes (p, m) t ->
    exists t', flip_inplace n t v = Ok t' /\ denotes (p, N.lxor m (2 ^ v)) t'.
  Proof.
    intros Hv [Hwf Hval].
    destruct (flip_sem n t v Hwf Hv) as [t' [E [Hwf' Hv']]].
    exists t'. split; [exact E|]. split; [exact Hwf'|]. intros y Hy. cbn [fst snd] in *.
    rewrite (Hv' y Hy). rewrite Hval by (apply flipbit_lt; assumption).
    apply act_flip. exact Hv.
  Qed.

  Lemma denotes_not p m t : denotes (p, m) t -> denotes (p, N.lxor m (2 ^ N.of_nat n)) (not_inplace n t).
  Proof.
    intros [Hwf Hval]. destruct (not_sem n t Hwf) as [Hwf' [Hv' _]].
    split; [exact Hwf'|]. intros y Hy. cbn [fst snd] in *.
    rewrite (Hv' y Hy), (Hval y Hy). apply act_not.
  Qed.

  (* ---- P walk *)
  Lemma p_fold : forall sw p t best bi ind pre post,
    swaps_valid n sw = true -> is_perm n p -> denotes (p, 0) t -> BestInv pre best bi ind ->
    full = pre ++ map (fun q => (q, 0)) (perms_after p sw) ++ post ->
    exists t' best' bi' ind',
      fold_left (p_step n) sw (Ok (t, best, bi, ind)) = Ok (t', best', bi', ind') /\
      denotes (last (perms_after p sw) p, 0) t' /\
      BestInv (pre ++ map (fun q => (q, 0)) (perms_after p sw)) best' bi' ind'.
  Proof.
    induction sw as [|s r IH]; intros p t best bi ind pre post Hv Hp Hd Hb Hfull.
    - exists t, best, bi, ind. cbn [fold_left perms_after map last]. rewrite app_nil_r.
      split; [reflexivity|]. split; assumption.
    - unfold swaps_valid in Hv. cbn [forallb] in Hv. apply andb_true_iff in Hv. destruct Hv as [Hs Hr].
      apply N.ltb_lt in Hs.
      destruct (denotes_swap p t s Hp Hs Hd) as [t1 [E1 Hd1]].
      cbn [perms_after map] in Hfull.
      destruct (try_best_inv pre best bi ind (swap_entries p s, 0) t1 Hb Hd1) as [best1 [bi1 [E2 Hb1]]].
      { rewrite Hfull. apply nth_error_mid. }
      destruct (IH (swap_entries p s) t1 best1 bi1 (ind + 1) (pre ++ [(swap_entries p s, 0)]) post Hr
                  (swap_entries_is_perm n p s Hp Hs) Hd1 Hb1) as [t' [best' [bi' [ind' [E3 [Hd' Hb']]]]]].
      { rewrite Hfull. rewrite <- app_assoc. reflexivity. }
      exists t', best', bi', ind'. split.
      + cbn [fold_left]. unfold p_step at 2. cbn [bind]. rewrite E1. cbn [bind]. rewrite E2. exact E3.
      + cbn [perms_after map]. rewrite cw_last_cons. split; [exact Hd'|].
        rewrite <- app_assoc in Hb'. exact Hb'.
  Qed.

  (* ---- N walk (the permutation stays fixed) *)
  Lemma n_fold : forall fl p m t best bi ind pre post,
    flips_valid n fl = true -> denotes (p, m) t -> BestInv pre best bi ind ->
    full = pre ++ map (fun m' => (p, m')) (masks_after n m fl) ++ post ->
    exists t' best' bi' ind',
      fold_left (n_step n) fl (Ok (t, best, bi, ind)) = Ok (t', best', bi', ind') /\
      denotes (p, last (masks_after n m fl) m) t' /\
      BestInv (pre ++ map (fun m' => (p, m')) (masks_after n m fl)) best' bi' ind'.
  Proof.
    induction fl as [|v r IH]; intros p m t best bi ind pre post Hv Hd Hb Hfull.
    - exists t, best, bi, ind. cbn [fold_left masks_after map last]. rewrite app_nil_r.
      split; [reflexivity|]. split; assumption.
    - unfold flips_valid in Hv. cbn [forallb] in Hv. apply andb_true_iff in Hv. destruct Hv as [Hs Hr].
      apply N.ltb_lt in Hs.
      destruct (denotes_flip p m t v Hs Hd) as [t1 [E1 Hd1]].
      pose proof (denotes_not _ _ _ Hd1) as Hd2.
      pose proof (denotes_not _ _ _ Hd2) as Hd3.
      set (c1 := N.lxor (N.lxor m (2 ^ v)) (2 ^ N.of_nat n)) in *.
      set (c2 := N.lxor c1 (2 ^ N.of_nat n)) in *.
      cbn [masks_after map] in Hfull. fold c1 in Hfull. fold c2 in Hfull.
      destruct (try_best_inv pre best bi ind (p, c1) _ Hb Hd2) as [best1 [bi1 [E2 Hb1]]].
      { rewrite Hfull. apply nth_error_mid. }
      destruct (try_best_inv (pre ++ [(p, c1)]) best1 bi1 (ind + 1) (p, c2) _ Hb1 Hd3) as [best2 [bi2 [E3 Hb2]]].
      { rewrite Hfull. change ((p, c1) :: (p, c2) :: map (fun m' => (p, m')) (masks_after n c2 r))
          with ([(p, c1)] ++ (p, c2) :: map (fun m' => (p, m')) (masks_after n c2 r)).
        rewrite <- app_assoc. rewrite app_assoc. apply nth_error_mid. }
      destruct (IH p c2 _ best2 bi2 (ind + 1 + 1) ((pre ++ [(p, c1)]) ++ [(p, c2)]) post Hr Hd3 Hb2)
        as [t' [best' [bi' [ind' [E4 [Hd' Hb']]]]]].
      { rewrite Hfull. rewrite <- !app_assoc. reflexivity. }
      exists t', best', bi', ind'. split.
      + cbn [fold_left]. unfold n_step at 2. cbn [bind]. rewrite E1. cbn [bind].
        unfold two_nots. rewrite E2. cbn [bind]. rewrite E3. exact E4.
      + cbn [masks_after map]. fold c1. fold c2. rewrite !cw_last_cons. split; [exact Hd'|].
        rewrite <- !app_assoc in Hb'. exact Hb'.
  Qed.

  (* ---- NPN walk *)
  Definition npn_list (fl : list N) (p : list N) (sw : list N) : list (list N * N) :=
    flat_map (fun q => map (fun m => (q, m)) (masks_after n 0 fl)) (perms_after p sw).

  Lemma npn_fold fl : flips_valid n fl = true -> flips_closed n fl = true ->
    forall sw p t best bi ind pre post,
    swaps_valid n sw = true -> is_perm n p -> denotes (p, 0) t -> BestInv pre best bi ind ->
    full = pre ++ npn_list fl p sw ++ post ->
    exists t' best' bi' ind',
      fold_left (npn_step n fl) sw (Ok (t, best, bi, ind)) = Ok (t', best', bi', ind') /\
      denotes (last (perms_after p sw) p, 0) t' /\
      BestInv (pre ++ npn_list fl p sw) best' bi' ind'.
  Proof.
    intros Hfv Hfc. unfold flips_closed in Hfc. apply N.eqb_eq in Hfc.
    induction sw as [|s r IH]; intros p t best bi ind pre post Hv Hp Hd Hb Hfull.
    - exists t, best, bi, ind. unfold npn_list. cbn [fold_left perms_after flat_map last]. rewrite app_nil_r.
      split; [reflexivity|]. split; assumption.
    - unfold swaps_valid in Hv. cbn [forallb] in Hv. apply andb_true_iff in Hv. destruct Hv as [Hs Hr].
      apply N.ltb_lt in Hs.
      destruct (denotes_swap p t s Hp Hs Hd) as [t1 [E1 Hd1]].
      unfold npn_list in Hfull. cbn [perms_after flat_map] in Hfull.
      fold (npn_list fl (swap_entries p s) r) in Hfull.
      destruct (n_fold fl (swap_entries p s) 0 t1 best bi ind pre (npn_list fl (swap_entries p s) r ++ post)
                  Hfv Hd1 Hb) as [t2 [best2 [bi2 [ind2 [E2 [Hd2 Hb2]]]]]].
      { rewrite Hfull. rewrite <- app_assoc. reflexivity. }
      rewrite Hfc in Hd2.
      destruct (IH (swap_entries p s) t2 best2 bi2 ind2 _ post Hr
                  (swap_entries_is_perm n p s Hp Hs) Hd2 Hb2) as [t' [best' [bi' [ind' [E3 [Hd' Hb']]]]]].
      { rewrite Hfull. rewrite <- !app_assoc. reflexivity. }
      exists t', best', bi', ind'. split.
      + cbn [fold_left]. unfold npn_step at 2. cbn [bind]. rewrite E1. cbn [bind]. rewrite E2. exact E3.
      + unfold npn_list. cbn [perms_after flat_map]. fold (npn_list fl (swap_entries p s) r).
        rewrite cw_last_cons. split; [exact Hd'|].
        rewrite <- app_assoc in Hb'. exact Hb'.
  Qed.

  (* ---- what the invariant gives at the end *)
  Lemma lower_min best c c' : Forall (lower best) full -> In c full -> wf n c' ->
    (forall y, y < 2 ^ N.of_nat n -> val c' y = act n (fst c) (snd c) f y) -> big best <= big c'.
  Proof.
    intros Hall Hin Hwf Hval. rewrite Forall_forall in Hall. destruct (Hall c Hin) as [v [[Hwv Hv] Hle]].
    assert (E : v = c').
    { apply (wf_ext n v c' Hwv Hwf). intros y Hy. rewrite (Hv y Hy), (Hval y Hy). reflexivity. }
    subst v. exact Hle.
  Qed.
End Walk.

(* ------------------------------------------------------------------ 4. the three index searches *)
Lemma cw_last_indep {A} (l : list A) d d' : l <> [] -> last l d = last l d'.
Proof.
  induction l as [|a l IH]; intros H; [contradiction|].
  destruct l as [|b l]; [reflexivity|]. apply IH. discriminate.
Qed.

Lemma perms_after_length sw : forall p, length (perms_after p sw) = length sw.
Proof. induction sw as [|s r IH]; intros p; [reflexivity|]. cbn [perms_after length]. rewrite IH. reflexivity. Qed.

Lemma masks_after_length n fl : forall cur, length (masks_after n cur fl) = (2 * length fl)%nat.
Proof. induction fl as [|v r IH]; intros cur; [reflexivity|]. cbn [masks_after length]. rewrite IH. lia. Qed.

Lemma npn_list_length n fl sw : forall p, length (npn_list n fl p sw) = (length sw * (2 * length fl))%nat.
Proof.
  unfold npn_list. induction sw as [|s r IH]; intros p; [reflexivity|].
  cbn [perms_after flat_map length]. rewrite app_length, map_length, masks_after_length, IH. lia.
Qed.

Lemma npn_certs_list n sw fl : npn_certs n sw fl = npn_list n fl (identity n) sw.
Proof. reflexivity. Qed.

Lemma init_inv n t full bi0 : wf n t -> full <> [] -> last full dflt_cert = (identity n, 0) ->
  N.to_nat bi0 = (length full - 1)%nat -> BestInv n (val t) full [] t bi0 0.
Proof.
  intros Hwf Hne Hlast Hbi. split; [reflexivity|]. split; [exact Hwf|]. split; [constructor|].
  assert (Hlen : (0 < length full)%nat) by (destruct full; [contradiction | cbn [length]; lia]).
  split; [lia|]. rewrite Hbi, cw_last_nth, Hlast. split; [exact Hwf|].
  intros y Hy. cbn [fst snd]. symmetry. apply cw_act_identity. exact Hy.
Qed.

Lemma swaps_closed_last n sw : swaps_closed n sw = true ->
  last (perms_after (identity n) sw) (identity n) = identity n.
Proof.
  unfold swaps_closed, list_N_eqb. intros H.
  destruct (list_eq_dec N.eq_dec (last (perms_after (identity n) sw) (identity n)) (identity n)) as [E|E];
    [exact E|discriminate].
Qed.

Lemma perms_after_nonnil p sw : sw <> [] -> perms_after p sw <> [].
Proof. destruct sw; [contradiction|]. intros _. discriminate. Qed.

Lemma masks_after_nonnil n cur fl : fl <> [] -> masks_after n cur fl <> [].
Proof. destruct fl; [contradiction|]. intros _. discriminate. Qed.

Definition walk_result (n : nat) (t : list N) (full : list (list N * N)) (best : list N) (bi : N) : Prop :=
  wf n best /\ (N.to_nat bi < length full)%nat /\
  denotes n (val t) (nth (N.to_nat bi) full dflt_cert) best /\
  Forall (lower n (val t) best) full.

Lemma BestInv_result n t full best bi ind : BestInv n (val t) full full best bi ind -> walk_result n t full best bi.
Proof. intros [_ [H1 [H2 [H3 H4]]]]. split; [exact H1|]. split; [exact H3|]. split; [exact H4|exact H2]. Qed.

Lemma p_ind_spec n t sw : N.of_nat n < 2 ^ 64 -> wf n t ->
  swaps_valid n sw = true -> swaps_closed n sw = true -> sw <> [] ->
  exists best bi, p_canonization_ind n t sw = Ok (best, bi) /\ walk_result n t (p_certs n sw) best bi.
Proof.
  intros Hn Hwf Hv Hc Hne.
  assert (Hinit : BestInv n (val t) (p_certs n sw) [] t (N.of_nat (length sw) - 1) 0).
  { apply init_inv; [exact Hwf| | |].
    - unfold p_certs. intros E. apply map_eq_nil in E. exact (perms_after_nonnil _ _ Hne E).
    - unfold p_certs. rewrite (cw_last_indep _ dflt_cert ((fun p => (p, 0)) (identity n))).
      + rewrite (cw_last_map (fun p : list N => (p, 0))). rewrite (swaps_closed_last n sw Hc). reflexivity.
      + intros E. apply map_eq_nil in E. exact (perms_after_nonnil _ _ Hne E).
    - unfold p_certs. rewrite map_length, perms_after_length. lia. }
  destruct (p_fold n (val t) (p_certs n sw) Hn sw (identity n) t t (N.of_nat (length sw) - 1) 0 [] [] Hv (cov_is_perm_identity n))
    as [t' [best [bi [ind [E [_ Hb]]]]]].
  - split; [exact Hwf|]. intros y Hy. cbn [fst snd]. symmetry. apply cw_act_identity. exact Hy.
  - exact Hinit.
  - unfold p_certs. rewrite app_nil_r. reflexivity.
  - exists best, bi. split.
    + unfold p_canonization_ind. rewrite E. reflexivity.
    + apply (BestInv_result n t _ best bi ind). exact Hb.
Qed.

Lemma flips_closed_last n fl : flips_closed n fl = true -> last (masks_after n 0 fl) 0 = 0.
Proof. unfold flips_closed. intros H. apply N.eqb_eq. exact H. Qed.

Lemma n_ind_spec n t fl : N.of_nat n < 2 ^ 64 -> wf n t ->
  flips_valid n fl = true -> flips_closed n fl = true -> fl <> [] ->
  exists best bi, n_canonization_ind n t fl = Ok (best, bi) /\ walk_result n t (n_certs n fl) best bi.
Proof.
  intros Hn Hwf Hv Hc Hne.
  assert (Hinit : BestInv n (val t) (n_certs n fl) [] t (2 * N.of_nat (length fl) - 1) 0).
  { apply init_inv; [exact Hwf| | |].
    - unfold n_certs. intros E. apply map_eq_nil in E. exact (masks_after_nonnil _ _ _ Hne E).
    - unfold n_certs. rewrite (cw_last_indep _ dflt_cert ((fun m => (identity n, m)) 0)).
      + rewrite (cw_last_map (fun m : N => (identity n, m))). rewrite (flips_closed_last n fl Hc). reflexivity.
      + intros E. apply map_eq_nil in E. exact (masks_after_nonnil _ _ _ Hne E).
    - unfold n_certs. rewrite map_length, masks_after_length. lia. }
  destruct (n_fold n (val t) (n_certs n fl) Hn fl (identity n) 0 t t (2 * N.of_nat (length fl) - 1) 0 [] [] Hv)
    as [t' [best [bi [ind [E [_ Hb]]]]]].
  - split; [exact Hwf|]. intros y Hy. cbn [fst snd]. symmetry. apply cw_act_identity. exact Hy.
  - exact Hinit.
  - unfold n_certs. rewrite app_nil_r. reflexivity.
  - exists best, bi. split.
    + unfold n_canonization_ind. rewrite E. reflexivity.
    + apply (BestInv_result n t _ best bi ind). exact Hb.
Qed.

Lemma npn_ind_spec n t sw fl : N.of_nat n < 2 ^ 64 -> wf n t ->
  swaps_valid n sw = true -> swaps_closed n sw = true -> sw <> [] ->
  flips_valid n fl = true -> flips_closed n fl = true -> fl <> [] ->
  exists best bi, npn_canonization_ind n t sw fl = Ok (best, bi) /\ walk_result n t (npn_certs n sw fl) best bi.
Proof.
  intros Hn Hwf Hv Hc Hne Hfv Hfc Hfne.
  assert (Hblock : forall q : list N, map (fun m => (q, m)) (masks_after n 0 fl) <> []).
  { intros q E. apply map_eq_nil in E. exact (masks_after_nonnil _ _ _ Hfne E). }
  assert (Hinit : BestInv n (val t) (npn_certs n sw fl) [] t
                    (2 * N.of_nat (length sw) * N.of_nat (length fl) - 1) 0).
  { apply init_inv; [exact Hwf| | |].
    - intros E. pose proof (npn_list_length n fl sw (identity n)) as Hl. rewrite <- npn_certs_list, E in Hl.
      cbn [length] in Hl. destruct sw; [contradiction|]. destruct fl; [contradiction|]. cbn [length] in Hl. lia.
    - unfold npn_certs.
      rewrite (cw_last_flat_map _ _ (identity n) dflt_cert Hblock (perms_after_nonnil _ _ Hne)).
      rewrite (swaps_closed_last n sw Hc).
      rewrite (cw_last_indep _ dflt_cert ((fun m => (identity n, m)) 0) (Hblock (identity n))).
      rewrite (cw_last_map (fun m : N => (identity n, m))). rewrite (flips_closed_last n fl Hfc). reflexivity.
    - rewrite npn_certs_list, npn_list_length. lia. }
  destruct (npn_fold n (val t) (npn_certs n sw fl) Hn fl Hfv Hfc sw (identity n) t t (2 * N.of_nat (length sw) * N.of_nat (length fl) - 1) 0 [] [] Hv
              (cov_is_perm_identity n)) as [t' [best [bi [ind [E [_ Hb]]]]]].
  - split; [exact Hwf|]. intros y Hy. cbn [fst snd]. symmetry. apply cw_act_identity. exact Hy.
  - exact Hinit.
  - rewrite npn_certs_list, app_nil_r. reflexivity.
  - exists best, bi. split.
    + unfold npn_canonization_ind. rewrite E. reflexivity.
    + apply (BestInv_result n t _ best bi ind). rewrite <- npn_certs_list in Hb. exact Hb.
Qed.

(* ------------------------------------------------------------------ 5. the certificate reconstructions *)
Lemma perm_swap_ok p s : (N.to_nat s + 1 < length p)%nat -> perm_swap p s = Ok (swap_entries p s).
Proof.
  intros H. unfold perm_swap. apply Nat.ltb_lt in H. rewrite H. reflexivity.
Qed.

Lemma p_res_loop_spec n : forall sw p ind bi, length p = n -> swaps_valid n sw = true ->
  ind <= bi -> bi < ind + N.of_nat (length sw) ->
  p_res_loop p sw ind bi = Ok (nth (N.to_nat (bi - ind)) (perms_after p sw) []).
Proof.
  induction sw as [|s r IH]; intros p ind bi Hl Hv H1 H2.
  - cbn [length] in H2. lia.
  - unfold swaps_valid in Hv. cbn [forallb] in Hv. apply andb_true_iff in Hv. destruct Hv as [Hs Hr].
    apply N.ltb_lt in Hs. cbn [p_res_loop]. rewrite perm_swap_ok by lia. cbn [bind perms_after].
    destruct (N.eqb_spec ind bi) as [E|Ne].
    + subst bi. rewrite N.sub_diag. reflexivity.
    + cbn [length] in H2.
      rewrite (IH (swap_entries p s) (ind + 1) bi) by (rewrite ?swap_entries_length; assumption || lia).
      replace (N.to_nat (bi - ind)) with (S (N.to_nat (bi - (ind + 1)))) by lia. reflexivity.
Qed.

Lemma p_res_spec n sw bi : swaps_valid n sw = true -> (N.to_nat bi < length sw)%nat ->
  p_canonization_res n sw bi = Ok (nth (N.to_nat bi) (perms_after (identity n) sw) []).
Proof.
  intros Hv Hbi. unfold p_canonization_res.
  assert (E : (bi <=? N.of_nat (length sw)) = true) by (apply N.leb_le; lia).
  rewrite E. cbn [always bind].
  change (identity_perm n) with (identity n).
  rewrite (p_res_loop_spec n sw (identity n) 0 bi) by (apply cov_identity_length || assumption || lia).
  rewrite N.sub_0_r. reflexivity.
Qed.

Lemma xor_bit32_ok cur x : x < 32 -> xor_bit32 cur x = Ok (N.lxor cur (2 ^ x)).
Proof.
  intros H. unfold xor_bit32. apply N.ltb_lt in H. rewrite H. cbn [dbg bind]. rewrite N.shiftl_1_l. reflexivity.
Qed.

Lemma flips_res_loop_spec n : N.of_nat n < 32 -> forall fl cur ind bi, flips_valid n fl = true -> ind <= bi ->
  flips_res_loop n fl cur ind bi =
  if bi <? ind + 2 * N.of_nat (length fl)
  then Ok (inl (nth (N.to_nat (bi - ind)) (masks_after n cur fl) 0))
  else Ok (inr (last (masks_after n cur fl) cur, ind + 2 * N.of_nat (length fl))).
Proof.
  intros Hn. induction fl as [|v r IH]; intros cur ind bi Hv Hle.
  - cbn [flips_res_loop masks_after last length]. destruct (N.ltb_spec bi (ind + 2 * N.of_nat 0)) as [L|L]; [lia|].
    f_equal. f_equal. f_equal. lia.
  - unfold flips_valid in Hv. cbn [forallb] in Hv. apply andb_true_iff in Hv. destruct Hv as [Hs Hr].
    apply N.ltb_lt in Hs. cbn [flips_res_loop masks_after].
    set (c1 := N.lxor (N.lxor cur (2 ^ v)) (2 ^ N.of_nat n)).
    set (c2 := N.lxor c1 (2 ^ N.of_nat n)).
    unfold flip_res_step. rewrite xor_bit32_ok by lia. cbn [bind]. rewrite xor_bit32_ok by exact Hn. cbn [bind].
    fold c1. rewrite !cw_last_cons. cbn [length].
    destruct (N.eqb_spec ind bi) as [E|Ne].
    + subst bi. cbn [bind]. rewrite N.sub_diag.
      destruct (N.ltb_spec ind (ind + 2 * N.of_nat (S (length r)))) as [L|L]; [reflexivity|lia].
    + rewrite xor_bit32_ok by exact Hn. cbn [bind]. fold c2.
      destruct (N.eqb_spec (ind + 1) bi) as [E1|Ne1].
      * subst bi. cbn [bind]. replace (N.to_nat (ind + 1 - ind)) with 1%nat by lia.
        destruct (N.ltb_spec (ind + 1) (ind + 2 * N.of_nat (S (length r)))) as [L|L]; [reflexivity|lia].
      * cbn [bind]. rewrite (IH c2 (ind + 2) bi Hr) by lia.
        replace (ind + 2 + 2 * N.of_nat (length r)) with (ind + 2 * N.of_nat (S (length r))) by lia.
        destruct (N.ltb_spec bi (ind + 2 * N.of_nat (S (length r)))) as [L|L]; [|reflexivity].
        replace (N.to_nat (bi - ind)) with (S (S (N.to_nat (bi - (ind + 2))))) by lia. reflexivity.
Qed.

Lemma n_res_spec n fl bi : N.of_nat n < 32 -> flips_valid n fl = true -> (N.to_nat bi < 2 * length fl)%nat ->
  n_canonization_res n fl bi = Ok (nth (N.to_nat bi) (masks_after n 0 fl) 0).
Proof.
  intros Hn Hv Hbi. unfold n_canonization_res. rewrite (flips_res_loop_spec n Hn fl 0 0 bi Hv) by lia.
  destruct (N.ltb_spec bi (0 + 2 * N.of_nat (length fl))) as [L|L]; [|lia].
  cbn [bind]. rewrite N.sub_0_r. reflexivity.
Qed.

Lemma npn_res_loop_spec n fl : N.of_nat n < 32 -> flips_valid n fl = true -> flips_closed n fl = true ->
  forall sw p ind bi, length p = n -> swaps_valid n sw = true ->
  ind <= bi -> bi < ind + N.of_nat (length sw * (2 * length fl)) ->
  npn_res_loop n p sw fl 0 ind bi = Ok (nth (N.to_nat (bi - ind)) (npn_list n fl p sw) dflt_cert).
Proof.
  intros Hn Hfv Hfc. pose proof (flips_closed_last n fl Hfc) as Hlast.
  induction sw as [|s r IH]; intros p ind bi Hl Hv H1 H2.
  - cbn [length Nat.mul] in H2. lia.
  - unfold swaps_valid in Hv. cbn [forallb] in Hv. apply andb_true_iff in Hv. destruct Hv as [Hs Hr].
    apply N.ltb_lt in Hs. cbn [npn_res_loop]. rewrite perm_swap_ok by lia. cbn [bind].
    rewrite (flips_res_loop_spec n Hn fl 0 ind bi Hfv H1).
    unfold npn_list. cbn [perms_after flat_map]. fold (npn_list n fl (swap_entries p s) r).
    destruct (N.ltb_spec bi (ind + 2 * N.of_nat (length fl))) as [L|L].
    + cbn [bind]. rewrite app_nth1 by (rewrite map_length, masks_after_length; lia).
      rewrite (cw_nth_map (fun m => (swap_entries p s, m)) _ _ 0) by (rewrite masks_after_length; lia).
      reflexivity.
    + cbn [bind]. rewrite Hlast. cbn [length] in H2.
      rewrite (IH (swap_entries p s) (ind + 2 * N.of_nat (length fl)) bi)
        by (rewrite ?swap_entries_length; assumption || lia).
      rewrite app_nth2 by (rewrite map_length, masks_after_length; lia).
      rewrite map_length, masks_after_length. f_equal. f_equal. lia.
Qed.

Lemma npn_res_spec n sw fl bi : N.of_nat n < 32 ->
  swaps_valid n sw = true -> flips_valid n fl = true -> flips_closed n fl = true ->
  (N.to_nat bi < length (npn_certs n sw fl))%nat ->
  npn_canonization_res n sw fl bi = Ok (nth (N.to_nat bi) (npn_certs n sw fl) dflt_cert).
Proof.
  intros Hn Hv Hfv Hfc Hbi. unfold npn_canonization_res. change (identity_perm n) with (identity n).
  rewrite npn_certs_list in *. rewrite npn_list_length in Hbi.
  rewrite (npn_res_loop_spec n fl Hn Hfv Hfc sw (identity n) 0 bi) by (apply cov_identity_length || assumption || lia).
  rewrite N.sub_0_r. reflexivity.
Qed.

(* ------------------------------------------------------------------ 6. the three canonizations, generic in the sequences *)
Lemma pow2_succ_pos n : 0 < 2 ^ (N.of_nat n + 1).
Proof. apply cov_pow2_pos. Qed.

Lemma denotes_identity n t : wf n t -> denotes n (val t) (identity n, 0) t.
Proof.
  intros Hwf. split; [exact Hwf|]. intros y Hy. cbn [fst snd]. symmetry. apply cw_act_identity. exact Hy.
Qed.

Lemma p_generic n t sw : (2 <= n)%nat -> N.of_nat n < 2 ^ 64 -> wf n t ->
  swaps_for n = Ok sw -> swaps_valid n sw = true -> swaps_closed n sw = true -> sw <> [] ->
  exists c perm, p_canonization n t = Ok (c, perm) /\ wf n c /\ cert_ok n (val t) (val c) perm 0 /\
    forall perm' c', In (perm', 0) (p_certs n sw) -> wf n c' ->
      (forall y, y < 2 ^ N.of_nat n -> val c' y = act n perm' 0 (val t) y) -> big c <= big c'.
Proof.
  intros H2 Hn Hwf Hsw Hv Hc Hne.
  destruct (p_ind_spec n t sw Hn Hwf Hv Hc Hne) as [best [bi [Eind [Hwb [Hbi [Hden Hlow]]]]]].
  assert (Hbi' : (N.to_nat bi < length sw)%nat).
  { unfold p_certs in Hbi. rewrite map_length, perms_after_length in Hbi. exact Hbi. }
  set (perm := nth (N.to_nat bi) (perms_after (identity n) sw) []).
  assert (Enth : nth (N.to_nat bi) (p_certs n sw) dflt_cert = (perm, 0)).
  { unfold p_certs. apply (cw_nth_map (fun p : list N => (p, 0))). rewrite perms_after_length. exact Hbi'. }
  exists best, perm. split.
  - unfold p_canonization. destruct (Nat.leb_spec n 1) as [L|_]; [lia|].
    rewrite Hsw. cbn [bind]. rewrite Eind. cbn [bind]. rewrite (p_res_spec n sw bi Hv Hbi'). reflexivity.
  - split; [exact Hwb|]. split.
    + destruct (p_certs_sound n sw (perm, 0) Hv) as [Hp _].
      { rewrite <- Enth. apply nth_In. exact Hbi. }
      split; [exact Hp|]. split; [apply pow2_succ_pos|].
      rewrite Enth in Hden. exact (proj2 Hden).
    + intros perm' c' Hin Hwc Hval.
      exact (lower_min n (val t) (p_certs n sw) best (perm', 0) c' Hlow Hin Hwc Hval).
Qed.

Lemma n_generic n t fl : (1 <= n)%nat -> N.of_nat n < 32 -> wf n t ->
  flips_for n = Ok fl -> flips_valid n fl = true -> flips_closed n fl = true -> fl <> [] ->
  exists c mask, n_canonization n t = Ok (c, mask) /\ wf n c /\ cert_ok n (val t) (val c) (identity n) mask /\
    forall mask' c', In (identity n, mask') (n_certs n fl) -> wf n c' ->
      (forall y, y < 2 ^ N.of_nat n -> val c' y = act n (identity n) mask' (val t) y) -> big c <= big c'.
Proof.
  intros H1 Hn Hwf Hfl Hv Hc Hne.
  assert (Hn64 : N.of_nat n < 2 ^ 64).
  { apply (N.lt_trans _ 32); [exact Hn|]. reflexivity. }
  destruct (n_ind_spec n t fl Hn64 Hwf Hv Hc Hne) as [best [bi [Eind [Hwb [Hbi [Hden Hlow]]]]]].
  assert (Hbi' : (N.to_nat bi < 2 * length fl)%nat).
  { unfold n_certs in Hbi. rewrite map_length, masks_after_length in Hbi. exact Hbi. }
  set (mask := nth (N.to_nat bi) (masks_after n 0 fl) 0).
  assert (Enth : nth (N.to_nat bi) (n_certs n fl) dflt_cert = (identity n, mask)).
  { unfold n_certs. apply (cw_nth_map (fun m : N => (identity n, m))). rewrite masks_after_length. exact Hbi'. }
  exists best, mask. split.
  - unfold n_canonization. destruct (Nat.eqb_spec n 0) as [L|_]; [lia|].
    rewrite Hfl. cbn [bind]. rewrite Eind. cbn [bind]. rewrite (n_res_spec n fl bi Hn Hv Hbi'). reflexivity.
  - split; [exact Hwb|]. split.
    + destruct (n_certs_sound n fl (identity n, mask) Hv) as [Hp Hm].
      { rewrite <- Enth. apply nth_In. exact Hbi. }
      split; [exact Hp|]. split; [exact Hm|].
      rewrite Enth in Hden. exact (proj2 Hden).
    + intros mask' c' Hin Hwc Hval.
      exact (lower_min n (val t) (n_certs n fl) best (identity n, mask') c' Hlow Hin Hwc Hval).
Qed.

Lemma npn_generic n t sw fl : (2 <= n)%nat -> N.of_nat n < 32 -> wf n t ->
  swaps_for n = Ok sw -> swaps_valid n sw = true -> swaps_closed n sw = true -> sw <> [] ->
  flips_for n = Ok fl -> flips_valid n fl = true -> flips_closed n fl = true -> fl <> [] ->
  exists c perm mask, npn_canonization n t = Ok (c, perm, mask) /\ wf n c /\
    cert_ok n (val t) (val c) perm mask /\
    forall perm' mask' c', In (perm', mask') (npn_certs n sw fl) -> wf n c' ->
      (forall y, y < 2 ^ N.of_nat n -> val c' y = act n perm' mask' (val t) y) -> big c <= big c'.
Proof.
  intros H2 Hn Hwf Hsw Hv Hc Hne Hfl Hfv Hfc Hfne.
  assert (Hn64 : N.of_nat n < 2 ^ 64).
  { apply (N.lt_trans _ 32); [exact Hn|]. reflexivity. }
  destruct (npn_ind_spec n t sw fl Hn64 Hwf Hv Hc Hne Hfv Hfc Hfne) as [best [bi [Eind [Hwb [Hbi [Hden Hlow]]]]]].
  destruct (nth (N.to_nat bi) (npn_certs n sw fl) dflt_cert) as [perm mask] eqn:Enth.
  exists best, perm, mask. split.
  - unfold npn_canonization. destruct (Nat.leb_spec n 1) as [L|_]; [lia|].
    rewrite Hsw. cbn [bind]. rewrite Hfl. cbn [bind]. rewrite Eind. cbn [bind].
    rewrite (npn_res_spec n sw fl bi Hn Hv Hfv Hfc Hbi). rewrite Enth. reflexivity.
  - split; [exact Hwb|]. split.
    + destruct (npn_certs_sound n sw fl (perm, mask) Hv Hfv) as [Hp Hm].
      { rewrite <- Enth. apply nth_In. exact Hbi. }
      split; [exact Hp|]. split; [exact Hm|]. exact (proj2 Hden).
    + intros perm' mask' c' Hin Hwc Hval.
      exact (lower_min n (val t) (npn_certs n sw fl) best (perm', mask') c' Hlow Hin Hwc Hval).
Qed.

(* ------------------------------------------------------------------ 7. the small sizes *)
Lemma is_perm_small_id n p : (n <= 1)%nat -> is_perm n p -> p = identity n.
Proof.
  intros Hn H. unfold is_perm in H. destruct n as [|[|n]]; [| |lia].
  - apply Permutation_nil. apply Permutation_sym. exact H.
  - apply Permutation_sym in H. exact (Permutation_length_1_inv H).
Qed.

Lemma same_function_same_table n f t c' perm mask :
  denotes n f (perm, mask) t -> wf n c' ->
  (forall y, y < 2 ^ N.of_nat n -> val c' y = act n perm mask f y) -> c' = t.
Proof.
  intros [Hwf Hv] Hwc Hval. apply (wf_ext n c' t Hwc Hwf). intros y Hy.
  rewrite (Hval y Hy), (Hv y Hy). reflexivity.
Qed.

Lemma p_small n t : (n <= 1)%nat -> wf n t ->
  p_canonization n t = Ok (t, identity n) /\ cert_ok n (val t) (val t) (identity n) 0 /\
  forall perm' c', is_perm n perm' -> wf n c' ->
    (forall y, y < 2 ^ N.of_nat n -> val c' y = act n perm' 0 (val t) y) -> big t <= big c'.
Proof.
  intros Hn Hwf. split; [|split].
  - unfold p_canonization. destruct (Nat.leb_spec n 1) as [_|L]; [reflexivity|lia].
  - split; [apply cov_is_perm_identity|]. split; [apply pow2_succ_pos|].
    exact (proj2 (denotes_identity n t Hwf)).
  - intros perm' c' Hp Hwc Hval. rewrite (is_perm_small_id n perm' Hn Hp) in Hval.
    rewrite (same_function_same_table n (val t) t c' (identity n) 0 (denotes_identity n t Hwf) Hwc Hval).
    apply N.le_refl.
Qed.

Lemma n_small t : wf 0 t ->
  exists c mask, n_canonization 0 t = Ok (c, mask) /\ wf 0 c /\ cert_ok 0 (val t) (val c) (identity 0) mask /\
    forall mask' c', mask' < 2 ^ (N.of_nat 0 + 1) -> wf 0 c' ->
      (forall y, y < 2 ^ N.of_nat 0 -> val c' y = act 0 (identity 0) mask' (val t) y) -> big c <= big c'.
Proof.
  intros Hwf.
  pose proof (denotes_identity 0 t Hwf) as D0.
  pose proof (denotes_not 0 (val t) _ _ _ D0) as D1.
  change (N.lxor 0 (2 ^ N.of_nat 0)) with 1 in D1.
  pose proof (not_wf 0 t Hwf) as Hwf'.
  assert (Ecmp : cmp (not_inplace 0 t) t = Ok (big (not_inplace 0 t) ?= big t)).
  { apply cmp_big.
    - rewrite (wf_length 0 _ Hwf'), (wf_length 0 _ Hwf). reflexivity.
    - apply (wf_Forall64 0). exact Hwf'.
    - apply (wf_Forall64 0). exact Hwf. }
  assert (Hmin : forall best, big best <= big t -> big best <= big (not_inplace 0 t) ->
            forall mask' c', mask' < 2 ^ (N.of_nat 0 + 1) -> wf 0 c' ->
              (forall y, y < 2 ^ N.of_nat 0 -> val c' y = act 0 (identity 0) mask' (val t) y) -> big best <= big c').
  { intros best H0 H1 mask' c' Hm Hwc Hval. change (2 ^ (N.of_nat 0 + 1)) with 2 in Hm.
    assert (Em : mask' = 0 \/ mask' = 1) by lia. destruct Em as [-> | ->].
    - rewrite (same_function_same_table 0 (val t) _ c' _ _ D0 Hwc Hval). exact H0.
    - rewrite (same_function_same_table 0 (val t) _ c' _ _ D1 Hwc Hval). exact H1. }
  unfold n_canonization. cbn [Nat.eqb]. rewrite Ecmp. cbn [bind].
  destruct (N.compare_spec (big (not_inplace 0 t)) (big t)) as [E|L|G].
  - exists t, 0. split; [reflexivity|]. split; [exact Hwf|]. split.
    + split; [apply cov_is_perm_identity|]. split; [reflexivity|]. exact (proj2 D0).
    + apply Hmin; lia.
  - exists (not_inplace 0 t), 1. split; [reflexivity|]. split; [exact Hwf'|]. split.
    + split; [apply cov_is_perm_identity|]. split; [reflexivity|]. exact (proj2 D1).
    + apply Hmin; lia.
  - exists t, 0. split; [reflexivity|]. split; [exact Hwf|]. split.
    + split; [apply cov_is_perm_identity|]. split; [reflexivity|]. exact (proj2 D0).
    + apply Hmin; lia.
Qed.

(* ------------------------------------------------------------------ 8. n <= 8: the orbit is covered *)
Lemma le8_lt32 n : (n <= 8)%nat -> N.of_nat n < 32.
Proof. lia. Qed.

Theorem p_main : forall n t, (n <= 8)%nat -> wf n t ->
  exists c perm, p_canonization n t = Ok (c, perm) /\ wf n c /\ cert_ok n (val t) (val c) perm 0 /\
    forall perm' c', is_perm n perm' -> wf n c' ->
      (forall y, y < 2 ^ N.of_nat n -> val c' y = act n perm' 0 (val t) y) -> big c <= big c'.
Proof.
  intros n t Hn Hwf. destruct (Nat.le_gt_cases n 1) as [Hs|Hb].
  - destruct (p_small n t Hs Hwf) as [E [Hc Hm]]. exists t, (identity n).
    split; [exact E|]. split; [exact Hwf|]. split; [exact Hc|exact Hm].
  - destruct (coverage_P n ltac:(lia)) as [sw [Hsw [Hv [Hc [Hne Hcov]]]]].
    assert (Hn64 : N.of_nat n < 2 ^ 64).
    { apply (N.lt_trans _ 32); [apply le8_lt32; exact Hn|]. reflexivity. }
    destruct (p_generic n t sw ltac:(lia) Hn64 Hwf Hsw Hv Hc Hne) as [c [perm [E [Hwc [Hcert Hmin]]]]].
    exists c, perm. split; [exact E|]. split; [exact Hwc|]. split; [exact Hcert|].
    intros perm' c' Hp. apply Hmin. apply Hcov. exact Hp.
Qed.

Theorem n_main : forall n t, (n <= 8)%nat -> wf n t ->
  exists c mask, n_canonization n t = Ok (c, mask) /\ wf n c /\ cert_ok n (val t) (val c) (identity n) mask /\
    forall mask' c', mask' < 2 ^ (N.of_nat n + 1) -> wf n c' ->
      (forall y, y < 2 ^ N.of_nat n -> val c' y = act n (identity n) mask' (val t) y) -> big c <= big c'.
Proof.
  intros n t Hn Hwf. destruct (Nat.eq_dec n 0) as [->|Hb].
  - exact (n_small t Hwf).
  - destruct (coverage_N n ltac:(lia)) as [fl [Hfl [Hv [Hc [Hne Hcov]]]]].
    destruct (n_generic n t fl ltac:(lia) (le8_lt32 n Hn) Hwf Hfl Hv Hc Hne) as [c [mask [E [Hwc [Hcert Hmin]]]]].
    exists c, mask. split; [exact E|]. split; [exact Hwc|]. split; [exact Hcert|].
    intros mask' c' Hm. apply Hmin. apply Hcov. exact Hm.
Qed.

Theorem npn_main : forall n t, (n <= 8)%nat -> wf n t ->
  exists c perm mask, npn_canonization n t = Ok (c, perm, mask) /\ wf n c /\
    cert_ok n (val t) (val c) perm mask /\
    forall perm' mask' c', is_perm n perm' -> mask' < 2 ^ (N.of_nat n + 1) -> wf n c' ->
      (forall y, y < 2 ^ N.of_nat n -> val c' y = act n perm' mask' (val t) y) -> big c <= big c'.
Proof.
  intros n t Hn Hwf. destruct (Nat.le_gt_cases n 1) as [Hs|Hb].
  - destruct (n_main n t Hn Hwf) as [c [mask [E [Hwc [Hcert Hmin]]]]].
    exists c, (identity n), mask. split.
    + unfold npn_canonization. destruct (Nat.leb_spec n 1) as [_|L]; [|lia]. rewrite E. reflexivity.
    + split; [exact Hwc|]. split; [exact Hcert|].
      intros perm' mask' c' Hp Hm Hwc' Hval. rewrite (is_perm_small_id n perm' Hs Hp) in Hval.
      exact (Hmin mask' c' Hm Hwc' Hval).
  - destruct (coverage_NPN n ltac:(lia)) as [sw [fl [Hsw [Hv [Hc [Hne [Hfl [Hfv [Hfc [Hfne Hcov]]]]]]]]]].
    destruct (npn_generic n t sw fl ltac:(lia) (le8_lt32 n Hn) Hwf Hsw Hv Hc Hne Hfl Hfv Hfc Hfne)
      as [c [perm [mask [E [Hwc [Hcert Hmin]]]]]].
    exists c, perm, mask. split; [exact E|]. split; [exact Hwc|]. split; [exact Hcert|].
    intros perm' mask' c' Hp Hm. apply Hmin. apply Hcov; assumption.
Qed.

(* ------------------------------------------------------------------ 9. the statements of C05 and C04 *)
(* C05 *)
Theorem npn_cert : forall n t, (n <= 8)%nat -> wf n t ->
  exists c perm mask, npn_canonization n t = Ok (c, perm, mask) /\ wf n c /\ cert_ok n (val t) (val c) perm mask.
Proof.
  intros n t Hn Hwf. destruct (npn_main n t Hn Hwf) as [c [perm [mask [E [Hwc [Hcert _]]]]]].
  exists c, perm, mask. split; [exact E|]. split; assumption.
Qed.

Theorem p_cert : forall n t, (n <= 8)%nat -> wf n t ->
  exists c perm, p_canonization n t = Ok (c, perm) /\ wf n c /\ cert_ok n (val t) (val c) perm 0.
Proof.
  intros n t Hn Hwf. destruct (p_main n t Hn Hwf) as [c [perm [E [Hwc [Hcert _]]]]].
  exists c, perm. split; [exact E|]. split; assumption.
Qed.

Theorem n_cert : forall n t, (n <= 8)%nat -> wf n t ->
  exists c mask, n_canonization n t = Ok (c, mask) /\ wf n c /\ cert_ok n (val t) (val c) (identity n) mask.
Proof.
  intros n t Hn Hwf. destruct (n_main n t Hn Hwf) as [c [mask [E [Hwc [Hcert _]]]]].
  exists c, mask. split; [exact E|]. split; assumption.
Qed.

Theorem npn_already_canonical : forall n t perm mask, (n <= 8)%nat -> wf n t ->
  npn_canonization n t = Ok (t, perm, mask) -> cert_ok n (val t) (val t) perm mask.
Proof.
  intros n t perm mask Hn Hwf E. destruct (npn_cert n t Hn Hwf) as [c [perm' [mask' [E' [_ Hcert]]]]].
  rewrite E in E'. injection E' as <- <- <-. exact Hcert.
Qed.

Theorem p_already_canonical : forall n t perm, (n <= 8)%nat -> wf n t ->
  p_canonization n t = Ok (t, perm) -> cert_ok n (val t) (val t) perm 0.
Proof.
  intros n t perm Hn Hwf E. destruct (p_cert n t Hn Hwf) as [c [perm' [E' [_ Hcert]]]].
  rewrite E in E'. injection E' as <- <-. exact Hcert.
Qed.

Theorem n_already_canonical : forall n t mask, (n <= 8)%nat -> wf n t ->
  n_canonization n t = Ok (t, mask) -> cert_ok n (val t) (val t) (identity n) mask.
Proof.
  intros n t mask Hn Hwf E. destruct (n_cert n t Hn Hwf) as [c [mask' [E' [_ Hcert]]]].
  rewrite E in E'. injection E' as <- <-. exact Hcert.
Qed.

(* C04 *)
Theorem npn_min : forall n t, (n <= 8)%nat -> wf n t ->
  exists c perm mask, npn_canonization n t = Ok (c, perm, mask) /\
    forall perm' mask' c', is_perm n perm' -> mask' < 2 ^ (N.of_nat n + 1) -> wf n c' ->
      (forall y, y < 2 ^ N.of_nat n -> val c' y = act n perm' mask' (val t) y) -> big c <= big c'.
Proof.
  intros n t Hn Hwf. destruct (npn_main n t Hn Hwf) as [c [perm [mask [E [_ [_ Hmin]]]]]].
  exists c, perm, mask. split; [exact E|exact Hmin].
Qed.

Theorem p_min : forall n t, (n <= 8)%nat -> wf n t ->
  exists c perm, p_canonization n t = Ok (c, perm) /\
    forall perm' c', is_perm n perm' -> wf n c' ->
      (forall y, y < 2 ^ N.of_nat n -> val c' y = act n perm' 0 (val t) y) -> big c <= big c'.
Proof.
  intros n t Hn Hwf. destruct (p_main n t Hn Hwf) as [c [perm [E [_ [_ Hmin]]]]].
  exists c, perm. split; [exact E|exact Hmin].
Qed.

Theorem n_min : forall n t, (n <= 8)%nat -> wf n t ->
  exists c mask, n_canonization n t = Ok (c, mask) /\
    forall mask' c', mask' < 2 ^ (N.of_nat n + 1) -> wf n c' ->
      (forall y, y < 2 ^ N.of_nat n -> val c' y = act n (identity n) mask' (val t) y) -> big c <= big c'.
Proof.
  intros n t Hn Hwf. destruct (n_main n t Hn Hwf) as [c [mask [E [_ [_ Hmin]]]]].
  exists c, mask. split; [exact E|exact Hmin].
Qed.

(* the same in the library's own order *)
Lemma le_big_cmp n c c' : wf n c -> wf n c' -> big c <= big c' -> cmp c c' = Ok Lt \/ c = c'.
Proof.
  intros Hc Hc' Hle. rewrite cmp_big.
  2:{ rewrite (wf_length n c Hc), (wf_length n c' Hc'). reflexivity. }
  2:{ apply (wf_Forall64 n). exact Hc. }
  2:{ apply (wf_Forall64 n). exact Hc'. }
  destruct (N.compare_spec (big c) (big c')) as [E|L|G].
  - right. exact (wf_big_inj n c c' Hc Hc' E).
  - left. reflexivity.
  - lia.
Qed.

Theorem npn_min_cmp : forall n t, (n <= 8)%nat -> wf n t ->
  exists c perm mask, npn_canonization n t = Ok (c, perm, mask) /\
    forall perm' mask' c', is_perm n perm' -> mask' < 2 ^ (N.of_nat n + 1) -> wf n c' ->
      (forall y, y < 2 ^ N.of_nat n -> val c' y = act n perm' mask' (val t) y) -> cmp c c' = Ok Lt \/ c = c'.
Proof.
  intros n t Hn Hwf. destruct (npn_main n t Hn Hwf) as [c [perm [mask [E [Hwc [_ Hmin]]]]]].
  exists c, perm, mask. split; [exact E|]. intros perm' mask' c' Hp Hm Hwc' Hval.
  apply (le_big_cmp n); [exact Hwc|exact Hwc'|]. exact (Hmin perm' mask' c' Hp Hm Hwc' Hval).
Qed.

Theorem p_min_cmp : forall n t, (n <= 8)%nat -> wf n t ->
  exists c perm, p_canonization n t = Ok (c, perm) /\
    forall perm' c', is_perm n perm' -> wf n c' ->
      (forall y, y < 2 ^ N.of_nat n -> val c' y = act n perm' 0 (val t) y) -> cmp c c' = Ok Lt \/ c = c'.
Proof.
  intros n t Hn Hwf. destruct (p_main n t Hn Hwf) as [c [perm [E [Hwc [_ Hmin]]]]].
  exists c, perm. split; [exact E|]. intros perm' c' Hp Hwc' Hval.
  apply (le_big_cmp n); [exact Hwc|exact Hwc'|]. exact (Hmin perm' c' Hp Hwc' Hval).
Qed.

Theorem n_min_cmp : forall n t, (n <= 8)%nat -> wf n t ->
  exists c mask, n_canonization n t = Ok (c, mask) /\
    forall mask' c', mask' < 2 ^ (N.of_nat n + 1) -> wf n c' ->
      (forall y, y < 2 ^ N.of_nat n -> val c' y = act n (identity n) mask' (val t) y) -> cmp c c' = Ok Lt \/ c = c'.
Proof.
  intros n t Hn Hwf. destruct (n_main n t Hn Hwf) as [c [mask [E [Hwc [_ Hmin]]]]].
  exists c, mask. split; [exact E|]. intros mask' c' Hm Hwc' Hval.
  apply (le_big_cmp n); [exact Hwc|exact Hwc'|]. exact (Hmin mask' c' Hm Hwc' Hval).
Qed.
