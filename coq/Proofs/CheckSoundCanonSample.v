(* Soundness of chk_below (Checkers/Check.v): the sampled minimality check used for C04 / C05 at the sizes where the whole
   group cannot be enumerated. Whatever list of candidate group elements it is given, it accepts every table that is
   the minimum of the orbit - so a rejection is a genuine violation of minimality. *)
From Coq Require Import List NArith ZArith Arith Bool Lia Permutation.
From V Require Import Base.Res Gen.Tables Model.Kernels Model.TwoLevel Model.Canon Base.Bits Spec.Bfun Spec.Transform
  Spec.TwoLevelCost Proofs.Wf Proofs.Order Proofs.Tabulate Proofs.Coverage Proofs.ActGroup Proofs.CanonWalk
  Checkers.Check Proofs.CheckSound Proofs.CheckSoundCanon.
Import ListNotations.
Open Scope N_scope.

Lemma list_eqb_N_iff (a : list N) : forall b, list_eqb N.eqb a b = true <-> a = b.
Proof.
  induction a as [|x a IH]; intros [|y b]; cbn [list_eqb]; split; try congruence; try reflexivity.
  - intros H. apply andb_true_iff in H. destruct H as [H1 H2]. apply N.eqb_eq in H1. apply IH in H2. congruence.
  - intros H. injection H as -> ->. apply andb_true_iff. split; [apply N.eqb_refl|apply IH; reflexivity].
Qed.

Theorem in_groupb_iff g n perm mask : in_groupb g n perm mask = true <-> in_group g n perm mask.
Proof.
  destruct g as [|[|g]]; cbn [in_groupb in_group]; rewrite andb_true_iff.
  - rewrite is_permb_iff, N.eqb_eq. reflexivity.
  - rewrite list_eqb_N_iff, N.ltb_lt. reflexivity.
  - rewrite is_permb_iff, N.ltb_lt. reflexivity.
Qed.

(* exact meaning: the representative is not above the image by any listed element that belongs to the group *)
Theorem chk_below_iff g n f c elems :
  chk_below g n f c elems = true <->
  forall perm' mask', In (perm', mask') elems -> in_group g n perm' mask' -> bigN c <= act_num n perm' mask' f.
Proof.
  unfold chk_below. cbv zeta. rewrite forallb_forall. split.
  - intros H p m Hin Hg. specialize (H (p, m) Hin). cbn [fst snd] in H.
    apply in_groupb_iff in Hg. rewrite Hg in H. cbn [implb] in H. apply N.leb_le. exact H.
  - intros H [p m] Hin. cbn [fst snd]. destruct (in_groupb g n p m) eqn:E; [|reflexivity].
    cbn [implb]. apply N.leb_le. apply H; [exact Hin|apply in_groupb_iff; exact E].
Qed.

(* a table that passes the full enumeration passes every sample *)
Theorem chk_minimal_below g n f c elems : chk_minimal g n f c = true -> chk_below g n f c elems = true.
Proof.
  intros H. apply chk_below_iff. intros p m _ Hg. exact (proj1 (chk_minimal_iff g n f c) H p m Hg).
Qed.

(* with the whole group listed, the sample is the full check *)
Theorem chk_below_complete g n f c elems :
  (forall p m, in_group g n p m -> In (p, m) elems) -> chk_below g n f c elems = true -> chk_minimal g n f c = true.
Proof.
  intros Hall H. apply chk_minimal_iff. intros p m Hg. exact (proj1 (chk_below_iff g n f c elems) H p m (Hall p m Hg) Hg).
Qed.

(* the model's representatives pass, whatever the sample (statements of C04_p_min, C04_n_min, C04_npn_min) *)
Theorem chk_below_p_model n t c perm elems : (n <= 8)%nat -> wf n t ->
  p_canonization n t = Ok (c, perm) -> chk_below 0 n t c elems = true.
Proof. intros Hn Ht E. apply chk_minimal_below. exact (chk_minimal_p_model n t c perm Hn Ht E). Qed.

Theorem chk_below_n_model n t c mask elems : (n <= 8)%nat -> wf n t ->
  n_canonization n t = Ok (c, mask) -> chk_below 1 n t c elems = true.
Proof. intros Hn Ht E. apply chk_minimal_below. exact (chk_minimal_n_model n t c mask Hn Ht E). Qed.

Theorem chk_below_npn_model n t c perm mask elems : (n <= 8)%nat -> wf n t ->
  npn_canonization n t = Ok (c, perm, mask) -> chk_below 2 n t c elems = true.
Proof. intros Hn Ht E. apply chk_minimal_below. exact (chk_minimal_npn_model n t c perm mask Hn Ht E). Qed.

(* a rejection exhibits an element of the group whose image is strictly below the returned table *)
Theorem chk_below_reject g n f c elems : chk_below g n f c elems = false ->
  exists perm' mask', in_group g n perm' mask' /\ act_num n perm' mask' f < bigN c.
Proof.
  intros H. unfold chk_below in H. cbv zeta in H.
  assert (Hex : existsb (fun pm => negb (implb (in_groupb g n (fst pm) (snd pm)) (bigN c <=? act_num n (fst pm) (snd pm) f))) elems = true).
  { revert H. induction elems as [|e r IH]; cbn [forallb existsb]; [discriminate|].
    intros H. apply andb_false_iff in H. apply orb_true_iff. destruct H as [H|H].
    - left. rewrite H. reflexivity.
    - right. apply IH. exact H. }
  apply existsb_exists in Hex. destruct Hex as [[p m] [_ Hx]]. cbn [fst snd] in Hx.
  apply negb_true_iff in Hx. destruct (in_groupb g n p m) eqn:Eg; [|discriminate]. cbn [implb] in Hx.
  exists p, m. split; [apply in_groupb_iff; exact Eg|]. apply N.leb_gt. exact Hx.
Qed.
