(* C03: flip, swap, cofactors and from_cofactors on whole tables: every n, every index, both storage regimes. *)
From Coq Require Import List NArith Arith Bool Lia.
From V Require Import Base.Res Gen.Tables Model.Kernels Base.Bits Base.Pieces Base.PairFold Spec.Bfun
  Proofs.Wf Proofs.Positions Proofs.WordKernels.
Import ListNotations.
Open Scope N_scope.

(* ------------------------------------------------------------------ mapM *)
Definition unres {A} (d : A) (r : res A) : A := match r with Ok a => a | _ => d end.

Lemma mapM_map {A B} (f : A -> res B) (d : B) (l : list A) :
  (forall x, In x l -> exists r, f x = Ok r) -> mapM f l = Ok (map (fun x => unres d (f x)) l).
Proof.
  induction l as [|x l IH]; intros H; [reflexivity|].
  cbn [mapM map]. destruct (H x (or_introl eq_refl)) as [r Hr]. rewrite Hr. cbn [bind unres].
  rewrite IH by (intros y Hy; apply H; right; exact Hy). reflexivity.
Qed.

Lemma nthN_map_in (f : N -> N) (l : list N) k : (k < length l)%nat -> nthN (map f l) k = f (nthN l k).
Proof.
  intros Hk. unfold nthN. rewrite (nth_indep _ 0 (f 0)) by (rewrite map_length; exact Hk). apply map_nth.
Qed.

(* a word-wise kernel: every output bit q reads input bit (src q) of the same word *)
Section WordWise.
  Variable n : nat.
  Variable f : N -> res N.
  Variable src : N -> N.
  Hypothesis f_spec : forall w, w < 2 ^ 64 ->
    exists r, f w = Ok r /\ r < 2 ^ 64 /\ forall q, q < 64 -> N.testbit r q = N.testbit w (src q).
  (* positions beyond the meaningful bits read positions beyond the meaningful bits *)
  Hypothesis src_closed : forall q, q < 64 -> word_bits n <= q -> word_bits n <= src q.

  Lemma wordwise_sem t : wf n t ->
    exists t', mapM f t = Ok t' /\ wf n t' /\
               forall k q, (k < length t)%nat -> q < 64 -> N.testbit (nthN t' k) q = N.testbit (nthN t k) (src q).
  Proof.
    intros Hwf.
    assert (Hall : forall w, In w t -> exists r, f w = Ok r).
    { intros w Hw. destruct (f_spec w) as [r [Hr _]]; [|eauto].
      destruct Hwf as [_ F]. rewrite Forall_forall in F.
      eapply N.lt_le_trans; [apply F; exact Hw|apply pow2_word_bits_le]. }
    exists (map (fun w => unres 0 (f w)) t). split; [apply mapM_map; exact Hall|].
    assert (Hw64 : forall w, In w t -> w < 2 ^ 64).
    { intros w Hw. destruct Hwf as [_ F]. rewrite Forall_forall in F.
      eapply N.lt_le_trans; [apply F; exact Hw|apply pow2_word_bits_le]. }
    split.
    - split; [rewrite map_length; apply (wf_length n t Hwf)|].
      apply Forall_forall. intros r Hr. apply in_map_iff in Hr. destruct Hr as [w [<- Hw]].
      destruct (f_spec w (Hw64 w Hw)) as [r [E [R1 R2]]]. rewrite E. cbn [unres].
      apply lt_pow2_of_bits. intros q Hq.
      destruct (N.lt_ge_cases q 64) as [Hq64|Hq64].
      + rewrite R2 by exact Hq64. apply (testbit_lt_pow2 w (word_bits n)).
        * destruct Hwf as [_ F]. rewrite Forall_forall in F. apply F. exact Hw.
        * apply src_closed; assumption.
      + apply (testbit_lt_pow2 r 64); assumption.
    - intros k q Hk Hq. rewrite nthN_map_in by exact Hk.
      destruct (f_spec (nthN t k) (Hw64 _ (nthN_In t k Hk))) as [r [E [R1 R2]]]. rewrite E. cbn [unres].
      apply R2. exact Hq.
  Qed.
End WordWise.

(* closure of the low-index position maps under "beyond the meaningful bits", decided on the finite domain *)
Definition closed_check (op : N -> N -> N) : bool :=
  forallb (fun n => forallb (fun i => forallb (fun q =>
     negb (2 ^ N.of_nat n <=? q) || (2 ^ N.of_nat n <=? op q (N.of_nat i))) positions64) (seq 0 n)) (seq 0 7).

Lemma closed_check_ok op : closed_check op = true ->
  forall n i q, (i < n)%nat -> (i < 6)%nat -> q < 64 -> word_bits n <= q -> word_bits n <= op q (N.of_nat i).
Proof.
  intros C n i q Hi Hi6 Hq Hb. unfold closed_check in C. rewrite forallb_forall in C.
  unfold word_bits in *.
  assert (Hmin : In (Nat.min n 6) (seq 0 7)) by (apply in_seq; lia).
  specialize (C _ Hmin). rewrite forallb_forall in C.
  assert (Hin : In i (seq 0 (Nat.min n 6))) by (apply in_seq; lia).
  specialize (C _ Hin). rewrite forallb_forall in C. specialize (C q (in_positions64 q Hq)).
  apply orb_true_iff in C. destruct C as [C|C].
  - apply negb_true_iff, N.leb_gt in C. lia.
  - apply N.leb_le in C. exact C.
Qed.

Lemma flipbit_closed : closed_check flipbit = true. Proof. vm_compute. reflexivity. Qed.
Lemma setbit_closed : closed_check setbit = true. Proof. vm_compute. reflexivity. Qed.
Lemma clearbit_closed : closed_check clearbit = true. Proof. vm_compute. reflexivity. Qed.

(* ------------------------------------------------------------------ low regime, at the level of val *)
Lemma val_word t m : val t m = N.testbit (nthN t (N.to_nat (m / 64))) (m mod 64).
Proof. reflexivity. Qed.

Section LowVal.
  Variable n : nat.
  Variable i : N.
  Variable op : N -> N -> N.
  Hypothesis Hi6 : i < 6.
  Hypothesis op_low : forall m, op m i / 64 = m / 64 /\ op m i mod 64 = op (m mod 64) i.

  Lemma low_val t t' :
    wf n t -> length t' = length t ->
    (forall k q, (k < length t)%nat -> q < 64 -> N.testbit (nthN t' k) q = N.testbit (nthN t k) (op q i)) ->
    forall m, m < 2 ^ N.of_nat n -> val t' m = val t (op m i).
  Proof.
    intros Hwf Hl H m Hm. destruct (assignment_in_range n m Hm) as [Hk _].
    rewrite !val_word. destruct (op_low m) as [E1 E2]. rewrite E1, E2.
    apply H; [rewrite (wf_length n t Hwf); exact Hk|apply mod64_lt].
  Qed.
End LowVal.

(* ------------------------------------------------------------------ cross-word regime: loops over word pairs
   (k, k + 2^b) with bit b of k clear *)
Lemma land_pow2_eqb x b : (N.land x (2 ^ b) =? 0) = negb (N.testbit x b).
Proof.
  destruct (N.testbit x b) eqn:E.
  - apply N.eqb_neq. intro H. assert (X : N.testbit (N.land x (2 ^ b)) b = true).
    { rewrite N.land_spec, pow2_testbit, N.eqb_refl, E. reflexivity. }
    rewrite H, N.bits_0 in X. discriminate.
  - apply N.eqb_eq. apply N.bits_inj_0. intro p. rewrite N.land_spec, pow2_testbit.
    destruct (N.eqb_spec b p) as [<-|]; [rewrite E; reflexivity|apply andb_false_r].
Qed.

Lemma of_nat_pow2 b : N.of_nat (Nat.pow 2 b) = 2 ^ N.of_nat b.
Proof. rewrite Nat2N.inj_pow. reflexivity. Qed.

Lemma Forall_nthN (P : N -> Prop) (l : list N) : (forall k, (k < length l)%nat -> P (nthN l k)) -> Forall P l.
Proof.
  intros H. apply Forall_forall. intros x Hx. apply (In_nth l x 0) in Hx. destruct Hx as [k [Hk <-]].
  apply H. exact Hk.
Qed.

Section StrideLoop.
  Variable L b : nat.             (* the table has 2^L words; the loop pairs words differing in bit b *)
  Hypothesis Hb : (b < L)%nat.
  Variable g : N -> N -> N * N.
  Let stride := Nat.pow 2 b.
  Let len := Nat.pow 2 L.
  Let P (k : nat) : bool := N.land (N.of_nat k) (N.of_nat stride) =? 0.
  Let s (k : nat) : nat := (k + stride)%nat.

  Lemma P_testbit k : P k = negb (N.testbit (N.of_nat k) (N.of_nat b)).
  Proof. unfold P, stride. rewrite of_nat_pow2. apply land_pow2_eqb. Qed.

  Lemma lt_len k : (k < len)%nat <-> N.of_nat k < 2 ^ N.of_nat L.
  Proof. unfold len. rewrite <- of_nat_pow2. lia. Qed.

  Lemma s_lt k : (k < len)%nat -> P k = true -> (s k < len)%nat.
  Proof.
    intros Hk Pk. rewrite P_testbit in Pk. apply negb_true_iff in Pk.
    apply lt_len. apply lt_len in Hk. unfold s, stride. rewrite Nat2N.inj_add, of_nat_pow2.
    destruct (add_pow2_clear _ _ Pk) as [_ E]. rewrite E. apply setbit_lt; [lia|exact Hk].
  Qed.

  Lemma s_notP k : (k < len)%nat -> P k = true -> P (s k) = false.
  Proof.
    intros _ Pk. rewrite P_testbit in *. apply negb_true_iff in Pk. apply negb_false_iff.
    unfold s, stride. rewrite Nat2N.inj_add, of_nat_pow2.
    destruct (add_pow2_clear _ _ Pk) as [_ E]. rewrite E, setbit_testbit, N.eqb_refl. apply orb_true_r.
  Qed.

  Lemma s_inj k j : (k < len)%nat -> (j < len)%nat -> P k = true -> P j = true -> s k = s j -> k = j.
  Proof. unfold s. lia. Qed.

  Lemma notP_image k : (k < len)%nat -> P k = false ->
    (stride <= k)%nat /\ P (k - stride) = true /\ s (k - stride) = k.
  Proof.
    intros Hk Pk. rewrite P_testbit in Pk. apply negb_false_iff in Pk.
    destruct (sub_pow2_set _ _ Pk) as [_ [E Hle]].
    assert (Hs : (stride <= k)%nat) by (unfold stride; rewrite <- of_nat_pow2 in Hle; lia).
    split; [exact Hs|]. split; [|unfold s; lia].
    rewrite P_testbit. apply negb_true_iff. rewrite Nat2N.inj_sub. unfold stride. rewrite of_nat_pow2, E.
    rewrite clearbit_testbit, N.eqb_refl. apply andb_false_r.
  Qed.

  Lemma stride_loop t : length t = len ->
    let t' := fold_left (pstep N 0 P s g) (seq 0 len) t in
    length t' = len /\
    forall k, (k < len)%nat ->
      nthN t' k = if P k then fst (g (nthN t k) (nthN t (k + stride)))
                  else snd (g (nthN t (k - stride)) (nthN t k)).
  Proof.
    intros Hlen. destruct (loop_full N 0 P s g len s_lt s_notP s_inj t Hlen) as [H1 [H2 H3]].
    cbv zeta. split; [exact H1|]. intros k Hk. destruct (P k) eqn:Pk.
    - apply (H2 k Hk Pk).
    - destruct (notP_image k Hk Pk) as [Hs [Pk' Sk]].
      assert (Hk' : (k - stride < len)%nat) by lia.
      destruct (H2 (k - stride)%nat Hk' Pk') as [_ E]. rewrite Sk in E. unfold nthN. rewrite E.
      unfold s. replace (k - stride + stride)%nat with k by lia. reflexivity.
  Qed.
End StrideLoop.

Section HighVal.
  Variable n : nat.
  Variable i : N.
  Variable op : N -> N -> N.
  Hypothesis Hi6 : 6 <= i.
  Hypothesis op_high : forall m, op m i / 64 = op (m / 64) (i - 6) /\ op m i mod 64 = m mod 64.

  Lemma high_val t t' :
    wf n t -> length t' = length t ->
    (forall k, (k < length t)%nat -> nthN t' k = nthN t (N.to_nat (op (N.of_nat k) (i - 6)))) ->
    forall m, m < 2 ^ N.of_nat n -> val t' m = val t (op m i).
  Proof.
    intros Hwf Hl H m Hm. destruct (assignment_in_range n m Hm) as [Hk _].
    rewrite !val_word. destruct (op_high m) as [E1 E2]. rewrite E1, E2.
    rewrite H by (rewrite (wf_length n t Hwf); exact Hk). rewrite N2Nat.id. reflexivity.
  Qed.
End HighVal.

Lemma table_size_high n : (6 <= n)%nat -> table_size n = Nat.pow 2 (n - 6).
Proof. intros H. unfold table_size. rewrite Nat.max_l by exact H. reflexivity. Qed.

Lemma word_bits_high n : (6 <= n)%nat -> word_bits n = 64.
Proof. intros H. unfold word_bits. rewrite Nat.min_r by exact H. reflexivity. Qed.

Lemma chk_len_ok n t : wf n t -> chk_len n t = Ok tt.
Proof. intros [H _]. unfold chk_len. rewrite H, Nat.eqb_refl. reflexivity. Qed.

Lemma chk_ind_ok n ind : ind < N.of_nat n -> chk_ind n ind = Ok tt.
Proof. intros H. unfold chk_ind. apply N.ltb_lt in H. rewrite H. reflexivity. Qed.

(* common shape of the high regime of flip / cofactor0 / cofactor1: the new word k is the old word (op k b) *)
Section HighKernel.
  Variable n : nat.
  Variable ind : N.
  Hypothesis Hind : ind < N.of_nat n.
  Hypothesis Hhigh : 6 <= ind.
  Variable g : N -> N -> N * N.
  Variable op : N -> N -> N.
  Let b := (N.to_nat ind - 6)%nat.
  Let stride := Nat.pow 2 b.
  (* g moves whole words: the result words are among the argument words, as op prescribes *)
  Hypothesis g_op : forall (t : list N) k,
    N.testbit (N.of_nat k) (N.of_nat b) = false ->
    fst (g (nthN t k) (nthN t (k + stride))) = nthN t (N.to_nat (op (N.of_nat k) (N.of_nat b))) /\
    snd (g (nthN t k) (nthN t (k + stride))) = nthN t (N.to_nat (op (N.of_nat (k + stride)) (N.of_nat b))).
  Hypothesis op_high : forall m, op m ind / 64 = op (m / 64) (ind - 6) /\ op m ind mod 64 = m mod 64.
  Hypothesis op_lt : forall k L, N.of_nat b < L -> k < 2 ^ L -> op k (N.of_nat b) < 2 ^ L.

  Lemma high_kernel_sem t : wf n t ->
    let P k := N.land (N.of_nat k) (N.of_nat stride) =? 0 in
    let t' := fold_left (pstep N 0 P (fun k => (k + stride)%nat) g) (seq 0 (length t)) t in
    wf n t' /\ forall m, m < 2 ^ N.of_nat n -> val t' m = val t (op m ind).
  Proof.
    intros Hwf. cbv zeta.
    assert (Hn : (6 < n)%nat) by lia.
    assert (Hlen : length t = Nat.pow 2 (n - 6)) by (rewrite (wf_length n t Hwf); apply table_size_high; lia).
    assert (Hb : (b < n - 6)%nat) by (unfold b; lia).
    destruct (stride_loop (n - 6) b Hb g t Hlen) as [S1 S2]. fold stride in S1, S2. rewrite <- Hlen in S1, S2.
    set (t' := fold_left _ _ t) in *.
    assert (Hidx : forall k, (k < length t)%nat -> nthN t' k = nthN t (N.to_nat (op (N.of_nat k) (N.of_nat b)))).
    { assert (PT : forall k, (N.land (N.of_nat k) (N.of_nat stride) =? 0) = negb (N.testbit (N.of_nat k) (N.of_nat b)))
        by (intro k; apply (P_testbit b)).
      intros k Hk. rewrite (S2 k Hk). rewrite PT.
      destruct (N.testbit (N.of_nat k) (N.of_nat b)) eqn:Eb; cbn [negb].
      - (* bit set: k = k' + stride *)
        assert (Pk : (N.land (N.of_nat k) (N.of_nat stride) =? 0) = false) by (rewrite PT, Eb; reflexivity).
        rewrite Hlen in Hk.
        destruct (notP_image (n - 6) b Hb k Hk Pk) as [Hs [Pk' _]].
        change (Nat.pow 2 b) with stride in Hs, Pk'. rewrite PT in Pk'.
        apply negb_true_iff in Pk'.
        destruct (g_op t (k - stride)%nat Pk') as [_ G2].
        replace (k - stride + stride)%nat with k in G2 by lia. exact G2.
      - destruct (g_op t k Eb) as [G1 _]. exact G1. }
    split.
    - split; [rewrite S1; apply (wf_length n t Hwf)|].
      rewrite word_bits_high by lia. apply Forall_nthN. intros k Hk. rewrite S1 in Hk.
      rewrite (Hidx k Hk). apply (wf_word_lt64 n). exact Hwf.
    - apply (high_val n ind op op_high t t' Hwf S1).
      intros k Hk. rewrite (Hidx k Hk). unfold b. f_equal. f_equal. f_equal. lia.
  Qed.
End HighKernel.

(* ------------------------------------------------------------------ helpers on upd *)
Lemma upd_same (l : list N) i : upd l i (nthN l i) = l.
Proof.
  unfold nthN. revert i. induction l as [|x l IH]; intros [|i]; simpl; try reflexivity. rewrite IH. reflexivity.
Qed.

Lemma nthN_upd_other (l : list N) i j x : i <> j -> nthN (upd l i x) j = nthN l j.
Proof.
  unfold nthN. revert i j. induction l as [|y l IH]; intros [|i] [|j] H; simpl; try reflexivity; try congruence.
  apply IH. congruence.
Qed.

Lemma fold_left_ext {A B} (f g : A -> B -> A) l a : (forall a b, f a b = g a b) -> fold_left f l a = fold_left g l a.
Proof. intros H. revert a. induction l as [|x l IH]; intro a; simpl; [reflexivity|]. rewrite H. apply IH. Qed.

Lemma pow2_pos b : (0 < Nat.pow 2 b)%nat.
Proof. apply Nat.neq_0_lt_0, Nat.pow_nonzero. lia. Qed.

(* bit arithmetic used by the g_op side conditions *)
Lemma idx_flip_clear k b : N.testbit (N.of_nat k) (N.of_nat b) = false ->
  N.to_nat (flipbit (N.of_nat k) (N.of_nat b)) = (k + Nat.pow 2 b)%nat /\
  N.to_nat (setbit (N.of_nat k) (N.of_nat b)) = (k + Nat.pow 2 b)%nat /\
  N.to_nat (clearbit (N.of_nat k) (N.of_nat b)) = k.
Proof.
  intros H. destruct (add_pow2_clear _ _ H) as [E1 E2]. split; [|split].
  - rewrite <- E1, <- of_nat_pow2. lia.
  - rewrite <- E2, <- of_nat_pow2. lia.
  - replace (clearbit (N.of_nat k) (N.of_nat b)) with (N.of_nat k); [lia|].
    apply N.bits_inj. intro p. rewrite clearbit_testbit.
    destruct (N.eqb_spec (N.of_nat b) p) as [<-|]; [rewrite H; reflexivity|rewrite andb_true_r; reflexivity].
Qed.

Lemma idx_flip_set k b : N.testbit (N.of_nat k) (N.of_nat b) = false ->
  let k' := (k + Nat.pow 2 b)%nat in
  N.to_nat (flipbit (N.of_nat k') (N.of_nat b)) = k /\
  N.to_nat (clearbit (N.of_nat k') (N.of_nat b)) = k /\
  N.to_nat (setbit (N.of_nat k') (N.of_nat b)) = k'.
Proof.
  intros H. cbv zeta. destruct (add_pow2_clear _ _ H) as [E1 E2].
  assert (K : N.of_nat (k + Nat.pow 2 b) = setbit (N.of_nat k) (N.of_nat b)).
  { rewrite Nat2N.inj_add, of_nat_pow2. exact E2. }
  assert (S : N.testbit (N.of_nat (k + Nat.pow 2 b)) (N.of_nat b) = true).
  { rewrite K, setbit_testbit, N.eqb_refl. apply orb_true_r. }
  destruct (sub_pow2_set _ _ S) as [F1 [F2 F3]]. split; [|split].
  - rewrite <- F1. rewrite Nat2N.inj_add, of_nat_pow2. lia.
  - rewrite <- F2. rewrite Nat2N.inj_add, of_nat_pow2. lia.
  - replace (setbit (N.of_nat (k + Nat.pow 2 b)) (N.of_nat b)) with (N.of_nat (k + Nat.pow 2 b)); [lia|].
    apply N.bits_inj. intro p. rewrite setbit_testbit.
    destruct (N.eqb_spec (N.of_nat b) p) as [<-|]; [rewrite S; reflexivity|rewrite orb_false_r; reflexivity].
Qed.

(* ------------------------------------------------------------------ flip *)
Theorem flip_sem n t ind : wf n t -> ind < N.of_nat n ->
  exists t', flip_inplace n t ind = Ok t' /\ wf n t' /\
             forall m, m < 2 ^ N.of_nat n -> val t' m = val t (flipbit m ind).
Proof.
  intros Hwf Hind. unfold flip_inplace. rewrite (chk_len_ok n t Hwf), (chk_ind_ok n ind Hind). cbn [bind].
  destruct (Nat.leb_spec (N.to_nat ind) 5) as [Hlow|Hhigh].
  - set (i := N.to_nat ind). assert (Hi : (i < 6)%nat) by (unfold i; lia).
    assert (Ei : N.of_nat i = ind) by (unfold i; lia).
    destruct (wordwise_sem n (flip_word i) (fun q => flipbit q (N.of_nat i))) with (t := t) as [t' [T1 [T2 T3]]].
    + intros w Hw. apply flip_word_spec; assumption.
    + intros q Hq Hb. apply (closed_check_ok flipbit flipbit_closed n i q); try assumption. lia.
    + exact Hwf.
    + exists t'. split; [exact T1|]. split; [exact T2|]. rewrite <- Ei.
      apply (low_val n (N.of_nat i) flipbit) with (t := t).
      * intro m. apply flipbit_low. lia.
      * exact Hwf.
      * destruct T2 as [L _]. rewrite L. symmetry. apply (wf_length n t Hwf).
      * exact T3.
  - eexists. split; [reflexivity|].
    set (b := (N.to_nat ind - 6)%nat).
    pose proof (high_kernel_sem n ind Hind ltac:(lia) (fun a b => (b, a)) flipbit) as HK.
    cbv zeta in HK. apply HK.
    + intros t0 k Hk. fold b in Hk. cbn [fst snd]. destruct (idx_flip_clear k b Hk) as [E1 _].
      destruct (idx_flip_set k b Hk) as [E2 _]. cbv zeta in E2. fold b. rewrite E1, E2. split; reflexivity.
    + intro m. apply flipbit_high. lia.
    + exact Hwf.
Qed.

(* ------------------------------------------------------------------ cofactors *)
Lemma cof0_step_pstep stride t i : (0 < stride)%nat ->
  cof0_high_step stride t i =
  pstep N 0 (fun k => N.land (N.of_nat k) (N.of_nat stride) =? 0) (fun k => (k + stride)%nat) (fun a _ => (a, a)) t i.
Proof.
  intros Hs. unfold cof0_high_step, pstep. destruct (N.land (N.of_nat i) (N.of_nat stride) =? 0); [|reflexivity].
  change (nth i t 0) with (nthN t i). rewrite upd_same. reflexivity.
Qed.

Lemma cof1_step_pstep stride t i : (0 < stride)%nat ->
  cof1_high_step stride t i =
  pstep N 0 (fun k => N.land (N.of_nat k) (N.of_nat stride) =? 0) (fun k => (k + stride)%nat) (fun _ b => (b, b)) t i.
Proof.
  intros Hs. unfold cof1_high_step, pstep. destruct (N.land (N.of_nat i) (N.of_nat stride) =? 0); [|reflexivity].
  change (nth (i + stride) t 0) with (nthN t (i + stride)).
  set (X := nthN t (i + stride)).
  assert (E : nthN (upd t i X) (i + stride) = X) by (apply nthN_upd_other; lia).
  etransitivity; [symmetry; apply (upd_same (upd t i X) (i + stride))|]. rewrite E. reflexivity.
Qed.

Theorem cofactor0_sem n t ind : wf n t -> ind < N.of_nat n ->
  exists t', cofactor0_inplace n t ind = Ok t' /\ wf n t' /\
             forall m, m < 2 ^ N.of_nat n -> val t' m = val t (clearbit m ind).
Proof.
  intros Hwf Hind. unfold cofactor0_inplace. rewrite (chk_len_ok n t Hwf), (chk_ind_ok n ind Hind). cbn [bind].
  destruct (Nat.leb_spec (N.to_nat ind) 5) as [Hlow|Hhigh].
  - set (i := N.to_nat ind). assert (Hi : (i < 6)%nat) by (unfold i; lia).
    assert (Ei : N.of_nat i = ind) by (unfold i; lia).
    destruct (wordwise_sem n (cof0_word i) (fun q => clearbit q (N.of_nat i))) with (t := t) as [t' [T1 [T2 T3]]].
    + intros w Hw. apply cof0_word_spec; assumption.
    + intros q Hq Hb. apply (closed_check_ok clearbit clearbit_closed n i q); try assumption. lia.
    + exact Hwf.
    + exists t'. split; [exact T1|]. split; [exact T2|]. rewrite <- Ei.
      apply (low_val n (N.of_nat i) clearbit) with (t := t).
      * intro m. apply clearbit_low. lia.
      * exact Hwf.
      * destruct T2 as [L _]. rewrite L. symmetry. apply (wf_length n t Hwf).
      * exact T3.
  - eexists. split; [reflexivity|].
    set (b := (N.to_nat ind - 6)%nat).
    rewrite (fold_left_ext _ _ _ _ (fun a k => cof0_step_pstep (Nat.pow 2 b) a k (pow2_pos b))).
    pose proof (high_kernel_sem n ind Hind ltac:(lia) (fun a _ => (a, a)) clearbit) as HK.
    cbv zeta in HK. apply HK.
    + intros t0 k Hk. fold b in Hk. cbn [fst snd]. destruct (idx_flip_clear k b Hk) as [_ [_ E1]].
      destruct (idx_flip_set k b Hk) as [_ [E2 _]]. cbv zeta in E2. fold b. rewrite E1, E2. split; reflexivity.
    + intro m. apply clearbit_high. lia.
    + exact Hwf.
Qed.

Theorem cofactor1_sem n t ind : wf n t -> ind < N.of_nat n ->
  exists t', cofactor1_inplace n t ind = Ok t' /\ wf n t' /\
             forall m, m < 2 ^ N.of_nat n -> val t' m = val t (setbit m ind).
Proof.
  intros Hwf Hind. unfold cofactor1_inplace. rewrite (chk_len_ok n t Hwf), (chk_ind_ok n ind Hind). cbn [bind].
  destruct (Nat.leb_spec (N.to_nat ind) 5) as [Hlow|Hhigh].
  - set (i := N.to_nat ind). assert (Hi : (i < 6)%nat) by (unfold i; lia).
    assert (Ei : N.of_nat i = ind) by (unfold i; lia).
    destruct (wordwise_sem n (cof1_word i) (fun q => setbit q (N.of_nat i))) with (t := t) as [t' [T1 [T2 T3]]].
    + intros w Hw. apply cof1_word_spec; assumption.
    + intros q Hq Hb. apply (closed_check_ok setbit setbit_closed n i q); try assumption. lia.
    + exact Hwf.
    + exists t'. split; [exact T1|]. split; [exact T2|]. rewrite <- Ei.
      apply (low_val n (N.of_nat i) setbit) with (t := t).
      * intro m. apply setbit_low. lia.
      * exact Hwf.
      * destruct T2 as [L _]. rewrite L. symmetry. apply (wf_length n t Hwf).
      * exact T3.
  - eexists. split; [reflexivity|].
    set (b := (N.to_nat ind - 6)%nat).
    rewrite (fold_left_ext _ _ _ _ (fun a k => cof1_step_pstep (Nat.pow 2 b) a k (pow2_pos b))).
    pose proof (high_kernel_sem n ind Hind ltac:(lia) (fun _ b => (b, b)) setbit) as HK.
    cbv zeta in HK. apply HK.
    + intros t0 k Hk. fold b in Hk. cbn [fst snd]. destruct (idx_flip_clear k b Hk) as [_ [E1 _]].
      destruct (idx_flip_set k b Hk) as [_ [_ E2]]. cbv zeta in E2. fold b. rewrite E1, E2. split; reflexivity.
    + intro m. apply setbit_high. lia.
    + exact Hwf.
Qed.

(* the cofactors do not depend on the variable *)
Corollary cofactor0_independent n t ind t' : wf n t -> ind < N.of_nat n -> cofactor0_inplace n t ind = Ok t' ->
  forall m, m < 2 ^ N.of_nat n -> val t' (flipbit m ind) = val t' m.
Proof.
  intros Hwf Hind E m Hm. destruct (cofactor0_sem n t ind Hwf Hind) as [t'' [E' [_ H]]].
  rewrite E in E'. injection E' as <-.
  rewrite H by (apply flipbit_lt; assumption). rewrite H by exact Hm. f_equal.
  apply N.bits_inj. intro p. rewrite !clearbit_testbit, flipbit_testbit.
  destruct (N.eqb_spec ind p); [rewrite !andb_false_r; reflexivity|rewrite xorb_false_r; reflexivity].
Qed.

Corollary cofactor1_independent n t ind t' : wf n t -> ind < N.of_nat n -> cofactor1_inplace n t ind = Ok t' ->
  forall m, m < 2 ^ N.of_nat n -> val t' (flipbit m ind) = val t' m.
Proof.
  intros Hwf Hind E m Hm. destruct (cofactor1_sem n t ind Hwf Hind) as [t'' [E' [_ H]]].
  rewrite E in E'. injection E' as <-.
  rewrite H by (apply flipbit_lt; assumption). rewrite H by exact Hm. f_equal.
  apply N.bits_inj. intro p. rewrite !setbit_testbit, flipbit_testbit.
  destruct (N.eqb_spec ind p); [rewrite !orb_true_r; reflexivity|rewrite xorb_false_r; reflexivity].
Qed.

(* ------------------------------------------------------------------ from_cofactors *)
Lemma nthN_map_seq (f : nat -> N) len k : (k < len)%nat -> nthN (map f (seq 0 len)) k = f k.
Proof.
  intros Hk. unfold nthN. rewrite (nth_indep _ 0 (f 0%nat)) by (rewrite map_length, seq_length; exact Hk).
  rewrite map_nth. rewrite seq_nth by exact Hk. reflexivity.
Qed.

Theorem from_cofactors_sem n t t0 t1 ind : wf n t -> wf n t0 -> wf n t1 -> ind < N.of_nat n ->
  exists t', from_cofactors_inplace n t t0 t1 ind = Ok t' /\ wf n t' /\
             forall m, m < 2 ^ N.of_nat n -> val t' m = if N.testbit m ind then val t1 m else val t0 m.
Proof.
  intros Hwf H0 H1 Hind. unfold from_cofactors_inplace.
  rewrite (chk_len_ok n t Hwf), (chk_len_ok n t0 H0), (chk_len_ok n t1 H1), (chk_ind_ok n ind Hind). cbn [bind].
  assert (Hlen : length t = table_size n) by apply (wf_length n t Hwf).
  destruct (Nat.leb_spec (N.to_nat ind) 5) as [Hlow|Hhigh].
  - set (i := N.to_nat ind). assert (Hi : (i < 6)%nat) by (unfold i; lia).
    assert (Ei : N.of_nat i = ind) by (unfold i; lia).
    set (f := fun k => from_cof_word i (nthN t0 k) (nthN t1 k)).
    assert (Hf : forall k, exists r, f k = Ok r /\ r < 2 ^ 64 /\
              forall q, q < 64 -> N.testbit r q = if N.testbit q (N.of_nat i) then N.testbit (nthN t1 k) q
                                                  else N.testbit (nthN t0 k) q).
    { intro k. apply from_cof_word_spec; [exact Hi|apply (wf_word_lt64 n t0 k H0)|apply (wf_word_lt64 n t1 k H1)]. }
    exists (map (fun k => unres 0 (f k)) (seq 0 (length t))). split.
    + apply mapM_map. intros k _. destruct (Hf k) as [r [E _]]. eauto.
    + assert (Hw : forall k, (k < length t)%nat ->
                forall q, N.testbit (nthN (map (fun k => unres 0 (f k)) (seq 0 (length t))) k) q =
                          if q <? 64 then (if N.testbit q (N.of_nat i) then N.testbit (nthN t1 k) q
                                           else N.testbit (nthN t0 k) q) else false).
      { intros k Hk q. rewrite nthN_map_seq by exact Hk. destruct (Hf k) as [r [E [R1 R2]]]. rewrite E. cbn [unres].
        destruct (N.ltb_spec q 64) as [Hq|Hq]; [apply R2; exact Hq|apply (testbit_lt_pow2 r 64); assumption]. }
      split.
      * split; [rewrite map_length, seq_length; exact Hlen|].
        apply Forall_nthN. intros k Hk. rewrite map_length, seq_length in Hk.
        apply lt_pow2_of_bits. intros q Hq. rewrite (Hw k Hk).
        destruct (q <? 64); [|reflexivity].
        rewrite (testbit_lt_pow2 _ _ q (wf_word_lt n t0 k H0) Hq), (testbit_lt_pow2 _ _ q (wf_word_lt n t1 k H1) Hq).
        destruct (N.testbit q (N.of_nat i)); reflexivity.
      * intros m Hm. destruct (assignment_in_range n m Hm) as [Hk _].
        rewrite !val_word. rewrite Hw by (rewrite Hlen; exact Hk).
        pose proof (mod64_lt m) as Hq. apply N.ltb_lt in Hq. rewrite Hq.
        rewrite (testbit_split m ind). rewrite Ei. assert (E6 : (ind <? 6) = true) by (apply N.ltb_lt; lia).
        rewrite E6. reflexivity.
  - eexists. split; [reflexivity|].
    set (b := (N.to_nat ind - 6)%nat).
    assert (Hw : forall k, (k < length t)%nat ->
              nthN (map (fun k => if N.land (N.of_nat k) (N.of_nat (Nat.pow 2 b)) =? 0 then nthN t0 k else nthN t1 k)
                        (seq 0 (length t))) k =
              if N.testbit (N.of_nat k) (N.of_nat b) then nthN t1 k else nthN t0 k).
    { intros k Hk. rewrite nthN_map_seq by exact Hk. rewrite of_nat_pow2, land_pow2_eqb.
      destruct (N.testbit (N.of_nat k) (N.of_nat b)); reflexivity. }
    split.
    + split; [rewrite map_length, seq_length; exact Hlen|].
      apply Forall_nthN. intros k Hk. rewrite map_length, seq_length in Hk. rewrite (Hw k Hk).
      destruct (N.testbit (N.of_nat k) (N.of_nat b)); [apply (wf_word_lt n t1 k H1)|apply (wf_word_lt n t0 k H0)].
    + intros m Hm. destruct (assignment_in_range n m Hm) as [Hk _].
      rewrite !val_word. rewrite Hw by (rewrite Hlen; exact Hk).
      rewrite (testbit_split m ind). assert (E6 : (ind <? 6) = false) by (apply N.ltb_ge; lia). rewrite E6.
      rewrite N2Nat.id. replace (N.of_nat b) with (ind - 6) by (unfold b; lia).
      destruct (N.testbit (m / 64) (ind - 6)); reflexivity.
Qed.

(* ------------------------------------------------------------------ swap *)
Lemma swapbits_comm m i j : swapbits m i j = swapbits m j i.
Proof.
  apply N.bits_inj. intro p. rewrite !swapbits_testbit.
  destruct (N.eqb_spec p i) as [Hi|Hi], (N.eqb_spec p j) as [Hj|Hj]; subst; reflexivity.
Qed.

Lemma swapbits_same m i : swapbits m i i = m.
Proof.
  apply N.bits_inj. intro p. rewrite swapbits_testbit. destruct (N.eqb_spec p i) as [->|]; reflexivity.
Qed.

Lemma swapbits_low m i j : i < 6 -> j < 6 ->
  swapbits m i j / 64 = m / 64 /\ swapbits m i j mod 64 = swapbits (m mod 64) i j.
Proof.
  intros Hi Hj. split.
  - apply N.bits_inj. intro p. rewrite !div64_testbit, swapbits_testbit.
    destruct (N.eqb_spec (p + 6) i); [lia|]. destruct (N.eqb_spec (p + 6) j); [lia|]. reflexivity.
  - apply N.bits_inj. intro p. rewrite mod64_testbit, !swapbits_testbit, !mod64_testbit.
    assert (Ei : (i <? 6) = true) by (apply N.ltb_lt; exact Hi).
    assert (Ej : (j <? 6) = true) by (apply N.ltb_lt; exact Hj).
    destruct (N.eqb_spec p i) as [->|]; [rewrite Ei, Ej; reflexivity|].
    destruct (N.eqb_spec p j) as [->|]; [rewrite Ei, Ej; reflexivity|]. reflexivity.
Qed.

Lemma swapbits_high m i j : 6 <= i -> 6 <= j ->
  swapbits m i j / 64 = swapbits (m / 64) (i - 6) (j - 6) /\ swapbits m i j mod 64 = m mod 64.
Proof.
  intros Hi Hj. split.
  - apply N.bits_inj. intro p. rewrite div64_testbit, !swapbits_testbit, !div64_testbit.
    replace (i - 6 + 6) with i by lia. replace (j - 6 + 6) with j by lia.
    destruct (N.eqb_spec (p + 6) i), (N.eqb_spec p (i - 6)); try lia; try reflexivity.
    destruct (N.eqb_spec (p + 6) j), (N.eqb_spec p (j - 6)); try lia; reflexivity.
  - apply N.bits_inj. intro p. rewrite !mod64_testbit, swapbits_testbit.
    destruct (N.ltb_spec p 6); [|reflexivity].
    destruct (N.eqb_spec p i); [lia|]. destruct (N.eqb_spec p j); [lia|]. reflexivity.
Qed.

Definition closed_check2 : bool :=
  forallb (fun n => forallb (fun i => forallb (fun j => forallb (fun q =>
     negb (2 ^ N.of_nat n <=? q) || (2 ^ N.of_nat n <=? swapbits q (N.of_nat i) (N.of_nat j)))
     positions64) (seq 0 n)) (seq 0 n)) (seq 0 7).
Lemma swapbits_closed : closed_check2 = true. Proof. vm_compute. reflexivity. Qed.

Lemma swapbits_closed_ok n i j q : (i < n)%nat -> (j < n)%nat -> (i < 6)%nat -> (j < 6)%nat -> q < 64 ->
  word_bits n <= q -> word_bits n <= swapbits q (N.of_nat i) (N.of_nat j).
Proof.
  intros Hi Hj Hi6 Hj6 Hq Hb. pose proof swapbits_closed as C. unfold closed_check2 in C.
  rewrite forallb_forall in C. unfold word_bits in *.
  specialize (C (Nat.min n 6) ltac:(apply in_seq; lia)). rewrite forallb_forall in C.
  specialize (C i ltac:(apply in_seq; lia)). rewrite forallb_forall in C.
  specialize (C j ltac:(apply in_seq; lia)). rewrite forallb_forall in C.
  specialize (C q (in_positions64 q Hq)).
  apply orb_true_iff in C. destruct C as [C|C].
  - apply negb_true_iff, N.leb_gt in C. lia.
  - apply N.leb_le in C. exact C.
Qed.

(* regime (a): both indices <= 5 *)
Lemma swap_low_sem n t i j : wf n t -> (j < i)%nat -> (i < 6)%nat -> (i < n)%nat ->
  exists t', mapM (swap_word_low i j) t = Ok t' /\ wf n t' /\
             forall m, m < 2 ^ N.of_nat n -> val t' m = val t (swapbits m (N.of_nat i) (N.of_nat j)).
Proof.
  intros Hwf Hj Hi Hn.
  destruct (wordwise_sem n (swap_word_low i j) (fun q => swapbits q (N.of_nat i) (N.of_nat j))) with (t := t)
    as [t' [T1 [T2 T3]]].
  - intros w Hw. apply swap_word_low_spec; assumption.
  - intros q Hq Hb. apply swapbits_closed_ok; try assumption; lia.
  - exact Hwf.
  - exists t'. split; [exact T1|]. split; [exact T2|].
    intros m Hm. destruct (assignment_in_range n m Hm) as [Hk _].
    rewrite !val_word. destruct (swapbits_low m (N.of_nat i) (N.of_nat j)) as [E1 E2]; [lia|lia|].
    rewrite E1, E2. apply T3; [rewrite (wf_length n t Hwf); exact Hk|apply mod64_lt].
Qed.

Lemma swapbits_invol m i j : swapbits (swapbits m i j) i j = m.
Proof.
  apply N.bits_inj. intro p. rewrite !swapbits_testbit.
  destruct (N.eqb_spec p i) as [Hi|Hi]; subst.
  - rewrite N.eqb_refl. destruct (N.eqb_spec j i); subst; reflexivity.
  - destruct (N.eqb_spec p j) as [Hj|Hj]; subst; [rewrite N.eqb_refl; reflexivity|reflexivity].
Qed.

(* regime (c): both indices >= 6 *)
Section SwapHigh.
  Variable L bi bj : nat.
  Hypothesis Hbi : (bi < L)%nat.
  Hypothesis Hbj : (bj < bi)%nat.
  Let mi := Nat.pow 2 bi.
  Let mj := Nat.pow 2 bj.
  Let len := Nat.pow 2 L.
  Let P (k : nat) : bool :=
    (N.land (N.of_nat mi) (N.of_nat k) =? 0) && negb (N.land (N.of_nat mj) (N.of_nat k) =? 0).
  Let s (k : nat) : nat := (k - mj + mi)%nat.
  Let g (a b : N) : N * N := (b, a).
  Let sw (k : nat) : nat := N.to_nat (swapbits (N.of_nat k) (N.of_nat bi) (N.of_nat bj)).

  Lemma P_bits k : P k = negb (N.testbit (N.of_nat k) (N.of_nat bi)) && N.testbit (N.of_nat k) (N.of_nat bj).
  Proof.
    unfold P, mi, mj. rewrite !of_nat_pow2. rewrite (N.land_comm (2 ^ N.of_nat bi)), (N.land_comm (2 ^ N.of_nat bj)).
    rewrite !land_pow2_eqb. rewrite negb_involutive. reflexivity.
  Qed.

  Lemma s_sw k : P k = true -> s k = sw k.
  Proof.
    intros Pk. rewrite P_bits in Pk. apply andb_true_iff in Pk. destruct Pk as [B1 B2]. apply negb_true_iff in B1.
    destruct (sub_pow2_set _ _ B2) as [_ [E1 Hle]].
    assert (B1' : N.testbit (clearbit (N.of_nat k) (N.of_nat bj)) (N.of_nat bi) = false).
    { rewrite clearbit_testbit, B1. reflexivity. }
    destruct (add_pow2_clear _ _ B1') as [_ E2].
    assert (E : N.of_nat (s k) = swapbits (N.of_nat k) (N.of_nat bi) (N.of_nat bj)).
    { unfold s, mi, mj. rewrite Nat2N.inj_add, Nat2N.inj_sub, !of_nat_pow2, E1, E2.
      apply N.bits_inj. intro p. rewrite setbit_testbit, clearbit_testbit, swapbits_testbit.
      destruct (N.eqb_spec p (N.of_nat bi)) as [->|Hp].
      - rewrite N.eqb_refl, B2. apply orb_true_r.
      - destruct (N.eqb_spec (N.of_nat bi) p); [congruence|]. rewrite orb_false_r.
        destruct (N.eqb_spec p (N.of_nat bj)) as [->|Hq].
        + rewrite N.eqb_refl, B1. apply andb_false_r.
        + destruct (N.eqb_spec (N.of_nat bj) p); [congruence|]. apply andb_true_r. }
    unfold sw. rewrite <- E. lia.
  Qed.

  Lemma sw_lt k : (k < len)%nat -> (sw k < len)%nat.
  Proof.
    intros Hk. unfold sw, len in *.
    assert (H : swapbits (N.of_nat k) (N.of_nat bi) (N.of_nat bj) < 2 ^ N.of_nat L).
    { apply swapbits_lt; [lia|lia|]. rewrite <- of_nat_pow2. lia. }
    rewrite <- of_nat_pow2 in H. lia.
  Qed.

  Lemma sw_invol k : sw (sw k) = k.
  Proof. unfold sw. rewrite N2Nat.id, swapbits_invol. lia. Qed.

  Lemma sw_bits k p : N.testbit (N.of_nat (sw k)) p =
    if p =? N.of_nat bi then N.testbit (N.of_nat k) (N.of_nat bj)
    else if p =? N.of_nat bj then N.testbit (N.of_nat k) (N.of_nat bi) else N.testbit (N.of_nat k) p.
  Proof. unfold sw. rewrite N2Nat.id. apply swapbits_testbit. Qed.

  Lemma swap_high_loop t : length t = len ->
    let t' := fold_left (pstep N 0 P s g) (seq 0 len) t in
    length t' = len /\ forall k, (k < len)%nat -> nthN t' k = nthN t (sw k).
  Proof.
    intros Hlen.
    assert (Hne : N.of_nat bi <> N.of_nat bj) by lia.
    assert (s_lt : forall i, (i < len)%nat -> P i = true -> (s i < len)%nat).
    { intros i Hi Pi. rewrite (s_sw i Pi). apply sw_lt. exact Hi. }
    assert (s_notP : forall i, (i < len)%nat -> P i = true -> P (s i) = false).
    { intros i Hi Pi. rewrite (s_sw i Pi). rewrite P_bits in *. rewrite !sw_bits.
      rewrite N.eqb_refl. apply andb_true_iff in Pi. destruct Pi as [_ B2]. rewrite B2. reflexivity. }
    assert (s_inj : forall i j, (i < len)%nat -> (j < len)%nat -> P i = true -> P j = true -> s i = s j -> i = j).
    { intros i j _ _ Pi Pj E. rewrite (s_sw i Pi), (s_sw j Pj) in E.
      rewrite <- (sw_invol i), <- (sw_invol j), E. reflexivity. }
    destruct (loop_full N 0 P s g len s_lt s_notP s_inj t Hlen) as [H1 [H2 H3]].
    cbv zeta. split; [exact H1|]. intros k Hk.
    destruct (P k) eqn:Pk.
    - destruct (H2 k Hk Pk) as [E _]. unfold nthN. rewrite E. unfold g. cbn [fst]. rewrite (s_sw k Pk). reflexivity.
    - destruct (P (sw k)) eqn:Pk'.
      + (* k is the image of sw k *)
        assert (Hk' : (sw k < len)%nat) by (apply sw_lt; exact Hk).
        destruct (H2 (sw k) Hk' Pk') as [_ E]. rewrite (s_sw _ Pk'), sw_invol in E.
        unfold nthN. rewrite E. unfold g. cbn [snd]. reflexivity.
      + (* the two bits are equal: untouched, and sw k = k *)
        rewrite P_bits in Pk, Pk'. rewrite !sw_bits in Pk'. rewrite N.eqb_refl in Pk'.
        destruct (N.eqb_spec (N.of_nat bj) (N.of_nat bi)) as [X|_]; [congruence|]. rewrite N.eqb_refl in Pk'.
        assert (Eq : N.testbit (N.of_nat k) (N.of_nat bi) = N.testbit (N.of_nat k) (N.of_nat bj)).
        { destruct (N.testbit (N.of_nat k) (N.of_nat bi)), (N.testbit (N.of_nat k) (N.of_nat bj));
            cbn in Pk, Pk'; congruence. }
        assert (Esw : sw k = k).
        { unfold sw. replace (swapbits (N.of_nat k) (N.of_nat bi) (N.of_nat bj)) with (N.of_nat k); [lia|].
          unfold swapbits. rewrite Eq, Bool.eqb_reflx. reflexivity. }
        rewrite Esw. unfold nthN. apply H3; [exact Hk| |].
        * rewrite P_bits. rewrite Eq. destruct (N.testbit (N.of_nat k) (N.of_nat bj)); reflexivity.
        * intros i Hi Pi E. rewrite (s_sw i Pi) in E.
          assert (Pi' := Pi). rewrite P_bits in Pi'. apply andb_true_iff in Pi'. destruct Pi' as [B1 B2].
          apply negb_true_iff in B1.
          assert (X1 : N.testbit (N.of_nat k) (N.of_nat bi) = true) by (rewrite <- E, sw_bits, N.eqb_refl; exact B2).
          assert (X2 : N.testbit (N.of_nat k) (N.of_nat bj) = false).
          { rewrite <- E, sw_bits. destruct (N.eqb_spec (N.of_nat bj) (N.of_nat bi)); [congruence|].
            rewrite N.eqb_refl. exact B1. }
          congruence.
  Qed.
End SwapHigh.

(* regime (b): j <= 5 < i. The loop body contains checked additions: first show they never fail *)
Definition cross_g (j : nat) (t0 t1 : N) : N * N :=
  let mask := var_mask j in
  let shift := N.shiftl 1 (N.of_nat j) in
  let t00 := N.land t0 (not64 mask) in
  let t01 := N.shiftr (N.land t0 mask) shift in
  let t10 := N.land t1 (not64 mask) in
  let t11 := N.shiftr (N.land t1 mask) shift in
  (unres 0 (add64 t00 (shl64 t10 shift)), unres 0 (add64 t01 (shl64 t11 shift))).

Lemma Forall_upd (P : N -> Prop) (l : list N) i x : Forall P l -> P x -> Forall P (upd l i x).
Proof.
  intros H Hx. revert i. induction H as [|y l Hy Hl IH]; intros [|i]; simpl; constructor; auto.
Qed.

Lemma nthN_Forall (P : N -> Prop) (l : list N) k : Forall P l -> P 0 -> P (nthN l k).
Proof.
  intros H H0. destruct (Nat.lt_ge_cases k (length l)) as [Hk|Hk].
  - rewrite Forall_forall in H. apply H. apply nthN_In. exact Hk.
  - rewrite nthN_overflow by exact Hk. exact H0.
Qed.

Lemma pow64_pos : 0 < 2 ^ 64.
Proof. apply N.neq_0_lt_0, N.pow_nonzero. lia. Qed.

Lemma cross_step_eq j mi t k : (j < 6)%nat -> Forall (fun w => w < 2 ^ 64) t ->
  let P k := N.land (N.of_nat k) (N.of_nat mi) =? 0 in
  let t' := pstep N 0 P (fun k => (k + mi)%nat) (cross_g j) t k in
  swap_cross_step j mi (Ok t) k = Ok t' /\ Forall (fun w => w < 2 ^ 64) t'.
Proof.
  intros Hj Ht. cbv zeta. unfold swap_cross_step, pstep. cbn [bind].
  destruct (N.land (N.of_nat k) (N.of_nat mi) =? 0); [|split; [reflexivity|exact Ht]].
  change (nth k t 0) with (nthN t k). change (nth (k + mi) t 0) with (nthN t (k + mi)).
  assert (H0 : nthN t k < 2 ^ 64) by (apply nthN_Forall; [exact Ht|apply pow64_pos]).
  assert (H1 : nthN t (k + mi) < 2 ^ 64) by (apply nthN_Forall; [exact Ht|apply pow64_pos]).
  destruct (swap_cross_words_spec j (nthN t k) (nthN t (k + mi)) Hj H0 H1) as [a [b [A [B [La [Lb _]]]]]].
  cbv zeta in A, B. fold (sh j). unfold cross_g. fold (sh j). rewrite A, B. cbn [bind unres].
  split; [reflexivity|]. apply Forall_upd; [apply Forall_upd; assumption|assumption].
Qed.

Lemma cross_fold_eq j mi l t : (j < 6)%nat -> Forall (fun w => w < 2 ^ 64) t ->
  let P k := N.land (N.of_nat k) (N.of_nat mi) =? 0 in
  fold_left (swap_cross_step j mi) l (Ok t) =
  Ok (fold_left (pstep N 0 P (fun k => (k + mi)%nat) (cross_g j)) l t).
Proof.
  intros Hj. cbv zeta. revert t. induction l as [|k l IH]; intros t Ht; [reflexivity|].
  cbn [fold_left]. destruct (cross_step_eq j mi t k Hj Ht) as [E F]. cbv zeta in E, F. rewrite E.
  apply IH. exact F.
Qed.

Lemma cross_g_spec j t0 t1 : (j < 6)%nat -> t0 < 2 ^ 64 -> t1 < 2 ^ 64 ->
  let a := fst (cross_g j t0 t1) in
  let b := snd (cross_g j t0 t1) in
  a < 2 ^ 64 /\ b < 2 ^ 64 /\
  (forall q, q < 64 -> N.testbit a q = if N.testbit q (N.of_nat j) then N.testbit t1 (q - sh j) else N.testbit t0 q) /\
  (forall q, q < 64 -> N.testbit b q = if N.testbit q (N.of_nat j) then N.testbit t1 q else N.testbit t0 (q + sh j)).
Proof.
  intros Hj H0 H1. destruct (swap_cross_words_spec j t0 t1 Hj H0 H1) as [a [b [A [B [La [Lb [Sa Sb]]]]]]].
  cbv zeta in A, B. cbv zeta. unfold cross_g. fold (sh j). rewrite A, B. cbn [fst snd unres]. auto.
Qed.

Lemma sh_pow j : sh j = 2 ^ N.of_nat j.
Proof. unfold sh. apply N.shiftl_1_l. Qed.

Lemma swapbits_diff m i j : N.testbit m i <> N.testbit m j -> swapbits m i j = flipbit (flipbit m i) j.
Proof.
  intros H. unfold swapbits. destruct (Bool.eqb (N.testbit m i) (N.testbit m j)) eqn:E; [|reflexivity].
  apply Bool.eqb_prop in E. congruence.
Qed.
Lemma swapbits_eq m i j : N.testbit m i = N.testbit m j -> swapbits m i j = m.
Proof. intros H. unfold swapbits. rewrite H, Bool.eqb_reflx. reflexivity. Qed.

Lemma swap_cross_sem n t i j : wf n t -> (6 <= i)%nat -> (i < n)%nat -> (j < 6)%nat ->
  let mi := Nat.pow 2 (i - 6) in
  let P k := N.land (N.of_nat k) (N.of_nat mi) =? 0 in
  let t' := fold_left (pstep N 0 P (fun k => (k + mi)%nat) (cross_g j)) (seq 0 (length t)) t in
  wf n t' /\ forall m, m < 2 ^ N.of_nat n -> val t' m = val t (swapbits m (N.of_nat i) (N.of_nat j)).
Proof.
  intros Hwf Hi6 Hin Hj. cbv zeta.
  assert (Hlen : length t = Nat.pow 2 (n - 6)) by (rewrite (wf_length n t Hwf); apply table_size_high; lia).
  assert (Hb : (i - 6 < n - 6)%nat) by lia.
  destruct (stride_loop (n - 6) (i - 6) Hb (cross_g j) t Hlen) as [S1 S2]. rewrite <- Hlen in S1, S2.
  set (mi := Nat.pow 2 (i - 6)) in *.
  set (t' := fold_left _ _ t) in *.
  assert (PT : forall k, (N.land (N.of_nat k) (N.of_nat mi) =? 0) = negb (N.testbit (N.of_nat k) (N.of_nat (i - 6))))
    by (intro k; apply (P_testbit (i - 6))).
  assert (W : forall k, nthN t k < 2 ^ 64) by (intro k; apply (wf_word_lt64 n t k Hwf)).
  split.
  - split; [rewrite S1; apply (wf_length n t Hwf)|].
    rewrite word_bits_high by lia. apply Forall_nthN. intros k Hk. rewrite S1 in Hk. rewrite (S2 k Hk).
    destruct (N.land (N.of_nat k) (N.of_nat mi) =? 0).
    + destruct (cross_g_spec j (nthN t k) (nthN t (k + mi)) Hj (W _) (W _)) as [A _]. exact A.
    + destruct (cross_g_spec j (nthN t (k - mi)) (nthN t k) Hj (W _) (W _)) as [_ [B _]]. exact B.
  - intros m Hm. destruct (assignment_in_range n m Hm) as [Hk _].
    set (k := N.to_nat (m / 64)) in *. set (q := m mod 64).
    assert (Hq : q < 64) by apply mod64_lt.
    assert (Hk' : (k < length t)%nat) by (rewrite (wf_length n t Hwf); exact Hk).
    assert (Ek : N.of_nat k = m / 64) by (unfold k; lia).
    assert (Bi : N.testbit m (N.of_nat i) = N.testbit (N.of_nat k) (N.of_nat (i - 6))).
    { rewrite (testbit_split m (N.of_nat i)). assert (E : (N.of_nat i <? 6) = false) by (apply N.ltb_ge; lia).
      rewrite E, Ek. f_equal. lia. }
    assert (Bj : N.testbit m (N.of_nat j) = N.testbit q (N.of_nat j)).
    { rewrite (testbit_split m (N.of_nat j)). assert (E : (N.of_nat j <? 6) = true) by (apply N.ltb_lt; lia).
      rewrite E. reflexivity. }
    (* position of the swapped assignment when the two bits differ *)
    assert (Hdiff : N.testbit m (N.of_nat i) <> N.testbit m (N.of_nat j) ->
                    swapbits m (N.of_nat i) (N.of_nat j) / 64 = flipbit (N.of_nat k) (N.of_nat (i - 6)) /\
                    swapbits m (N.of_nat i) (N.of_nat j) mod 64 = flipbit q (N.of_nat j)).
    { intros D. rewrite (swapbits_diff _ _ _ D).
      destruct (flipbit_low (flipbit m (N.of_nat i)) (N.of_nat j)) as [E1 E2]; [lia|].
      destruct (flipbit_high m (N.of_nat i)) as [E3 E4]; [lia|].
      rewrite E1, E2, E3, E4, Ek. split; [f_equal; lia|reflexivity]. }
    change (val t' m) with (N.testbit (nthN t' k) q). rewrite (S2 k Hk'), PT.
    destruct (N.testbit (N.of_nat k) (N.of_nat (i - 6))) eqn:B; cbn [negb].
    + (* x_i = 1 *)
      destruct (cross_g_spec j (nthN t (k - mi)) (nthN t k) Hj (W _) (W _)) as [_ [_ [_ Sb]]].
      rewrite (Sb q Hq). rewrite <- Bj.
      destruct (N.testbit m (N.of_nat j)) eqn:Q.
      * rewrite swapbits_eq by congruence. reflexivity.
      * destruct (Hdiff ltac:(congruence)) as [E1 E2]. rewrite val_word, E1, E2.
        destruct (sub_pow2_set _ _ B) as [F1 [_ F3]].
        assert (Qq : N.testbit q (N.of_nat j) = false) by congruence.
        destruct (add_pow2_clear _ _ Qq) as [G1 _].
        rewrite <- F1, <- G1, sh_pow. f_equal. f_equal. unfold mi. rewrite <- of_nat_pow2 in *. lia.
    + (* x_i = 0 *)
      destruct (cross_g_spec j (nthN t k) (nthN t (k + mi)) Hj (W _) (W _)) as [_ [_ [Sa _]]].
      rewrite (Sa q Hq). rewrite <- Bj.
      destruct (N.testbit m (N.of_nat j)) eqn:Q.
      * destruct (Hdiff ltac:(congruence)) as [E1 E2]. rewrite val_word, E1, E2.
        destruct (add_pow2_clear _ _ B) as [F1 _].
        assert (Qq : N.testbit q (N.of_nat j) = true) by congruence.
        destruct (sub_pow2_set _ _ Qq) as [G1 _].
        rewrite <- F1, <- G1, sh_pow. f_equal. f_equal. unfold mi. rewrite <- of_nat_pow2. lia.
      * rewrite swapbits_eq by congruence. reflexivity.
Qed.

Lemma swap_high_sem n t i j : wf n t -> (6 <= j)%nat -> (j < i)%nat -> (i < n)%nat ->
  let t' := fold_left (swap_high_step (Nat.pow 2 (i - 6)) (Nat.pow 2 (j - 6))) (seq 0 (length t)) t in
  wf n t' /\ forall m, m < 2 ^ N.of_nat n -> val t' m = val t (swapbits m (N.of_nat i) (N.of_nat j)).
Proof.
  intros Hwf Hj Hji Hin. cbv zeta.
  assert (Hlen : length t = Nat.pow 2 (n - 6)) by (rewrite (wf_length n t Hwf); apply table_size_high; lia).
  destruct (swap_high_loop (n - 6) (i - 6) (j - 6) ltac:(lia) ltac:(lia) t Hlen) as [S1 S2].
  rewrite <- Hlen in S1, S2.
  match goal with |- wf n ?x /\ _ => set (t' := x) end.
  change (length t' = length t) in S1.
  assert (S2' : forall k, (k < length t)%nat ->
            nthN t' k = nthN t (N.to_nat (swapbits (N.of_nat k) (N.of_nat (i - 6)) (N.of_nat (j - 6))))) by exact S2.
  split.
  - split; [rewrite S1; apply (wf_length n t Hwf)|].
    rewrite word_bits_high by lia. apply Forall_nthN. intros k Hk. rewrite S1 in Hk. rewrite (S2' k Hk).
    apply (wf_word_lt64 n t _ Hwf).
  - intros m Hm. destruct (assignment_in_range n m Hm) as [Hk _].
    rewrite !val_word. destruct (swapbits_high m (N.of_nat i) (N.of_nat j)) as [E1 E2]; [lia|lia|].
    rewrite E1, E2. rewrite S2' by (rewrite (wf_length n t Hwf); exact Hk). rewrite N2Nat.id.
    f_equal. f_equal. f_equal. f_equal; lia.
Qed.

Theorem swap_sem n t ind1 ind2 : wf n t -> ind1 < N.of_nat n -> ind2 < N.of_nat n ->
  exists t', swap_inplace n t ind1 ind2 = Ok t' /\ wf n t' /\
             forall m, m < 2 ^ N.of_nat n -> val t' m = val t (swapbits m ind1 ind2).
Proof.
  intros Hwf H1 H2. unfold swap_inplace.
  rewrite (chk_len_ok n t Hwf), (chk_ind_ok n ind1 H1), (chk_ind_ok n ind2 H2). cbn [bind].
  destruct (N.eqb_spec ind1 ind2) as [->|Hne].
  - exists t. split; [reflexivity|]. split; [exact Hwf|]. intros m _. rewrite swapbits_same. reflexivity.
  - set (i := N.to_nat (N.max ind1 ind2)). set (j := N.to_nat (N.min ind1 ind2)).
    assert (Hji : (j < i)%nat) by (unfold i, j; lia).
    assert (Hin : (i < n)%nat) by (unfold i; lia).
    assert (Esw : forall m, swapbits m ind1 ind2 = swapbits m (N.of_nat i) (N.of_nat j)).
    { intro m. unfold i, j. rewrite !N2Nat.id. destruct (N.max_spec ind1 ind2) as [[L ->]|[L ->]].
      - rewrite N.min_l by lia. apply swapbits_comm.
      - rewrite N.min_r by lia. reflexivity. }
    destruct (Nat.leb_spec i 5) as [Hi5|Hi5].
    + destruct (swap_low_sem n t i j Hwf Hji ltac:(lia) Hin) as [t' [T1 [T2 T3]]].
      exists t'. split; [exact T1|]. split; [exact T2|]. intros m Hm. rewrite Esw. apply T3. exact Hm.
    + destruct (Nat.leb_spec j 5) as [Hj5|Hj5].
      * rewrite (cross_fold_eq j (Nat.pow 2 (i - 6)) (seq 0 (length t)) t ltac:(lia) (wf_Forall64 n t Hwf)).
        eexists. split; [reflexivity|].
        destruct (swap_cross_sem n t i j Hwf ltac:(lia) Hin ltac:(lia)) as [T2 T3].
        split; [exact T2|]. intros m Hm. rewrite Esw. apply T3. exact Hm.
      * eexists. split; [reflexivity|].
        destruct (swap_high_sem n t i j Hwf ltac:(lia) Hji Hin) as [T2 T3].
        split; [exact T2|]. intros m Hm. rewrite Esw. apply T3. exact Hm.
Qed.

(* num_vars is a usize: n < 2^64 (the addition ind + 1 is checked in the dev profile) *)
Theorem swap_adjacent_sem n t ind : N.of_nat n < 2 ^ 64 -> wf n t -> ind + 1 < N.of_nat n ->
  exists t', swap_adjacent_inplace n t ind = Ok t' /\ wf n t' /\
             forall m, m < 2 ^ N.of_nat n -> val t' m = val t (swapbits m ind (ind + 1)).
Proof.
  intros Hn Hwf Hind. unfold swap_adjacent_inplace.
  assert (E : (ind <? ones64) = true) by (apply N.ltb_lt; pose proof ones64_succ; lia).
  rewrite E. cbn [dbg bind]. apply swap_sem; [exact Hwf|lia|exact Hind].
Qed.

(* ------------------------------------------------------------------ Shannon recomposition *)
Theorem shannon n t ind c0 c1 buf : wf n t -> wf n buf -> ind < N.of_nat n ->
  cofactor0_inplace n t ind = Ok c0 -> cofactor1_inplace n t ind = Ok c1 ->
  exists t', from_cofactors_inplace n buf c0 c1 ind = Ok t' /\ wf n t' /\
             forall m, m < 2 ^ N.of_nat n -> val t' m = val t m.
Proof.
  intros Hwf Hbuf Hind E0 E1.
  destruct (cofactor0_sem n t ind Hwf Hind) as [c0' [E0' [W0 S0]]]. rewrite E0 in E0'. injection E0' as <-.
  destruct (cofactor1_sem n t ind Hwf Hind) as [c1' [E1' [W1 S1]]]. rewrite E1 in E1'. injection E1' as <-.
  destruct (from_cofactors_sem n buf c0 c1 ind Hbuf W0 W1 Hind) as [t' [T1 [T2 T3]]].
  exists t'. split; [exact T1|]. split; [exact T2|]. intros m Hm. rewrite (T3 m Hm).
  destruct (N.testbit m ind) eqn:B.
  - rewrite (S1 m Hm). f_equal. apply N.bits_inj. intro p. rewrite setbit_testbit.
    destruct (N.eqb_spec ind p) as [<-|]; [rewrite B; reflexivity|apply orb_false_r].
  - rewrite (S0 m Hm). f_equal. apply N.bits_inj. intro p. rewrite clearbit_testbit.
    destruct (N.eqb_spec ind p) as [<-|]; [rewrite B; reflexivity|apply andb_true_r].
Qed.
