#!/bin/bash
# setup_cmd: build the whole framework offline from files on disk:
#   translator -> coq/Gen, full Coq build (.vo), extraction + OCaml driver, Rust harness (dev + release, hooks on)
set -u
cd "$(dirname "$0")"
export CARGO_NET_OFFLINE=true
mkdir -p build evidence
exec ./check --setup
