(* Value syntax of transcripts: parsers and printers (hand-written glue) *)
open Model

(* ------------------------------------------------------------------ numbers *)
let rec nat_of_int i = if i <= 0 then O else S (nat_of_int (i - 1))
let rec int_of_nat = function O -> 0 | S k -> 1 + int_of_nat k

let n_of_bits (bits : bool list) : n =
  (* bits: least significant first *)
  let rec build = function
    | [] -> None
    | b :: r -> (match build r with
                 | None -> if b then Some XH else None
                 | Some p -> Some (if b then XI p else XO p)) in
  match build bits with None -> N0 | Some p -> Npos p

let hexdigit c =
  match c with
  | '0' .. '9' -> Char.code c - 48
  | 'a' .. 'f' -> Char.code c - 87
  | 'A' .. 'F' -> Char.code c - 55
  | _ -> failwith ("bad hex digit " ^ String.make 1 c)

let n_of_hex (s : string) : n =
  let bits = ref [] in
  String.iter (fun c ->
      let d = hexdigit c in
      (* most significant digit first: prepend its bits so that the list ends up LSB first *)
      bits := ((d land 1) <> 0) :: ((d land 2) <> 0) :: ((d land 4) <> 0) :: ((d land 8) <> 0) :: !bits) s;
  n_of_bits !bits

let rec bits_of_pos = function
  | XH -> [true]
  | XO p -> false :: bits_of_pos p
  | XI p -> true :: bits_of_pos p

let hex_of_n (x : n) : string =
  match x with
  | N0 -> "0"
  | Npos p ->
     let bits = Array.of_list (bits_of_pos p) in
     let len = Array.length bits in
     let nd = (len + 3) / 4 in
     let b = Bytes.create nd in
     for k = 0 to nd - 1 do
       let d = ref 0 in
       for j = 0 to 3 do
         let idx = 4 * k + j in
         if idx < len && bits.(idx) then d := !d lor (1 lsl j)
       done;
       Bytes.set b (nd - 1 - k) "0123456789abcdef".[!d]
     done;
     Bytes.to_string b

let rec int_of_pos = function XH -> 1 | XO p -> 2 * int_of_pos p | XI p -> 2 * int_of_pos p + 1
let int_of_n = function N0 -> 0 | Npos p -> int_of_pos p
let rec pos_of_int i = if i = 1 then XH else if i land 1 = 0 then XO (pos_of_int (i lsr 1)) else XI (pos_of_int (i lsr 1))
let n_of_int i = if i = 0 then N0 else Npos (pos_of_int i)

(* ------------------------------------------------------------------ value syntax *)
let split c s = if s = "-" || s = "" then [] else String.split_on_char c s
let join c l = if l = [] then "-" else String.concat c l

let p_nat s = nat_of_int (int_of_string s)
let p_n s = n_of_hex s
let p_bool s = (s = "1")
let p_nlist s = List.map n_of_hex (split ',' s)
let p_bytes s =
  if s = "-" then [] else
    List.init (String.length s / 2) (fun i -> n_of_int (16 * hexdigit s.[2 * i] + hexdigit s.[2 * i + 1]))
let p_lut s =
  match String.index_opt s ':' with
  | None -> failwith ("bad lut " ^ s)
  | Some i ->
     let n = int_of_string (String.sub s 0 i) in
     let ws = String.sub s (i + 1) (String.length s - i - 1) in
     { nv = nat_of_int n; tbl = List.map n_of_hex (split '.' ws) }
let p_lutlist s = List.map p_lut (split ';' s)
let p_cube s =
  match String.split_on_char '/' s with
  | [p; q] -> { cpos = n_of_hex p; cneg = n_of_hex q }
  | _ -> failwith ("bad cube " ^ s)
let p_cubes s = List.map p_cube (split ';' s)
let p_ecube s =
  match String.split_on_char '/' s with
  | [v; x] -> { evars = n_of_hex v; exnor = (x = "1") }
  | _ -> failwith ("bad ecube " ^ s)
let p_ecubes s = List.map p_ecube (split ';' s)
let p_form p s =
  match String.index_opt s ':' with
  | None -> failwith ("bad form " ^ s)
  | Some i -> (nat_of_int (int_of_string (String.sub s 0 i)), p (String.sub s (i + 1) (String.length s - i - 1)))
let p_sop s = let (n, c) = p_form p_cubes s in { snv = n; scubes = c }
let p_esop s = let (n, c) = p_form p_cubes s in { env = n; ecubes = c }
let p_soes s = let (n, c) = p_form p_ecubes s in { onv = n; ocubes = c }

let s_nat k = string_of_int (int_of_nat k)
let s_n = hex_of_n
let s_bool b = if b then "1" else "0"
let s_nlist l = join "," (List.map hex_of_n l)
let s_bytes l = if l = [] then "-" else String.concat "" (List.map (fun b -> Printf.sprintf "%02x" (int_of_n b)) l)
let s_lut l = s_nat l.nv ^ ":" ^ join "." (List.map hex_of_n l.tbl)
let show_cmp = function Lt -> "lt" | Eq -> "eq" | Gt -> "gt"
let s_cube c = hex_of_n c.cpos ^ "/" ^ hex_of_n c.cneg
let s_cubes l = join ";" (List.map s_cube l)
let s_ecube e = hex_of_n e.evars ^ "/" ^ s_bool e.exnor
let s_ecubes l = join ";" (List.map s_ecube l)
let s_sop s = s_nat s.snv ^ ":" ^ s_cubes s.scubes
let s_esop s = s_nat s.env ^ ":" ^ s_cubes s.ecubes
let s_soes s = s_nat s.onv ^ ":" ^ s_ecubes s.ocubes
let s_decomp = function
  | DNone -> "None" | DIndependent -> "Independent" | DIdentity -> "Identity" | DNegation -> "Negation"
  | DAnd -> "And" | DOr -> "Or" | DLe -> "Le" | DLt -> "Lt" | DXor -> "Xor"
let p_decomp = function
  | "None" -> DNone | "Independent" -> DIndependent | "Identity" -> DIdentity | "Negation" -> DNegation
  | "And" -> DAnd | "Or" -> DOr | "Le" -> DLe | "Lt" -> DLt | "Xor" -> DXor | s -> failwith ("bad decomp " ^ s)

let rmap f = function Ok a -> Ok (f a) | PanicAlways -> PanicAlways | PanicDebug -> PanicDebug
let ok x = Ok x


(* ------------------------------------------------------------------ integers (Z) and 0-1 programmes *)
let int_of_z = function Z0 -> 0 | Zpos p -> int_of_pos p | Zneg p -> - (int_of_pos p)
let z_of_int i = if i = 0 then Z0 else if i > 0 then Zpos (pos_of_int i) else Zneg (pos_of_int (- i))
let p_z s = z_of_int (int_of_string s)
let s_lin (l : lin) =
  String.concat "," (List.map (fun (c, v) -> Printf.sprintf "%d*%d" (int_of_z c) (int_of_nat v)) l.lcoef)
  ^ "+" ^ string_of_int (int_of_z l.lconst)
let s_program (p : program) (cubes : cube list) (ecs : ecube list) =
  let p = program_canon p in
  "K=" ^ String.concat "" (List.map (function VBinary -> "B" | VNonNeg -> "N" | VInteger -> "I") p.pkinds)
  ^ "|C=" ^ String.concat ";" (List.map (fun c -> s_lin c.cexpr ^ (match c.crel with RLe -> "<" | REq -> "=")) p.pconstrs)
  ^ "|O=" ^ s_lin p.pobj
  ^ "|CU=" ^ String.concat ";" (List.map s_cube cubes)
  ^ "|EC=" ^ String.concat ";" (List.map s_ecube ecs)
