(* Specification-level checkers: decide, with functions extracted from Coq (Checkers/*.v, whose soundness is proved
   there), whether the result the IMPLEMENTATION returned satisfies the property's statement.
   Only parsing is done here. *)
open Model
open Values

let base_of op =
  if String.length op > 2 && op.[1] = '.' then
    (match String.split_on_char '.' op with p :: name :: _ -> p ^ "." ^ name | _ -> op)
  else (match String.index_opt op '.' with Some i -> String.sub op 0 i | None -> op)

let split_res s = String.split_on_char '|' s

let check (op : string) (ty : string) (a : string array) (expected : string) : bool option =
  ignore ty;
  if expected = "panic" then None else
  match base_of op with
  | _ -> None
