(* Specification-level checkers: decide, with functions extracted from Coq (Checkers/Check.v; soundness lemmas in
   Proofs/CheckSound.v), whether the result the IMPLEMENTATION returned satisfies the property's statement.
   Only parsing and argument-validity bookkeeping are done here.
     Some true  : the observed result satisfies the statement
     Some false : it violates it - a concrete failing input
     None       : no checker for this operation (the verdict then rests on the theorem that the model's result is the
                  only one the statement allows) *)
open Model
open Values

let base_of op =
  if String.length op > 2 && op.[1] = '.' then
    (match String.split_on_char '.' op with p :: name :: _ -> p ^ "." ^ name | _ -> op)
  else (match String.index_opt op '.' with Some i -> String.sub op 0 i | None -> op)

let split_res s = String.split_on_char '|' s
let n_lt a b = (match N.compare a b with Lt -> true | _ -> false)
let n_of_nat_ k = n_of_int (int_of_nat k)
let var_ok (l : lut) (i : n) = n_lt i (n_of_nat_ l.nv)
let bit_ok (l : lut) (m : n) = n_lt m (num_bits l)
let wf_ l = wfb l.nv l.tbl
let small l = int_of_nat l.nv <= 16

(* a call whose arguments are valid must return a well-formed table denoting f; an invalid one must panic *)
let table_op ~(valid : bool) (n : nat) (expected : string) (f : n -> bool) : bool option =
  if not valid then Some (expected = "panic")
  else if expected = "panic" then Some false
  else
    let r = p_lut expected in
    Some (int_of_nat r.nv = int_of_nat n && chk_table n r.tbl f)


(* ---- C04 / C05 beyond full enumeration: a deterministic sample of group elements for chk_below (which is sound for any
   list: Proofs/CheckSoundCanonSample.v). Identity, every transposition, every rotation, every single complementation,
   and pseudo-random elements from a fixed seed. *)
let group_sample (group : int) (n : int) : (n list * n) list =
  let st = Random.State.make [| 0x5eed; group; n |] in
  let idp = List.init n (fun i -> i) in
  let to_n p = List.map n_of_int p in
  let transp i j = List.map (fun k -> if k = i then j else if k = j then i else k) idp in
  let rot r = List.map (fun k -> (k + r) mod n) idp in
  let rand_perm () =
    let a = Array.of_list idp in
    for i = n - 1 downto 1 do
      let j = Random.State.int st (i + 1) in
      let t = a.(i) in a.(i) <- a.(j); a.(j) <- t
    done; Array.to_list a in
  let perms_ =
    if group = 1 then [idp] else
    let ts = List.concat (List.init n (fun i -> List.init i (fun j -> transp i j))) in
    let rs = List.init (max 0 (n - 1)) (fun r -> rot (r + 1)) in
    idp :: ts @ rs @ List.init (if n <= 7 then 24 else 8) (fun _ -> rand_perm ()) in
  let full = (1 lsl (n + 1)) - 1 in
  let masks_ =
    if group = 0 then [0] else
    let singles = List.init (n + 1) (fun i -> 1 lsl i) in
    0 :: full :: (1 lsl n) :: singles @ List.init (if group = 1 then 120 else 6) (fun _ -> Random.State.int st (full + 1)) in
  if group = 2 then
    (* products of a few permutations with a few masks, plus every permutation alone and every mask alone *)
    let some_p = List.filteri (fun i _ -> i mod 3 = 0) perms_ in
    let some_m = List.filteri (fun i _ -> i mod 2 = 0) masks_ in
    List.map (fun p -> (to_n p, n_of_int 0)) perms_ @ List.map (fun m -> (to_n idp, n_of_int m)) masks_
    @ List.concat (List.map (fun p -> List.map (fun m -> (to_n p, n_of_int m)) some_m) some_p)
  else List.concat (List.map (fun p -> List.map (fun m -> (to_n p, n_of_int m)) masks_) perms_)


(* ---- C18: the forms returned by the MIP optimizers are valid, and a valid witness is not cheaper.
   args: functions ; costs... ; witness kind ; witness      result: the returned forms *)
let mip_check (op : string) (a : string array) (expected : string) : bool =
  if expected = "panic" then false else
  let fs = p_lutlist a.(0) in
  let n = (match fs with f :: _ -> f.nv | [] -> nat_of_int 0) in
  let tabs = List.map (fun l -> l.tbl) fs in
  let forms s = if s = "empty" then [] else String.split_on_char '|' s in
  let na = Array.length a in
  let wit = a.(na - 1) in
  match op with
  | "mipopt_sop" | "mipopt_esop" ->
     let ret = List.map (fun f -> (p_sop f).scubes) (forms expected) in
     let w = Some (List.map p_cubes (forms wit)) in
     if op = "mipopt_sop" then chk_sop_opt n tabs (p_z a.(1)) (p_z a.(2)) ret w
     else chk_esop_opt n tabs (p_z a.(1)) (p_z a.(2)) ret w
  | "mipopt_sopes" ->
     let pair s = (match String.split_on_char '&' s with [c; e] -> (c, e) | _ -> failwith ("bad sopes form " ^ s)) in
     let ret = List.map (fun f -> let (c, e) = pair f in ((p_sop c).scubes, p_ecubes e)) (forms expected) in
     let ret_strip = ret in
     let w = Some (List.map (fun f -> let (c, e) = pair f in (p_cubes c, p_ecubes e)) (forms wit)) in
     chk_sopes_opt n tabs (p_z a.(1)) (p_z a.(2)) (p_z a.(3)) ret_strip w
  | _ -> failwith "mip_check"

(* number of variables a cube / exclusive cube talks about (0 for the canonical zero cube, whose masks are all ones) *)
let bits_of_n (x : n) = (match x with N0 -> 0 | Npos p -> List.length (bits_of_pos p))
let cube_bits (c : cube) = if cube_eqb c cube_zero then 0 else max (bits_of_n c.cpos) (bits_of_n c.cneg)
let ecube_bits (e : ecube) = bits_of_n e.evars

let check (op : string) (ty : string) (a : string array) (expected : string) : bool option =
  let dyn = (ty = "D") in
  (* the copying form of swap_adjacent takes its receiver by mutable reference: it must leave it alone. The line records
     the receiver before (argument, as the function it denotes) and after (result, raw): they must be the same table.
     An `operand_changed` line is only written when a borrowed operand of a logical operator came back changed. *)
  if op = "all_functions_jumps" || op = "all_functions_strided" then
    (* C08: item number r of the run (from 0) is the function whose table, read as a number, is r; the run has
       2^(2^n) items and then ends. The expected items are computed by rank arithmetic (n <= 4: one word, machine
       integers - glue, not extracted code) *)
    (if expected = "panic" then Some false else
     let n = p_nat a.(0) in
     let ni = int_of_nat n in
     if ni > 4 then None else
     let total = 1 lsl (1 lsl ni) in
     let show r = s_lut { nv = n; tbl = [n_of_int r] } in
     let items =
       if op = "all_functions_jumps" then begin
         let pos = ref 0 in
         List.map (fun j -> let r = !pos + int_of_n j in
                            if !pos < total && r < total then (pos := r + 1; show r) else (pos := total; "none")) (p_nlist a.(1))
       end else begin
         let sk = int_of_n (p_n a.(1)) and stp = int_of_n (p_n a.(2)) and k = int_of_n (p_n a.(3)) in
         let rec go r i acc = if i >= k || r >= total then List.rev acc else go (r + stp) (i + 1) (show r :: acc) in
         go sk 0 []
       end in
     Some (expected = (if items = [] then "none" else String.concat ";" items))) else
  if base_of op = "clone_from" then
    (let x = p_lut a.(1) in if not (wf_ x) then None else Some (expected = s_lut x)) else
  if op = "all_functions_rest" then
    (* C08: the run has 2^(2^n) items and then ends: after k calls of next, max(0, total - k) items are left and the last
       one is the all-ones table (rank arithmetic, glue) *)
    (if expected = "panic" then Some false else
     let n = p_nat a.(0) in
     let ni = int_of_nat n in
     if ni > 4 then None else
     let total = 1 lsl (1 lsl ni) and k = int_of_n (p_n a.(1)) in
     let left = max 0 (total - k) in
     Some (match int_of_string a.(2) with
           | 0 -> expected = "count:" ^ string_of_int left
           | 1 -> expected = "fold:" ^ string_of_int left
           | _ -> expected = "last:" ^ (if left = 0 then "none" else s_lut { nv = n; tbl = [n_of_int (total - 1)] }))) else
  if op = "all_functions_after" then
    (* C02 / C08: the run has 2^(2^n) items; whatever the iterator yields after its end is a well-formed table *)
    (if expected = "panic" then Some false else
     let n = p_nat a.(0) in
     match String.split_on_char ';' expected with
     | cnt :: rest ->
        let total = 1 lsl (1 lsl (int_of_nat n)) in
        Some (int_of_string cnt = total &&
              List.for_all (fun it -> it = "none" || (let l = p_lut it in int_of_nat l.nv = int_of_nat n && wfb n l.tbl)) rest)
     | [] -> Some false) else
  if op = "swap_adjacent.receiver" then
    (let x = p_lut a.(0) in if not (wf_ x) then None else Some (expected = "panic" || expected = s_lut x)) else
  if String.length op > 16 && String.sub op 0 16 = "operand_changed." then Some false else
  match base_of op with
  (* ---- C01 *)
  | "not" -> let x = p_lut a.(0) in if not (wf_ x && small x) then None else table_op ~valid:true x.nv expected (spec_not x.tbl)
  | "and" | "or" | "xor" as o ->
     let x = p_lut a.(0) and y = p_lut a.(1) in
     if not (wf_ x && wf_ y && small x) then None else
     let f = (match o with "and" -> spec_and | "or" -> spec_or | _ -> spec_xor) x.tbl y.tbl in
     table_op ~valid:(int_of_nat x.nv = int_of_nat y.nv) x.nv expected f
  (* ---- C03 *)
  | "flip" -> let x = p_lut a.(0) and i = p_n a.(1) in
     if not (wf_ x && small x) then None else table_op ~valid:(var_ok x i) x.nv expected (spec_flip x.tbl i)
  | "swap" -> let x = p_lut a.(0) and i = p_n a.(1) and j = p_n a.(2) in
     if not (wf_ x && small x) then None else table_op ~valid:(var_ok x i && var_ok x j) x.nv expected (spec_swap x.tbl i j)
  | "swap_adjacent" -> let x = p_lut a.(0) and i = p_n a.(1) in
     if not (wf_ x && small x) then None else
     let i1 = N.add i (n_of_int 1) in
     table_op ~valid:(var_ok x i && var_ok x i1) x.nv expected (spec_swap x.tbl i i1)
  | "cofactors" -> let x = p_lut a.(0) and i = p_n a.(1) in
     if not (wf_ x && small x) then None else
     if not (var_ok x i) then Some (expected = "panic") else if expected = "panic" then Some false else
     (match split_res expected with
      | [r0; r1] ->
         let c0 = p_lut r0 and c1 = p_lut r1 in
         Some (int_of_nat c0.nv = int_of_nat x.nv && int_of_nat c1.nv = int_of_nat x.nv &&
               chk_table x.nv c0.tbl (spec_cof0 x.tbl i) && chk_table x.nv c1.tbl (spec_cof1 x.tbl i))
      | _ -> Some false)
  | "from_cofactors" -> let c0 = p_lut a.(0) and c1 = p_lut a.(1) and i = p_n a.(2) in
     if not (wf_ c0 && wf_ c1 && small c0) then None else
     table_op ~valid:(int_of_nat c0.nv = int_of_nat c1.nv && var_ok c0 i) c0.nv expected (spec_from_cof c0.tbl c1.tbl i)
  (* ---- C11 *)
  | "zero" -> table_op ~valid:true (p_nat a.(0)) expected spec_zero
  | "one" -> table_op ~valid:true (p_nat a.(0)) expected spec_one
  | "default" -> table_op ~valid:true (if dyn then nat_of_int 0 else p_nat a.(0)) expected spec_zero
  | "nth_var" -> let n = p_nat a.(0) and v = p_n a.(1) in
     table_op ~valid:(n_lt v (n_of_nat_ n)) n expected (spec_nth_var v)
  | "parity" -> table_op ~valid:true (p_nat a.(0)) expected spec_parity
  | "majority" -> let n = p_nat a.(0) in table_op ~valid:true n expected (spec_majority n)
  | "threshold" -> table_op ~valid:true (p_nat a.(0)) expected (spec_threshold (p_n a.(1)))
  | "equals" -> table_op ~valid:true (p_nat a.(0)) expected (spec_equals (p_n a.(1)))
  | "symmetric" -> table_op ~valid:true (p_nat a.(0)) expected (spec_symmetric (p_n a.(1)))
  | "get_bit" | "value" -> let x = p_lut a.(0) and m = p_n a.(1) in
     if not (wf_ x) then None else
     if not (bit_ok x m) then Some (expected = "panic") else Some (expected = s_bool (val0 x.tbl m))
  | "set_bit" | "unset_bit" | "set_value" as o -> let x = p_lut a.(0) and m = p_n a.(1) in
     if not (wf_ x && small x) then None else
     let v = (match o with "set_bit" -> true | "unset_bit" -> false | _ -> p_bool a.(2)) in
     table_op ~valid:(bit_ok x m) x.nv expected (spec_set x.tbl m v)
  | "from_blocks" -> let n = p_nat a.(0) and b = p_nlist a.(1) in
     if int_of_nat n > 16 then None else
     if List.length b <> int_of_nat (table_size n) then Some (expected = "panic")
     else if not (wfb n b) then None   (* outside the property's precondition *)
     else table_op ~valid:true n expected (val0 b)
  (* every table-valued result must at least be well formed (C02) *)
  (* ---- C09: printed text and parsing, from the property text *)
  | "from_hex" -> let n = p_nat a.(0) and s = p_bytes a.(1) in
     if int_of_nat n > 16 then None else if expected = "panic" then Some false else
     if expected = "err" then Some (chk_from_hex n s None) else
     let r = p_lut (String.sub expected 3 (String.length expected - 3)) in
     Some (int_of_nat r.nv = int_of_nat n && chk_from_hex n s (Some r.tbl))
  | "to_hex" | "to_bin" | "display" | "lowerhex" | "binary" as o -> let x = p_lut a.(0) in
     if not (wf_ x && small x) then None else if expected = "panic" then Some false else
     let body = (match o with "to_bin" | "binary" -> spec_to_bin x.nv x.tbl | _ -> spec_to_hex x.nv x.tbl) in
     let full = (match o with "to_hex" | "to_bin" -> body | _ -> spec_fmt x.nv body) in
     Some (bytes_eqb full (p_bytes expected))
  | "random" -> if expected = "panic" then Some false else let r = p_lut expected in Some (wf_ r)
  (* ---- C08 *)
  | "cmp" -> let x = p_lut a.(0) and y = p_lut a.(1) in
     if not (wf_ x && wf_ y) then None else
     if (not dyn) && int_of_nat x.nv <> int_of_nat y.nv then None else
     if expected = "panic" then Some false else
     Some (chk_cmp x.nv x.tbl y.nv y.tbl (match expected with "lt" -> Lt | "eq" -> Eq | _ -> Gt))
  | "eq" | "hash_eq" -> let x = p_lut a.(0) and y = p_lut a.(1) in
     if not (wf_ x && wf_ y && small x) then None else
     if expected = "panic" then Some false else Some (chk_eq x.nv x.tbl y.nv y.tbl (p_bool expected))
  | "next_step" -> let x = p_lut a.(0) in
     if not (wf_ x) then None else if expected = "panic" then Some false else
     (match split_res expected with
      | [r; okb] -> let y = p_lut r in Some (int_of_nat y.nv = int_of_nat x.nv && chk_next x.nv x.tbl y.tbl (p_bool okb))
      | _ -> Some false)
  (* ---- C04 / C05: the certificate must map the input to the representative; minimality by orbit enumeration for n <= 5 *)
  | "p_canon" | "n_canon" | "npn_canon" as o -> let x = p_lut a.(0) in
     if not (wf_ x) || int_of_nat x.nv > 10 then None else if expected = "panic" then Some false else
     let parts = split_res expected in
     let (c, perm, mask, group) =
       (match o, parts with
        | "p_canon", [c; p] -> (p_lut c, p_nlist p, n_of_int 0, 0)
        | "n_canon", [c; m] -> (p_lut c, identity x.nv, p_n m, 1)
        | "npn_canon", [c; p; m] -> (p_lut c, p_nlist p, p_n m, 2)
        | _ -> failwith "bad canon result") in
     let cert = int_of_nat c.nv = int_of_nat x.nv && chk_cert x.nv x.tbl c.tbl perm mask in
     (* minimality by enumeration of the whole group where that is affordable on the extracted model:
        P (n! elements) up to n = 6, N (2^(n+1)) up to n = 8, NPN up to n = 5 *)
     let nvi = int_of_nat x.nv in
     let affordable = (match group with 0 -> nvi <= 6 | 1 -> nvi <= 8 | _ -> nvi <= 5) in
     let minimal = if affordable then chk_minimal (nat_of_int group) x.nv x.tbl c.tbl
                   else chk_below (nat_of_int group) x.nv x.tbl c.tbl (group_sample group nvi) in
     Some (cert && minimal)
  (* ---- C06 *)
  | "top_decomposition" -> let x = p_lut a.(0) and v = p_n a.(1) in
     if not (wf_ x && small x) then None else
     if not (var_ok x v) then Some (expected = "panic") else if expected = "panic" then Some false else
     Some (decomp_eqb (p_decomp expected) (spec_top x.nv x.tbl v))
  | "is_pos_unate" | "is_neg_unate" as o -> let x = p_lut a.(0) and v = p_n a.(1) in
     if not (wf_ x && small x) then None else
     if not (var_ok x v) then Some (expected = "panic") else if expected = "panic" then Some false else
     Some (p_bool expected = (if o = "is_pos_unate" then spec_pos_unate else spec_neg_unate) x.nv x.tbl v)
  (* ---- C07 *)
  | "bdd_complexity" -> let n = p_nat a.(0) and ls = p_lutlist a.(1) in
     if not (List.for_all wf_ ls) || int_of_nat n > 12 then None else
     let same = List.for_all (fun l -> int_of_nat l.nv = int_of_nat n) ls in
     if not same then Some (expected = "panic") else if expected = "panic" then Some false else
     Some (chk_bdd n (List.map (fun l -> l.tbl) ls) (nat_of_int (int_of_string expected)))
  (* ---- C14 / C15 / C13: results checked by exhaustive evaluation over the assignments *)
  | "s.and" | "s.or" as o -> let x = p_sop a.(0) and y = p_sop a.(1) in
     if int_of_nat x.snv > 12 then None else
     if int_of_nat x.snv <> int_of_nat y.snv then Some (expected = "panic") else if expected = "panic" then Some false else
     let r = p_sop expected in
     let f m = if o = "s.and" then sem_or x.scubes m && sem_or y.scubes m else sem_or x.scubes m || sem_or y.scubes m in
     Some (int_of_nat r.snv = int_of_nat x.snv && chk_sop_result x.snv r.scubes f)
  | "s.not" -> let x = p_sop a.(0) in
     if int_of_nat x.snv > 12 then None else if expected = "panic" then Some false else
     let r = p_sop expected in
     Some (int_of_nat r.snv = int_of_nat x.snv && chk_sop_result x.snv r.scubes (fun m -> not (sem_or x.scubes m)))
  | "s.to_lut" -> let x = p_sop a.(0) in if int_of_nat x.snv > 16 then None else table_op ~valid:true x.snv expected (sem_or x.scubes)
  | "x.to_lut" -> let x = p_esop a.(0) in if int_of_nat x.env > 16 then None else table_op ~valid:true x.env expected (sem_xor x.ecubes)
  | "o.to_lut" -> let x = p_soes a.(0) in if int_of_nat x.onv > 16 then None else table_op ~valid:true x.onv expected (sem_soes x.ocubes)
  | "s.from_lut" -> let x = p_lut a.(0) in
     if not (wf_ x && small x) then None else if expected = "panic" then Some false else
     let r = p_sop expected in Some (int_of_nat r.snv = int_of_nat x.nv && chk_sop_from_lut x.nv x.tbl r.scubes)
  | "x.from_lut" -> let x = p_lut a.(0) in
     if not (wf_ x && small x) then None else if expected = "panic" then Some false else
     let r = p_esop expected in Some (int_of_nat r.env = int_of_nat x.nv && chk_esop_from_lut x.nv x.tbl r.ecubes)
  | "x.xor" -> let x = p_esop a.(0) and y = p_esop a.(1) in
     if int_of_nat x.env > 12 then None else
     if int_of_nat x.env <> int_of_nat y.env then Some (expected = "panic") else if expected = "panic" then Some false else
     let r = p_esop expected in
     Some (int_of_nat r.env = int_of_nat x.env && chk_esop_result x.env r.ecubes (fun m -> sem_xor x.ecubes m <> sem_xor y.ecubes m))
  | "x.not" -> let x = p_esop a.(0) in
     if int_of_nat x.env > 12 then None else if expected = "panic" then Some false else
     let r = p_esop expected in
     Some (int_of_nat r.env = int_of_nat x.env && chk_esop_result x.env r.ecubes (fun m -> not (sem_xor x.ecubes m)))
  | "s.value" -> let x = p_sop a.(0) in Some (expected = s_bool (sem_or x.scubes (p_n a.(1))))
  | "x.value" -> let x = p_esop a.(0) in Some (expected = s_bool (sem_xor x.ecubes (p_n a.(1))))
  | "o.value" -> let x = p_soes a.(0) in Some (expected = s_bool (sem_soes x.ocubes (p_n a.(1))))
  | "s.is_zero" -> let x = p_sop a.(0) in
     (* exact only on irredundant covers (results of operators); otherwise soundness: is_zero -> denotes zero *)
     if int_of_nat x.snv > 12 then None else
     let zero = List.for_all (fun m -> not (sem_or x.scubes m)) (dom x.snv) in
     if irredundantb x.snv x.scubes then Some (p_bool expected = zero) else Some ((not (p_bool expected)) || zero)
  | "s.is_one" -> let x = p_sop a.(0) in
     if int_of_nat x.snv > 12 then None else
     Some ((not (p_bool expected)) || List.for_all (fun m -> sem_or x.scubes m) (dom x.snv))
  | "x.is_zero" -> let x = p_esop a.(0) in
     if int_of_nat x.env > 12 then None else
     Some ((not (p_bool expected)) || List.for_all (fun m -> not (sem_xor x.ecubes m)) (dom x.env))
  | "x.is_one" -> let x = p_esop a.(0) in
     if int_of_nat x.env > 12 then None else
     Some ((not (p_bool expected)) || List.for_all (fun m -> sem_xor x.ecubes m) (dom x.env))
  (* ---- C12 / C13 / C16: cubes, exclusive cubes, sums of exclusive cubes and printed text, from the property text.
     Exhaustive over the assignments of the variables that occur when these are at most 12, otherwise no verdict
     (printed text: a fixed sample of 66 assignments) *)
  | "c.value" -> Some (chk_cube_value (p_cube a.(0)) (p_n a.(1)) (p_bool expected))
  | "c.and" -> let x = p_cube a.(0) and y = p_cube a.(1) in
     let k = max (cube_bits x) (cube_bits y) in
     if k > 12 then None else Some (chk_cube_and (nat_of_int k) x y (p_cube expected))
  | "c.intersects" -> let x = p_cube a.(0) and y = p_cube a.(1) in
     let k = max (cube_bits x) (cube_bits y) in
     if k > 12 then None else Some (chk_cube_intersects (nat_of_int k) x y (p_bool expected))
  | "c.implies" -> let x = p_cube a.(0) and y = p_cube a.(1) in
     let k = max (cube_bits x) (cube_bits y) in
     if k > 12 then None else Some (chk_cube_implies (nat_of_int k) x y (p_bool expected))
  | "c.implies_lut" -> let x = p_cube a.(0) and l = p_lut a.(1) in
     if not (wf_ l) || int_of_nat l.nv > 12 then None else Some (chk_cube_implies_lut l.nv x l.tbl (p_bool expected))
  | "e.value" -> Some (chk_ecube_value (p_ecube a.(0)) (p_n a.(1)) (p_bool expected))
  | "e.xor" -> let x = p_ecube a.(0) and y = p_ecube a.(1) in
     let k = max (ecube_bits x) (ecube_bits y) in
     if k > 12 then None else Some (chk_ecube_xor (nat_of_int k) x y (p_ecube expected))
  | "e.not" -> let x = p_ecube a.(0) in
     let k = ecube_bits x in
     if k > 12 then None else Some (chk_ecube_not (nat_of_int k) x (p_ecube expected))
  | "o.or" -> let x = p_soes a.(0) and y = p_soes a.(1) in
     if int_of_nat x.onv > 12 then None else
     if int_of_nat x.onv <> int_of_nat y.onv then Some (expected = "panic") else if expected = "panic" then Some false else
     let r = p_soes expected in
     Some (int_of_nat r.onv = int_of_nat x.onv && chk_soes_or x.onv x.ocubes y.ocubes r.ocubes)
  | "c.minterm" -> let nn = p_n a.(0) and k = p_n a.(1) in
     (* the cube true exactly on the assignment k of the first n variables: pos = k mod 2^n, neg = the other n bits *)
     if n_lt (n_of_int 32) nn then None else
     let r = p_cube expected in
     let full = N.sub (N.pow (n_of_int 2) nn) (n_of_int 1) in
     let pos = N.coq_land k full in
     Some (N.eqb r.cpos pos && N.eqb r.cneg (N.sub full pos))
  | "o.is_one" -> let x = p_soes a.(0) in
     if int_of_nat x.onv > 12 then None else
     Some ((not (p_bool expected)) || List.for_all (fun m -> spec_soes_value x.ocubes m) (dom x.onv))
  | "o.is_zero" -> let x = p_soes a.(0) in
     if int_of_nat x.onv > 12 then None else
     Some ((not (p_bool expected)) || List.for_all (fun m -> not (spec_soes_value x.ocubes m)) (dom x.onv))
  (* C13 / C12 "equality is semantic equality" (Proofs/CheckSoundEq.v) *)
  | "e.eq" -> if expected = "panic" then Some false else Some (chk_ecube_eq (p_ecube a.(0)) (p_ecube a.(1)) (p_bool expected))
  | "c.eq" -> if expected = "panic" then Some false else Some (chk_cube_eq (p_cube a.(0)) (p_cube a.(1)) (p_bool expected))
  | "c.display_distinct" ->
     (* recorded: (a == b) | (text a = text b); the statement wants the two to agree *)
     (match split_res expected with [e; t] -> Some (e = t) | _ -> Some false)
  | "c.display" -> let x = p_cube a.(0) in
     let k = cube_bits x in
     Some (chk_text (p_bytes expected) (spec_cube_value x) (if k <= 12 then dom (nat_of_int k) else sample_assignments) false)
  | "e.display" -> let x = p_ecube a.(0) in
     let k = ecube_bits x in
     Some (chk_text (p_bytes expected) (spec_ecube_value x) (if k <= 12 then dom (nat_of_int k) else sample_assignments) true)
  | "s.display" -> let x = p_sop a.(0) in
     Some (chk_text (p_bytes expected) (spec_sop_value x.scubes) (if int_of_nat x.snv <= 12 then dom x.snv else sample_assignments) false)
  | "x.display" -> let x = p_esop a.(0) in
     Some (chk_text (p_bytes expected) (spec_esop_value x.ecubes) (if int_of_nat x.env <= 12 then dom x.env else sample_assignments) false)
  | "o.display" -> let x = p_soes a.(0) in
     Some (chk_text (p_bytes expected) (spec_soes_value x.ocubes) (if int_of_nat x.onv <= 12 then dom x.onv else sample_assignments) false)
  (* ---- C10: conversions, from the property text: LutN -> Lut keeps size and table; Lut -> LutN fails exactly when
     the variable counts differ and keeps the table otherwise; bit m of the integer is f(m) *)
  | "to_dyn" -> let x = p_lut a.(0) in
     if not (wf_ x) then None else Some (expected = s_lut x)
  | "try_from_dyn" -> let n = p_nat a.(0) and x = p_lut a.(1) in
     if not (wf_ x) then None else
     Some (expected = (if int_of_nat x.nv = int_of_nat n then "ok:" ^ s_lut x else "err"))
  | "from_int" -> let n = p_nat a.(0) and v = p_n a.(1) in
     if expected = "panic" then Some false else
     let r = p_lut expected in
     Some (int_of_nat r.nv = int_of_nat n && wf_ r && List.length r.tbl = 1 &&
           List.for_all (fun m -> val0 r.tbl m = N.testbit v m) (dom n))
  | "to_int" -> let x = p_lut a.(0) in
     if not (wf_ x && small x) || expected = "panic" then None else
     let v = p_n expected in
     Some (List.for_all (fun m -> N.testbit v m = val0 x.tbl m) (dom x.nv) &&
           n_lt v (N.pow (n_of_int 2) (N.pow (n_of_int 2) (n_of_nat_ x.nv))))
  | "mipopt_sop" | "mipopt_sopes" | "mipopt_esop" as o -> Some (mip_check o a expected)
  | _ -> None
