(* Correspondence driver: replays a transcript written by the Rust harness on the model extracted from Coq.
   Hand-written glue only: value parsers/printers and the op dispatch table. Every computation on values is
   done by extracted code (module Model). *)
open Model

open Values

(* ------------------------------------------------------------------ dispatch *)
(* ty is "D" (dynamic Lut) or "S" (LutN) *)
let run (op : string) (ty : string) (a : string array) : string res =
  let base = match String.index_opt op '.' with
    | Some i when i > 1 -> String.sub op 0 i   (* strip the syntactic-form suffix; two-level ops are "c.xxx" *)
    | _ -> op in
  let base, form =
    if String.length op > 2 && op.[1] = '.' then
      (* two-level op: prefix letter, then name, then optional form *)
      (match String.split_on_char '.' op with
       | p :: name :: rest -> (p ^ "." ^ name, String.concat "." rest)
       | _ -> (op, ""))
    else (base, "") in
  ignore form;
  let dyn = (ty = "D") in
  (* the receiver of the copying swap_adjacent after the call: the model is functional, the receiver is the argument *)
  if op = "swap_adjacent.receiver" then
    ok (s_lut (p_lut a.(0))) else
  match base with
  (* constructors *)
  | "one" -> rmap s_lut (d_one (p_nat a.(0)))
  | "zero" -> rmap s_lut (d_zero (p_nat a.(0)))
  | "nth_var" -> rmap s_lut (d_nth_var (p_nat a.(0)) (p_n a.(1)))
  | "parity" -> rmap s_lut (d_parity (p_nat a.(0)))
  | "majority" -> rmap s_lut (d_majority (p_nat a.(0)))
  | "threshold" -> rmap s_lut (d_threshold (p_nat a.(0)) (p_n a.(1)))
  | "equals" -> rmap s_lut (d_equals (p_nat a.(0)) (p_n a.(1)))
  | "symmetric" -> rmap s_lut (d_symmetric (p_nat a.(0)) (p_n a.(1)))
  | "default" -> rmap s_lut (if dyn then d_default else d_zero (p_nat a.(0)))
  | "num_vars" -> ok (s_nat (p_lut a.(0)).nv)
  | "num_bits" -> ok (s_n (num_bits (p_lut a.(0))))
  | "num_blocks" -> ok (s_nat (num_blocks (p_lut a.(0))))
  (* bits *)
  | "get_bit" | "value" -> rmap s_bool (d_get_bit (p_lut a.(0)) (p_n a.(1)))
  | "set_bit" -> rmap s_lut (d_set_bit (p_lut a.(0)) (p_n a.(1)))
  | "unset_bit" -> rmap s_lut (d_unset_bit (p_lut a.(0)) (p_n a.(1)))
  | "set_value" -> rmap s_lut (d_set_value (p_lut a.(0)) (p_n a.(1)) (p_bool a.(2)))
  (* logic: every form *)
  | "not" -> rmap s_lut (d_not (p_lut a.(0)))
  | "and" -> rmap s_lut (d_and (p_lut a.(0)) (p_lut a.(1)))
  | "or" -> rmap s_lut (d_or (p_lut a.(0)) (p_lut a.(1)))
  | "xor" -> rmap s_lut (d_xor (p_lut a.(0)) (p_lut a.(1)))
  (* transforms *)
  | "flip" -> rmap s_lut (d_flip (p_lut a.(0)) (p_n a.(1)))
  | "swap" -> rmap s_lut (d_swap (p_lut a.(0)) (p_n a.(1)) (p_n a.(2)))
  | "swap_adjacent" -> rmap s_lut (d_swap_adjacent (p_lut a.(0)) (p_n a.(1)))
  | "cofactors" -> rmap (fun (c0, c1) -> s_lut c0 ^ "|" ^ s_lut c1) (d_cofactors (p_lut a.(0)) (p_n a.(1)))
  | "from_cofactors" ->
     rmap s_lut ((if dyn then d_from_cofactors else s_from_cofactors) (p_lut a.(0)) (p_lut a.(1)) (p_n a.(2)))
  | "blocks" -> ok (s_nlist (p_lut a.(0)).tbl)
  | "from_blocks" -> rmap s_lut ((if dyn then d_from_blocks else s_from_blocks) (p_nat a.(0)) (p_nlist a.(1)))
  (* canonization *)
  | "p_canon" -> rmap (fun (l, p) -> s_lut l ^ "|" ^ s_nlist p) (d_p_canonization (p_lut a.(0)))
  | "n_canon" -> rmap (fun (l, m) -> s_lut l ^ "|" ^ s_n m) (d_n_canonization (p_lut a.(0)))
  | "npn_canon" ->
     rmap (fun ((l, p), m) -> s_lut l ^ "|" ^ s_nlist p ^ "|" ^ s_n m) (d_npn_canonization (p_lut a.(0)))
  | "canon_sequences" ->
     let n = p_nat a.(0) in
     (match swaps_for n, flips_for n with
      | Ok s, Ok f -> Ok (s_nlist s ^ "|" ^ s_nlist f)
      | _ -> PanicAlways)
  (* analysis *)
  | "top_decomposition" -> rmap s_decomp (d_top_decomposition (p_lut a.(0)) (p_n a.(1)))
  | "is_pos_unate" -> rmap s_bool (d_is_pos_unate (p_lut a.(0)) (p_n a.(1)))
  | "is_neg_unate" -> rmap s_bool (d_is_neg_unate (p_lut a.(0)) (p_n a.(1)))
  | "decomp_class" ->
     let d = p_decomp a.(0) in
     ok (s_bool (is_trivial d) ^ s_bool (is_and_type d) ^ s_bool (is_xor_type d) ^ s_bool (is_simple_gate d))
  | "bdd_complexity" ->
     let n = p_nat a.(0) and ls = p_lutlist a.(1) in
     rmap s_nat (if dyn then d_bdd_complexity ls else s_bdd_complexity n ls)
  (* order / iteration *)
  | "next_step" ->
     let l = p_lut a.(0) in
     rmap (fun (t, okb) -> s_lut { nv = l.nv; tbl = t } ^ "|" ^ s_bool okb) (next_inplace l.nv l.tbl)
  | "all_functions_jumps" | "all_functions_strided" ->
     (* Iterator::nth / skip / step_by with their default meaning: nth(j) is j calls of next whose items are dropped (an
        exhausted iterator ends the jump), then one more; skip(a) drops a items; step_by(s) takes the first item and then
        every s-th one *)
     let n = p_nat a.(0) in
     (match d_all_functions n with
      | Ok st0 ->
         let st = ref st0 and bad = ref None in
         let next () = (match iter_next !st with
                        | Ok (it, st') -> st := st'; it
                        | PanicAlways -> bad := Some PanicAlways; None
                        | PanicDebug -> bad := Some PanicDebug; None) in
         let nth j = (let dead = ref false in
                      for _ = 1 to j do if not !dead then (match next () with None -> dead := true | Some _ -> ()) done;
                      if !dead then None else next ()) in
         let show = (function Some l -> s_lut l | None -> "none") in
         let items =
           if base = "all_functions_jumps" then List.map (fun j -> show (nth (int_of_n j))) (p_nlist a.(1))
           else begin
             let sk = int_of_n (p_n a.(1)) and stp = int_of_n (p_n a.(2)) and k = int_of_n (p_n a.(3)) in
             let dead = ref false in
             for _ = 1 to sk do if not !dead then (match next () with None -> dead := true | Some _ -> ()) done;
             let acc = ref [] and fin = ref !dead in
             for i = 1 to k do
               if not !fin then (match (if i = 1 then next () else nth (stp - 1)) with
                                 | Some l -> acc := s_lut l :: !acc
                                 | None -> fin := true)
             done;
             List.rev !acc
           end in
         (match !bad with Some PanicAlways -> PanicAlways | Some _ -> PanicDebug
                        | None -> ok (if items = [] then "none" else String.concat ";" items))
      | PanicAlways -> PanicAlways
      | PanicDebug -> PanicDebug)
  | "clone_from" -> ok (s_lut (p_lut a.(1)))   (* Clone::clone_from: the destination becomes the source *)
  | "all_functions_rest" ->
     (* after k calls of next (one more when k is the whole run and the variant says so - it changes nothing): the number
        of items left, resp. the last one *)
     let n = p_nat a.(0) and k = int_of_n (p_n a.(1)) and variant = int_of_string a.(2) in
     (match d_all_functions n with
      | Ok st0 ->
         let st = ref st0 and bad = ref None in
         let next () = (match iter_next !st with
                        | Ok (it, st') -> st := st'; it
                        | PanicAlways -> bad := Some PanicAlways; None
                        | PanicDebug -> bad := Some PanicDebug; None) in
         for _ = 1 to k + 1 - 1 do ignore (next ()) done;
         let cnt = ref 0 and last = ref None and fin = ref false in
         while not !fin do (match next () with Some l -> incr cnt; last := Some l | None -> fin := true) done;
         (match !bad with Some PanicAlways -> PanicAlways | Some _ -> PanicDebug
                        | None -> ok (match variant with
                                      | 0 -> "count:" ^ string_of_int !cnt
                                      | 1 -> "fold:" ^ string_of_int !cnt
                                      | _ -> "last:" ^ (match !last with Some l -> s_lut l | None -> "none")))
      | PanicAlways -> PanicAlways
      | PanicDebug -> PanicDebug)
  | "all_functions_after" ->
     (* the whole run, then [extra] more calls: the number of items, then what each further call returns *)
     let n = p_nat a.(0) and extra = int_of_string a.(1) in
     (match d_all_functions n with
      | Ok st ->
         let st = ref st and cnt = ref 0 and fin = ref false and bad = ref None in
         while not !fin && !bad = None do
           (match iter_next !st with
            | Ok (Some _, st') -> incr cnt; st := st'
            | Ok (None, st') -> fin := true; st := st'
            | PanicAlways -> bad := Some PanicAlways
            | PanicDebug -> bad := Some PanicDebug)
         done;
         let items = ref [string_of_int !cnt] in
         for _ = 1 to extra do
           (match iter_next !st with
            | Ok (Some l, st') -> items := s_lut l :: !items; st := st'
            | Ok (None, st') -> items := "none" :: !items; st := st'
            | PanicAlways -> bad := Some PanicAlways
            | PanicDebug -> bad := Some PanicDebug)
         done;
         (match !bad with Some PanicAlways -> PanicAlways | Some _ -> PanicDebug | None -> ok (String.concat ";" (List.rev !items)))
      | PanicAlways -> PanicAlways
      | PanicDebug -> PanicDebug)
  | "all_functions" ->
     (* first k items, then whether the iterator is exhausted right after them *)
     let n = p_nat a.(0) and k = int_of_string a.(1) in
     (match d_all_functions n with
      | Ok st ->
         let buf = Buffer.create 1024 in
         let st = ref st and cnt = ref 0 and fin = ref false and bad = ref None in
         while not !fin && !cnt < k && !bad = None do
           (match iter_next !st with
            | Ok (Some l, st') ->
               if !cnt > 0 then Buffer.add_char buf ';';
               Buffer.add_string buf (join "." (List.map hex_of_n l.tbl));
               incr cnt; st := st'
            | Ok (None, _) -> fin := true
            | PanicAlways -> bad := Some PanicAlways
            | PanicDebug -> bad := Some PanicDebug)
         done;
         (match !bad with
          | Some p -> p
          | None ->
             let exhausted = (match iter_next !st with Ok (None, _) -> true | _ -> false) in
             Ok (string_of_int !cnt ^ "|" ^ s_bool exhausted ^ "|" ^ Buffer.contents buf))
      | PanicAlways -> PanicAlways | PanicDebug -> PanicDebug)
  | "eq" -> ok (s_bool (d_eq (p_lut a.(0)) (p_lut a.(1))))
  | "hash_eq" ->
     let x = p_lut a.(0) and y = p_lut a.(1) in
     ok (s_bool (if dyn then d_hash_input x = d_hash_input y else s_hash_input x = s_hash_input y))
  | "cmp" -> rmap show_cmp ((if dyn then d_cmp else s_cmp) (p_lut a.(0)) (p_lut a.(1)))
  (* text *)
  | "to_hex" -> ok (s_bytes (d_to_hex_string (p_lut a.(0))))
  | "to_bin" -> ok (s_bytes (d_to_bin_string (p_lut a.(0))))
  | "display" -> ok (s_bytes (d_display (p_lut a.(0))))
  | "lowerhex" -> ok (s_bytes (d_lowerhex (p_lut a.(0))))
  | "binary" -> ok (s_bytes (d_binary (p_lut a.(0))))
  | "from_hex" ->
     rmap (function Some l -> "ok:" ^ s_lut l | None -> "err") (d_from_hex_string (p_nat a.(0)) (p_bytes a.(1)))
  (* conversions *)
  | "to_dyn" -> rmap s_lut (d_from_static (p_lut a.(0)))
  | "try_from_dyn" ->
     rmap (function Some l -> "ok:" ^ s_lut l | None -> "err") (s_try_from (p_nat a.(0)) (p_lut a.(1)))
  | "from_int" -> rmap s_lut (s_from_int (p_nat a.(0)) (p_n a.(1)))
  | "to_int" -> let l = p_lut a.(0) in ok (s_n (s_to_int l.nv l))
  (* cubes *)
  | "c.one" -> ok (s_cube cube_one)
  | "c.zero" -> ok (s_cube cube_zero)
  | "c.nth_var" -> rmap s_cube (cube_nth_var (p_n a.(0)))
  | "c.nth_var_inv" -> rmap s_cube (cube_nth_var_inv (p_n a.(0)))
  | "c.minterm" -> ok (s_cube (cube_minterm (p_n a.(0)) (p_n a.(1))))
  | "c.value" -> ok (s_bool (cube_value (p_cube a.(0)) (p_n a.(1))))
  | "c.from_vars" -> rmap s_cube (cube_from_vars (p_nlist a.(0)) (p_nlist a.(1)))
  | "c.from_mask" -> ok (s_cube (cube_from_mask (p_n a.(0)) (p_n a.(1))))
  | "c.num_lits" -> ok (s_n (cube_num_lits (p_cube a.(0))))
  | "c.num_gates" -> ok (s_n (cube_num_gates (p_cube a.(0))))
  | "c.pos_vars" -> ok (s_nlist (cube_pos_vars (p_cube a.(0))))
  | "c.neg_vars" -> ok (s_nlist (cube_neg_vars (p_cube a.(0))))
  | "c.and" -> ok (s_cube (cube_and (p_cube a.(0)) (p_cube a.(1))))
  | "c.intersects" -> ok (s_bool (cube_intersects (p_cube a.(0)) (p_cube a.(1))))
  | "c.implies" -> ok (s_bool (cube_implies (p_cube a.(0)) (p_cube a.(1))))
  | "c.implies_lut" -> let l = p_lut a.(1) in ok (s_bool (cube_implies_lut (p_cube a.(0)) l.nv l.tbl))
  | "c.all" -> rmap s_cubes (cube_all (p_n a.(0)))
  | "c.is_zero" -> ok (s_bool (cube_is_zero (p_cube a.(0))))
  | "c.is_one" -> ok (s_bool (cube_is_one (p_cube a.(0))))
  | "c.is_constant" -> ok (s_bool (cube_is_constant (p_cube a.(0))))
  | "c.eq" -> ok (s_bool (cube_eqb (p_cube a.(0)) (p_cube a.(1))))
  | "c.cmp" -> ok (show_cmp (cube_cmp (p_cube a.(0)) (p_cube a.(1))))
  | "c.display" -> ok (s_bytes (cube_display (p_cube a.(0))))
  (* C16 "distinct cubes print distinct text": the texts of two cubes are equal exactly when the cubes are *)
  | "c.display_distinct" -> let e = cube_eqb (p_cube a.(0)) (p_cube a.(1)) in ok (s_bool e ^ "|" ^ s_bool e)
  (* ecubes *)
  | "e.one" -> ok (s_ecube ecube_one)
  | "e.zero" -> ok (s_ecube ecube_zero)
  | "e.nth_var" -> rmap s_ecube (ecube_nth_var (p_n a.(0)))
  | "e.nth_var_inv" -> rmap s_ecube (ecube_nth_var_inv (p_n a.(0)))
  | "e.value" -> ok (s_bool (ecube_value (p_ecube a.(0)) (p_n a.(1))))
  | "e.from_vars" -> rmap s_ecube (ecube_from_vars (p_nlist a.(0)) (p_bool a.(1)))
  | "e.num_lits" -> ok (s_n (ecube_num_lits (p_ecube a.(0))))
  | "e.num_gates" -> ok (s_n (ecube_num_gates (p_ecube a.(0))))
  | "e.vars" -> ok (s_nlist (ecube_vars (p_ecube a.(0))))
  | "e.implies_lut" -> let l = p_lut a.(1) in ok (s_bool (ecube_implies_lut (p_ecube a.(0)) l.nv l.tbl))
  | "e.all" -> rmap s_ecubes (ecube_all (p_n a.(0)))
  | "e.not" -> ok (s_ecube (ecube_not (p_ecube a.(0))))
  | "e.xor" -> ok (s_ecube (ecube_xor (p_ecube a.(0)) (p_ecube a.(1))))
  | "e.is_zero" -> ok (s_bool (ecube_is_zero (p_ecube a.(0))))
  | "e.is_one" -> ok (s_bool (ecube_is_one (p_ecube a.(0))))
  | "e.eq" -> ok (s_bool (ecube_eqb (p_ecube a.(0)) (p_ecube a.(1))))
  | "e.cmp" -> ok (show_cmp (ecube_cmp (p_ecube a.(0)) (p_ecube a.(1))))
  | "e.display" -> ok (s_bytes (ecube_display (p_ecube a.(0))))
  (* sop *)
  | "s.zero" -> ok (s_sop (sop_zero (p_nat a.(0))))
  | "s.one" -> ok (s_sop (sop_one (p_nat a.(0))))
  | "s.nth_var" -> rmap (fun c -> s_sop { snv = p_nat a.(0); scubes = [c] }) (cube_nth_var (p_n a.(1)))
  | "s.nth_var_inv" -> rmap (fun c -> s_sop { snv = p_nat a.(0); scubes = [c] }) (cube_nth_var_inv (p_n a.(1)))
  | "s.from_cubes" -> rmap s_sop (sop_from_cubes (p_nat a.(0)) (p_cubes a.(1)))
  | "s.num_cubes" -> ok (s_nat (sop_num_cubes (p_sop a.(0))))
  | "s.num_lits" -> ok (s_n (sop_num_lits (p_sop a.(0))))
  | "s.is_zero" -> ok (s_bool (sop_is_zero (p_sop a.(0))))
  | "s.is_one" -> ok (s_bool (sop_is_one (p_sop a.(0))))
  | "s.value" -> ok (s_bool (sop_value (p_sop a.(0)) (p_n a.(1))))
  | "s.and" -> rmap s_sop (sop_and (p_sop a.(0)) (p_sop a.(1)))
  | "s.or" -> rmap s_sop (sop_or (p_sop a.(0)) (p_sop a.(1)))
  | "s.not" -> rmap s_sop (sop_not (p_sop a.(0)))
  | "s.from_lut" -> let l = p_lut a.(0) in ok (s_sop (sop_from_lut l.nv l.tbl))
  | "s.to_lut" -> let s = p_sop a.(0) in ok (s_lut { nv = s.snv; tbl = sop_to_lut s })
  | "s.display" -> ok (s_bytes (sop_display (p_sop a.(0))))
  (* esop *)
  | "x.zero" -> ok (s_esop (esop_zero (p_nat a.(0))))
  | "x.one" -> ok (s_esop (esop_one (p_nat a.(0))))
  | "x.nth_var" -> rmap (fun c -> s_esop { env = p_nat a.(0); ecubes = [c] }) (cube_nth_var (p_n a.(1)))
  | "x.nth_var_inv" -> rmap (fun c -> s_esop { env = p_nat a.(0); ecubes = [c] }) (cube_nth_var_inv (p_n a.(1)))
  | "x.from_cubes" -> rmap s_esop (esop_from_cubes (p_nat a.(0)) (p_cubes a.(1)))
  | "x.num_cubes" -> ok (s_nat (esop_num_cubes (p_esop a.(0))))
  | "x.num_lits" -> ok (s_n (esop_num_lits (p_esop a.(0))))
  | "x.is_zero" -> ok (s_bool (esop_is_zero (p_esop a.(0))))
  | "x.is_one" -> ok (s_bool (esop_is_one (p_esop a.(0))))
  | "x.value" -> ok (s_bool (esop_value (p_esop a.(0)) (p_n a.(1))))
  | "x.xor" -> rmap s_esop (esop_xor (p_esop a.(0)) (p_esop a.(1)))
  | "x.not" -> ok (s_esop (esop_not (p_esop a.(0))))
  | "x.from_lut" -> let l = p_lut a.(0) in ok (s_esop (esop_from_lut l.nv l.tbl))
  | "x.to_lut" -> let s = p_esop a.(0) in ok (s_lut { nv = s.env; tbl = esop_to_lut s })
  | "x.display" -> ok (s_bytes (esop_display (p_esop a.(0))))
  (* soes *)
  | "o.zero" -> ok (s_soes (soes_zero (p_nat a.(0))))
  | "o.one" -> ok (s_soes (soes_one (p_nat a.(0))))
  | "o.nth_var" -> rmap (fun c -> s_soes { onv = p_nat a.(0); ocubes = [c] }) (ecube_nth_var (p_n a.(1)))
  | "o.nth_var_inv" -> rmap (fun c -> s_soes { onv = p_nat a.(0); ocubes = [c] }) (ecube_nth_var_inv (p_n a.(1)))
  | "o.from_cubes" -> rmap s_soes (soes_from_cubes (p_nat a.(0)) (p_ecubes a.(1)))
  | "o.num_cubes" -> ok (s_nat (soes_num_cubes (p_soes a.(0))))
  | "o.num_lits" -> ok (s_n (soes_num_lits (p_soes a.(0))))
  | "o.is_zero" -> ok (s_bool (soes_is_zero (p_soes a.(0))))
  | "o.is_one" -> ok (s_bool (soes_is_one (p_soes a.(0))))
  | "o.value" -> ok (s_bool (soes_value (p_soes a.(0)) (p_n a.(1))))
  | "o.or" -> rmap s_soes (soes_or (p_soes a.(0)) (p_soes a.(1)))
  | "o.to_lut" -> let s = p_soes a.(0) in ok (s_lut { nv = s.onv; tbl = soes_to_lut s })
  | "o.display" -> ok (s_bytes (soes_display (p_soes a.(0))))
  (* 0-1 programmes of the MIP optimizers (C18): the model's programme, printed like the hook prints the real one *)
  | "mipprog_sop" ->
     rmap (fun ((p, c), e) -> s_program p c e) (sop_program (p_lutlist a.(0)) (p_z a.(1)) (p_z "-1") (p_z a.(2)))
  | "mipprog_sopes" ->
     rmap (fun ((p, c), e) -> s_program p c e) (sop_program (p_lutlist a.(0)) (p_z a.(1)) (p_z a.(2)) (p_z a.(3)))
  | "mipprog_esop" ->
     rmap (fun (p, c) -> s_program p c []) (esop_program (p_lutlist a.(0)) (p_z a.(1)) (p_z a.(2)))
  (* translator cross-check: the compiled constants, as seen through the hook, against Gen/Tables.v *)
  | "const" ->
     (match op with
      | "const.VAR_MASK" -> ok (s_nlist vAR_MASK)
      | "const.NUM_VARS_MASK" -> ok (s_nlist nUM_VARS_MASK)
      | "const.COUNT_MASKS" -> ok (s_nlist cOUNT_MASKS)
      | "const.SWAP_INPUT_MASKS" -> ok (String.concat "|" (List.map s_nlist sWAP_INPUT_MASKS))
      | _ -> raise Not_found)
  | _ -> raise Not_found

(* ops whose result is an observation of an external oracle: there is nothing to replay, only to check *)
let observe (op : string) (_ty : string) (a : string array) (expected : string) : string option =
  let base = match String.index_opt op '.' with Some i when i > 1 -> String.sub op 0 i | _ -> op in
  match base with
  (* written by the harness only when a borrowed operand came back changed: the model's operands never change *)
  | "operand_changed" -> Some "unchanged"
  | "random" ->
     if expected = "panic" then Some "panic" else
     let l = p_lut expected in
     let n = p_nat a.(0) in
     Some (if int_of_nat l.nv = int_of_nat n && wfb n l.tbl then expected else "malformed")
  (* the solver is an oracle: the returned forms are checked (validity, cost against the witness), not recomputed *)
  | "mipopt_sop" | "mipopt_sopes" | "mipopt_esop" ->
     Some (if Speccheck.mip_check base a expected then expected else "invalid-or-suboptimal")
  | _ -> None

(* ------------------------------------------------------------------ specification-level checkers
   [spec_check op ty args expected] = Some true  : the implementation's result satisfies the property's statement
                                      Some false : it violates it (a concrete failing input)
                                      None       : no checker for this operation *)
let spec_check (_prop : string) (op : string) (ty : string) (a : string array) (expected : string) : bool option =
  Speccheck.check op ty a expected

(* ------------------------------------------------------------------ main loop *)
let () =
  let profile = ref "dev" and file = ref "" and tables = ref false and speccheck = ref "mismatch" and prop = ref "" in
  Arg.parse [ ("--profile", Arg.Set_string profile, "dev|release");
              ("--speccheck", Arg.Set_string speccheck, "mismatch|all|none : which lines go through the spec checkers");
              ("--property", Arg.Set_string prop, "Cxx");
              ("--tables", Arg.Set tables, "print the constant tables of the model as JSON and exit") ]
    (fun f -> file := f) "driver [--profile dev|release] transcript";
  if !tables then begin
    let l1 name l = Printf.printf "\"%s\": [%s]" name (String.concat "," (List.map (fun x -> "\"" ^ hex_of_n x ^ "\"") l)) in
    let l2 name l = Printf.printf "\"%s\": [%s]" name
                      (String.concat "," (List.map (fun r -> "[" ^ String.concat "," (List.map (fun x -> "\"" ^ hex_of_n x ^ "\"") r) ^ "]") l)) in
    print_string "{"; l1 "VAR_MASK" vAR_MASK; print_string ","; l1 "NUM_VARS_MASK" nUM_VARS_MASK; print_string ",";
    l1 "COUNT_MASKS" cOUNT_MASKS; print_string ","; l2 "SWAP_INPUT_MASKS" sWAP_INPUT_MASKS; print_string ",";
    l2 "FLIPS" fLIPS; print_string ","; l2 "SWAPS" sWAPS; print_string "}\n"; exit 0
  end;
  let ic = if !file = "" || !file = "-" then stdin else open_in !file in
  let lines = ref 0 and mism = ref 0 and debugonly = ref 0 and unknown = ref 0 and errors = ref 0 in
  let specfail = ref 0 and specrun = ref 0 in
  let do_spec id op ty args expected line =
    match (try spec_check !prop op ty args expected with _ -> None) with
    | Some false -> incr specrun; incr specfail; Printf.printf "SPECFAIL\t%s\t%s\t%s\n" id "the implementation's result violates the property's statement (extracted checker)" line; flush stdout
    | Some true -> incr specrun
    | None -> () in
  let counts = Hashtbl.create 64 in
  (try
     while true do
       let line = input_line ic in
       if line <> "" && line.[0] <> '#' then begin
         incr lines;
         let fields = Array.of_list (String.split_on_char '\t' line) in
         let nf = Array.length fields in
         (* id op ty args... => result *)
         if nf < 5 || fields.(nf - 2) <> "=>" then begin
           incr errors; Printf.printf "BADLINE\t%s\n" line
         end else begin
           let id = fields.(0) and op = fields.(1) and ty = fields.(2) in
           let args = Array.sub fields 3 (nf - 5) in
           let expected = fields.(nf - 1) in
           Hashtbl.replace counts op (1 + (try Hashtbl.find counts op with Not_found -> 0));
           match (match observe op ty args expected with
                  | Some r -> Some (Ok r)
                  | None ->
                  try Some (run op ty args) with
                  | Not_found -> incr unknown; Printf.printf "UNKNOWNOP\t%s\t%s\n" id op; None
                  | Failure m | Invalid_argument m -> incr errors; Printf.printf "PARSEERROR\t%s\t%s\t%s\n" id op m; None) with
           | None -> ()
           | Some r ->
              let shown = (match r with Ok s -> s | PanicAlways -> "panic" | PanicDebug -> "panic") in
              (match r with
               | PanicDebug ->
                  incr debugonly;
                  Printf.printf "DEBUGONLY\t%s\t%s\n" id line;
                  if !profile = "dev" && expected <> "panic" then begin
                    incr mism; Printf.printf "MISMATCH\t%s\t%s\t%s\n" id "panic(debug-only)" line end
               | _ ->
                  if shown <> expected then begin
                    incr mism; Printf.printf "MISMATCH\t%s\t%s\t%s\n" id shown line;
                    (* in mismatch mode the costly specification checks stop after 40 confirmed failing inputs:
                       the verdict needs one, the report shows five *)
                    if !speccheck = "all" || (!speccheck = "mismatch" && !specfail < 40) then do_spec id op ty args expected line end
                  else if !speccheck = "all" then do_spec id op ty args expected line)
         end
       end
     done
   with End_of_file -> ());
  Hashtbl.iter (fun op c -> Printf.printf "OPCOUNT\t%s\t%d\n" op c) counts;
  Printf.printf "SUMMARY\tlines=%d\tmismatches=%d\tdebugonly=%d\tunknown=%d\terrors=%d\tspecrun=%d\tspecfail=%d\n"
    !lines !mism !debugonly !unknown !errors !specrun !specfail
