#!/usr/bin/env python3
"""Expression translator: word-level expressions of the kernels of
/repo/src/operations.rs and /repo/src/decomposition.rs  ->  coq/Gen/Exprs.v

For every kernel listed in SPECS the in-word regime is located in the Rust source (a small
statement parser: let / if-else chains / for / assignments / macro and expression statements),
the right-hand sides are parsed by a real expression parser (tokenizer + precedence climbing
with Rust's precedences) and translated into Gallina over `N` with a small fixed vocabulary:

    a & b  -> N.land a b        a | b -> N.lor a b          a ^ b -> N.lxor a b
    !x     -> not64 x           x << s -> shl64 x s         x >> s -> N.shiftr x s
    1 << s -> N.shiftl 1 s      (shift of the literal 1: no bit can be lost below the width)
    a + b  -> (a + b)           a - b  -> (a - b)           (plain N arithmetic; overflow is the
                                                             business of the tie lemmas)
    x.wrapping_add(y) -> wrap64 (x + y)
    VAR_MASK[i] -> nthN VAR_MASK i        SWAP_INPUT_MASKS[i][j] -> nthN (nth i SWAP_INPUT_MASKS []) j
    num_vars_mask(n) -> num_vars_mask n   *t -> t     e as u64/usize -> e
    ==, !=, <, <=, >, >= -> =?, negb (=?), <?, <=?, ...     if c { a } else { b } -> if c then a else b
    core::cmp::max/min -> N.max/N.min (Nat.max/Nat.min on nat operands)   usize::BITS -> 64

Each Rust local becomes a Gallina `let`.  Anything outside this vocabulary, a missing function, a
missing branch, an ambiguous or missing statement, or a statement of a covered regime that no
definition accounts for makes the generator FAIL (non-zero exit, message naming function and
statement).  Nothing is skipped silently: the regimes that are deliberately not translated are listed
in SKIPPED with the reason.

Standard library only.  `main()` regenerates coq/Gen/Exprs.v (written only when the content changes).
"""
import os
import re
import sys

HERE = os.path.dirname(os.path.abspath(__file__))
if HERE not in sys.path:
    sys.path.insert(0, HERE)
import gen as G  # noqa: E402  (read, strip_comments, cut_tests, fns, write_if_changed)

COQ = os.path.join(HERE, "..", "coq", "Gen")


class GenExprError(SystemExit):
    pass


def fail(msg):
    # SystemExit with a string argument: the message goes to stderr and the exit status is 1
    raise GenExprError("gen_exprs: ERROR: %s" % msg)


# ----------------------------------------------------------------------------------------------
# tokenizer

INT_SUFFIX = r"(?:u8|u16|u32|u64|u128|usize|i8|i16|i32|i64|i128|isize)"
TOKEN_RE = re.compile(r"""
  (?P<ws>\s+)
 |(?P<int>0x[0-9a-fA-F_]+""" + INT_SUFFIX + r"""?|0b[01_]+""" + INT_SUFFIX + r"""?|[0-9][0-9_]*""" + INT_SUFFIX + r"""?)
 |(?P<id>[A-Za-z_][A-Za-z_0-9]*)
 |(?P<op><<=|>>=|\.\.=|<<|>>|<=|>=|==|!=|&&|\|\||\+=|-=|\*=|/=|%=|&=|\|=|\^=|->|=>|::|\.\.|[-+*/%&|^!=<>.,;:()\[\]{}?])
""", re.X)

ASSIGN_OPS = {"=", "+=", "-=", "*=", "/=", "%=", "&=", "|=", "^=", "<<=", ">>="}
OPEN = {"(": ")", "[": "]", "{": "}"}
CLOSE = {")", "]", "}"}


class Tok:
    __slots__ = ("kind", "text", "start", "end")

    def __init__(self, kind, text, start, end):
        self.kind, self.text, self.start, self.end = kind, text, start, end

    def __repr__(self):
        return self.text


def tokenize(src, where):
    toks = []
    pos = 0
    while pos < len(src):
        m = TOKEN_RE.match(src, pos)
        if not m:
            fail("%s: cannot tokenize at %r" % (where, src[pos:pos + 30]))
        if m.lastgroup != "ws":
            toks.append(Tok(m.lastgroup, m.group(), m.start(), m.end()))
        pos = m.end()
    return toks


def text_of(src, toks):
    """source text of a token range, whitespace collapsed"""
    if not toks:
        return ""
    return " ".join(src[toks[0].start:toks[-1].end].split())


def norm(toks):
    """canonical spelling of a token range (used to match conditions and left-hand sides)"""
    return " ".join(t.text for t in toks)


def norm_str(s, where):
    return norm(tokenize(s, where))


# ----------------------------------------------------------------------------------------------
# statements

class Stmt:
    def __init__(self, kind, toks, **kw):
        self.kind = kind          # let | assign | expr | if | for | return | macro
        self.toks = toks          # all tokens of the statement (for messages)
        self.__dict__.update(kw)
        self.covered = False


def skip_group(toks, i, where):
    """toks[i] is an opening bracket; index of the matching closing one"""
    depth = 0
    j = i
    while j < len(toks):
        t = toks[j].text
        if t in OPEN:
            depth += 1
        elif t in CLOSE:
            depth -= 1
            if depth == 0:
                return j
        j += 1
    fail("%s: unbalanced brackets" % where)


def find_at_depth0(toks, i, stop, where, brace_is_group=True):
    """first index j >= i with toks[j].text in stop at bracket depth 0, or len(toks)"""
    j = i
    while j < len(toks):
        t = toks[j].text
        if t in stop:
            return j
        if t in OPEN and (brace_is_group or t != "{"):
            j = skip_group(toks, j, where)
        elif t in CLOSE:
            fail("%s: stray %s" % (where, t))
        j += 1
    return len(toks)


def parse_block(toks, where):
    """statements of a block body (tokens without the enclosing braces)"""
    out = []
    i = 0
    n = len(toks)
    while i < n:
        t = toks[i]
        if t.text == ";":
            i += 1
            continue
        if t.text == "let":
            j = find_at_depth0(toks, i, {";"}, where)
            if j >= n:
                fail("%s: `let` without `;`" % where)
            body = toks[i + 1:j]
            eq = find_at_depth0(body, 0, {"="}, where)
            pat = body[:eq]
            rhs = body[eq + 1:] if eq < len(body) else None
            if pat and pat[0].text == "mut":
                pat = pat[1:]
            colon = find_at_depth0(pat, 0, {":"}, where)
            pat = pat[:colon]
            name = pat[0].text if len(pat) == 1 and pat[0].kind == "id" else None
            out.append(Stmt("let", toks[i:j + 1], name=name, rhs=rhs))
            i = j + 1
        elif t.text == "if":
            start = i
            branches = []
            while True:
                # toks[i] == 'if'
                b = find_at_depth0(toks, i + 1, {"{"}, where, brace_is_group=False)
                if b >= n:
                    fail("%s: `if` without block" % where)
                e = skip_group(toks, b, where)
                branches.append((toks[i + 1:b], parse_block(toks[b + 1:e], where)))
                i = e + 1
                if i < n and toks[i].text == "else":
                    if i + 1 < n and toks[i + 1].text == "if":
                        i += 1
                        continue
                    if i + 1 < n and toks[i + 1].text == "{":
                        e2 = skip_group(toks, i + 1, where)
                        branches.append((None, parse_block(toks[i + 2:e2], where)))
                        i = e2 + 1
                    else:
                        fail("%s: malformed `else`" % where)
                break
            out.append(Stmt("if", toks[start:i], branches=branches))
        elif t.text in ("for", "while", "loop"):
            b = find_at_depth0(toks, i + 1, {"{"}, where, brace_is_group=False)
            if b >= n:
                fail("%s: `%s` without block" % (where, t.text))
            e = skip_group(toks, b, where)
            out.append(Stmt("for", toks[i:e + 1], head=toks[i + 1:b], body=parse_block(toks[b + 1:e], where)))
            i = e + 1
        elif t.text == "match":
            fail("%s: `match` is outside the translated fragment: %s" % (where, norm(toks[i:i + 12])))
        elif t.text == "return":
            j = find_at_depth0(toks, i, {";"}, where)
            out.append(Stmt("return", toks[i:j + 1], rhs=toks[i + 1:j]))
            i = j + 1
        elif t.kind == "id" and i + 2 < n and toks[i + 1].text == "!" and toks[i + 2].text in OPEN:
            e = skip_group(toks, i + 2, where)
            j = e + 1
            if j < n and toks[j].text == ";":
                j += 1
            out.append(Stmt("macro", toks[i:j], name=t.text, args=toks[i + 3:e]))
            i = j
        else:
            j = find_at_depth0(toks, i, {";"}, where)
            body = toks[i:j]
            a = find_at_depth0(body, 0, ASSIGN_OPS, where)
            if a < len(body):
                out.append(Stmt("assign", toks[i:j + 1], lhs=body[:a], op=body[a].text, rhs=body[a + 1:]))
            else:
                out.append(Stmt("expr", toks[i:min(j + 1, n)], expr=body, tail=(j >= n)))
            i = j + 1
    return out


# ----------------------------------------------------------------------------------------------
# expressions: precedence climbing.  AST = nested tuples (parentheses leave no node)
#   ('int', value, hex?)  ('path', 'a::b')  ('un', op, e)  ('bin', op, l, r)  ('cast', e, ty)
#   ('idx', base, i)  ('call', f, (args))  ('mcall', recv, name, (args))  ('if', c, t, e)
#   ('closure', (params), body)

BIN_PREC = {
    "*": 10, "/": 10, "%": 10,
    "+": 9, "-": 9,
    "<<": 8, ">>": 8,
    "&": 7,
    "^": 6,
    "|": 5,
    "==": 4, "!=": 4, "<": 4, ">": 4, "<=": 4, ">=": 4,
    "&&": 3,
    "||": 2,
}
AS_PREC = 11
COMPARISONS = {"==", "!=", "<", ">", "<=", ">="}
INT_TYPES = {"u8", "u16", "u32", "u64", "u128", "usize", "i8", "i16", "i32", "i64", "i128", "isize"}


def parse_int_token(text):
    raw = text.replace("_", "")
    raw = re.sub(INT_SUFFIX + "$", "", raw)
    if raw.startswith("0x"):
        return ("int", int(raw, 16), True)
    if raw.startswith("0b"):
        return ("int", int(raw, 2), True)
    return ("int", int(raw), False)


class ExprParser:
    def __init__(self, toks, where):
        self.toks = toks
        self.i = 0
        self.where = where

    def peek(self):
        return self.toks[self.i].text if self.i < len(self.toks) else None

    def next(self):
        if self.i >= len(self.toks):
            self.err("unexpected end of expression")
        t = self.toks[self.i]
        self.i += 1
        return t

    def expect(self, text):
        t = self.next()
        if t.text != text:
            self.err("expected `%s`, found `%s`" % (text, t.text))

    def err(self, msg):
        fail("%s: cannot parse expression `%s`: %s" % (self.where, norm(self.toks), msg))

    def parse_all(self):
        e = self.expr(0)
        if self.i != len(self.toks):
            self.err("trailing tokens from `%s`" % self.peek())
        return e

    def expr(self, min_prec):
        lhs = self.unary()
        while True:
            op = self.peek()
            if op == "as" and AS_PREC >= min_prec:
                self.next()
                lhs = ("cast", lhs, self.type_())
                continue
            prec = BIN_PREC.get(op)
            if prec is None or prec < min_prec:
                return lhs
            self.next()
            rhs = self.expr(prec + 1)
            if op in COMPARISONS and self.peek() in COMPARISONS:
                self.err("chained comparison")
            lhs = ("bin", op, lhs, rhs)

    def type_(self):
        t = self.next()
        if t.kind != "id":
            self.err("type expected after `as`")
        name = t.text
        while self.peek() == "::":
            self.next()
            name += "::" + self.next().text
        return name

    def unary(self):
        op = self.peek()
        if op in ("!", "-", "*", "&"):
            self.next()
            if op == "&" and self.peek() == "mut":
                self.next()
            return ("un", op, self.unary())
        if op == "|":
            self.next()
            params = []
            while self.peek() != "|":
                t = self.next()
                if t.kind != "id":
                    self.err("closure parameter expected")
                params.append(t.text)
                if self.peek() == ":":
                    self.next()
                    self.type_()
                if self.peek() == ",":
                    self.next()
            self.expect("|")
            return ("closure", tuple(params), self.expr(0))
        return self.postfix(self.primary())

    def args(self):
        out = []
        while self.peek() != ")":
            out.append(self.expr(0))
            if self.peek() == ",":
                self.next()
            elif self.peek() != ")":
                self.err("`,` or `)` expected in argument list")
        self.expect(")")
        return tuple(out)

    def postfix(self, e):
        while True:
            op = self.peek()
            if op == "(":
                self.next()
                e = ("call", e, self.args())
            elif op == "[":
                self.next()
                i = self.expr(0)
                self.expect("]")
                e = ("idx", e, i)
            elif op == ".":
                self.next()
                name = self.next()
                if name.kind != "id" or self.peek() != "(":
                    self.err("only method calls are supported after `.`")
                self.next()
                e = ("mcall", e, name.text, self.args())
            else:
                return e

    def block_expr(self):
        self.expect("{")
        e = self.expr(0)
        if self.peek() != "}":
            self.err("only single-expression blocks are supported")
        self.next()
        return e

    def primary(self):
        t = self.next()
        if t.kind == "int":
            return parse_int_token(t.text)
        if t.text == "(":
            e = self.expr(0)
            if self.peek() == ",":
                self.err("tuples are outside the translated fragment")
            self.expect(")")
            return e
        if t.text == "if":
            c = self.expr(0)
            a = self.block_expr()
            if self.peek() != "else":
                self.err("`if` expression without `else`")
            self.next()
            if self.peek() == "if":
                b = self.unary_if()
            else:
                b = self.block_expr()
            return ("if", c, a, b)
        if t.text == "{":
            self.i -= 1
            return self.block_expr()
        if t.kind == "id":
            name = t.text
            while self.peek() == "::":
                self.next()
                name += "::" + self.next().text
            return ("path", name)
        self.err("unexpected token `%s`" % t.text)

    def unary_if(self):
        return self.primary()


def parse_expr(toks, where):
    if not toks:
        fail("%s: empty expression" % where)
    return ExprParser(toks, where).parse_all()


# ----------------------------------------------------------------------------------------------
# translation to Gallina.  Types: 'N' (u64 word or usize as N), 'nat', 'bool', 'lit' (integer
# literal, takes the type of its context), 'fun2' (N -> N -> N), 'list' (list N)

COQ_KEYWORDS = {"as", "at", "cofix", "else", "end", "exists", "exists2", "fix", "for", "forall", "fun", "if", "IF",
                "in", "let", "match", "mod", "Prop", "return", "Set", "then", "Type", "using", "where", "with"}
TABLES_1D = {"VAR_MASK", "NUM_VARS_MASK", "COUNT_MASKS"}
TABLES_2D = {"SWAP_INPUT_MASKS"}
KNOWN_GLOBALS = TABLES_1D | TABLES_2D | {"num_vars_mask", "true", "false"}
PATH_CONSTS = {"usize::BITS": 64, "u64::BITS": 64}
MINMAX = {"std::cmp::min": "min", "core::cmp::min": "min", "cmp::min": "min",
          "std::cmp::max": "max", "core::cmp::max": "max", "cmp::max": "max"}
COQ_TYPE = {"N": "N", "nat": "nat", "bool": "bool", "fun2": "N -> N -> N", "list": "list N"}


def cid(name):
    return name + "_" if name in COQ_KEYWORDS else name


class Translator:
    def __init__(self, where, env, abstractions):
        self.where = where
        self.env = dict(env)                # rust name -> type
        self.abstractions = abstractions    # list of (ast, param name)

    def err(self, msg):
        fail("%s: cannot translate: %s" % (self.where, msg))

    # -- helpers
    @staticmethod
    def paren(text):
        return text if re.fullmatch(r"[A-Za-z_0-9.%']+", text) or (text.startswith("(") and _balanced_outer(text)) \
            else "(" + text + ")"

    def lit(self, e, want):
        _, v, hexa = e
        if want == "nat":
            if v > 1000:
                self.err("literal %d in a nat context" % v)
            return "%d%%nat" % v
        return ("0x%x" % v) if hexa and v > 9 else str(v)

    def coerce(self, e, want):
        """translate e and convert it to type want ('N', 'nat' or 'bool')"""
        if e[0] == "int" and self.abstracted(e) is None:
            if want == "bool":
                self.err("integer literal where a bool is expected")
            return self.lit(e, want)
        text, ty = self.tr(e)
        if ty == want:
            return text
        if ty == "lit":
            self.err("internal: literal type leaked from `%s`" % text)
        if ty == "nat" and want == "N":
            return "N.of_nat " + self.paren(text)
        if ty == "N" and want == "nat":
            return "N.to_nat " + self.paren(text)
        self.err("type mismatch: `%s` has type %s where %s is expected" % (text, ty, want))

    def abstracted(self, e):
        for ast, name in self.abstractions:
            if ast == e:
                return name
        return None

    def ty_of(self, e):
        """type without emitting (used to choose between the nat and the N reading of an operator)"""
        if e[0] == "int" and self.abstracted(e) is None:
            return "lit"
        return self.tr(e)[1]

    # -- main
    def tr(self, e):
        a = self.abstracted(e)
        if a is not None:
            if a not in self.env:
                self.err("abstraction parameter %s is not declared" % a)
            return cid(a), self.env[a]
        k = e[0]
        if k == "int":
            return self.lit(e, "N"), "N"
        if k == "path":
            name = e[1]
            if name in PATH_CONSTS:
                return str(PATH_CONSTS[name]), "N"
            if name in ("true", "false"):
                return name, "bool"
            if "::" in name:
                self.err("unknown path `%s`" % name)
            if name not in self.env:
                self.err("unknown identifier `%s`" % name)
            return cid(name), self.env[name]
        if k == "un":
            op, x = e[1], e[2]
            if op in ("*", "&"):
                return self.tr(x)
            if op == "!":
                if self.ty_of(x) == "bool":
                    return "negb " + self.paren(self.coerce(x, "bool")), "bool"
                return "not64 " + self.paren(self.coerce(x, "N")), "N"
            self.err("unary `%s` is outside the vocabulary" % op)
        if k == "cast":
            if e[2] not in INT_TYPES:
                self.err("cast to `%s`" % e[2])
            if e[1][0] == "int":
                return self.lit(e[1], "N"), "N"
            return self.tr(e[1])
        if k == "bin":
            return self.tr_bin(e)
        if k == "idx":
            return self.tr_idx(e)
        if k == "call":
            return self.tr_call(e)
        if k == "mcall":
            recv, name, args = e[1], e[2], e[3]
            if name == "wrapping_add" and len(args) == 1:
                return "wrap64 (%s + %s)" % (self.paren(self.coerce(recv, "N")), self.paren(self.coerce(args[0], "N"))), "N"
            self.err("method `%s` is outside the vocabulary" % name)
        if k == "if":
            c = self.coerce(e[1], "bool")
            ta, tb = self.ty_of(e[2]), self.ty_of(e[3])
            want = "bool" if "bool" in (ta, tb) else ("nat" if {ta, tb} <= {"nat", "lit"} and "nat" in (ta, tb) else "N")
            return "if %s then %s else %s" % (c, self.coerce(e[2], want), self.coerce(e[3], want)), want
        if k == "closure":
            sub = Translator(self.where, self.env, self.abstractions)
            binders = []
            for p in e[1]:
                if p != "_":
                    sub.env[p] = "N"
                binders.append("(%s : N)" % cid(p))
            body, ty = sub.tr(e[2])
            return "fun %s => %s" % (" ".join(binders), body), "fun%d" % len(e[1])
        self.err("node %r" % (k,))

    def tr_bin(self, e):
        op, l, r = e[1], e[2], e[3]
        tl, tr_ = self.ty_of(l), self.ty_of(r)
        both_nat = {tl, tr_} <= {"nat", "lit"} and "nat" in (tl, tr_)
        if op in ("&", "|", "^"):
            if tl == "bool" or tr_ == "bool":
                f = {"&": "andb", "|": "orb", "^": "xorb"}[op]
                if op == "&":
                    return "(%s && %s)" % (self.paren(self.coerce(l, "bool")), self.paren(self.coerce(r, "bool"))), "bool"
                if op == "|":
                    return "(%s || %s)" % (self.paren(self.coerce(l, "bool")), self.paren(self.coerce(r, "bool"))), "bool"
                return "%s %s %s" % (f, self.paren(self.coerce(l, "bool")), self.paren(self.coerce(r, "bool"))), "bool"
            f = {"&": "N.land", "|": "N.lor", "^": "N.lxor"}[op]
            return "%s %s %s" % (f, self.paren(self.coerce(l, "N")), self.paren(self.coerce(r, "N"))), "N"
        if op == "<<":
            if l[0] == "int" and self.abstracted(l) is None:
                if l[1] != 1:
                    self.err("left shift of the literal %d (only `1 << s` is read as a non-wrapping shift)" % l[1])
                return "N.shiftl 1 %s" % self.paren(self.coerce(r, "N")), "N"
            return "shl64 %s %s" % (self.paren(self.coerce(l, "N")), self.paren(self.coerce(r, "N"))), "N"
        if op == ">>":
            return "N.shiftr %s %s" % (self.paren(self.coerce(l, "N")), self.paren(self.coerce(r, "N"))), "N"
        if op in ("+", "-", "*"):
            if both_nat:
                return "(%s %s %s)%%nat" % (self.paren(self.coerce(l, "nat")), op, self.paren(self.coerce(r, "nat"))), "nat"
            return "(%s %s %s)" % (self.paren(self.coerce(l, "N")), op, self.paren(self.coerce(r, "N"))), "N"
        if op in COMPARISONS:
            if tl == "bool" or tr_ == "bool":
                self.err("comparison of booleans")
            if both_nat:
                a, b = self.paren(self.coerce(l, "nat")), self.paren(self.coerce(r, "nat"))
                t = {"==": "Nat.eqb %s %s" % (a, b), "!=": "negb (Nat.eqb %s %s)" % (a, b),
                     "<": "Nat.ltb %s %s" % (a, b), "<=": "Nat.leb %s %s" % (a, b),
                     ">": "Nat.ltb %s %s" % (b, a), ">=": "Nat.leb %s %s" % (b, a)}[op]
                return t, "bool"
            a, b = self.paren(self.coerce(l, "N")), self.paren(self.coerce(r, "N"))
            t = {"==": "(%s =? %s)" % (a, b), "!=": "negb (%s =? %s)" % (a, b),
                 "<": "(%s <? %s)" % (a, b), "<=": "(%s <=? %s)" % (a, b),
                 ">": "(%s <? %s)" % (b, a), ">=": "(%s <=? %s)" % (b, a)}[op]
            return t, "bool"
        if op in ("&&", "||"):
            return "(%s %s %s)" % (self.paren(self.coerce(l, "bool")), op, self.paren(self.coerce(r, "bool"))), "bool"
        self.err("binary `%s` is outside the vocabulary" % op)

    def tr_idx(self, e):
        base, i = e[1], e[2]
        if base[0] == "path" and base[1] in TABLES_1D:
            return "nthN %s %s" % (base[1], self.paren(self.coerce(i, "nat"))), "N"
        if base[0] == "idx" and base[1][0] == "path" and base[1][1] in TABLES_2D:
            return "nthN (nth %s %s []) %s" % (self.paren(self.coerce(base[2], "nat")), base[1][1],
                                               self.paren(self.coerce(i, "nat"))), "N"
        if base[0] == "path" and self.env.get(base[1]) == "list":
            return "nthN %s %s" % (cid(base[1]), self.paren(self.coerce(i, "nat"))), "N"
        self.err("indexing of `%s`" % (base[1] if base[0] == "path" else base[0]))

    def tr_call(self, e):
        f, args = e[1], e[2]
        if f[0] != "path":
            self.err("call of a computed function")
        name = f[1]
        if name == "num_vars_mask" and len(args) == 1:
            return "num_vars_mask %s" % self.paren(self.coerce(args[0], "nat")), "N"
        if name in MINMAX and len(args) == 2:
            ta, tb = self.ty_of(args[0]), self.ty_of(args[1])
            if {ta, tb} <= {"nat", "lit"} and "nat" in (ta, tb):
                return "Nat.%s %s %s" % (MINMAX[name], self.paren(self.coerce(args[0], "nat")),
                                         self.paren(self.coerce(args[1], "nat"))), "nat"
            return "N.%s %s %s" % (MINMAX[name], self.paren(self.coerce(args[0], "N")),
                                   self.paren(self.coerce(args[1], "N"))), "N"
        if self.env.get(name) == "fun2" and len(args) == 2:
            return "%s %s %s" % (cid(name), self.paren(self.coerce(args[0], "N")), self.paren(self.coerce(args[1], "N"))), "N"
        self.err("call of `%s` is outside the vocabulary" % name)


def _balanced_outer(text):
    """text starts with '(' : does that parenthesis close at the very end?"""
    depth = 0
    for i, c in enumerate(text):
        if c == "(":
            depth += 1
        elif c == ")":
            depth -= 1
            if depth == 0:
                return i == len(text) - 1
    return False


def free_vars(e, abstractions, bound=frozenset()):
    """names (paths without ::) occurring free in e, abstracted sub-expressions counted as their parameter"""
    for ast, name in abstractions:
        if ast == e:
            return {name}
    k = e[0]
    if k == "int":
        return set()
    if k == "path":
        return set() if ("::" in e[1] or e[1] in bound) else {e[1]}
    if k == "un":
        return free_vars(e[2], abstractions, bound)
    if k == "cast":
        return free_vars(e[1], abstractions, bound)
    if k == "bin":
        return free_vars(e[2], abstractions, bound) | free_vars(e[3], abstractions, bound)
    if k == "idx":
        return free_vars(e[1], abstractions, bound) | free_vars(e[2], abstractions, bound)
    if k == "call":
        s = free_vars(e[1], abstractions, bound)
        for a in e[2]:
            s |= free_vars(a, abstractions, bound)
        return s
    if k == "mcall":
        s = free_vars(e[1], abstractions, bound)
        for a in e[3]:
            s |= free_vars(a, abstractions, bound)
        return s
    if k == "if":
        return free_vars(e[1], abstractions, bound) | free_vars(e[2], abstractions, bound) | free_vars(e[3], abstractions, bound)
    if k == "closure":
        return free_vars(e[2], abstractions, bound | set(e[1]))
    fail("internal: free_vars of %r" % (k,))


def subexprs(e):
    yield e
    k = e[0]
    kids = {"un": [2], "cast": [1], "bin": [2, 3], "idx": [1, 2], "if": [1, 2, 3], "closure": [2]}.get(k, [])
    for i in kids:
        yield from subexprs(e[i])
    if k == "call":
        yield from subexprs(e[1])
        for a in e[2]:
            yield from subexprs(a)
    if k == "mcall":
        yield from subexprs(e[1])
        for a in e[3]:
            yield from subexprs(a)


# ----------------------------------------------------------------------------------------------
# what to translate
#
# A spec: name of the Gallina definition, file, function, path (the conditions of the if / else-if branches to
# enter, "else" for a final else; `for` bodies are entered implicitly), target, parameters (ordered, with
# types; a parameter that has the name of a Rust local overrides that local: the definition is abstracted
# over it), abstractions (Rust sub-expression -> parameter).
# Targets:  assign:<lhs>      the unique assignment (=, &=, |=, ^=) to that place in the regime
#           let:<name>        the unique `let <name> = ..` of the regime (or of an enclosing block)
#           tail              the value expression that ends the block
#           callarg:<f>:<k>   argument k of the unique call of f in the regime
#           index:<v>         the index expression of the unique `v[..]` place of the regime

OPS = "src/operations.rs"
DEC = "src/decomposition.rs"


def S(name, file, fn, path, target, params, abstractions=None):
    return {"name": name, "file": file, "fn": fn, "path": tuple(path), "target": target, "params": params,
            "abs": abstractions or {}}


SPECS = [
    S("gx_num_vars_mask", OPS, "num_vars_mask", [], "tail", [("num_vars", "nat")]),
    S("gx_fill_nth_var_word", OPS, "fill_nth_var", ["ind <= 5"], "assign:*t", [("num_vars", "nat"), ("ind", "N")]),
    S("gx_fill_nth_var_high", OPS, "fill_nth_var", ["else"], "assign:*t", [("ind", "N"), ("i", "nat")]),
    S("gx_equals_count_values", OPS, "fill_equals", [], "let:count_values", [("k", "N")]),
    S("gx_threshold_count_values", OPS, "fill_threshold", ["else"], "callarg:fill_symmetric:2", [("k", "N")]),
    S("gx_get_bit_index", OPS, "get_bit", [], "index:table", [("ind", "N")]),
    S("gx_get_bit_test", OPS, "get_bit", [], "tail", [("ind", "N"), ("w", "N")], {"table[ind >> 6]": "w"}),
    S("gx_set_bit_index", OPS, "set_bit", [], "index:table", [("ind", "N")]),
    S("gx_set_bit_word", OPS, "set_bit", [], "assign:table[ind >> 6]", [("ind", "N"), ("w", "N")],
      {"table[ind >> 6]": "w"}),
    S("gx_unset_bit_index", OPS, "unset_bit", [], "index:table", [("ind", "N")]),
    S("gx_unset_bit_word", OPS, "unset_bit", [], "assign:table[ind >> 6]", [("ind", "N"), ("w", "N")],
      {"table[ind >> 6]": "w"}),
    S("gx_not_word", OPS, "not_inplace", [], "assign:*t", [("num_vars", "nat"), ("t", "N")]),
    S("gx_and_word", OPS, "and_inplace", [], "assign:*t1", [("t1", "N"), ("t2", "N")]),
    S("gx_or_word", OPS, "or_inplace", [], "assign:*t1", [("t1", "N"), ("t2", "N")]),
    S("gx_xor_word", OPS, "xor_inplace", [], "assign:*t1", [("t1", "N"), ("t2", "N")]),
    S("gx_swap_max", OPS, "swap_inplace", [], "let:i", [("ind1", "N"), ("ind2", "N")]),
    S("gx_swap_min", OPS, "swap_inplace", [], "let:j", [("ind1", "N"), ("ind2", "N")]),
    S("gx_swap_word_low", OPS, "swap_inplace", ["i <= 5"], "assign:*t", [("i", "nat"), ("j", "nat"), ("t", "N")]),
    S("gx_swap_cross_t00", OPS, "swap_inplace", ["j <= 5", "k & mi == 0"], "let:t00", [("j", "nat"), ("t0", "N")]),
    S("gx_swap_cross_t01", OPS, "swap_inplace", ["j <= 5", "k & mi == 0"], "let:t01", [("j", "nat"), ("t0", "N")]),
    S("gx_swap_cross_t10", OPS, "swap_inplace", ["j <= 5", "k & mi == 0"], "let:t10", [("j", "nat"), ("t1", "N")]),
    S("gx_swap_cross_t11", OPS, "swap_inplace", ["j <= 5", "k & mi == 0"], "let:t11", [("j", "nat"), ("t1", "N")]),
    S("gx_swap_cross_lo", OPS, "swap_inplace", ["j <= 5", "k & mi == 0"], "assign:table[k]",
      [("j", "nat"), ("t0", "N"), ("t1", "N")]),
    S("gx_swap_cross_hi", OPS, "swap_inplace", ["j <= 5", "k & mi == 0"], "assign:table[k + mi]",
      [("j", "nat"), ("t0", "N"), ("t1", "N")]),
    S("gx_flip_word", OPS, "flip_inplace", ["ind <= 5"], "assign:*t", [("ind", "nat"), ("t", "N")]),
    S("gx_cof0_word", OPS, "cofactor0_inplace", ["ind <= 5"], "assign:*t", [("ind", "nat"), ("t", "N")]),
    S("gx_cof1_word", OPS, "cofactor1_inplace", ["ind <= 5"], "assign:*t", [("ind", "nat"), ("t", "N")]),
    S("gx_from_cof_word", OPS, "from_cofactors_inplace", ["ind <= 5"], "assign:table[i]",
      [("ind", "nat"), ("w0", "N"), ("w1", "N")], {"t0[i]": "w0", "t1[i]": "w1"}),
    S("gx_next_mask", OPS, "next_inplace", [], "let:mask", [("num_vars", "nat")]),
    S("gx_next_word", OPS, "next_inplace", [], "assign:*t", [("mask", "N"), ("t", "N")]),
    S("gx_helper_mask", DEC, "input_property_helper", [], "let:mask", [("num_vars", "nat")]),
    S("gx_helper_c1", DEC, "input_property_helper", ["ind <= 5"], "let:c1", [("ind", "N"), ("t", "N")]),
    S("gx_helper_c0", DEC, "input_property_helper", ["ind <= 5"], "let:c0", [("ind", "N"), ("t", "N")]),
    S("gx_helper_test_low", DEC, "input_property_helper", ["ind <= 5"], "assign:ret",
      [("op", "fun2"), ("mask", "N"), ("ret", "bool"), ("c0", "N"), ("c1", "N")]),
    S("gx_helper_test_high", DEC, "input_property_helper", ["else", "i & stride == 0"], "assign:ret",
      [("op", "fun2"), ("mask", "N"), ("ret", "bool"), ("c0", "N"), ("c1", "N")]),
    S("gx_op_independent", DEC, "input_independent", [], "callarg:input_property_helper:3", []),
    S("gx_op_and", DEC, "input_and", [], "callarg:input_property_helper:3", []),
    S("gx_op_or", DEC, "input_or", [], "callarg:input_property_helper:3", []),
    S("gx_op_nand", DEC, "input_nand", [], "callarg:input_property_helper:3", []),
    S("gx_op_nor", DEC, "input_nor", [], "callarg:input_property_helper:3", []),
    S("gx_op_xor", DEC, "input_xor", [], "callarg:input_property_helper:3", []),
    S("gx_op_pos_unate", DEC, "input_pos_unate", [], "callarg:input_property_helper:3", []),
    S("gx_op_neg_unate", DEC, "input_neg_unate", [], "callarg:input_property_helper:3", []),
]

# Regimes of the listed kernels that are deliberately NOT translated (whole-word moves, no word arithmetic),
# and locals that are index bookkeeping rather than word expressions.  Everything else in a listed kernel
# must be accounted for by a definition.
SKIPPED = {
    (OPS, "swap_inplace", ("else",)): "i, j > 5: whole words are exchanged",
    (OPS, "flip_inplace", ("else",)): "ind > 5: whole words are exchanged",
    (OPS, "cofactor0_inplace", ("else",)): "ind > 5: whole words are copied",
    (OPS, "cofactor1_inplace", ("else",)): "ind > 5: whole words are copied",
    (OPS, "from_cofactors_inplace", ("else",)): "ind > 5: whole words are copied",
}
# (file, fn, local) -> reason
SKIPPED_LETS = {
    (OPS, "swap_inplace", "mi"): "word index stride 2^(i-6) of the cross regime (a nat in the model)",
    (DEC, "input_property_helper", "stride"): "word index stride 2^(ind-6) (a nat in the model)",
}
# locals that a definition is abstracted over (filled while generating; listed at the end of Exprs.v)
OVERRIDDEN = []


# ----------------------------------------------------------------------------------------------
# locating regimes and targets

class Fn:
    def __init__(self, file, name, src):
        self.file, self.name, self.src = file, name, src
        self.where = "%s: fn %s" % (file, name)
        self.toks = tokenize(src, self.where)
        self.body = parse_block(self.toks, self.where)


def cond_text(cond):
    return "else" if cond is None else norm(cond)


def find_region(fn, path):
    """-> (block, scope) : scope = the lets visible on entry of the block, in source order"""
    block, scope = fn.body, []
    done = []
    for sel in path:
        want = norm_str(sel, fn.where) if sel != "else" else "else"
        hits = []

        def search(b, sc):
            sc = list(sc)
            for s in b:
                if s.kind == "let":
                    sc.append(s)
                elif s.kind == "for":
                    search(s.body, sc)
                elif s.kind == "if":
                    for cond, body in s.branches:
                        if cond_text(cond) == want:
                            hits.append((body, list(sc)))
        search(block, scope)
        if len(hits) != 1:
            fail("%s: %d branches `%s` found below [%s] (exactly one expected) - the regime structure of the "
                 "kernel has changed" % (fn.where, len(hits), sel, ", ".join(done)))
        block, scope = hits[0]
        done.append(sel)
    return block, scope


def flatten(block, scope):
    """statements of a regime with the lets visible at each of them; `for` bodies are entered"""
    out = []
    sc = list(scope)
    for s in block:
        out.append((s, list(sc)))
        if s.kind == "let":
            sc.append(s)
        elif s.kind == "for":
            out.extend(flatten(s.body, sc))
    return out


def stmt_text(fn, s):
    return text_of(fn.src, s.toks)


def pick(fn, spec, cands, what):
    if len(cands) != 1:
        fail("%s [%s]: %d candidates for %s `%s` (exactly one expected)%s" % (
            fn.where, ", ".join(spec["path"]), len(cands), what, spec["target"],
            "".join("\n    " + stmt_text(fn, c[0]) for c in cands)))
    return cands[0]


def find_target(fn, spec, flat):
    """-> (expr AST, stmt, scope at stmt)"""
    target = spec["target"]
    where = "%s [%s]" % (fn.where, ", ".join(spec["path"]))
    if target.startswith("assign:"):
        lhs = norm_str(target[len("assign:"):], where)
        s, sc = pick(fn, spec, [(s, sc) for s, sc in flat if s.kind == "assign" and norm(s.lhs) == lhs], "assignment")
        w = "%s: `%s`" % (where, stmt_text(fn, s))
        rhs = parse_expr(s.rhs, w)
        if s.op == "=":
            return rhs, s, sc
        if s.op in ("&=", "|=", "^=", "+=", "-=", "<<=", ">>="):
            return ("bin", s.op[:-1], parse_expr(s.lhs, w), rhs), s, sc
        fail("%s: compound assignment `%s` is outside the vocabulary" % (w, s.op))
    if target.startswith("let:"):
        name = target[len("let:"):]
        cands = [(s, sc) for s, sc in flat if s.kind == "let" and s.name == name]
        if not cands:
            # a local of an enclosing block
            outer = [s for s in spec["_scope"] if s.name == name]
            cands = [(outer[-1], spec["_scope"][:spec["_scope"].index(outer[-1])])] if outer else []
        s, sc = pick(fn, spec, cands, "local")
        if s.rhs is None:
            fail("%s: `%s` has no initializer" % (where, stmt_text(fn, s)))
        return parse_expr(s.rhs, "%s: `%s`" % (where, stmt_text(fn, s))), s, sc
    if target == "tail":
        s, sc = pick(fn, spec, [(s, sc) for s, sc in flat if s.kind == "expr" and s.tail], "tail expression")
        return parse_expr(s.expr, "%s: `%s`" % (where, stmt_text(fn, s))), s, sc
    if target.startswith("callarg:"):
        _, f, k = target.split(":")
        cands = []
        for s, sc in flat:
            if s.kind != "expr":
                continue
            e = parse_expr(s.expr, "%s: `%s`" % (where, stmt_text(fn, s)))
            calls = [x for x in subexprs(e) if x[0] == "call" and x[1] == ("path", f)]
            for c in calls:
                cands.append((s, sc, c))
        if len(cands) != 1:
            fail("%s: %d calls of `%s` (exactly one expected)" % (where, len(cands), f))
        s, sc, c = cands[0]
        if int(k) >= len(c[2]):
            fail("%s: `%s`: call of %s has no argument %s" % (where, stmt_text(fn, s), f, k))
        return c[2][int(k)], s, sc
    if target.startswith("index:"):
        v = target[len("index:"):]
        cands = []
        for s, sc in flat:
            toks = s.expr if s.kind == "expr" else (s.lhs if s.kind == "assign" else None)
            if toks is None:
                continue
            e = parse_expr(toks, "%s: `%s`" % (where, stmt_text(fn, s)))
            for x in subexprs(e):
                if x[0] == "idx" and x[1] == ("path", v):
                    cands.append((s, sc, x))
        if len(cands) != 1:
            fail("%s: %d places `%s[..]` (exactly one expected)" % (where, len(cands), v))
        s, sc, x = cands[0]
        return x[2], s, sc
    fail("internal: unknown target kind %s" % target)


def build_definition(fn, spec):
    where0 = "%s [%s]" % (fn.where, ", ".join(spec["path"]))
    block, scope = find_region(fn, spec["path"])
    spec["_scope"] = scope
    flat = flatten(block, scope)
    expr, stmt, sc = find_target(fn, spec, flat)
    where = "%s: `%s`" % (where0, stmt_text(fn, stmt))
    abstractions = [(parse_expr(tokenize(k, where), where), v) for k, v in spec["abs"].items()]
    params = list(spec["params"])
    closure_params = []
    if expr[0] == "closure":
        closure_params = list(expr[1])
        expr = expr[2]
        n = 0
        for p in closure_params:
            if p == "_":
                n += 1
                params.append(("_unused%d" % n, "N"))
            else:
                params.append((p, "N"))
    pnames = {p for p, _ in params}
    for _, v in abstractions:
        if v not in pnames:
            fail("%s: abstraction parameter %s is not a parameter of %s" % (where, v, spec["name"]))

    # the locals the expression depends on, innermost first, emitted in source order
    needed = []

    def visit(e, visible):
        for v in sorted(free_vars(e, abstractions)):
            if v in pnames or v in KNOWN_GLOBALS:
                continue
            defs = [s for s in visible if s.name == v]
            if not defs:
                fail("%s: `%s` is neither a parameter of %s, a local of the regime nor a known constant" % (
                    where, v, spec["name"]))
            d = defs[-1]
            if d in needed:
                continue
            if d.rhs is None:
                fail("%s: local `%s` has no initializer" % (where, v))
            needed.append(d)
            d.ast = parse_expr(d.rhs, "%s: `%s`" % (where0, stmt_text(fn, d)))
            visit(d.ast, visible[:visible.index(d)])
    visit(expr, sc)
    # locals overridden by a parameter count as accounted for
    for s in sc:
        if s.kind == "let" and s.name in pnames:
            s.covered = True
            ent = (fn.file, fn.name, stmt_text(fn, s))
            if ent not in OVERRIDDEN:
                OVERRIDDEN.append(ent)
    order = [s for s in sc if s in needed]
    tr = Translator(where, dict(params), abstractions)
    lets = []
    for d in order:
        text, ty = Translator.tr(tr, d.ast)
        if ty == "lit":
            ty = "N"
        lets.append((cid(d.name), text))
        tr.env[d.name] = ty
        d.covered = True
    body, ty = tr.tr(expr)
    if ty not in ("N", "nat", "bool"):
        fail("%s: result of type %s" % (where, ty))
    stmt.covered = True
    binders = " ".join("(%s : %s)" % (cid(p), COQ_TYPE[t]) for p, t in params)
    text = "Definition %s%s : %s :=\n  %s%s." % (
        spec["name"], (" " + binders) if binders else "", ty,
        "".join("let %s := %s in\n  " % (n, t) for n, t in lets), body)
    src_stmts = [stmt_text(fn, d) for d in order] + [stmt_text(fn, stmt)]
    return {"name": spec["name"], "text": text, "file": spec["file"], "fn": spec["fn"], "path": spec["path"],
            "stmt": stmt_text(fn, stmt), "lets": [stmt_text(fn, d) for d in order], "type": ty,
            "params": params, "src": src_stmts}


def trivial_expr(e):
    if e[0] in ("int", "path"):
        return True
    if e[0] == "un" and e[1] in ("*", "&"):
        return trivial_expr(e[2])
    if e[0] == "call":
        return all(trivial_expr(a) for a in e[2])
    if e[0] == "mcall":
        return trivial_expr(e[1]) and all(trivial_expr(a) for a in e[3])
    return False


def npath(path, where):
    return tuple(x if x == "else" else norm_str(x, where) for x in path)


def check_coverage(fn, regions):
    """Walks the whole body of a listed kernel.  In the function body and in every branch that is (or leads
    to) a translated regime, each let / assignment / non-trivial expression statement must be used by some
    generated definition (or be listed in SKIPPED_LETS).  Every other branch must be listed in SKIPPED or
    contain no such statement."""
    regs = {npath(r, fn.where) for r in regions}
    skipped = {npath(k[2], fn.where) for k in SKIPPED if k[0] == fn.file and k[1] == fn.name}

    def leads_to_region(p):
        return any(r[:len(p)] == p for r in regs)

    def walk(b, path, strict):
        for s in b:
            where = "%s [%s]: `%s`" % (fn.where, ", ".join(path), stmt_text(fn, s))
            if s.kind == "let":
                if strict:
                    if not s.covered and (fn.file, fn.name, s.name) not in SKIPPED_LETS:
                        fail("%s: local is not accounted for by any generated definition" % where)
                else:
                    fail("%s: statement in a regime that is neither translated nor listed in SKIPPED" % where)
            elif s.kind == "assign":
                if not strict:
                    fail("%s: statement in a regime that is neither translated nor listed in SKIPPED" % where)
                if not s.covered:
                    fail("%s: assignment is not accounted for by any generated definition" % where)
            elif s.kind == "expr":
                if not s.covered and not trivial_expr(parse_expr(s.expr, where)):
                    fail("%s: expression statement is not accounted for by any generated definition" % where)
            elif s.kind == "for":
                walk(s.body, path, strict)
            elif s.kind == "if":
                for cond, body in s.branches:
                    p2 = path + (cond_text(cond),)
                    if strict and leads_to_region(p2):
                        walk(body, p2, True)
                    elif p2 in skipped:
                        continue
                    else:
                        walk(body, p2, False)
    walk(fn.body, (), True)


def coq_comment(s):
    return s.replace("(*", "( *").replace("*)", "* )").replace('"', "'")


def generate():
    del OVERRIDDEN[:]
    sources = {}
    fn_cache = {}
    for rel in (OPS, DEC):
        src = G.cut_tests(G.strip_comments(G.read(rel)))
        sources[rel] = {name: body for _, _, name, _, body in G.fns(src)}
    defs = []
    regions = {}
    for spec in SPECS:
        key = (spec["file"], spec["fn"])
        if spec["fn"] not in sources[spec["file"]]:
            fail("%s: fn %s not found" % (spec["file"], spec["fn"]))
        if key not in fn_cache:
            fn_cache[key] = Fn(spec["file"], spec["fn"], sources[spec["file"]][spec["fn"]])
        defs.append(build_definition(fn_cache[key], spec))
        regions.setdefault(key, set()).add(spec["path"])
    for key, fn in fn_cache.items():
        check_coverage(fn, regions[key])
    # every SKIPPED regime must still exist (otherwise the list is stale)
    for (file, fname, path) in SKIPPED:
        if (file, fname) in fn_cache:
            find_region(fn_cache[(file, fname)], path)
        else:
            fail("SKIPPED names %s: %s, which is not a translated kernel" % (file, fname))

    lines = []
    lines.append("(* GENERATED by gen/gen_exprs.py from src/operations.rs and src/decomposition.rs - do not edit.")
    lines.append("   Word-level expressions of the kernels, translated from the Rust source text on every run.")
    lines.append("   Proofs/ExprsTie.v proves that each of them is the expression of the hand-written model. *)")
    lines.append("From Coq Require Import List NArith Arith Bool.")
    lines.append("From V Require Import Base.Res Gen.Tables Model.Kernels.")
    lines.append("Import ListNotations.")
    lines.append("Open Scope N_scope.")
    lines.append("")
    for d in defs:
        regime = (" [" + ", ".join("if " + p if p != "else" else p for p in d["path"]) + "]") if d["path"] else ""
        cm = "(* %s: %s%s, `%s`" % (d["file"].replace("src/", ""), d["fn"], regime, coq_comment(d["stmt"]))
        if d["lets"]:
            cm += "\n   with " + "  ".join("`%s`" % coq_comment(x) for x in d["lets"])
        cm += " *)"
        lines.append(cm)
        lines.append(d["text"])
        lines.append("")
    lines.append("(* regimes of these kernels that are deliberately not translated:")
    for (file, fname, path), why in sorted(SKIPPED.items()):
        lines.append("   %s: %s [%s]%s" % (file.replace("src/", ""), fname, ", ".join(path), (" - " + why) if why else ""))
    lines.append("   locals that are not word expressions:")
    for (file, fname, name), why in sorted(SKIPPED_LETS.items()):
        lines.append("   %s: %s `%s` - %s" % (file.replace("src/", ""), fname, name, why))
    lines.append("   locals over which a definition above is abstracted (they are parameters there):")
    for file, fname, st in OVERRIDDEN:
        lines.append("   %s: %s `%s`" % (file.replace("src/", ""), fname, coq_comment(st)))
    lines.append("*)")
    lines.append("")
    return "\n".join(lines), defs


def main(verbose=False, out_dir=None):
    """regenerates coq/Gen/Exprs.v (or <out_dir>/Exprs.v); returns True when the file content changed"""
    content, defs = generate()
    changed = G.write_if_changed(os.path.join(out_dir or os.environ.get("VERIF_EXPRS_OUT") or COQ, "Exprs.v"), content)
    if verbose:
        for d in defs:
            print("%-28s %s: %s%s  `%s`" % (d["name"], d["file"], d["fn"],
                                            (" [" + ", ".join(d["path"]) + "]") if d["path"] else "", d["stmt"]))
        print("Exprs.v %s (%d definitions)" % ("rewritten" if changed else "unchanged", len(defs)))
    return changed


if __name__ == "__main__":
    main(verbose="-q" not in sys.argv[1:])
